(** C14 — lemmas about Model/C14_Session.v (sessions on one protocol object) *)
From Coq Require Import String Permutation Sorted Lqa Setoid.
From PV Require Import Lib.Common Model.C14_Pheno Proofs.C14_Pheno Model.C14_Session.
Local Open Scope Q_scope.

(** * 1. structure of a session *)
Lemma run_length : forall ops s, length (run s ops) = length ops.
Proof. induction ops as [|o r IH]; intros s; cbn; [reflexivity|]. now rewrite IH. Qed.

Lemma run_app : forall h s r, run s (h ++ r) = run s h ++ run (exec s h) r.
Proof. induction h as [|o h IH]; intros s r; cbn; [reflexivity|]. now rewrite IH. Qed.

Lemma exec_app : forall h s r, exec s (h ++ r) = exec (exec s h) r.
Proof. induction h as [|o h IH]; intros s r; cbn; [reflexivity|]. apply IH. Qed.

(** the i-th observation is the step taken from the state reached by the first i operations *)
Lemma nth_error_run : forall ops s i o, nth_error ops i = Some o ->
  nth_error (run s ops) i = Some (snd (step (exec s (firstn i ops)) o)).
Proof.
  induction ops as [|a ops IH]; intros s [|i] o H; cbn in *; try discriminate.
  - now inversion H.
  - now apply IH.
Qed.

Lemma exec_firstn_S : forall ops s i o, nth_error ops i = Some o ->
  exec s (firstn (S i) ops) = fst (step (exec s (firstn i ops)) o).
Proof.
  induction ops as [|a ops IH]; intros s [|i] o H; try discriminate.
  - cbn in H. inversion H; subst. reflexivity.
  - cbn in H. change (firstn (S (S i)) (a :: ops)) with (a :: firstn (S i) ops).
    change (firstn (S i) (a :: ops)) with (a :: firstn i ops). cbn [exec]. now apply IH.
Qed.

(** a call returns [pheno_obs] of the state in force at that call -- whatever happened before -- and leaves the state alone *)
Lemma session_call (s0 : state) (ops : list op) (i : nat) (flat : list (list Q)) (e : estcfg) :
  nth_error ops i = Some (OPheno flat e) ->
  let st := exec s0 (firstn i ops) in
  nth_error (run s0 ops) i = Some (pheno_obs st flat e) /\ exec s0 (firstn (S i) ops) = st.
Proof.
  intros H st. split.
  - now rewrite (nth_error_run ops s0 i _ H).
  - now rewrite (exec_firstn_S ops s0 i _ H).
Qed.

(** no dependence on history: two sessions that reach the same state produce the same observations from there on *)
Lemma session_history_independent (s1 s2 : state) (h1 h2 r : list op) :
  exec s1 h1 = exec s2 h2 ->
  skipn (length h1) (run s1 (h1 ++ r)) = run (exec s1 h1) r /\
  skipn (length h1) (run s1 (h1 ++ r)) = skipn (length h2) (run s2 (h2 ++ r)).
Proof.
  intros E.
  assert (A : forall s h, skipn (length h) (run s (h ++ r)) = run (exec s h) r).
  { intros s h. rewrite run_app. replace (length h) with (length (run s h)) by apply run_length.
    rewrite skipn_app, skipn_all, Nat.sub_diag. reflexivity. }
  split; [apply A|]. rewrite !A. now rewrite E.
Qed.

(** copies and calls do not touch the state; a later assignment overwrites an earlier one *)
Lemma step_copy (s : state) : fst (step s OCopy) = s.
Proof. cbn. destruct (s_cls s); [destruct (_ =? _)%nat|]; reflexivity. Qed.
Lemma step_pheno_state (s : state) flat e : fst (step s (OPheno flat e)) = s.
Proof. reflexivity. Qed.
Lemma exec_setu_overwrites (s : state) (u u' : list (list Q)) : exec s [OSetU u; OSetU u'] = exec s [OSetU u'].
Proof. reflexivity. Qed.
Lemma exec_setbeta_overwrites (s : state) (b b' : list (list Q)) : exec s [OSetBeta b; OSetBeta b'] = exec s [OSetBeta b'].
Proof. reflexivity. Qed.
Lemma exec_newpop_overwrites (s : state) n p g x y g0 x0 y0 :
  exec s [OSetGeno g0; OSetTaxa x0; OSetGrp y0; ONewPop n p g x y] = exec s [ONewPop n p g x y].
Proof. reflexivity. Qed.
Lemma exec_inplace_is_newpop (s : state) g x y :
  exec s [OSetGeno g; OSetTaxa x; OSetGrp y] = exec s [ONewPop (s_n s) (s_p s) g x y].
Proof. reflexivity. Qed.

(** * 2. every call of a session satisfies the single-call statements for the state in force *)
Lemma session_ge_table (s0 : state) (ops : list op) (i : nat) flat e recs est nrep vars :
  nth_error ops i = Some (OPheno flat e) ->
  nth_error (run s0 ops) i = Some (OTable (Some recs) est nrep vars) ->
  let st := exec s0 (firstn i ops) in
  s_cls st = GE /\
  phenotype (s_n st) (s_t st) (s_taxa st) (s_grp st) (st_gvm st) (s_nenv st) (s_nrep st) (s_sde st) (s_sdr st) (s_sdx st) flat = Some recs /\
  est = est_of st e true (map prow_trow recs) /\ nrep = s_nrep st /\ vars = st_vars st.
Proof.
  intros H R st. destruct (session_call s0 ops i flat e H) as [R' _]. fold st in R'. rewrite R in R'.
  inversion R' as [E]. clear R'. unfold pheno_obs in E. destruct (s_cls st); [|discriminate].
  injection E as E1 E2 E3 E4. split; [reflexivity|]. split; [now symmetry|].
  split; [rewrite E2, <- E1; reflexivity|]. split; assumption.
Qed.

Lemma session_true_table (s0 : state) (ops : list op) (i : nat) flat e tab est :
  nth_error ops i = Some (OPheno flat e) ->
  nth_error (run s0 ops) i = Some (OTrue tab est) ->
  let st := exec s0 (firstn i ops) in
  s_cls st = TrueP /\ tab = true_rows (s_n st) (s_taxa st) (s_grp st) (st_gvm st).
Proof.
  intros H R st. destruct (session_call s0 ops i flat e H) as [R' _]. fold st in R'. rewrite R in R'.
  inversion R' as [E]. clear R'. unfold pheno_obs in E. destruct (s_cls st); [discriminate|].
  inversion E. split; reflexivity.
Qed.

(** one record per (env, rep, taxon) cell carrying the labels IN FORCE and the truth IN FORCE + effects *)
Lemma session_cells (s0 : state) (ops : list op) (i : nat) flat e recs est nrep vars :
  nth_error ops i = Some (OPheno flat e) ->
  nth_error (run s0 ops) i = Some (OTable (Some recs) est nrep vars) ->
  let st := exec s0 (firstn i ops) in
  labels_ok (s_n st) (s_taxa st) (s_grp st) -> length (st_gvm st) = s_n st ->
  let n := s_n st in
  let tx := labels_or_auto "Taxon"%string n (s_taxa st) in
  let tg := grp_col n (s_grp st) in
  let nreps := firstn (s_nenv st) (s_nrep st) in
  exists ds, parse_envs nreps n (s_t st) flat = Some (ds, []) /\ length ds = s_nenv st /\
    map (fun ed : envdraw => length (snd ed)) ds = nreps /\
    length recs = (n * list_sum nreps)%nat /\
    (forall ei zenv rs ri zr ze, nth_error ds ei = Some (zenv, rs) -> nth_error rs ri = Some (zr, ze) ->
       let cell := filter (cell_is (1 + Z.of_nat ei) (1 + Z.of_nat ri)) recs in
       length cell = n /\
       forall k x g v er, nth_error tx k = Some x -> nth_error tg k = Some g -> nth_error (st_gvm st) k = Some v -> nth_error ze k = Some er ->
         nth_error cell k = Some (x, g, (1 + Z.of_nat ei)%Z, (1 + Z.of_nat ri)%Z,
                                  add_effects v (scale (s_sde st) zenv) (scale (s_sdr st) zr) (scale (s_sdx st) er))) /\
    (forall en r, (en < 1 \/ en > Z.of_nat (length ds))%Z -> filter (cell_is en r) recs = []).
Proof.
  intros H R st LO Lg n tx tg nreps.
  destruct (session_ge_table s0 ops i flat e recs est nrep vars H R) as (_ & P & _). fold st in P.
  destruct (phenotype_cells _ _ _ _ _ _ _ _ _ _ _ _ P LO Lg) as (ds & Pd & Ln & LR & C & M & _).
  destruct (phenotype_envs _ _ _ _ _ _ _ _ _ _ _ _ P) as (ds' & Pd' & L' & _).
  rewrite Pd in Pd'. inversion Pd'; subst ds'.
  exists ds. split; [exact Pd|]. split; [exact L'|]. split; [exact Ln|]. split; [exact LR|]. split; [exact C | exact M].
Qed.

(** with all noise variances zero every record of the call equals the true genotypic value IN FORCE of the taxon whose label IN FORCE it carries *)
Lemma session_zero_noise (s0 : state) (ops : list op) (i : nat) flat e recs est nrep vars :
  nth_error ops i = Some (OPheno flat e) ->
  nth_error (run s0 ops) i = Some (OTable (Some recs) est nrep vars) ->
  let st := exec s0 (firstn i ops) in
  labels_ok (s_n st) (s_taxa st) (s_grp st) -> length (st_gvm st) = s_n st -> Forall (fun v => length v = s_t st) (st_gvm st) ->
  zero_vec (s_sde st) -> zero_vec (s_sdr st) -> zero_vec (s_sdx st) ->
  length (s_sde st) = s_t st -> length (s_sdr st) = s_t st -> length (s_sdx st) = s_t st ->
  forall rec, In rec recs ->
    exists k v, nth_error (labels_or_auto "Taxon"%string (s_n st) (s_taxa st)) k = Some (p_taxa rec) /\
                nth_error (grp_col (s_n st) (s_grp st)) k = Some (p_grp rec) /\
                nth_error (st_gvm st) k = Some v /\ qlist_eq (p_val rec) v.
Proof.
  intros H R st LO Lg Fg Z1 Z2 Z3 L1 L2 L3.
  destruct (session_ge_table s0 ops i flat e recs est nrep vars H R) as (_ & P & _). fold st in P.
  exact (phenotype_zero_noise _ _ _ _ _ _ _ _ _ _ _ _ P LO Lg Fg Z1 Z2 Z3 L1 L2 L3).
Qed.

(** TruePhenotyping in a session: one record per taxon IN FORCE with its labels and exactly its true genotypic value IN FORCE *)
Lemma session_true_rows (s0 : state) (ops : list op) (i : nat) flat e tab est :
  nth_error ops i = Some (OPheno flat e) ->
  nth_error (run s0 ops) i = Some (OTrue tab est) ->
  let st := exec s0 (firstn i ops) in
  labels_ok (s_n st) (s_taxa st) (s_grp st) -> length (st_gvm st) = s_n st ->
  length tab = s_n st /\
  forall k x g v, nth_error (labels_or_auto "Taxon"%string (s_n st) (s_taxa st)) k = Some x -> nth_error (grp_col (s_n st) (s_grp st)) k = Some g ->
                  nth_error (st_gvm st) k = Some v -> nth_error tab k = Some (x, g, v).
Proof.
  intros H R st LO Lg. destruct (session_true_table s0 ops i flat e tab est H R) as (_ & ->). fold st.
  now apply true_rows_spec.
Qed.

(** the estimation step after a call is aligned to the labels in force: corollary of [estimate_aligned_full] *)
Lemma session_est_aligned (s0 : state) (ops : list op) (i : nat) flat ug tcols recs tx tg tr m nrep vars :
  nth_error ops i = Some (OPheno flat (ug, tcols, true)) ->
  nth_error (run s0 ops) i = Some (OTable (Some recs) (Some (tx, tg, tr, m)) nrep vars) ->
  let st := exec s0 (firstn i ops) in
  forall gtx, s_taxa st = Some gtx ->
  tx = gtx /\ tg = s_grp st /\ tr = tcols /\ length m = length gtx /\
  exists sel, resolve tcols (st_tnames st) = Some sel /\
   forall k x, nth_error gtx k = Some x -> (exists r, In r recs /\ p_taxa r = x) ->
     let rs := filter (of_taxon x) (map prow_trow recs) in
     rs <> [] /\
     nth_error m k = Some (Some (map (fun j => sumQ (map (fun r => nth j (t_val r) 0) rs) / inject_Z (Z.of_nat (length rs))) sel)).
Proof.
  intros H R st gtx Hg.
  destruct (session_ge_table s0 ops i flat _ recs _ nrep vars H R) as (_ & _ & E & _). fold st in E.
  unfold est_of in E. rewrite Hg in E. symmetry in E.
  destruct (estimate_aligned_full _ _ _ _ _ _ _ _ _ _ _ E) as (E1 & E2 & E3 & L & sel & Rs & A).
  repeat split; try assumption. exists sel. split; [exact Rs|]. intros k x Hk (r & Hr & Hx).
  apply (A k x Hk). exists (prow_trow r). split; [now apply in_map | exact Hx].
Qed.

(** * 3. a machine that keeps the values of an earlier population / model (the seeded stale-cache regression) is NOT
    history independent: after an in-place update the call differs from [pheno_obs] of the state in force *)
Definition demo_state : state :=
  mkState GE 1 [1%nat] [0] [0] [0] 1 [[1]] [[1 # 2]] (Some ["y"%string]) 1 1 [[[1%Z]]; [[0%Z]]] (Some ["a"%string]) None.

Lemma cached_values_refuted :
  let s1 := exec demo_state [OSetGeno [[[1%Z]]; [[1%Z]]]; OSetTaxa (Some ["b"%string])] in
  pheno_obs_cached demo_state s1 [[0]; [0]; [0]] (false, ["y"%string], false) <> pheno_obs s1 [[0]; [0]; [0]] (false, ["y"%string], false).
Proof. cbv zeta. vm_compute. discriminate. Qed.

Lemma demo_session :
  run demo_state [OPheno [[0]; [0]; [0]] (false, ["y"%string], true); OSetGeno [[[1%Z]]; [[1%Z]]]; OSetTaxa (Some ["b"%string]);
                  OSetU [[2]]; OCopy; OSetNenv 2; OPheno [[0]; [0]; [0]; [0]; [0]; [0]] (false, ["y"%string], true)]
  = [OTable (Some [("a"%string, None, 1%Z, 1%Z, [3 # 2])]) (Some (["a"%string], None, ["y"%string], [Some [3 # 2]])) [1%nat] [[0]; [0]; [0]];
     ODone; ODone; ODone; ODone; ODone;
     OTable (Some [("b"%string, None, 1%Z, 1%Z, [5]); ("b"%string, None, 2%Z, 1%Z, [5])])
            (Some (["b"%string], None, ["y"%string], [Some [10 # 2]])) [1%nat; 1%nat] [[0]; [0]; [0]]].
Proof. vm_compute. reflexivity. Qed.
