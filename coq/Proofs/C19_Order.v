(** C19 — order-free characterisation of the efficient set, permutation and positive-rescale invariance,
    and the feasibility-first dominance predicate. *)
From Coq Require Import Lqa Permutation.
From PV Require Import Lib.Common Model.C19_Pareto Proofs.C19_Pareto.
Local Open Scope Q_scope.

(** * vectors up to coordinatewise Qeq *)
Lemma veq_refl (p : list Q) : Forall2 Qeq p p.
Proof. induction p; constructor; [reflexivity | assumption]. Qed.
Lemma veq_sym (p q : list Q) : Forall2 Qeq p q -> Forall2 Qeq q p.
Proof. induction 1; constructor; [now symmetry | assumption]. Qed.
Lemma veq_trans (p q r : list Q) : Forall2 Qeq p q -> Forall2 Qeq q r -> Forall2 Qeq p r.
Proof.
  intros H. revert r. induction H as [|x y p q Hx Hp IH]; intros r Hr; inversion Hr; subst; constructor; [now rewrite Hx | now apply IH].
Qed.
Lemma veq_length (p q : list Q) : Forall2 Qeq p q -> length p = length q.
Proof. induction 1; cbn; congruence. Qed.

Lemma domB_compat q q' p p' : Forall2 Qeq q q' -> Forall2 Qeq p p' -> domB q p = domB q' p'.
Proof. intros Hq Hp. unfold domB. now rewrite (gt_any_compat p p' q q' Hp Hq), (gt_any_compat q q' p p' Hq Hp). Qed.

(** * the set of efficient (weighted) objective vectors *)
Definition eff_vec (wt : list Q) (fmat : list (list Q)) (v : list Q) : Prop :=
  exists idx i, pareto_idx wt fmat = Some idx /\ In i idx /\ Forall2 Qeq (nth i (weighted wt fmat) []) v.

(** v occurs in the weighted point set and no point of the set dominates it *)
Definition nondominated_in (W : list (list Q)) (v : list Q) : Prop :=
  (exists r, In r W /\ Forall2 Qeq r v) /\ forall q, In q W -> domB q v = false.

Lemma eff_char m wt fmat : rectm m fmat -> length wt = m ->
  forall v, eff_vec wt fmat v <-> nondominated_in (weighted wt fmat) v.
Proof.
  intros HR HW v. set (W := weighted wt fmat). assert (LW : length W = length fmat) by apply weighted_length. split.
  - intros (idx & i & E & Hi & Hv). rewrite pareto_idx_eq in E. injection E as <-.
    assert (Hi' : (i < length fmat)%nat) by (apply survivors_idx in Hi; now apply survivors_In in Hi).
    split.
    + exists (nth i W []). split; [apply nth_In; lia | exact Hv].
    + intros q Hq. destruct (In_nth _ _ [] Hq) as (j & Hj & <-).
      rewrite <- (domB_compat _ _ _ _ (veq_refl (nth j W [])) Hv).
      apply (filter_sound_idx m wt fmat HR HW); [exact Hi | lia].
  - intros ((r & Hr & Hv) & ND). destruct (In_nth _ _ [] Hr) as (k & Hk & <-).
    destruct (nondominated_survives m wt fmat HR HW k) as (i & Hi & A & B); [lia| |].
    + intros j Hj. fold W. rewrite (domB_compat _ _ _ _ (veq_refl (nth j W [])) Hv). apply ND, nth_In. lia.
    + fold W in A, B.
      assert (Hi' : (i < length fmat)%nat) by (apply survivors_idx in Hi; now apply survivors_In in Hi).
      exists (map fst (survivors wt fmat)), i. split; [apply pareto_idx_eq|]. split; [exact Hi|].
      apply veq_trans with (nth k W []); [|exact Hv].
      apply mutual_wd_eq; [|exact A|exact B].
      unfold W. rewrite !(W_len m wt fmat HR HW) by lia. reflexivity.
Qed.

Lemma nondominated_in_perm W W' v : Permutation W W' -> nondominated_in W v -> nondominated_in W' v.
Proof.
  intros P ((r & Hr & Hv) & ND). split.
  - exists r. split; [eapply Permutation_in; eauto | exact Hv].
  - intros q Hq. apply ND. eapply Permutation_in; [apply Permutation_sym; exact P | exact Hq].
Qed.

Lemma order_invariant m wt fmat fmat' : rectm m fmat -> length wt = m -> Permutation fmat fmat' ->
  forall v, eff_vec wt fmat v <-> eff_vec wt fmat' v.
Proof.
  intros HR HW P v.
  assert (HR' : rectm m fmat') by (unfold rectm in *; eapply Permutation_Forall; eauto).
  rewrite (eff_char m wt fmat HR HW), (eff_char m wt fmat' HR' HW).
  assert (PW : Permutation (weighted wt fmat) (weighted wt fmat')) by (apply Permutation_map; exact P).
  split; apply nondominated_in_perm; [exact PW | apply Permutation_sym; exact PW].
Qed.

(** * positive rescaling of the objectives (equivalently: of the weights) *)
Lemma Qmult_assoc_leibniz (x y z : Q) : x * (y * z) = (x * y) * z.
Proof. unfold Qmult. cbn. f_equal; [apply Z.mul_assoc | apply Pos.mul_assoc]. Qed.

Lemma wrow_scale : forall r wt c, wrow (map2 Qmult wt c) r = map2 Qmult (wrow wt r) c.
Proof.
  unfold wrow. induction r as [|x r IH]; intros [|w wt] [|a c]; cbn; try reflexivity.
  now rewrite IH, Qmult_assoc_leibniz.
Qed.

Lemma gt_any_scale : forall q p c, length q = length c -> length p = length c -> Forall (fun a => 0 < a) c ->
  gt_any (map2 Qmult q c) (map2 Qmult p c) = gt_any q p.
Proof.
  induction q as [|x q IH]; intros [|y p] [|a c] L1 L2 H; cbn in L1, L2; try discriminate; [reflexivity|].
  cbn [map2]. rewrite !gt_any_cons. inversion H as [|? ? Ha Hc]; subst. f_equal.
  - destruct (Qlt_bool (y * a) (x * a)) eqn:A, (Qlt_bool y x) eqn:B; try reflexivity.
    + apply Qlt_bool_iff in A. apply Qlt_bool_false in B. apply Qmult_lt_r in A; [lra | exact Ha].
    + apply Qlt_bool_iff in B. apply Qlt_bool_false in A. apply (Qmult_lt_r _ _ a Ha) in B. lra.
  - apply IH; [lia | lia | exact Hc].
Qed.

Definition Fmap (f : list Q -> list Q) (e : entry) : entry := (fst e, f (snd e)).

Lemma filter_map_comm {A B} (g : B -> bool) (F : A -> B) l : filter g (map F l) = map F (filter (fun x => g (F x)) l).
Proof. induction l as [|x l IH]; cbn; [reflexivity|]. destruct (g (F x)); cbn; now rewrite IH. Qed.

Lemma pf_map (m : nat) (f : list Q -> list Q) :
  (forall q p, length q = m -> length p = m -> gt_any (f q) (f p) = gt_any q p) ->
  forall fuel done todo, rect m (done ++ todo) ->
  pf fuel (map (Fmap f) done) (map (Fmap f) todo) = map (Fmap f) (pf fuel done todo).
Proof.
  intros Hf. induction fuel as [|k IH]; intros done [|p rest] R; cbn [pf map]; try reflexivity.
  - now rewrite map_app.
  - assert (Rl : forall e, In e (done ++ p :: rest) -> length (snd e) = m) by (unfold rect in R; now rewrite Forall_forall in R).
    assert (Hp : length (snd p) = m) by (apply Rl, in_or_app; right; now left).
    assert (K : forall l, (forall e, In e l -> In e (done ++ p :: rest)) ->
                filter (kp (Fmap f p)) (map (Fmap f) l) = map (Fmap f) (filter (kp p) l)).
    { intros l Hl. rewrite filter_map_comm. f_equal. apply filter_ext_in. intros e He. unfold kp, Fmap. cbn [snd].
      apply Hf; [apply Rl, Hl, He | exact Hp]. }
    rewrite (K done) by (intros e He; apply in_or_app; now left).
    rewrite (K rest) by (intros e He; apply in_or_app; right; now right).
    change [Fmap f p] with (map (Fmap f) [p]). rewrite <- map_app.
    apply IH. eapply subl_Forall; [apply step_subl | exact R].
Qed.

Lemma init_state_map f pts : init_state (map f pts) = map (Fmap f) (init_state pts).
Proof.
  unfold init_state. rewrite map_length. generalize 0%nat. induction pts as [|x l IH]; intro s; cbn; [reflexivity|].
  now rewrite IH.
Qed.

Lemma positive_rescale_invariant m wt c fmat : rectm m fmat -> length wt = m -> length c = m -> Forall (fun a => 0 < a) c ->
  pareto_idx (map2 Qmult wt c) fmat = pareto_idx wt fmat /\ pareto_mask (map2 Qmult wt c) fmat = pareto_mask wt fmat.
Proof.
  intros HR HW HC Hpos.
  assert (E : pareto_idx (map2 Qmult wt c) fmat = pareto_idx wt fmat).
  { rewrite !pareto_idx_eq. f_equal. unfold survivors.
    assert (EW : weighted (map2 Qmult wt c) fmat = map (fun r => map2 Qmult r c) (weighted wt fmat)).
    { unfold weighted. rewrite map_map. apply map_ext. intro r. apply wrow_scale. }
    rewrite EW, init_state_map.
    change (map (Fmap (fun r => map2 Qmult r c)) (init_state (weighted wt fmat)))
      with ([] ++ map (Fmap (fun r => map2 Qmult r c)) (init_state (weighted wt fmat))).
    change (@nil entry) with (map (Fmap (fun r : list Q => map2 Qmult r c)) []) at 1.
    cbn [app]. rewrite (pf_map m).
    - rewrite map_map. cbn [Fmap fst]. reflexivity.
    - intros q p Lq Lp. apply gt_any_scale; [congruence | congruence | exact Hpos].
    - cbn [app]. apply init_state_rect, weighted_rect; assumption. }
  split; [exact E|]. unfold pareto_mask. now rewrite E.
Qed.

(** * dominates *)
Lemma any_lt_gt_any : forall a b, any_lt a b = gt_any b a.
Proof. unfold any_lt, gt_any. induction a as [|x a IH]; intros [|y b]; cbn; try reflexivity. now rewrite IH. Qed.
Lemma all_le_gt_any : forall a b, all_le a b = negb (gt_any a b).
Proof.
  unfold all_le, gt_any. induction a as [|x a IH]; intros [|y b]; cbn; try reflexivity.
  rewrite IH. unfold Qlt_bool. rewrite negb_orb, negb_involutive. reflexivity.
Qed.

(** on two feasible solutions [dominates] is Pareto dominance (minimisation) *)
Lemma dominates_feasible o1 c1 o2 c2 : c1 <= 0 -> c2 <= 0 -> dominates_m o1 c1 o2 c2 = domB o2 o1.
Proof.
  intros H1 H2. unfold dominates_m. apply Qle_bool_iff in H1, H2. rewrite H1, H2. cbn [andb].
  rewrite any_lt_gt_any, all_le_gt_any. reflexivity.
Qed.
Lemma dominates_infeasible o1 c1 o2 c2 : ~ (c1 <= 0 /\ c2 <= 0) -> dominates_m o1 c1 o2 c2 = Qlt_bool c1 c2.
Proof.
  intros H. unfold dominates_m. destruct (Qle_bool c1 0) eqn:A, (Qle_bool c2 0) eqn:B; cbn [andb]; try reflexivity.
  exfalso. apply H. split; now apply Qle_bool_iff.
Qed.

(** relational reading of Pareto dominance for minimisation *)
Definition paretoP (o1 o2 : list Q) : Prop :=
  Forall2 Qle o1 o2 /\ exists k, (k < length o1)%nat /\ nth k o1 0 < nth k o2 0.

Lemma domB_paretoP o1 o2 : length o1 = length o2 -> (domB o2 o1 = true <-> paretoP o1 o2).
Proof.
  intros L. unfold domB, paretoP. rewrite andb_true_iff, negb_true_iff, (gt_any_false_iff o1 o2 L), (gt_any_true_iff o2 o1) by congruence.
  reflexivity.
Qed.

Lemma dominates_spec_lemma o1 c1 o2 c2 : length o1 = length o2 ->
  (c1 <= 0 -> c2 <= 0 -> (dominates_m o1 c1 o2 c2 = true <-> paretoP o1 o2)) /\
  (~ (c1 <= 0 /\ c2 <= 0) -> (dominates_m o1 c1 o2 c2 = true <-> c1 < c2)) /\
  (c1 <= 0 -> ~ c2 <= 0 -> dominates_m o1 c1 o2 c2 = true) /\
  (~ c1 <= 0 -> c2 <= 0 -> dominates_m o1 c1 o2 c2 = false).
Proof.
  intros L. split; [|split; [|split]].
  - intros H1 H2. rewrite (dominates_feasible o1 c1 o2 c2) by assumption. now apply domB_paretoP.
  - intros H. rewrite dominates_infeasible by assumption. apply Qlt_bool_iff.
  - intros H1 H2. rewrite dominates_infeasible by tauto. apply Qlt_bool_iff. lra.
  - intros H1 H2. rewrite dominates_infeasible by tauto. apply Qlt_bool_false. lra.
Qed.

Lemma domB_irrefl p : domB p p = false.
Proof. unfold domB. now rewrite gt_any_refl. Qed.
Lemma domB_trans p q r : length p = length q -> length q = length r -> domB p q = true -> domB q r = true -> domB p r = true.
Proof.
  unfold domB. intros L1 L2 H1 H2. apply andb_true_iff in H1 as [A1 B1]. apply andb_true_iff in H2 as [A2 B2].
  apply negb_true_iff in A1, A2. apply andb_true_iff. split.
  - apply negb_true_iff. apply (wd_trans r q p); congruence.
  - apply (gt_le_gt p q r); congruence.
Qed.

Lemma dominates_strict_order_lemma :
  (forall o c, dominates_m o c o c = false) /\
  (forall o1 c1 o2 c2, dominates_m o1 c1 o2 c2 = true -> dominates_m o2 c2 o1 c1 = false) /\
  (forall o1 c1 o2 c2 o3 c3, length o1 = length o2 -> length o2 = length o3 ->
     dominates_m o1 c1 o2 c2 = true -> dominates_m o2 c2 o3 c3 = true -> dominates_m o1 c1 o3 c3 = true).
Proof.
  split; [|split].
  - intros o c. destruct (Qle_bool c 0) eqn:F.
    + apply Qle_bool_iff in F. rewrite dominates_feasible by assumption. now rewrite domB_irrefl.
    + apply Qle_bool_false in F. rewrite dominates_infeasible by lra. apply Qlt_bool_false. lra.
  - intros o1 c1 o2 c2 H.
    destruct (Qle_bool c1 0) eqn:F1, (Qle_bool c2 0) eqn:F2;
      try apply Qle_bool_iff in F1; try apply Qle_bool_iff in F2; try apply Qle_bool_false in F1; try apply Qle_bool_false in F2.
    + rewrite dominates_feasible in * by assumption. unfold domB in *.
      apply andb_true_iff in H as [A B]. rewrite B. reflexivity.
    + rewrite dominates_infeasible by lra. apply Qlt_bool_false. lra.
    + rewrite dominates_infeasible in H by lra. apply Qlt_bool_iff in H. lra.
    + rewrite dominates_infeasible in * by lra. apply Qlt_bool_iff in H. apply Qlt_bool_false. lra.
  - intros o1 c1 o2 c2 o3 c3 L1 L2 H1 H2.
    destruct (Qle_bool c1 0) eqn:F1, (Qle_bool c2 0) eqn:F2, (Qle_bool c3 0) eqn:F3;
      try apply Qle_bool_iff in F1; try apply Qle_bool_iff in F2; try apply Qle_bool_iff in F3;
      try apply Qle_bool_false in F1; try apply Qle_bool_false in F2; try apply Qle_bool_false in F3.
    + rewrite dominates_feasible in * by assumption. apply (domB_trans o3 o2 o1); congruence.
    + rewrite dominates_infeasible by lra. apply Qlt_bool_iff. lra.
    + rewrite dominates_infeasible in H2 by lra. apply Qlt_bool_iff in H2. lra.
    + rewrite dominates_infeasible by lra. apply Qlt_bool_iff. lra.
    + rewrite dominates_infeasible in H1 by lra. apply Qlt_bool_iff in H1. lra.
    + rewrite dominates_infeasible in H1 by lra. apply Qlt_bool_iff in H1. lra.
    + rewrite dominates_infeasible in H2 by lra. apply Qlt_bool_iff in H2. lra.
    + rewrite dominates_infeasible in * by lra. apply Qlt_bool_iff in H1, H2. apply Qlt_bool_iff. lra.
Qed.

(** * relational statements of soundness and completeness *)
(** p dominates q when larger is better: p at least as good everywhere, strictly better somewhere *)
Definition dominatesP (p q : list Q) : Prop := paretoP q p.

Lemma domB_dominatesP p q : length p = length q -> (domB p q = true <-> dominatesP p q).
Proof. intros L. unfold dominatesP. apply domB_paretoP. congruence. Qed.

Lemma filter_sound_rel m wt fmat idx i j : rectm m fmat -> length wt = m -> pareto_idx wt fmat = Some idx ->
  In i idx -> (j < length fmat)%nat -> ~ dominatesP (nth j (weighted wt fmat) []) (nth i (weighted wt fmat) []).
Proof.
  intros HR HW E Hi Hj D. rewrite pareto_idx_eq in E. injection E as <-.
  assert (Hi' : (i < length fmat)%nat) by (apply survivors_idx in Hi; now apply survivors_In in Hi).
  apply domB_dominatesP in D; [|rewrite !(W_len m wt fmat HR HW); auto].
  rewrite (filter_sound_idx m wt fmat HR HW i j Hi Hj) in D. discriminate.
Qed.

Lemma filter_complete_rel m wt fmat idx i : rectm m fmat -> length wt = m -> pareto_idx wt fmat = Some idx ->
  (i < length fmat)%nat -> ~ In i idx ->
  exists j, In j idx /\ j <> i /\ (Forall2 Qeq (nth i (weighted wt fmat) []) (nth j (weighted wt fmat) []) \/
                                 dominatesP (nth j (weighted wt fmat) []) (nth i (weighted wt fmat) [])).
Proof.
  intros HR HW E Hi Hn. rewrite pareto_idx_eq in E. injection E as <-.
  destruct (filter_complete_idx m wt fmat HR HW i Hi) as (j & Hj & Wj).
  assert (Hj' : (j < length fmat)%nat) by (apply survivors_idx in Hj; now apply survivors_In in Hj).
  assert (LL : length (nth j (weighted wt fmat) []) = length (nth i (weighted wt fmat) [])) by (rewrite !(W_len m wt fmat HR HW); auto).
  exists j. split; [exact Hj|]. split; [intros ->; contradiction|].
  destruct (gt_any (nth j (weighted wt fmat) []) (nth i (weighted wt fmat) [])) eqn:G.
  - right. apply domB_dominatesP; [exact LL|]. unfold domB. now rewrite Wj, G.
  - left. apply mutual_wd_eq; [congruence | exact Wj | exact G].
Qed.

(** the same statement with the columns of the point matrix rescaled *)
Lemma Qmult_perm_leibniz (r c w : Q) : (r * c) * w = r * (w * c).
Proof. unfold Qmult. cbn. f_equal; [ring | rewrite <- Pos.mul_assoc; f_equal; apply Pos.mul_comm]. Qed.

Lemma wrow_scaled_row : forall r wt c, wrow wt (map2 Qmult r c) = wrow (map2 Qmult wt c) r.
Proof.
  unfold wrow. induction r as [|x r IH]; intros [|w wt] [|a c]; cbn; try reflexivity.
  now rewrite IH, Qmult_perm_leibniz.
Qed.

Lemma positive_rescale_columns m wt c fmat : rectm m fmat -> length wt = m -> length c = m -> Forall (fun a => 0 < a) c ->
  pareto_idx wt (map (fun r => map2 Qmult r c) fmat) = pareto_idx wt fmat /\
  pareto_mask wt (map (fun r => map2 Qmult r c) fmat) = pareto_mask wt fmat.
Proof.
  intros HR HW HC Hpos. destruct (positive_rescale_invariant m wt c fmat HR HW HC Hpos) as [E1 E2].
  assert (EW : weighted wt (map (fun r => map2 Qmult r c) fmat) = weighted (map2 Qmult wt c) fmat).
  { unfold weighted. rewrite map_map. apply map_ext. intro r. apply wrow_scaled_row. }
  assert (E : pareto_idx wt (map (fun r => map2 Qmult r c) fmat) = pareto_idx (map2 Qmult wt c) fmat).
  { unfold pareto_idx. rewrite EW, map_length. reflexivity. }
  split; [now rewrite E|]. unfold pareto_mask. rewrite E, map_length. fold (pareto_mask (map2 Qmult wt c) fmat). exact E2.
Qed.
