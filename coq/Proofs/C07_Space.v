(** C07 — the decision space of the protocols whose decision variables index a cross map (OptimalHaploidValue* and
    UsefulnessCriterion* Selection, subset / integer / binary / real encodings) is the WHOLE map: the programs assembled from
    the regenerated kernel expressions (Model/C07_KernelProg.v, section 8) equal the hand model (Model/C07_Config.v, 11b), and
    the hand model's space has one admissible member / one bounded variable per row of the xmapix enumeration, for unique and
    for repeatable parents. *)
From Coq Require Import Lia Sorting.Sorted.
From PV Require Import Lib.Common Model.C17_Sampling Model.C07_Config Gen.C07_Kernel Model.C07_KernelProg Proofs.C07_Xmap Proofs.C07_Kernel.

(** * 1. assembled programs = hand model *)
Lemma kxmap_of_ohv n k u : (0 < k)%nat -> kxmap_of (@k_ohv_calc_xmap _) (zn n) (zn k) u = xmapix n k u.
Proof. intros Hk. unfold kxmap_of, k_ohv_calc_xmap, zn. rewrite !Nat2Z.id. exact (kxmapix_model n k u Hk). Qed.
Lemma kxmap_of_uc n k u : (0 < k)%nat -> kxmap_of (@k_uc_calc_xmap _) (zn n) (zn k) u = xmapix n k u.
Proof. intros Hk. unfold kxmap_of, k_uc_calc_xmap, zn. rewrite !Nat2Z.id. exact (kxmapix_model n k u Hk). Qed.

Ltac space_model lem :=
  intros; unfold kspace_subset, kspace_vector;
  cbv beta delta [k_ohv_mate_xmap k_ohv_imate_xmap k_ohv_bmate_xmap k_ohv_rmate_xmap k_uc_mate_xmap k_uc_imate_xmap k_uc_bmate_xmap k_uc_rmate_xmap];
  rewrite lem by assumption; unfold xmap_subset_space, xmap_vector_space;
  match goal with |- context [xmapix ?n ?k ?u] => destruct (xmapix n k u) as [L|]; [|reflexivity] end;
  cbv beta zeta delta [konst
    k_ohv_mate_space_n k_ohv_mate_lower_v k_ohv_mate_lower_n k_ohv_mate_upper_v k_ohv_mate_upper_n k_ohv_mate_ndecn
    k_uc_mate_space_n k_uc_mate_lower_v k_uc_mate_lower_n k_uc_mate_upper_v k_uc_mate_upper_n k_uc_mate_ndecn
    k_ohv_imate_lower_v k_ohv_imate_lower_n k_ohv_imate_upper_v k_ohv_imate_upper_n k_ohv_imate_ndecn
    k_uc_imate_lower_v k_uc_imate_lower_n k_uc_imate_upper_v k_uc_imate_upper_n k_uc_imate_ndecn
    k_ohv_bmate_lower_v k_ohv_bmate_lower_n k_ohv_bmate_upper_v k_ohv_bmate_upper_n k_ohv_bmate_ndecn
    k_uc_bmate_lower_v k_uc_bmate_lower_n k_uc_bmate_upper_v k_uc_bmate_upper_n k_uc_bmate_ndecn
    k_ohv_rmate_lower_v k_ohv_rmate_lower_n k_ohv_rmate_upper_v k_ohv_rmate_upper_n k_ohv_rmate_ndecn
    k_uc_rmate_lower_v k_uc_rmate_lower_n k_uc_rmate_upper_v k_uc_rmate_upper_n k_uc_rmate_ndecn];
  unfold zn; rewrite ?Nat2Z.id, ?repeat_length, ?Nat.eqb_refl; reflexivity.

Lemma kspace_ohv_mate_model n k nc nm npg u : (0 < k)%nat -> kspace_ohv_mate n k nc nm npg u = xmap_subset_space n k nc u.
Proof. unfold kspace_ohv_mate. space_model kxmap_of_ohv. Qed.
Lemma kspace_uc_mate_model n k nc nm npg u : (0 < k)%nat -> kspace_uc_mate n k nc nm npg u = xmap_subset_space n k nc u.
Proof. unfold kspace_uc_mate. space_model kxmap_of_uc. Qed.
Lemma kspace_ohv_imate_model n k nc nm npg u : (0 < k)%nat -> kspace_ohv_imate n k nc nm npg u = xmap_vector_space 0%Z (ohv_int_upper nm npg) n k u.
Proof. unfold kspace_ohv_imate, ohv_int_upper. space_model kxmap_of_ohv. Qed.
Lemma kspace_uc_imate_model n k nc nm npg u : (0 < k)%nat -> kspace_uc_imate n k nc nm npg u = xmap_vector_space 0%Z (uc_int_upper k nm) n k u.
Proof. unfold kspace_uc_imate, uc_int_upper. space_model kxmap_of_uc. Qed.
Lemma kspace_ohv_bmate_model n k nc nm npg u : (0 < k)%nat -> kspace_ohv_bmate n k nc nm npg u = xmap_vector_space 0%Z 1%Z n k u.
Proof. unfold kspace_ohv_bmate. space_model kxmap_of_ohv. Qed.
Lemma kspace_uc_bmate_model n k nc nm npg u : (0 < k)%nat -> kspace_uc_bmate n k nc nm npg u = xmap_vector_space 0%Z 1%Z n k u.
Proof. unfold kspace_uc_bmate. space_model kxmap_of_uc. Qed.
Lemma kspace_ohv_rmate_model n k nc nm npg u : (0 < k)%nat -> kspace_ohv_rmate n k nc nm npg u = xmap_vector_space (0 # 1)%Q (1 # 1)%Q n k u.
Proof. unfold kspace_ohv_rmate. space_model kxmap_of_ohv. Qed.
Lemma kspace_uc_rmate_model n k nc nm npg u : (0 < k)%nat -> kspace_uc_rmate n k nc nm npg u = xmap_vector_space (0 # 1)%Q (1 # 1)%Q n k u.
Proof. unfold kspace_uc_rmate. space_model kxmap_of_uc. Qed.

(** the UC integer space of this section is the bounds pair of section 7 (Model 11) over the rows of the map *)
Lemma xmap_vector_space_uc_int n k nc nm u L : xmapix n k u = Some L ->
  option_map fst (xmap_vector_space 0%Z (uc_int_upper k nm) n k u) = uc_int_bounds nc k nm (length L).
Proof. intros H. unfold xmap_vector_space, uc_int_bounds, np_stack2. rewrite H. cbn [option_map fst]. rewrite !repeat_length, Nat.eqb_refl. reflexivity. Qed.

(** * 2. the space is the whole map *)
Lemma in_arange d m : In d (map Z.of_nat (seq 0 m)) <-> (0 <= d < Z.of_nat m)%Z.
Proof.
  rewrite in_map_iff. split.
  - intros (i & <- & Hi). apply in_seq in Hi. lia.
  - intros H. exists (Z.to_nat d). split; [lia|]. apply in_seq. lia.
Qed.

Theorem xmap_subset_space_whole_map : forall n k nc u, (0 < k)%nat ->
  exists L, xmapix n k u = Some L /\
    xmap_subset_space n k nc u = Some (map Z.of_nat (seq 0 (length L)), repeat 0%Z nc, repeat (Z.of_nat (length L) - 1)%Z nc, Z.of_nat nc) /\
    (forall d, In d (map Z.of_nat (seq 0 (length L))) <-> (0 <= d < Z.of_nat (length L))%Z) /\
    (forall t, In t L -> exists i, (i < length L)%nat /\ nth i L [] = t /\ In (Z.of_nat i) (map Z.of_nat (seq 0 (length L))) /\
                                   (0 <= Z.of_nat i <= Z.of_nat (length L) - 1)%Z).
Proof.
  intros n k nc u Hk. destruct (xmapix_total n k u Hk) as (L & HL). exists L. split; [exact HL|].
  split; [unfold xmap_subset_space; rewrite HL; reflexivity|]. split; [intro d; apply in_arange|].
  intros t Ht. destruct (In_nth L t [] Ht) as (i & Hi & Hn). exists i. repeat split; try assumption; try lia. apply in_arange. lia.
Qed.

Lemma nth_repeat_below {A} (a d : A) : forall m i, (i < m)%nat -> nth i (repeat a m) d = a.
Proof. induction m as [|m IH]; intros i Hi; [lia|]. destruct i; cbn [repeat nth]; [reflexivity|]. apply IH. lia. Qed.

Theorem xmap_vector_space_whole_map : forall (V : Type) (lo up : V) n k u, (0 < k)%nat ->
  exists L, xmapix n k u = Some L /\
    xmap_vector_space lo up n k u = Some (repeat lo (length L), repeat up (length L), Z.of_nat (length L)) /\
    length (repeat lo (length L)) = length L /\ length (repeat up (length L)) = length L /\
    (forall t, In t L -> exists i, (i < length L)%nat /\ nth i L [] = t /\ nth i (repeat lo (length L)) up = lo /\ nth i (repeat up (length L)) lo = up).
Proof.
  intros V lo up n k u Hk. destruct (xmapix_total n k u Hk) as (L & HL). exists L. split; [exact HL|].
  split; [unfold xmap_vector_space; rewrite HL; reflexivity|]. rewrite !repeat_length. repeat split.
  intros t Ht. destruct (In_nth L t [] Ht) as (i & Hi & Hn). exists i. repeat split; try assumption.
  - apply nth_repeat_below. exact Hi.
  - apply nth_repeat_below. exact Hi.
Qed.

(** the rows: strictly increasing / non-decreasing k-tuples; their number is comb(n, k) ONLY for unique parents *)
Theorem xmap_space_rows : forall n k u L, (0 < k)%nat -> xmapix n k u = Some L ->
  (forall t, In t L <-> (length t = k /\ StronglySorted (if u then lt else le) t /\ Forall (fun i => (i < n)%nat) t)) /\
  (u = true -> length L = binomial n k).
Proof.
  intros n k u L Hk H. destruct u; cbn [xmapix] in H.
  - split; [exact (proj1 (triudix_enumerates n k L Hk H))|]. intros _. exact (triudix_count n k L Hk H).
  - split; [exact (proj1 (triuix_enumerates n k L Hk H))|]. discriminate.
Qed.

(** regression witness of a seeded change: a subset space sized by comb(ntaxa, nparent) whatever unique_parents is.  With
    repeatable parents the map of 4 candidates has 10 rows, comb(4,2) = 6: the last four rows - the crosses among the two
    highest-index candidates and the self (3,3) among them - can never be chosen *)
Definition comb_subset_space (ntaxa nparent : nat) : list Z := map Z.of_nat (seq 0 (binomial ntaxa nparent)).
Theorem comb_subset_space_misses_tail : exists L,
  xmapix 4 2 false = Some L /\ length L = 10%nat /\ length (comb_subset_space 4 2) = 6%nat /\
  nth 9 L [] = [3; 3]%nat /\ nth 6 L [] = [1; 3]%nat /\
  (forall d, In d (comb_subset_space 4 2) -> (d < 6)%Z) /\ ~ In 9%Z (comb_subset_space 4 2) /\
  xmap_subset_space 4 2 1 false = Some ([0;1;2;3;4;5;6;7;8;9]%Z, [0]%Z, [9]%Z, 1%Z) /\
  xmap_subset_space 4 2 1 true = Some (comb_subset_space 4 2, [0]%Z, [5]%Z, 1%Z).
Proof.
  eexists. split; [vm_compute; reflexivity|]. repeat split; try (vm_compute; reflexivity).
  - intros d Hd. unfold comb_subset_space in Hd. apply in_arange in Hd. vm_compute in Hd. destruct Hd as (_ & Hd). exact Hd.
  - intros Hd. unfold comb_subset_space in Hd. apply in_arange in Hd. vm_compute in Hd. destruct Hd as (_ & Hd). discriminate Hd.
Qed.

Print Assumptions xmap_subset_space_whole_map.
Print Assumptions xmap_vector_space_whole_map.
Print Assumptions comb_subset_space_misses_tail.
