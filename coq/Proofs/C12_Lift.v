(** C12 — lifting the two-locus results to any number of loci: the joint law of the strands copied at two loci of a
    multi-locus no-interference meiosis is the two-locus meiosis with r = rpair ps i j, hence (by induction over the selfing
    generations) every pairwise marginal of the multi-locus selfing process is the two-locus process; the doubled-haploid
    covariance under the multi-locus enumeration is the sum of the pairwise covariances. *)
From Coq Require Import Lqa Qfield.
From PV Require Import Lib.Common Model.C12_Var Model.C12_Enum Proofs.C12_Sums Proofs.C12_Selfing Proofs.C12_Meiosis.
Local Open Scope Q_scope.


Lemma Egam_ext ps f g : (forall l, length l = S (length ps) -> f l == g l) -> Egam ps f == Egam ps g.
Proof.
  intros H. unfold Egam.
  assert (L : forall s0 xs, length xs = length ps -> length (strand s0 xs) = S (length ps)).
  { intros s0 xs. revert s0. induction xs as [|x xs IH] in ps |- *; intros s0 E; destruct ps; cbn in *; try lia. f_equal. apply IH. lia. }
  rewrite (Ebern_ext ps (fun xs => f (strand false xs)) (fun xs => g (strand false xs))) by (intros; apply H; now apply L).
  rewrite (Ebern_ext ps (fun xs => f (strand true xs)) (fun xs => g (strand true xs))) by (intros; apply H; now apply L).
  reflexivity.
Qed.
Lemma Egam_const ps c : Egam ps (fun _ => c) == c.
Proof. unfold Egam. rewrite !Ebern_const. ring. Qed.
Lemma Egam_plus ps f g : Egam ps (fun l => f l + g l) == Egam ps f + Egam ps g.
Proof. unfold Egam. rewrite !Ebern_plus. ring. Qed.
Lemma Egam_scal ps c f : Egam ps (fun l => c * f l) == c * Egam ps f.
Proof. unfold Egam. rewrite !Ebern_scal. ring. Qed.

(** one locus, given the initial strand *)
Lemma strand_marginal : forall ps s j (phi : bool -> Q), (j <= length ps)%nat ->
  Ebern ps (fun xs => phi (nth j (strand s xs) false)) == ((1 + rho ps 0 j) / 2) * phi s + ((1 - rho ps 0 j) / 2) * phi (negb s).
Proof.
  induction ps as [|p ps IH]; intros s j phi Hj.
  - cbn [length] in Hj. assert (j = 0%nat) by lia. subst. cbn [Ebern strand nth]. rewrite rho_diag. field.
  - destruct j as [|j].
    + rewrite (Ebern_ext (p :: ps) _ (fun _ => phi s)) by (intros [|x l] _; reflexivity). rewrite Ebern_const, rho_diag. field.
    + cbn [Ebern].
      rewrite (Ebern_ext ps (fun l => phi (nth (S j) (strand s (true :: l)) false)) (fun l => phi (nth j (strand (negb s) l) false))).
      2:{ intros l _. cbn [strand nth]. now rewrite xorb_true_r. }
      rewrite (Ebern_ext ps (fun l => phi (nth (S j) (strand s (false :: l)) false)) (fun l => phi (nth j (strand s l) false))).
      2:{ intros l _. cbn [strand nth]. now rewrite xorb_false_r. }
      cbn [length] in Hj. rewrite !IH by lia. rewrite rho_0S, Bool.negb_involutive. field.
Qed.

Lemma Egam_tail p ps (G : list bool -> Q) : Egam (p :: ps) (fun src => G (tl src)) == Egam ps G.
Proof.
  unfold Egam. cbn [Ebern].
  rewrite (Ebern_ext ps (fun l => G (tl (strand false (true :: l)))) (fun l => G (strand true l))) by (intros; reflexivity).
  rewrite (Ebern_ext ps (fun l => G (tl (strand false (false :: l)))) (fun l => G (strand false l))) by (intros; reflexivity).
  rewrite (Ebern_ext ps (fun l => G (tl (strand true (true :: l)))) (fun l => G (strand false l))) by (intros; reflexivity).
  rewrite (Ebern_ext ps (fun l => G (tl (strand true (false :: l)))) (fun l => G (strand true l))) by (intros; reflexivity).
  ring.
Qed.

(** the joint law of the strands at two loci is the two-locus meiosis with r = rpair ps i j *)
Lemma pair_marginal : forall ps i j (chi : bool -> bool -> Q), (i <= length ps)%nat -> (j <= length ps)%nat ->
  Egam ps (fun src => chi (nth i src false) (nth j src false)) ==
  ((1 + rho ps i j) / 4) * (chi false false + chi true true) + ((1 - rho ps i j) / 4) * (chi false true + chi true false).
Proof.
  assert (Z : forall ps j chi, (j <= length ps)%nat ->
    Egam ps (fun src => chi (nth 0 src false) (nth j src false)) ==
    ((1 + rho ps 0 j) / 4) * (chi false false + chi true true) + ((1 - rho ps 0 j) / 4) * (chi false true + chi true false)).
  { intros ps j chi Hj. unfold Egam.
    rewrite (Ebern_ext ps (fun xs => chi (nth 0 (strand false xs) false) (nth j (strand false xs) false)) (fun xs => chi false (nth j (strand false xs) false)))
      by (intros [|x l] _; reflexivity).
    rewrite (Ebern_ext ps (fun xs => chi (nth 0 (strand true xs) false) (nth j (strand true xs) false)) (fun xs => chi true (nth j (strand true xs) false)))
      by (intros [|x l] _; reflexivity).
    rewrite (strand_marginal ps false j (chi false) Hj), (strand_marginal ps true j (chi true) Hj). cbn [negb]. field. }
  induction ps as [|p ps IH]; intros i j chi Hi Hj.
  - cbn [length] in *. assert (i = 0%nat) by lia. subst. now apply Z.
  - destruct i as [|i]; [now apply Z|]. destruct j as [|j].
    + rewrite (Egam_ext (p :: ps) (fun src => chi (nth (S i) src false) (nth 0 src false)) (fun src => (fun a b => chi b a) (nth 0 src false) (nth (S i) src false))) by (intros; reflexivity).
      rewrite (Z (p :: ps) (S i) (fun a b => chi b a) Hi). rewrite (rho_sym (p :: ps) (S i) 0). ring.
    + rewrite (Egam_ext (p :: ps) (fun src => chi (nth (S i) src false) (nth (S j) src false)) (fun src => (fun t => chi (nth i t false) (nth j t false)) (tl src))) by (intros [|x l] Hl; [cbn in Hl; lia | reflexivity]).
      rewrite (Egam_tail p ps (fun t => chi (nth i t false) (nth j t false))). cbn [length] in *. rewrite IH by lia. now rewrite rho_SS.
Qed.

Lemma nth_pick : forall h1 h2 src i, length h1 = length src -> length h2 = length src -> (i < length src)%nat ->
  nth i (pick h1 h2 src) 0 = if nth i src false then nth i h2 0 else nth i h1 0.
Proof.
  induction h1 as [|a h1 IH]; intros h2 src i H1 H2 Hi; destruct src as [|s src]; cbn [length] in *; try lia.
  destruct h2 as [|b h2]; cbn [length] in *; try lia.
  destruct i as [|i]; cbn [pick nth]; [reflexivity|]. apply IH; lia.
Qed.

(** marginal of the multi-locus meiosis on the loci (i,j) = two-locus meiosis *)
Lemma EmeiL_marginal ps h1 h2 i j (psi : hap -> Q) :
  length h1 = S (length ps) -> length h2 = S (length ps) -> (i <= length ps)%nat -> (j <= length ps)%nat ->
  EmeiL ps h1 h2 (fun g => psi (nth i g 0, nth j g 0)) ==
  Emei (rpair ps i j) ((nth i h1 0, nth j h1 0), (nth i h2 0, nth j h2 0)) psi.
Proof.
  intros H1 H2 Hi Hj. unfold EmeiL.
  rewrite (Egam_ext ps (fun src => psi (nth i (pick h1 h2 src) 0, nth j (pick h1 h2 src) 0)) (fun src => (fun (a b : bool) => psi (if a then nth i h2 0 else nth i h1 0, if b then nth j h2 0 else nth j h1 0)) (nth i src false) (nth j src false))).
  2:{ intros l Hl. rewrite !nth_pick by lia. reflexivity. }
  rewrite (pair_marginal ps i j (fun (a b : bool) => psi (if a then nth i h2 0 else nth i h1 0, if b then nth j h2 0 else nth j h1 0)) Hi Hj).
  unfold Emei, rpair. cbn [fst snd]. field.
Qed.

(** * gametes have the right length; extensionality and linearity of the multi-locus operators *)
Lemma pick_length : forall h1 h2 src, length h1 = length src -> length h2 = length src -> length (pick h1 h2 src) = length src.
Proof.
  induction h1 as [|a h1 IH]; intros h2 src H1 H2; destruct src as [|s src]; cbn [length] in *; try lia; [reflexivity|].
  destruct h2 as [|b h2]; cbn [length] in *; try lia. cbn [pick length]. f_equal. apply IH; lia.
Qed.

Lemma EmeiL_ext ps h1 h2 f g : length h1 = S (length ps) -> length h2 = S (length ps) ->
  (forall x, length x = S (length ps) -> f x == g x) -> EmeiL ps h1 h2 f == EmeiL ps h1 h2 g.
Proof. intros H1 H2 H. unfold EmeiL. apply Egam_ext. intros l Hl. apply H. rewrite pick_length; lia. Qed.
Lemma EmeiL_const ps h1 h2 c : EmeiL ps h1 h2 (fun _ => c) == c.
Proof. unfold EmeiL. apply Egam_const. Qed.
Lemma EmeiL_plus ps h1 h2 f g : EmeiL ps h1 h2 (fun x => f x + g x) == EmeiL ps h1 h2 f + EmeiL ps h1 h2 g.
Proof. unfold EmeiL. apply (Egam_plus ps (fun l => f (pick h1 h2 l)) (fun l => g (pick h1 h2 l))). Qed.
Lemma EmeiL_scal ps h1 h2 c f : EmeiL ps h1 h2 (fun x => c * f x) == c * EmeiL ps h1 h2 f.
Proof. unfold EmeiL. apply (Egam_scal ps c (fun l => f (pick h1 h2 l))). Qed.

Lemma EgenL_ext ps k : forall h1 h2 f g, length h1 = S (length ps) -> length h2 = S (length ps) ->
  (forall x, length x = S (length ps) -> f x == g x) -> EgenL ps k h1 h2 f == EgenL ps k h1 h2 g.
Proof.
  induction k as [|k IH]; intros h1 h2 f g H1 H2 H; cbn [EgenL]; [now apply EmeiL_ext|].
  apply EmeiL_ext; try assumption. intros g1 L1. apply EmeiL_ext; try assumption. intros g2 L2. now apply IH.
Qed.
Lemma EgenL_const ps k : forall h1 h2 c, length h1 = S (length ps) -> length h2 = S (length ps) -> EgenL ps k h1 h2 (fun _ => c) == c.
Proof.
  induction k as [|k IH]; intros h1 h2 c H1 H2; cbn [EgenL]; [apply EmeiL_const|].
  rewrite (EmeiL_ext ps h1 h2 _ (fun _ => c) H1 H2); [apply EmeiL_const|].
  intros g1 L1. rewrite (EmeiL_ext ps h1 h2 _ (fun _ => c) H1 H2); [apply EmeiL_const|]. intros g2 L2. now apply IH.
Qed.
Lemma EgenL_plus ps k : forall h1 h2 f g, length h1 = S (length ps) -> length h2 = S (length ps) ->
  EgenL ps k h1 h2 (fun x => f x + g x) == EgenL ps k h1 h2 f + EgenL ps k h1 h2 g.
Proof.
  induction k as [|k IH]; intros h1 h2 f g H1 H2; cbn [EgenL]; [apply EmeiL_plus|].
  rewrite <- EmeiL_plus. apply EmeiL_ext; try assumption. intros g1 L1.
  rewrite <- EmeiL_plus. apply EmeiL_ext; try assumption. intros g2 L2. now apply IH.
Qed.
Lemma EgenL_scal ps k : forall h1 h2 c f, length h1 = S (length ps) -> length h2 = S (length ps) ->
  EgenL ps k h1 h2 (fun x => c * f x) == c * EgenL ps k h1 h2 f.
Proof.
  induction k as [|k IH]; intros h1 h2 c f H1 H2; cbn [EgenL]; [apply EmeiL_scal|].
  rewrite <- EmeiL_scal. apply EmeiL_ext; try assumption. intros g1 L1.
  rewrite <- EmeiL_scal. apply EmeiL_ext; try assumption. intros g2 L2. now apply IH.
Qed.

(** * every pairwise marginal of the multi-locus selfing process is the two-locus selfing process *)
Definition pr (h : list Q) (i j : nat) : hap := (nth i h 0, nth j h 0).

Theorem EgenL_marginal ps i j : (i <= length ps)%nat -> (j <= length ps)%nat -> forall k h1 h2 (psi : hap -> Q),
  length h1 = S (length ps) -> length h2 = S (length ps) ->
  EgenL ps k h1 h2 (fun g => psi (pr g i j)) == Egen (rpair ps i j) k (pr h1 i j, pr h2 i j) psi.
Proof.
  intros Hi Hj. induction k as [|k IH]; intros h1 h2 psi H1 H2; cbn [EgenL Egen].
  - unfold pr. now apply EmeiL_marginal.
  - rewrite (EmeiL_ext ps h1 h2 _ (fun g1 => (fun x => Emei (rpair ps i j) (pr h1 i j, pr h2 i j) (fun y => Egen (rpair ps i j) k (x, y) psi)) (pr g1 i j)) H1 H2).
    2:{ intros g1 L1.
        rewrite (EmeiL_ext ps h1 h2 _ (fun g2 => (fun y => Egen (rpair ps i j) k (pr g1 i j, y) psi) (pr g2 i j)) H1 H2).
        2:{ intros g2 L2. now apply IH. }
        unfold pr at 2. apply (EmeiL_marginal ps h1 h2 i j (fun y => Egen (rpair ps i j) k (pr g1 i j, y) psi) H1 H2 Hi Hj). }
    unfold pr at 1. apply (EmeiL_marginal ps h1 h2 i j (fun x => Emei (rpair ps i j) (pr h1 i j, pr h2 i j) (fun y => Egen (rpair ps i j) k (x, y) psi)) H1 H2 Hi Hj).
Qed.

(** the same for the three schemes (the first cross is one more multi-locus meiosis per parent pair) *)
Lemma Egen_ext r k : forall i f g, (forall h, f h == g h) -> Egen r k i f == Egen r k i g.
Proof.
  induction k as [|k IH]; intros i f g H; cbn [Egen]; [now apply Emei_ext|].
  apply Emei_ext; intros g1. apply Emei_ext; intros g2. now apply IH.
Qed.

Theorem EL_two_marginal ps k A B i j psi : (i <= length ps)%nat -> (j <= length ps)%nat ->
  length A = S (length ps) -> length B = S (length ps) ->
  EL_two ps k A B (fun g => psi (pr g i j)) == E_two (rpair ps i j) k (pr A i j) (pr B i j) psi.
Proof. intros. unfold EL_two, E_two. now apply EgenL_marginal. Qed.

Theorem EL_three_marginal ps k R F M i j psi : (i <= length ps)%nat -> (j <= length ps)%nat ->
  length R = S (length ps) -> length F = S (length ps) -> length M = S (length ps) ->
  EL_three ps k R F M (fun g => psi (pr g i j)) == E_three (rpair ps i j) k (pr R i j) (pr F i j) (pr M i j) psi.
Proof.
  intros Hi Hj HR HF HM. unfold EL_three, E_three.
  rewrite (EmeiL_ext ps F M _ (fun g => (fun x => Egen (rpair ps i j) k (x, pr R i j) psi) (pr g i j)) HF HM).
  2:{ intros g Lg. now apply EgenL_marginal. }
  unfold pr at 1. apply (EmeiL_marginal ps F M i j (fun x => Egen (rpair ps i j) k (x, pr R i j) psi) HF HM Hi Hj).
Qed.

Theorem EL_four_marginal ps k P1 P2 P3 P4 i j psi : (i <= length ps)%nat -> (j <= length ps)%nat ->
  length P1 = S (length ps) -> length P2 = S (length ps) -> length P3 = S (length ps) -> length P4 = S (length ps) ->
  EL_four ps k P1 P2 P3 P4 (fun g => psi (pr g i j)) == E_four (rpair ps i j) k (pr P1 i j) (pr P2 i j) (pr P3 i j) (pr P4 i j) psi.
Proof.
  intros Hi Hj H1 H2 H3 H4. unfold EL_four, E_four.
  rewrite (EmeiL_ext ps P1 P2 _ (fun g => (fun x => Emei (rpair ps i j) (pr P3 i j, pr P4 i j) (fun y => Egen (rpair ps i j) k (x, y) psi)) (pr g i j)) H1 H2).
  2:{ intros g Lg.
      rewrite (EmeiL_ext ps P3 P4 _ (fun h => (fun y => Egen (rpair ps i j) k (pr g i j, y) psi) (pr h i j)) H3 H4).
      2:{ intros h Lh. now apply EgenL_marginal. }
      unfold pr at 2. apply (EmeiL_marginal ps P3 P4 i j (fun y => Egen (rpair ps i j) k (pr g i j, y) psi) H3 H4 Hi Hj). }
  unfold pr at 1. apply (EmeiL_marginal ps P1 P2 i j (fun x => Emei (rpair ps i j) (pr P3 i j, pr P4 i j) (fun y => Egen (rpair ps i j) k (x, y) psi)) H1 H2 Hi Hj).
Qed.

(** * linear expectation operators on gametes of L loci; covariance of doubled-haploid values as a sum over locus pairs *)
Record linop (L : nat) (E : (list Q -> Q) -> Q) : Prop := {
  lo_ext : forall f g, (forall x, length x = L -> f x == g x) -> E f == E g;
  lo_plus : forall f g, E (fun x => f x + g x) == E f + E g;
  lo_scal : forall c f, E (fun x => c * f x) == c * E f }.

Lemma linop_zero L E : linop L E -> E (fun _ => 0) == 0.
Proof. intros H. rewrite (lo_ext L E H (fun _ => 0) (fun x => 0 * 0)) by (intros; ring). rewrite (lo_scal L E H). ring. Qed.

Lemma linop_sum L E (H : linop L E) {A} (F : A -> list Q -> Q) (l : list A) :
  E (fun x => sumQ (map (fun a => F a x) l)) == sumQ (map (fun a => E (F a)) l).
Proof.
  induction l as [|a l IH]; cbn [map].
  - apply (linop_zero L E H).
  - rewrite (lo_ext L E H _ (fun x => F a x + sumQ (map (fun a0 => F a0 x) l))) by (intros; reflexivity).
    rewrite (lo_plus L E H), IH. reflexivity.
Qed.

Lemma sumQ_mul {A B} (f : A -> Q) (g : B -> Q) la lb :
  sumQ (map f la) * sumQ (map g lb) == sumQ (map (fun b => sumQ (map (fun a => f a * g b) la)) lb).
Proof.
  rewrite <- sumQ_scal. apply sumQ_ext_all. intros b. rewrite sumQ_scal_r. ring.
Qed.

Definition gi (i : nat) (g : list Q) : Q := nth i g 0.

Theorem covL_pairs L E u1 u2 : linop L E ->
  covL L E u1 u2 ==
  sumQ (map (fun j => sumQ (map (fun i => (nth i u1 0 * nth j u2 0) *
     (4 * (E (fun g => gi i g * gi j g) - E (gi i) * E (gi j)))) (seq 0 L))) (seq 0 L)).
Proof.
  intros H. unfold covL, dval.
  (* E[d1 d2] *)
  rewrite (lo_ext L E H (fun g => 2 * sumQ (map (fun i => nth i u1 0 * nth i g 0) (seq 0 L)) * (2 * sumQ (map (fun i => nth i u2 0 * nth i g 0) (seq 0 L))))
            (fun g => sumQ (map (fun j => sumQ (map (fun i => (4 * (nth i u1 0 * nth j u2 0)) * (gi i g * gi j g)) (seq 0 L))) (seq 0 L)))).
  2:{ intros g _. setoid_replace (2 * sumQ (map (fun i => nth i u1 0 * nth i g 0) (seq 0 L)) * (2 * sumQ (map (fun i => nth i u2 0 * nth i g 0) (seq 0 L))))
        with (4 * (sumQ (map (fun i => nth i u1 0 * nth i g 0) (seq 0 L)) * sumQ (map (fun i => nth i u2 0 * nth i g 0) (seq 0 L)))) by ring.
      rewrite sumQ_mul, <- sumQ_scal. apply sumQ_ext_all. intros j. rewrite <- sumQ_scal. apply sumQ_ext_all. intros i. unfold gi. ring. }
  rewrite (linop_sum L E H (fun j g => sumQ (map (fun i => (4 * (nth i u1 0 * nth j u2 0)) * (gi i g * gi j g)) (seq 0 L))) (seq 0 L)).
  rewrite (sumQ_ext_all (fun j => E (fun g => sumQ (map (fun i => (4 * (nth i u1 0 * nth j u2 0)) * (gi i g * gi j g)) (seq 0 L))))
                        (fun j => sumQ (map (fun i => (4 * (nth i u1 0 * nth j u2 0)) * E (fun g => gi i g * gi j g)) (seq 0 L)))).
  2:{ intros j. rewrite (linop_sum L E H (fun i g => (4 * (nth i u1 0 * nth j u2 0)) * (gi i g * gi j g)) (seq 0 L)).
      apply sumQ_ext_all. intros i. apply (lo_scal L E H). }
  (* E[d1], E[d2] *)
  assert (M : forall u, E (fun g => 2 * sumQ (map (fun i => nth i u 0 * nth i g 0) (seq 0 L))) == sumQ (map (fun i => (2 * nth i u 0) * E (gi i)) (seq 0 L))).
  { intros u. rewrite (lo_scal L E H 2 (fun g => sumQ (map (fun i => nth i u 0 * nth i g 0) (seq 0 L)))).
    rewrite (linop_sum L E H (fun i g => nth i u 0 * nth i g 0) (seq 0 L)). rewrite <- sumQ_scal. apply sumQ_ext_all. intros i.
    rewrite (lo_scal L E H (nth i u 0) (gi i)). ring. }
  rewrite !M. rewrite sumQ_mul.
  setoid_replace (sumQ (map (fun j => sumQ (map (fun i => 4 * (nth i u1 0 * nth j u2 0) * E (fun g => gi i g * gi j g)) (seq 0 L))) (seq 0 L))
                  - sumQ (map (fun b => sumQ (map (fun a => 2 * nth a u1 0 * E (gi a) * (2 * nth b u2 0 * E (gi b))) (seq 0 L))) (seq 0 L)))
    with (sumQ (map (fun j => sumQ (map (fun i => 4 * (nth i u1 0 * nth j u2 0) * E (fun g => gi i g * gi j g)) (seq 0 L))) (seq 0 L))
          + (-1) * sumQ (map (fun b => sumQ (map (fun a => 2 * nth a u1 0 * E (gi a) * (2 * nth b u2 0 * E (gi b))) (seq 0 L))) (seq 0 L))) by ring.
  rewrite <- sumQ_scal, <- sumQ_plus. apply sumQ_ext_all. intros j. rewrite <- sumQ_scal, <- sumQ_plus. apply sumQ_ext_all. intros i. ring.
Qed.

(** the three multi-locus schemes are linear operators *)
Lemma linop_EgenL ps k h1 h2 : length h1 = S (length ps) -> length h2 = S (length ps) -> linop (S (length ps)) (EgenL ps k h1 h2).
Proof.
  intros H1 H2. split; intros.
  - now apply EgenL_ext. - now apply EgenL_plus. - now apply EgenL_scal.
Qed.
Lemma linop_EL_three ps k R F M : length R = S (length ps) -> length F = S (length ps) -> length M = S (length ps) ->
  linop (S (length ps)) (EL_three ps k R F M).
Proof.
  intros HR HF HM. unfold EL_three. split; intros.
  - apply EmeiL_ext; try assumption. intros x Lx. now apply EgenL_ext.
  - rewrite <- EmeiL_plus. apply EmeiL_ext; try assumption. intros x Lx. now apply EgenL_plus.
  - rewrite <- EmeiL_scal. apply EmeiL_ext; try assumption. intros x Lx. now apply EgenL_scal.
Qed.
Lemma linop_EL_four ps k P1 P2 P3 P4 : length P1 = S (length ps) -> length P2 = S (length ps) -> length P3 = S (length ps) -> length P4 = S (length ps) ->
  linop (S (length ps)) (EL_four ps k P1 P2 P3 P4).
Proof.
  intros H1 H2 H3 H4. unfold EL_four. split; intros.
  - apply EmeiL_ext; try assumption. intros x Lx. apply EmeiL_ext; try assumption. intros y Ly. now apply EgenL_ext.
  - rewrite <- EmeiL_plus. apply EmeiL_ext; try assumption. intros x Lx. rewrite <- EmeiL_plus. apply EmeiL_ext; try assumption. intros y Ly. now apply EgenL_plus.
  - rewrite <- EmeiL_scal. apply EmeiL_ext; try assumption. intros x Lx. rewrite <- EmeiL_scal. apply EmeiL_ext; try assumption. intros y Ly. now apply EgenL_scal.
Qed.

(** ** multi-locus doubled-haploid covariance = sum over ALL locus pairs of the two-locus covariance with r = rpair ps i j *)
Definition allpairs (L : nat) (F : nat -> nat -> Q) : Q := sumQ (map (fun j => sumQ (map (fun i => F i j) (seq 0 L))) (seq 0 L)).

Lemma allpairs_ext L F G : (forall i j, (i < L)%nat -> (j < L)%nat -> F i j == G i j) -> allpairs L F == allpairs L G.
Proof. intros H. unfold allpairs. apply sumQ_ext. intros j Hj. apply sumQ_ext. intros i Hi. apply in_seq in Hi, Hj. apply H; lia. Qed.

Theorem EL_two_pairs ps k A B u1 u2 : length A = S (length ps) -> length B = S (length ps) ->
  covL (S (length ps)) (EL_two ps k A B) u1 u2 ==
  allpairs (S (length ps)) (fun i j => (nth i u1 0 * nth j u2 0) * dhcov (E_two (rpair ps i j) k (pr A i j) (pr B i j))).
Proof.
  intros HA HB. rewrite (covL_pairs _ _ u1 u2 (linop_EgenL ps k A B HA HB)). apply allpairs_ext. intros i j Hi Hj.
  unfold dhcov, cov2.
  rewrite <- (EL_two_marginal ps k A B i j (fun g => fst g * snd g)), <- (EL_two_marginal ps k A B i j (fun g => fst g)),
          <- (EL_two_marginal ps k A B i j (fun g => snd g)) by (try assumption; lia).
  reflexivity.
Qed.

Theorem EL_three_pairs ps k R F M u1 u2 : length R = S (length ps) -> length F = S (length ps) -> length M = S (length ps) ->
  covL (S (length ps)) (EL_three ps k R F M) u1 u2 ==
  allpairs (S (length ps)) (fun i j => (nth i u1 0 * nth j u2 0) * dhcov (E_three (rpair ps i j) k (pr R i j) (pr F i j) (pr M i j))).
Proof.
  intros HR HF HM. rewrite (covL_pairs _ _ u1 u2 (linop_EL_three ps k R F M HR HF HM)). apply allpairs_ext. intros i j Hi Hj.
  unfold dhcov, cov2.
  rewrite <- (EL_three_marginal ps k R F M i j (fun g => fst g * snd g)), <- (EL_three_marginal ps k R F M i j (fun g => fst g)),
          <- (EL_three_marginal ps k R F M i j (fun g => snd g)) by (try assumption; lia).
  reflexivity.
Qed.

Theorem EL_four_pairs ps k P1 P2 P3 P4 u1 u2 :
  length P1 = S (length ps) -> length P2 = S (length ps) -> length P3 = S (length ps) -> length P4 = S (length ps) ->
  covL (S (length ps)) (EL_four ps k P1 P2 P3 P4) u1 u2 ==
  allpairs (S (length ps)) (fun i j => (nth i u1 0 * nth j u2 0) * dhcov (E_four (rpair ps i j) k (pr P1 i j) (pr P2 i j) (pr P3 i j) (pr P4 i j))).
Proof.
  intros H1 H2 H3 H4. rewrite (covL_pairs _ _ u1 u2 (linop_EL_four ps k P1 P2 P3 P4 H1 H2 H3 H4)). apply allpairs_ext. intros i j Hi Hj.
  unfold dhcov, cov2.
  rewrite <- (EL_four_marginal ps k P1 P2 P3 P4 i j (fun g => fst g * snd g)), <- (EL_four_marginal ps k P1 P2 P3 P4 i j (fun g => fst g)),
          <- (EL_four_marginal ps k P1 P2 P3 P4 i j (fun g => snd g)) by (try assumption; lia).
  reflexivity.
Qed.
