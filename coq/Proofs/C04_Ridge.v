(** C04 — ridge regression: the penalised least-squares criterion is  |y|^2 + 2 f(u)  with  f(u) = 1/2 u'(Z'Z + ridge I)u - (Z'y)'u,
    the system matrix is symmetric with positive diagonal, hence (Proofs/C04_GS.v) the Gauss-Seidel result of
    rrBLUPModel0.fit_numpy is never worse than the all-zero solution — for every training set, ridge > 0, tolerance and
    iteration limit. *)
From Coq Require Import Lqa.
From PV Require Import Lib.Common Model.C04_Gmod Model.C04_GS Proofs.C04_Linear Proofs.C04_Var Proofs.C04_Sums Proofs.C04_GS.
Local Open Scope Q_scope.

(** ** the identity on index functions *)
Section Identity.
  Variables (n p : nat) (z : nat -> nat -> Q) (yv uv : nat -> Q) (ridge : Q).
  Let s (i : nat) : Q := bigsum p (fun j => z i j * uv j).
  Let aa (j l : nat) : Q := bigsum n (fun i => z i j * z i l) + (if Nat.eqb j l then ridge else 0).
  Let bv (j : nat) : Q := bigsum n (fun i => z i j * yv i).

  Lemma cross_term : bigsum p (fun j => bv j * uv j) == bigsum n (fun i => yv i * s i).
  Proof.
    unfold bv, s.
    rewrite (bigsum_ext p _ (fun j => bigsum n (fun i => z i j * yv i * uv j))) by (intros j _; now rewrite bigsum_scale_r).
    rewrite bigsum_swap. apply bigsum_ext. intros i _. cbv beta. rewrite <- bigsum_scale. apply bigsum_ext. intros j _. ring.
  Qed.

  Lemma gram_term : bigsum p (fun j => uv j * bigsum p (fun l => bigsum n (fun i => z i j * z i l) * uv l)) == bigsum n (fun i => s i * s i).
  Proof.
    (* bring everything to a triple sum over (j, l, i) and swap i to the outside *)
    rewrite (bigsum_ext p _ (fun j => bigsum n (fun i => bigsum p (fun l => uv j * (z i j * z i l * uv l))))).
    - rewrite bigsum_swap. apply bigsum_ext. intros i _. cbv beta. unfold s.
      rewrite <- bigsum_scale_r. apply bigsum_ext. intros j _. cbv beta.
      rewrite (bigsum_ext p (fun l => uv j * (z i j * z i l * uv l)) (fun l => (z i j * uv j) * (z i l * uv l))) by (intros; ring).
      now rewrite bigsum_scale.
    - intros j _. cbv beta. rewrite <- bigsum_scale.
      rewrite (bigsum_ext p _ (fun l => bigsum n (fun i => uv j * (z i j * z i l * uv l)))).
      + now rewrite bigsum_swap.
      + intros l _. cbv beta.
        rewrite (bigsum_ext n (fun i => uv j * (z i j * z i l * uv l)) (fun i => (uv j * uv l) * (z i j * z i l))) by (intros; ring).
        rewrite bigsum_scale. ring.
  Qed.

  Lemma ridge_term : bigsum p (fun j => uv j * bigsum p (fun l => (if Nat.eqb j l then ridge else 0) * uv l)) == ridge * bigsum p (fun j => uv j * uv j).
  Proof.
    rewrite <- bigsum_scale. apply bigsum_ext. intros j Hj. cbv beta.
    rewrite (bigsum_ext p _ (fun l => delta j l * (ridge * uv l))) by (intros l _; unfold delta; rewrite (Nat.eqb_sym l j); destruct (Nat.eqb j l); ring).
    rewrite bigsum_delta by exact Hj. ring.
  Qed.

  Lemma pls_identity :
    bigsum n (fun i => (yv i - s i) * (yv i - s i)) + ridge * bigsum p (fun j => uv j * uv j) ==
    bigsum n (fun i => yv i * yv i) +
    2 * ((1 # 2) * bigsum p (fun j => uv j * bigsum p (fun l => aa j l * uv l)) - bigsum p (fun j => bv j * uv j)).
  Proof.
    rewrite cross_term.
    rewrite (bigsum_ext p (fun j => uv j * bigsum p (fun l => aa j l * uv l))
               (fun j => uv j * bigsum p (fun l => bigsum n (fun i => z i j * z i l) * uv l) + uv j * bigsum p (fun l => (if Nat.eqb j l then ridge else 0) * uv l))).
    - rewrite bigsum_plus, gram_term, ridge_term.
      rewrite (bigsum_ext n (fun i => (yv i - s i) * (yv i - s i)) (fun i => yv i * yv i + ((-2) * (yv i * s i) + s i * s i))) by (intros; ring).
      rewrite !bigsum_plus, bigsum_scale. ring.
    - intros j _. cbv beta. rewrite <- Qmult_plus_distr_r. apply Qmult_comp; [reflexivity|]. rewrite <- bigsum_plus. apply bigsum_ext. intros l _. unfold aa. ring.
  Qed.
End Identity.

(** ** from lists to index functions *)
Lemma sumQ_map2_bigsum {A B} (f : A -> B -> Q) (da : A) (db : B) : forall (l1 : list A) (l2 : list B) n, length l1 = n -> length l2 = n ->
  sumQ (map2 f l1 l2) == bigsum n (fun i => f (nth i l1 da) (nth i l2 db)).
Proof.
  induction l1 as [|x l1 IH]; intros [|y l2] n L1 L2; cbn in L1, L2; subst; try discriminate; [reflexivity|].
  cbn [map2]. rewrite sumQ_cons. unfold bigsum. cbn [seq map]. rewrite sumQ_cons. cbn [nth]. rewrite <- seq_shift, map_map.
  rewrite (IH l2 (length l1)) by lia. reflexivity.
Qed.

Lemma sumQ_map_bigsum {A} (f : A -> Q) (d : A) (l : list A) : sumQ (map f l) == bigsum (length l) (fun i => f (nth i l d)).
Proof.
  induction l as [|x l IH]; [reflexivity|]. cbn [map length]. rewrite sumQ_cons. unfold bigsum. cbn [seq map]. rewrite sumQ_cons. cbn [nth].
  rewrite <- seq_shift, map_map. now rewrite IH.
Qed.

Section Bridge.
  Variables (n p : nat) (Z : qmat) (y : list Q) (ridge : Q).
  Hypothesis HZ : length Z = n.
  Hypothesis HZr : rows_len p Z.
  Hypothesis Hy : length y = n.
  Let z (i j : nat) : Q := nth j (nth i Z []) 0.
  Let A := ztz_ridge p Z ridge.
  Let b := zty p Z y.

  Lemma transpose_nth j : (j < p)%nat -> nth j (transpose p Z) [] = col 0 j Z.
  Proof.
    intros H. unfold transpose, cols. rewrite (nth_map_in (fun j0 => col 0 j0 Z) 0%nat []) by (now rewrite seq_length). now rewrite seq_nth.
  Qed.
  Lemma transpose_length : length (transpose p Z) = p.
  Proof. unfold transpose, cols. now rewrite map_length, seq_length. Qed.

  Lemma col_nth j i : (i < n)%nat -> nth i (col 0 j Z) 0 = z i j.
  Proof. intros H. unfold col. now rewrite (nth_map_in (fun r => nth j r 0) [] 0) by lia. Qed.

  Lemma combine_seq_nth j : (j < p)%nat -> nth j (combine (seq 0 p) (transpose p Z)) (0%nat, []) = (j, col 0 j Z).
  Proof. intros H. rewrite combine_nth by (now rewrite seq_length, transpose_length). now rewrite seq_nth, transpose_nth. Qed.

  Lemma A_length : length A = p.
  Proof. unfold A, ztz_ridge. now rewrite map_length, combine_length, seq_length, transpose_length, Nat.min_id. Qed.
  Lemma A_rows : rows_len p A.
  Proof.
    unfold rows_len, A, ztz_ridge. rewrite Forall_map, Forall_forall. intros ic _.
    now rewrite map_length, combine_length, seq_length, transpose_length, Nat.min_id.
  Qed.
  Lemma b_length : length b = p.
  Proof. unfold b, zty. now rewrite map_length, transpose_length. Qed.

  Lemma A_entry j l : (j < p)%nat -> (l < p)%nat ->
    nth l (nth j A []) 0 == bigsum n (fun i => z i j * z i l) + (if Nat.eqb j l then ridge else 0).
  Proof.
    intros Hj Hl. unfold A, ztz_ridge.
    set (C := combine (seq 0 p) (transpose p Z)).
    assert (LC : length C = p) by (unfold C; now rewrite combine_length, seq_length, transpose_length, Nat.min_id).
    rewrite (nth_map_in (fun ic => map (fun jc => dotQ (snd ic) (snd jc) + (if Nat.eqb (fst ic) (fst jc) then ridge else 0)) C) (0%nat, []) []) by lia.
    rewrite (nth_map_in (fun jc => dotQ (snd (nth j C (0%nat, []))) (snd jc) + (if Nat.eqb (fst (nth j C (0%nat, []))) (fst jc) then ridge else 0)) (0%nat, []) 0) by lia.
    unfold C. rewrite !combine_seq_nth by assumption. cbn [fst snd].
    rewrite (dotQ_bigsum (col 0 j Z) (col 0 l Z) n) by (now rewrite col_length).
    apply Qplus_comp; [|reflexivity]. apply bigsum_ext. intros i Hi. now rewrite !col_nth.
  Qed.

  Lemma b_entry j : (j < p)%nat -> nth j b 0 == bigsum n (fun i => z i j * nth i y 0).
  Proof.
    intros Hj. unfold b, zty. rewrite (nth_map_in (fun c => dotQ c y) [] 0) by (now rewrite transpose_length). cbv beta.
    rewrite transpose_nth by exact Hj. rewrite (dotQ_bigsum (col 0 j Z) y n) by (rewrite ?col_length; assumption).
    apply bigsum_ext. intros i Hi. now rewrite col_nth.
  Qed.

  (** the system matrix is symmetric with positive diagonal when ridge > 0 *)
  Lemma A_sym j l : (j < p)%nat -> (l < p)%nat -> nth l (nth j A []) 0 == nth j (nth l A []) 0.
  Proof.
    intros Hj Hl. rewrite !A_entry by assumption. rewrite (Nat.eqb_sym l j). apply Qplus_comp; [|reflexivity]. apply bigsum_ext. intros; ring.
  Qed.
  Lemma A_diag_pos j : 0 < ridge -> (j < p)%nat -> 0 < nth j (nth j A []) 0.
  Proof.
    intros Hr Hj. rewrite A_entry by assumption. rewrite Nat.eqb_refl.
    assert (0 <= bigsum n (fun i => z i j * z i j)) by (apply bigsum_nonneg; intros; apply sq_nonneg). lra.
  Qed.

  (** the criterion of the model in index form *)
  Lemma pls_qform u : length u = p -> pls Z y u ridge == sumQ (map sq y) + 2 * qform A b u.
  Proof.
    intros Lu. unfold pls.
    rewrite (sumQ_map2_bigsum (fun yi zi => sq (yi - dotQ zi u)) 0 [] y Z n Hy HZ).
    rewrite (sumQ_map_bigsum sq 0 u), (sumQ_map_bigsum sq 0 y), Lu, Hy.
    rewrite (qform_qfF p A b A_length A_rows b_length u Lu). unfold qfF, Rsum, sq.
    pose proof (pls_identity n p z (fun i => nth i y 0) (fun j => nth j u 0) ridge) as I. cbv zeta in I.
    rewrite (bigsum_ext n (fun i => (nth i y 0 - dotQ (nth i Z []) u) * (nth i y 0 - dotQ (nth i Z []) u))
               (fun i => (nth i y 0 - bigsum p (fun j => z i j * nth j u 0)) * (nth i y 0 - bigsum p (fun j => z i j * nth j u 0)))).
    - rewrite I. apply Qplus_comp; [reflexivity|]. apply Qmult_comp; [reflexivity|]. apply Qplus_comp; [apply Qmult_comp; [reflexivity|] | apply Qopp_comp].
      + apply bigsum_ext. intros j Hj. apply Qmult_comp; [reflexivity|]. apply bigsum_ext. intros l Hl. now rewrite A_entry.
      + apply bigsum_ext. intros j Hj. now rewrite b_entry.
    - intros i Hi. assert (E : dotQ (nth i Z []) u == bigsum p (fun j => z i j * nth j u 0)).
      { apply dotQ_bigsum; [|exact Lu]. unfold rows_len in HZr. rewrite Forall_forall in HZr. apply HZr, nth_In. lia. }
      now rewrite E.
  Qed.
End Bridge.

(** ** rrBLUPModel0.fit_numpy (one trait, ridge given): never worse than all-zero effects on the penalised criterion *)
Lemma select_length {A} : forall (mask : list bool) (l : list A), length l = length mask -> length (select mask l) = length (filter (fun x => x) mask).
Proof.
  induction mask as [|[|] m IH]; intros [|x t] L; cbn in *; try discriminate; try reflexivity; [f_equal|]; apply IH; lia.
Qed.

Theorem rr_fit1_criterion p (Zg : zmat) y ridge atol maxiter beta u :
  rows_len p Zg -> length y = length Zg -> 0 < ridge ->
  rr_fit1 p Zg y ridge atol maxiter = Some (beta, u) ->
  let mask := poly_mask p Zg in
  let Zp := map (fun r => select mask (map inject_Z r)) Zg in
  let pp := length (filter (fun x => x) mask) in
  pls Zp (center y) (select mask u) ridge <= pls Zp (center y) (repeat 0 pp) ridge.
Proof.
  intros HZ Hy Hr E mask Zp pp. unfold rr_fit1 in E. fold mask Zp pp in E.
  destruct (gauss_seidel (ztz_ridge pp Zp ridge) (zty pp Zp (center y)) atol maxiter) as [uh|] eqn:G; [|discriminate]. injection E as _ <-.
  assert (LZ : length Zp = length Zg) by (unfold Zp; now rewrite map_length).
  assert (RZ : rows_len pp Zp).
  { unfold rows_len, Zp. rewrite Forall_map. unfold rows_len in HZ. eapply Forall_impl; [|exact HZ]. cbv beta. intros r Lr.
    apply select_length. unfold mask. now rewrite map_length, poly_mask_length. }
  assert (Lc : length (center y) = length Zp) by (unfold center; now rewrite map_length, LZ).
  destruct (gauss_seidel_descent pp (ztz_ridge pp Zp ridge) (zty pp Zp (center y))
              (A_length pp Zp ridge) (A_rows pp Zp ridge) (b_length pp Zp (center y))
              (fun i j Hi Hj => A_sym (length Zp) pp Zp (center y) ridge eq_refl Lc i j Hi Hj)
              (fun i Hi => A_diag_pos (length Zp) pp Zp (center y) ridge eq_refl Lc i Hr Hi) atol maxiter uh G) as [D Lu].
  rewrite select_scatter by exact Lu.
  rewrite (pls_qform (length Zp) pp Zp (center y) ridge eq_refl RZ Lc uh Lu).
  rewrite (pls_qform (length Zp) pp Zp (center y) ridge eq_refl RZ Lc (repeat 0 pp) (repeat_length _ _)).
  rewrite (qform_zero pp _ _ (A_length pp Zp ridge) (A_rows pp Zp ridge) (b_length pp Zp (center y))). lra.
Qed.

(** with a positive ridge parameter the fit is always defined (no zero pivot) *)
Lemma rr_fit1_defined p (Zg : zmat) y ridge atol maxiter : length y = length Zg -> 0 < ridge ->
  exists beta u, rr_fit1 p Zg y ridge atol maxiter = Some (beta, u).
Proof.
  intros Hy Hr. unfold rr_fit1.
  set (mask := poly_mask p Zg). set (Zp := map (fun r => select mask (map inject_Z r)) Zg). set (pp := length (filter (fun x => x) mask)).
  assert (Lc : length (center y) = length Zp) by (unfold center, Zp; now rewrite !map_length).
  unfold gauss_seidel. rewrite diag_ok_of_pos.
  - destruct (Qltb atol (2 * atol) && negb (Nat.eqb maxiter 0)); eexists; eexists; reflexivity.
  - intros i Hi. rewrite A_length in Hi. exact (A_diag_pos (length Zp) pp Zp (center y) ridge eq_refl Lc i Hr Hi).
Qed.

(** if Gauss-Seidel stops before the iteration limit, the fitted effects solve the penalised normal equations
    (Z'Z + ridge I) u = Z'(y - mean) up to  atol * sum_{j>i} |A_ij|  in every row i *)
Theorem rr_fit1_normal_equations p (Zg : zmat) y ridge atol maxiter beta u :
  rows_len p Zg -> length y = length Zg -> 0 < ridge -> 0 < atol -> (0 < maxiter)%nat ->
  rr_fit1 p Zg y ridge atol maxiter = Some (beta, u) ->
  let mask := poly_mask p Zg in
  let Zp := map (fun r => select mask (map inject_Z r)) Zg in
  let pp := length (filter (fun x => x) mask) in
  let A := ztz_ridge pp Zp ridge in
  let b := zty pp Zp (center y) in
  exists k, (1 <= k <= maxiter)%nat /\ select mask u = iter_sweep A b k (repeat 0 pp) /\
    ((k < maxiter)%nat -> forall i, (i < pp)%nat ->
       Qabs' (nth i (residual A b (select mask u)) 0) <= atol * bigsum pp (fun j => if Nat.ltb i j then Qabs' (nth j (nth i A []) 0) else 0)).
Proof.
  intros HZ Hy Hr Hat Hmax E mask Zp pp A b. unfold rr_fit1 in E. fold mask Zp pp A b in E.
  destruct (gauss_seidel A b atol maxiter) as [uh|] eqn:G; [|discriminate]. injection E as _ <-.
  destruct (gauss_seidel_exit_residual pp A b atol maxiter uh (A_length pp Zp ridge) (A_rows pp Zp ridge) (b_length pp Zp (center y)) Hat Hmax G)
    as (k & Hk & Ek & Ck).
  assert (Lu : length uh = pp).
  { rewrite Ek. apply (iter_sweep_length pp A b (A_length pp Zp ridge) (A_rows pp Zp ridge) (b_length pp Zp (center y))); [|apply repeat_length].
    intros i Hi. assert (Lc : length (center y) = length Zp) by (unfold center, Zp; now rewrite !map_length).
    pose proof (A_diag_pos (length Zp) pp Zp (center y) ridge eq_refl Lc i Hr Hi). fold A in H. lra. }
  rewrite select_scatter by exact Lu. exists k. repeat split; try lia; assumption.
Qed.

(** "n > p" alone does not give solved normal equations: with two identical polymorphic markers (n = 5 > p = 2) and a ridge
    parameter of the size the ML step produces, the model's fit is still far from the solution when the loop is cut by its
    iteration limit (here 12 sweeps; the implementation's limit of 1000 sweeps is hit in the same way, finding C04-gs-maxiter,
    evaluated on the implementation's output in every run) *)
Lemma rr_normal_equations_refuted : exists p (Zg : zmat) y ridge atol maxiter beta u,
  (length (filter (fun x => x) (poly_mask p Zg)) < length Zg)%nat /\ 0 < ridge /\ 0 < atol /\ (0 < maxiter)%nat /\
  rr_fit1 p Zg y ridge atol maxiter = Some (beta, u) /\
  let mask := poly_mask p Zg in
  let Zp := map (fun r => select mask (map inject_Z r)) Zg in
  let pp := length (filter (fun x => x) mask) in
  resid_ok (ztz_ridge pp Zp ridge) (zty pp Zp (center y)) (select mask u) atol = false.
Proof.
  exists 2%nat, [[0;0];[1;1];[2;2];[1;1];[0;0]]%Z, [1; 5#2; 3; 1#2; -1], (1 # 131072), (1 # 100000000), 12%nat.
  eexists. eexists. split; [vm_compute; lia|]. split; [reflexivity|]. split; [reflexivity|]. split; [lia|].
  split; [vm_compute; reflexivity|]. vm_compute. reflexivity.
Qed.
