(** C10 — the availability tests [p > 0.0], [p >= 1.0] of usl_numpy / lsl_numpy on the binary64 frequency c / N are
    tests on the integer allele count (consequence of the C09 boundary theorem Lib/FloatDivProof.v). *)
From Coq Require Import PrimFloat Reals Lra.
From Flocq Require Import Core IEEE754.BinarySingleNaN IEEE754.PrimFloat.
From PV Require Import Lib.Common Lib.FloatK Lib.FloatDivProof.
From PV Require Import Model.C09_Stats Model.C10_Limits Proofs.C09_Stats.
Local Open Scope Z_scope.

(** * 1. the float tests are count tests *)
Lemma fdivZ_ge1 (c N : Z) : 0 <= c <= N -> 0 < N <= 2^53 -> (PrimFloat.leb 1%float (fdivZ c N) = true <-> c = N).
Proof.
  intros Hc HN. destruct (fdivZ_exact c N Hc HN) as [Rq Fq]. destruct B2R_one as [R1 F1].
  destruct (fdivZ_boundary c N Hc HN) as (_ & _ & _ & _ & _ & L).
  rewrite ltb_equiv, Bltb_correct in L by assumption. rewrite leb_equiv, Bleb_correct by assumption.
  rewrite Rlt_bool_iff in L. rewrite Rle_bool_iff. rewrite R1 in *.
  split.
  - intro H. destruct (Z.eq_dec c N) as [E|E]; [exact E|]. assert (c < N) by lia. apply L in H0. lra.
  - intros ->. destruct (Rlt_dec (B2R (Prim2B (fdivZ N N))) 1) as [r|r]; [apply L in r; lia | lra].
Qed.

Definition usl_cnt (u : Q) (c N : Z) : bool := if Qpos u then 0 <? c else c =? N.
Definition lsl_cnt (u : Q) (c N : Z) : bool := if Qpos u then c =? N else 0 <? c.

Lemma usl_ind_cnt u c N : 0 <= c <= N -> 0 < N <= 2^53 -> usl_ind u (afreq_f1 c N) = usl_cnt u c N.
Proof.
  intros Hc HN. unfold usl_ind, usl_cnt, afreq_f1. destruct (fdivZ_boundary c N Hc HN) as (_ & _ & _ & _ & P & _).
  pose proof (fdivZ_ge1 c N Hc HN) as G. destruct (Qpos u); apply bool_iff_eq; [rewrite P, Z.ltb_lt | rewrite G, Z.eqb_eq]; tauto.
Qed.
Lemma lsl_ind_cnt u c N : 0 <= c <= N -> 0 < N <= 2^53 -> lsl_ind u (afreq_f1 c N) = lsl_cnt u c N.
Proof.
  intros Hc HN. unfold lsl_ind, lsl_cnt, afreq_f1. destruct (fdivZ_boundary c N Hc HN) as (_ & _ & _ & _ & P & _).
  pose proof (fdivZ_ge1 c N Hc HN) as G. destruct (Qpos u); apply bool_iff_eq; [rewrite G, Z.eqb_eq | rewrite P, Z.ltb_lt]; tauto.
Qed.
