(** C03 — the kernel expressions regenerated from the source (Gen/C03_Kernel.v) are the ones the hand model uses.
    The [_model] lemmas are closed by [reflexivity] (after at most a case split on an option that both sides inspect):
    if an expression of the source changes ([>] for [>=] in get_axis, [stix + len - 1], a swapped unpacking of
    numpy.unique, [or] for [and] in is_grouped, the group array no longer the primary sort key, a dropped scalar-index
    wrap, [<=] for [<] in the membership test of the masked protocols, the mask applied to another array axis ...) the
    regenerated definition no longer unfolds to the model's and this file - hence Props/C03.vo - stops compiling.
    The [kernel_] lemmas restate the partition / dispatch theorems about the generated definitions themselves. *)
From Coq Require Import Sorted.
From PV Require Import Lib.Common Model.C03_LMat Model.C03_IndexForm Proofs.C03_LMat Gen.C03_Kernel.
Local Open Scope Z_scope.

(** * get_axis (core/util/array.py): every axis-generic method starts with it *)
Lemma k_get_axis_model axis nd :
  get_axis axis nd = if k_axis_bad axis (Z.of_nat nd) then None else Some (Z.to_nat (k_axis_ix axis (Z.of_nat nd))).
Proof. reflexivity. Qed.

(** accepted axis numbers are exactly -ndim .. ndim-1; the index is the number itself or the number + ndim *)
Lemma kernel_get_axis_range axis nd : 0 < nd ->
  (k_axis_bad axis nd = false <-> - nd <= axis < nd) /\
  (k_axis_bad axis nd = false -> 0 <= k_axis_ix axis nd < nd /\ k_axis_ix axis nd = if axis <? 0 then axis + nd else axis).
Proof.
  intros Hn. unfold k_axis_bad, k_axis_ix. split.
  - rewrite Bool.orb_false_iff, Z.leb_gt, Z.ltb_ge. lia.
  - rewrite Bool.orb_false_iff, Z.leb_gt, Z.ltb_ge. intros [H1 H2].
    destruct (axis <? 0) eqn:E.
    + apply Z.ltb_lt in E. replace (axis mod nd) with ((axis + 1 * nd) mod nd) by apply Z_mod_plus_full.
      rewrite Z.mod_small by lia. lia.
    + apply Z.ltb_ge in E. rewrite Z.mod_small by lia. lia.
Qed.

Lemma kernel_dispatch c axis :
  dispatch c (Generic axis) =
  if k_axis_bad axis (Z.of_nat (ndim c)) then None else find_kind (axs c) (Z.to_nat (k_axis_ix axis (Z.of_nat (ndim c)))) O.
Proof. unfold dispatch. rewrite k_get_axis_model. destruct (k_axis_bad axis (Z.of_nat (ndim c))); reflexivity. Qed.

(** * group_<kind>: the metadata assignment *)
Definition set_meta (j : nat) (v : list Z) (a : axst) : axst :=
  match j with
  | 0%nat => {| labs := labs a; m_name := Some v; m_stix := m_stix a; m_spix := m_spix a; m_len := m_len a |}
  | 1%nat => {| labs := labs a; m_name := m_name a; m_stix := Some v; m_spix := m_spix a; m_len := m_len a |}
  | 2%nat => {| labs := labs a; m_name := m_name a; m_stix := m_stix a; m_spix := Some v; m_len := m_len a |}
  | _ => {| labs := labs a; m_name := m_name a; m_stix := m_stix a; m_spix := m_spix a; m_len := Some v |}
  end.
(** the body of group_<kind> after the sort, parametrised by the generated unpacking table and stop-index expression:
    `<unpack targets> = numpy.unique(grp, return_index, return_counts)` then `spix = <spixf> stix len` *)
Definition k_group_meta (unpack : list nat) (spixf : Z -> Z -> Z) (a : axst) (g : nat) : axst :=
  match nth g (labs a) None with
  | None => a
  | Some l =>
      let '(nm, ix, ln) := np_unique (map (fun o => match o with Some z => z | None => 0 end) l) in
      let a1 := fold_left (fun acc jv => set_meta (fst jv) (snd jv) acc) (combine unpack [nm; ix; ln]) a in
      match m_stix a1, m_len a1 with
      | Some i, Some n => set_meta 2 (map2 spixf i n) a1
      | _, _ => a1
      end
  end.
Lemma k_taxa_group_meta_model a g : group_meta a g = k_group_meta k_taxa_unique_unpack k_taxa_spix a g.
Proof.
  unfold group_meta, k_group_meta. destruct (nth g (labs a) None); [|reflexivity].
  destruct (np_unique _) as [[nm ix] ln]. reflexivity.
Qed.
Lemma k_vrnt_group_meta_model a g : group_meta a g = k_group_meta k_vrnt_unique_unpack k_vrnt_spix a g.
Proof.
  unfold group_meta, k_group_meta. destruct (nth g (labs a) None); [|reflexivity].
  destruct (np_unique _) as [[nm ix] ln]. reflexivity.
Qed.

(** numpy.unique on a sorted label list + the generated stop-index expressions: a true contiguous partition *)
Lemma kernel_unique_partition l : StronglySorted Z.le l ->
  let '(nm, ix, ln) := np_unique l in
  partition_ok l nm ix (map2 k_taxa_spix ix ln) ln /\ partition_ok l nm ix (map2 k_vrnt_spix ix ln) ln.
Proof.
  intros H. pose proof (unique_partition l H) as P. destruct (np_unique l) as [[nm ix] ln]. split; exact P.
Qed.

(** group_<kind> as generated (unpacking table + stop-index expression) on a sorted group-label array: a true partition *)
Lemma group_meta_partition a g l : nth g (labs a) None = Some l -> StronglySorted Z.le (unsome l) -> grouped_ok (group_meta a g) g.
Proof.
  intros H S. pose proof (unique_partition (unsome l) S) as P.
  unfold grouped_ok, group_meta. rewrite H. fold (unsome l). destruct (np_unique (unsome l)) as [[nm ix] ln].
  cbn [labs m_name m_stix m_spix m_len]. rewrite H.
  exists nm, ix, (map2 Z.add ix ln), ln. repeat split; try reflexivity; apply P.
Qed.
Lemma kernel_group_meta_partition a g l : nth g (labs a) None = Some l -> StronglySorted Z.le (unsome l) ->
  grouped_ok (k_group_meta k_taxa_unique_unpack k_taxa_spix a g) g /\ grouped_ok (k_group_meta k_vrnt_unique_unpack k_vrnt_spix a g) g.
Proof.
  intros H S. split; [rewrite <- k_taxa_group_meta_model|rewrite <- k_vrnt_group_meta_model]; eapply group_meta_partition; eauto.
Qed.

(** * is_grouped_<kind> *)
Definition some_b {A} (o : option A) : bool := match o with Some _ => true | None => false end.
Lemma k_taxa_is_grouped_model a :
  is_grouped a = k_taxa_is_grouped (some_b (m_name a)) (some_b (m_stix a)) (some_b (m_spix a)) (some_b (m_len a)).
Proof. unfold is_grouped. destruct (m_name a), (m_stix a), (m_spix a), (m_len a); reflexivity. Qed.
Lemma k_vrnt_is_grouped_model a :
  is_grouped a = k_vrnt_is_grouped (some_b (m_name a)) (some_b (m_stix a)) (some_b (m_spix a)) (some_b (m_len a)).
Proof. unfold is_grouped. destruct (m_name a), (m_stix a), (m_spix a), (m_len a); reflexivity. Qed.
(** grouped = all four metadata arrays are present *)
Lemma kernel_is_grouped_all4 n s p l :
  (k_taxa_is_grouped n s p l = true <-> n = true /\ s = true /\ p = true /\ l = true) /\
  (k_vrnt_is_grouped n s p l = true <-> n = true /\ s = true /\ p = true /\ l = true).
Proof. destruct n, s, p, l; cbn; intuition congruence. Qed.

(** * lexsort_<kind>: the default keys; the group array is the last (= primary) one *)
Lemma k_taxa_skeys_model : skeys (schema_of KTaxa) = k_taxa_skeys.     Proof. reflexivity. Qed.
Lemma k_sqtaxa_skeys_model : skeys (schema_of KTaxa) = k_sqtaxa_skeys. Proof. reflexivity. Qed.
Lemma k_vrnt_skeys_model : skeys (schema_of KVrnt) = k_vrnt_skeys.     Proof. reflexivity. Qed.
Lemma k_trait_skeys_model : skeys (schema_of KTrait) = k_trait_skeys.  Proof. reflexivity. Qed.
Lemma kernel_group_key_primary :
  grp (schema_of KTaxa) = Some (last k_taxa_skeys O) /\ grp (schema_of KTaxa) = Some (last k_sqtaxa_skeys O) /\
  grp (schema_of KVrnt) = Some (last k_vrnt_skeys O).
Proof. repeat split. Qed.

(** * label precedence for a matrix-typed `values`: keyword first, else the SAME field of the matrix *)
Definition k_eff (prec : list nat) (c : cls) (k : nat) (v : operand) (j : nat) : option larr :=
  match nth j (o_kw v) None with
  | Some l => Some l
  | None => if o_ismat v then nth (nth j prec j) (labs (nth k (o_axes v) ax0)) None else None
  end.
Lemma eff_lab_kernel prec c k v j : prec = seq 0 (length prec) -> eff_lab c k v j = k_eff prec c k v j.
Proof.
  intros H. unfold eff_lab, k_eff. replace (nth j prec j) with j; [reflexivity|].
  rewrite H. destruct (Nat.lt_ge_cases j (length prec)) as [L|L].
  - now rewrite seq_nth.
  - now rewrite nth_overflow by (now rewrite seq_length).
Qed.
Lemma kernel_precedence_tables :
  Forall (fun p => p = seq 0 (nfields (schema_of KTaxa))) [k_taxa_prec_adjoin; k_taxa_prec_insert; k_taxa_prec_append; k_taxa_prec_incorp] /\
  Forall (fun p => p = seq 0 (nfields (schema_of KVrnt))) [k_vrnt_prec_adjoin; k_vrnt_prec_insert; k_vrnt_prec_append; k_vrnt_prec_incorp] /\
  Forall (fun p => p = seq 0 (nfields (schema_of KTrait))) [k_trait_prec_adjoin; k_trait_prec_insert; k_trait_prec_append; k_trait_prec_incorp].
Proof. repeat split; repeat constructor. Qed.
Lemma kernel_eff_lab c k v j :
  Forall (fun p => eff_lab c k v j = k_eff p c k v j)
    [k_taxa_prec_adjoin; k_taxa_prec_insert; k_taxa_prec_append; k_taxa_prec_incorp;
     k_vrnt_prec_adjoin; k_vrnt_prec_insert; k_vrnt_prec_append; k_vrnt_prec_incorp;
     k_trait_prec_adjoin; k_trait_prec_insert; k_trait_prec_append; k_trait_prec_incorp].
Proof. repeat constructor; apply eff_lab_kernel; reflexivity. Qed.

(** * the scalar-index wrap of insert_<kind> / incorp_<kind> *)
(** the generated statement `if <test>: obj = [obj]` turns every scalar form of an index (Python int, numpy integer scalar,
    0-d integer array) into the one-element list and leaves every other form (slice, list, tuple, range, 1-d array, mask)
    as it is - in particular its test fires on no form whose wrapping would not be an index *)
Definition wraps (g : bool -> bool -> bool -> bool -> Z -> objarg -> option objarg) : Prop :=
  forall f o, ships f o = true -> on_form g f o = Some (wrap_scalar o).
Lemma kernel_wraps :
  Forall wraps [k_taxa_wrap_insert; k_taxa_wrap_incorp; k_vrnt_wrap_insert; k_vrnt_wrap_incorp; k_trait_wrap_insert; k_trait_wrap_incorp].
Proof.
  repeat constructor; intros f o H; destruct o, f as [| |[|[|nd]] [|]|]; try discriminate H; reflexivity.
Qed.
(** numpy.insert as it is ([old_op_insert]) on a wrapped index is the model's insert on the index itself *)
Lemma raw_insert_wrapped c s k o v : old_op_insert c s k (wrap_scalar o) v = op_insert c s k o v.
Proof.
  assert (G : forall o', (forall d, scalar_free o' d) -> old_op_insert c s k o' v = op_insert c s k o' v).
  { intros o' F. unfold old_op_insert, op_insert. now rewrite old_np_insert_t_general by apply F. }
  destruct o as [i| | |]; cbn [wrap_scalar]; try (apply G; intros d; exact I).
  rewrite G by (intros d; exact I). symmetry. apply insert_scalar_as_list.
Qed.
Lemma wraps_insert g c s k f o v : wraps g -> ships f o = true -> src_insert g c s k f o v = op_insert c s k o v.
Proof. intros W H. unfold src_insert. rewrite (W f o H). apply raw_insert_wrapped. Qed.
Lemma wraps_incorp g c s k f o v : wraps g -> ships f o = true -> src_incorp g c s k f o v = op_incorp c s k o v.
Proof.
  intros W H. unfold src_incorp. rewrite (W f o H). destruct o as [i| | |]; try reflexivity;
  cbn [wrap_scalar]; symmetry; apply incorp_scalar_as_list.
Qed.
(** the model's insert/incorp (which never see a scalar handed to numpy.insert) are the source's: wrap under the generated
    test, then numpy.insert as it is - for every form in which an index can arrive *)
Lemma kernel_insert_scalar c s k f o v : ships f o = true ->
  src_insert k_taxa_wrap_insert c s k f o v = op_insert c s k o v /\ src_insert k_vrnt_wrap_insert c s k f o v = op_insert c s k o v /\
  src_insert k_trait_wrap_insert c s k f o v = op_insert c s k o v /\ src_incorp k_taxa_wrap_incorp c s k f o v = op_incorp c s k o v /\
  src_incorp k_vrnt_wrap_incorp c s k f o v = op_incorp c s k o v /\ src_incorp k_trait_wrap_incorp c s k f o v = op_incorp c s k o v.
Proof.
  intros H. pose proof kernel_wraps as W. repeat (inversion W as [|? ? ?W0 W']; subst; clear W; rename W' into W).
  repeat split; (apply wraps_insert || apply wraps_incorp); assumption.
Qed.
(** every scalar form is shipped as [OInt] and every [OInt] has the three scalar forms: the hypothesis is met *)
Lemma ships_scalar_forms i : ships FPyInt (OInt i) = true /\ ships FNpInt (OInt i) = true /\ ships (FArr 0 true) (OInt i) = true.
Proof. repeat split. Qed.

(** FORMER code (before the repair of C03-zero-dim-index-insert-moveaxis): the test `isinstance(obj, (int, numpy.integer))`
    was right on every form but the 0-d integer array, which it let through to numpy.insert as a scalar *)
Lemma old_wrap_other_forms f o : ships f o = true -> f <> FArr 0 true -> on_form old_wrap f o = Some (wrap_scalar o).
Proof.
  intros H N. destruct o, f as [| |[|[|nd]] [|]|]; try discriminate H; try reflexivity; exfalso; apply N; reflexivity.
Qed.
Lemma old_wrap_not_wraps : ~ wraps old_wrap.
Proof. intros W. specialize (W (FArr 0 true) (OInt 1) eq_refl). discriminate W. Qed.
(** regression witness: the 0-d index 1 on the variant axis (array axis 1) of the 2 x 3 witness matrix.  The current source
    inserts the block as the index list [1] does; the former code inserted it transposed - same shape, same label arrays *)
Lemma old_zero_dim_insert_witness :
  ships (FArr 0 true) (OInt 1) = true /\
  on_form k_vrnt_wrap_insert (FArr 0 true) (OInt 1) = Some (OList [1]) /\ on_form old_wrap (FArr 0 true) (OInt 1) = Some (OInt 1) /\
  exists s1 s2, src_insert k_vrnt_wrap_insert cDenseTaxaVariantMatrix w1_s 1 (FArr 0 true) (OInt 1) w1_v = OK s1 /\
                op_insert cDenseTaxaVariantMatrix w1_s 1 (OList [1]) w1_v = OK s1 /\
                src_insert old_wrap cDenseTaxaVariantMatrix w1_s 1 (FArr 0 true) (OInt 1) w1_v = OK s2 /\
                shape s1 = shape s2 /\ axes s1 = axes s2 /\ data s1 <> data s2 /\
                data s1 = T2 [[0; 5; 6; 1; 2]; [10; 15; 16; 11; 12]] /\ data s2 = T2 [[0; 5; 15; 1; 2]; [10; 6; 16; 11; 12]].
Proof.
  split; [reflexivity|]. split; [reflexivity|]. split; [reflexivity|].
  eexists. eexists. split; [vm_compute; reflexivity|]. split; [vm_compute; reflexivity|]. split; [vm_compute; reflexivity|].
  split; [reflexivity|]. split; [reflexivity|]. split; [|split; vm_compute; reflexivity].
  vm_compute. intros H. discriminate H.
Qed.

(** * masked genotyping protocols *)
(** group metadata after masking, parametrised by the generated membership test, keep test and start-index expression *)
Definition k_mask_meta (inrange : Z -> Z -> Z -> bool) (keep : Z -> bool) (stixf : Z -> Z -> Z) (a : axst) (kept : list nat) : axst :=
  match m_name a, m_stix a, m_spix a, m_len a with
  | Some nm, Some st0, Some sp0, Some _ =>
      let ln := map2 (fun a0 b0 => count_if (fun p => inrange (Z.of_nat p) a0 b0) kept) st0 sp0 in
      let nm' := map snd (filter (fun q => keep (fst q)) (combine ln nm)) in
      let ln' := filter keep ln in
      let sp' := cumsum ln' in
      {| labs := labs a; m_name := Some nm'; m_stix := Some (map2 stixf sp' ln'); m_spix := Some sp'; m_len := Some ln' |}
  | _, _, _, _ => ungrouped a
  end.
Lemma k_mp_mask_meta_model a kept : mask_meta a kept = k_mask_meta k_mp_inrange k_mp_keep k_mp_stix a kept.
Proof. reflexivity. Qed.
Lemma k_mu_mask_meta_model a kept : mask_meta a kept = k_mask_meta k_mu_inrange k_mu_keep k_mu_stix a kept.
Proof. reflexivity. Qed.

(** the whole masked protocol, parametrised by the generated kernels: inversion [maskf], the array axis the mask
    slices [axis], the kept-position list [masknz] (from the local, possibly inverted mask), the metadata rebuild [mm] *)
Definition k_genotype (phased : bool) (maskf : bool -> bool -> bool) (axis : nat)
    (masknz : option (list bool) -> nat -> list nat) (mm : axst -> list nat -> axst) (inv : bool) (s : st) : res st :=
  let tx := ax_of s 1 in let vr := ax_of s 2 in
  let nv := nth 2 (shape s) O in
  let mask := nth 8 (labs vr) None in
  let kept := masknz (option_map (map (fun o => maskf inv (lab_true o))) mask) nv in
  let vlabs := match mask with
               | Some m => map (fun o => match o with Some l => if Nat.eqb (length l) (length m) then Some (Some (pick kept l)) else None
                                                | None => Some None end) (labs vr)
               | None => map Some (labs vr) end in
  match mapM (fun x => x) vlabs with None => Err | Some vl =>
    if match mask with Some m => Nat.eqb (length m) nv | None => true end then
      let vr' := if is_grouped vr then mm (with_labs vr vl) kept else ungrouped (with_labs vr vl) in
      if phased then
        let t := match mask with Some _ => t_pick axis kept (data s) | None => data s end in
        construct cDensePhasedGenotypeMatrix (upd axis (length kept) (shape s)) t [ax_of s 0; tx; vr']
      else
        let t0 := sum_phase (shape s) (data s) in
        let t := match mask with Some _ => t_pick axis kept t0 | None => t0 end in
        construct cDenseGenotypeMatrix (upd axis (length kept) (tl (shape s))) t [tx; vr']
    else Err end.
Lemma k_mp_genotype_model inv s :
  op_genotype (GMaskedPhased inv) s =
  k_genotype true k_mp_mask k_mp_mask_axis k_mp_masknz (k_mask_meta k_mp_inrange k_mp_keep k_mp_stix) inv s.
Proof. unfold op_genotype, k_genotype. destruct (nth 8 (labs (ax_of s 2)) None); reflexivity. Qed.
Lemma k_mu_genotype_model inv s :
  op_genotype (GMaskedUnphased inv) s =
  k_genotype false k_mu_mask k_mu_mask_axis k_mu_masknz (k_mask_meta k_mu_inrange k_mu_keep k_mu_stix) inv s.
Proof. unfold op_genotype, k_genotype. destruct (nth 8 (labs (ax_of s 2)) None); reflexivity. Qed.
(** all nine variant label arrays are sliced by the mask (the model slices every array of the axis) *)
Lemma k_sliced_model : k_mp_sliced = seq 0 (nfields (schema_of KVrnt)) /\ k_mu_sliced = seq 0 (nfields (schema_of KVrnt)).
Proof. split; reflexivity. Qed.

Lemma kernel_mask_meta_partition (a : axst) (labs' : list (option larr)) (l : larr) nm ix sp ln (m : list bool) g :
  m_name a = Some nm -> m_stix a = Some ix -> m_spix a = Some sp -> m_len a = Some ln ->
  partition_ok (unsome l) nm ix sp ln -> length m = length l -> nth g labs' None = Some (pick (mask_positions m) l) ->
  grouped_ok (k_mask_meta k_mp_inrange k_mp_keep k_mp_stix (with_labs a labs') (mask_positions m)) g /\
  grouped_ok (k_mask_meta k_mu_inrange k_mu_keep k_mu_stix (with_labs a labs') (mask_positions m)) g.
Proof.
  intros H1 H2 H3 H4 P Hm Hl. pose proof (mask_meta_partition a labs' l nm ix sp ln m g H1 H2 H3 H4 P Hm Hl) as Q.
  split; [rewrite <- k_mp_mask_meta_model|rewrite <- k_mu_mask_meta_model]; exact Q.
Qed.
Lemma kernel_genotype_meta_inv inv s s' : length (axes s) = 3%nat ->
  (forall l, nth 0 (labs (ax_of s 2)) None = Some l -> length l = nth 2 (shape s) O) ->
  meta_ok cDensePhasedGenotypeMatrix s ->
  (k_genotype true k_mp_mask k_mp_mask_axis k_mp_masknz (k_mask_meta k_mp_inrange k_mp_keep k_mp_stix) inv s = OK s' ->
     meta_ok cDensePhasedGenotypeMatrix s') /\
  (k_genotype false k_mu_mask k_mu_mask_axis k_mu_masknz (k_mask_meta k_mu_inrange k_mu_keep k_mu_stix) inv s = OK s' ->
     meta_ok cDenseGenotypeMatrix s').
Proof.
  intros Hax Hlen M. split; intros H.
  - rewrite <- k_mp_genotype_model in H. exact (genotype_meta_inv (GMaskedPhased inv) s s' Hax Hlen M H).
  - rewrite <- k_mu_genotype_model in H. exact (genotype_meta_inv (GMaskedUnphased inv) s s' Hax Hlen M H).
Qed.

(** * square-taxa adjoin / append: extents and block slices *)
Lemma k_sq_extent_model n0 n1 rest t k0 k1 vrest v :
  snd (blockdiag (n0 :: n1 :: rest) t (k0 :: k1 :: vrest) v) =
    Z.to_nat (k_sq_adjoin_extent (Z.of_nat n0) (Z.of_nat k0)) :: Z.to_nat (k_sq_adjoin_extent (Z.of_nat n1) (Z.of_nat k1)) :: rest /\
  snd (blockdiag (n0 :: n1 :: rest) t (k0 :: k1 :: vrest) v) =
    Z.to_nat (k_sq_append_extent (Z.of_nat n0) (Z.of_nat k0)) :: Z.to_nat (k_sq_append_extent (Z.of_nat n1) (Z.of_nat k1)) :: rest.
Proof.
  cbn [blockdiag snd]. unfold k_sq_adjoin_extent, k_sq_append_extent. rewrite <- !Nat2Z.inj_add, !Nat2Z.id. split; reflexivity.
Qed.
(** the old block occupies [0, m), the new block [m, m + v) on each square axis: contiguous, disjoint, of the operands'
    sizes, and together the whole new extent (the rest holds the fill value) *)
Definition blocks_ok (ext lo1 hi1 lo2 hi2 : Z -> Z -> Z) : Prop :=
  forall m v, 0 <= m -> 0 <= v ->
    let tot := ext m v in
    lo1 m tot = 0 /\ hi1 m tot - lo1 m tot = m /\ lo2 m tot = hi1 m tot /\ hi2 m tot - lo2 m tot = v /\ hi2 m tot = tot.
Lemma kernel_square_blocks :
  blocks_ok k_sq_adjoin_extent k_sq_adjoin_self_lo k_sq_adjoin_self_hi k_sq_adjoin_vals_lo k_sq_adjoin_vals_hi /\
  blocks_ok k_sq_append_extent k_sq_append_self_lo k_sq_append_self_hi k_sq_append_vals_lo k_sq_append_vals_hi.
Proof.
  split; intros m v Hm Hv; cbv beta zeta delta
    [k_sq_adjoin_extent k_sq_adjoin_self_lo k_sq_adjoin_self_hi k_sq_adjoin_vals_lo k_sq_adjoin_vals_hi
     k_sq_append_extent k_sq_append_self_lo k_sq_append_self_hi k_sq_append_vals_lo k_sq_append_vals_hi]; lia.
Qed.
