(** C07 - the multi-objective choice and the place of ndset_wt: the weight multiplies the OUTPUT of the transformation of the
    front.  Lemmas about Model/C07_Config.v (argmax, mo_index, mo_choice, select_mo) and the kernel programs assembled from the
    source (Model/C07_KernelProg.v):
      - the choice depends on the weight through its sign only (any two weights of one sign choose the same point);
      - a weight applied to the INPUT of the transformation chooses another point (witness by computation). *)
From Coq Require Import List QArith Qminmax Bool Arith.
Import ListNotations.
From PV Require Import Lib.Common Model.C17_Sampling Model.C07_Config Gen.C07_Kernel Model.C07_KernelProg Proofs.C07_Kernel.
From Coq Require Import Lqa Lia.
Open Scope Q_scope.

Lemma argmax_from_ext : forall (f g : Q -> Q) l best bi i,
  (forall x y, Qle_bool (f x) (f y) = Qle_bool (g x) (g y)) ->
  argmax_from (f best) bi i (map f l) = argmax_from (g best) bi i (map g l).
Proof.
  intros f g l. induction l as [|x t IH]; intros best bi i H; [reflexivity|].
  cbn [map argmax_from]. rewrite (H x best). destruct (Qle_bool (g x) (g best)); now apply IH.
Qed.

Lemma argmax_map_ext : forall (f g : Q -> Q) l,
  (forall x y, Qle_bool (f x) (f y) = Qle_bool (g x) (g y)) -> argmax (map f l) = argmax (map g l).
Proof.
  intros f g [|x t] H; [reflexivity|]. cbn [map argmax]. f_equal. now apply argmax_from_ext.
Qed.

Lemma Qle_bool_ext : forall a b c d : Q, (a <= b <-> c <= d) -> Qle_bool a b = Qle_bool c d.
Proof.
  intros a b c d H. destruct (Qle_bool a b) eqn:E1, (Qle_bool c d) eqn:E2; try reflexivity.
  - apply Qle_bool_iff in E1. apply H in E1. apply Qle_bool_iff in E1. congruence.
  - apply Qle_bool_iff in E2. apply H in E2. apply Qle_bool_iff in E2. congruence.
Qed.

Lemma Qmult_le_pos : forall w x y : Q, 0 < w -> (w * x <= w * y <-> x <= y).
Proof. intros w x y Hw. now apply Qmult_le_l. Qed.

Lemma Qmult_le_neg : forall w x y : Q, w < 0 -> (w * x <= w * y <-> y <= x).
Proof.
  intros w x y Hw. assert (Hn : 0 < - w) by lra.
  rewrite <- (Qmult_le_l y x (- w) Hn). split; intros H; lra.
Qed.

Lemma same_sign_cases : forall w w' : Q, 0 < w * w' -> (0 < w /\ 0 < w') \/ (w < 0 /\ w' < 0).
Proof.
  intros w w' H.
  destruct (Qlt_le_dec 0 w) as [Hw|Hw]; destruct (Qlt_le_dec 0 w') as [Hw'|Hw'].
  - now left.
  - exfalso. assert (w * w' <= 0) by nra. lra.
  - exfalso. assert (w * w' <= 0) by nra. lra.
  - right. split.
    + destruct (Qeq_dec w 0) as [E|E]; [exfalso; rewrite E in H; lra | ]. destruct (Qle_lt_or_eq _ _ Hw); [assumption | contradiction].
    + destruct (Qeq_dec w' 0) as [E|E]; [exfalso; rewrite E in H; lra | ]. destruct (Qle_lt_or_eq _ _ Hw'); [assumption | contradiction].
Qed.

Lemma Qmult_cmp_same_sign : forall w w' x y : Q, 0 < w * w' -> Qle_bool (w * x) (w * y) = Qle_bool (w' * x) (w' * y).
Proof.
  intros w w' x y H. apply Qle_bool_ext.
  destruct (same_sign_cases w w' H) as [[Hw Hw']|[Hw Hw']].
  - rewrite (Qmult_le_pos w x y Hw), (Qmult_le_pos w' x y Hw'). tauto.
  - rewrite (Qmult_le_neg w x y Hw), (Qmult_le_neg w' x y Hw'). tauto.
Qed.

(** the index the protocol picks depends on ndset_wt through its sign only *)
Theorem mo_index_weight_sign_only : forall (wt wt' : Q) trans front,
  0 < wt * wt' -> mo_index wt trans front = mo_index wt' trans front.
Proof.
  intros wt wt' trans front H. unfold mo_index. apply argmax_map_ext. intros x y. now apply Qmult_cmp_same_sign.
Qed.

Theorem mo_choice_weight_sign_only : forall D (wt wt' : Q) trans front (decns : list D),
  0 < wt * wt' -> mo_choice wt trans front decns = mo_choice wt' trans front decns.
Proof. intros D wt wt' trans front decns H. unfold mo_choice. now rewrite (mo_index_weight_sign_only wt wt' trans front H). Qed.

Theorem select_mo_weight_sign_only : forall D C (wt wt' : Q) trans front (decns : list D) (cfg : D -> option C),
  0 < wt * wt' -> select_mo wt trans front decns cfg = select_mo wt' trans front decns cfg.
Proof. intros D C wt wt' trans front decns cfg H. unfold select_mo. now rewrite (mo_choice_weight_sign_only D wt wt' trans front decns H). Qed.

(** the same about the programs assembled from the kernel expressions of all eight select() methods *)
Theorem kselect_mo_weight_sign_only : forall D C (wt wt' : Q) trans front (decns : list D) (cfg : D -> option C),
  0 < wt * wt' ->
  kselect_mo (@k_sel_subset_pick _) k_sel_subset_score k_sel_subset_mo_row wt trans front decns cfg
    = kselect_mo (@k_sel_subset_pick _) k_sel_subset_score k_sel_subset_mo_row wt' trans front decns cfg /\
  kselect_mo (@k_sel_real_pick _) k_sel_real_score k_sel_real_mo_row wt trans front decns cfg
    = kselect_mo (@k_sel_real_pick _) k_sel_real_score k_sel_real_mo_row wt' trans front decns cfg /\
  kselect_mo (@k_sel_integer_pick _) k_sel_integer_score k_sel_integer_mo_row wt trans front decns cfg
    = kselect_mo (@k_sel_integer_pick _) k_sel_integer_score k_sel_integer_mo_row wt' trans front decns cfg /\
  kselect_mo (@k_sel_binary_pick _) k_sel_binary_score k_sel_binary_mo_row wt trans front decns cfg
    = kselect_mo (@k_sel_binary_pick _) k_sel_binary_score k_sel_binary_mo_row wt' trans front decns cfg /\
  kselect_mo (@k_sel_mate_pick _) k_sel_mate_score k_sel_mate_mo_row wt trans front decns cfg
    = kselect_mo (@k_sel_mate_pick _) k_sel_mate_score k_sel_mate_mo_row wt' trans front decns cfg /\
  kselect_mo (@k_sel_imate_pick _) k_sel_imate_score k_sel_imate_mo_row wt trans front decns cfg
    = kselect_mo (@k_sel_imate_pick _) k_sel_imate_score k_sel_imate_mo_row wt' trans front decns cfg /\
  kselect_mo (@k_sel_bmate_pick _) k_sel_bmate_score k_sel_bmate_mo_row wt trans front decns cfg
    = kselect_mo (@k_sel_bmate_pick _) k_sel_bmate_score k_sel_bmate_mo_row wt' trans front decns cfg /\
  kselect_mo (@k_sel_rmate_pick _) k_sel_rmate_score k_sel_rmate_mo_row wt trans front decns cfg
    = kselect_mo (@k_sel_rmate_pick _) k_sel_rmate_score k_sel_rmate_mo_row wt' trans front decns cfg.
Proof.
  intros D C wt wt' trans front decns cfg H.
  pose proof (select_mo_weight_sign_only D C wt wt' trans front decns cfg H) as E.
  repeat apply conj.
  - now rewrite !kselect_mo_subset_model.
  - now rewrite !kselect_mo_real_model.
  - now rewrite !kselect_mo_integer_model.
  - now rewrite !kselect_mo_binary_model.
  - now rewrite !kselect_mo_mate_model.
  - now rewrite !kselect_mo_imate_model.
  - now rewrite !kselect_mo_bmate_model.
  - now rewrite !kselect_mo_rmate_model.
Qed.

(** a weight applied to the INPUT of the transformation is another protocol: for the squared distance to the reference point 1 and
    the two-point front 0, 3 the weight -1 outside picks the point nearest to the reference (row 0), inside it picks the point whose
    mirror image is farthest from it (row 1) *)
Definition sqdist1 (front : list (list Q)) : list Q := map (fun r => (nth 0 r 0 - 1) * (nth 0 r 0 - 1)) front.
Definition weight_inside (wt : Q) (trans : list (list Q) -> list Q) (front : list (list Q)) : list Q := trans (map (map (Qmult wt)) front).

Theorem mo_weight_inside_differs : exists (wt : Q) trans front (decns : list Z),
  mo_choice wt trans front decns = Some 10%Z /\ mo_choice 1 (weight_inside wt trans) front decns = Some 11%Z.
Proof. exists (-1 # 1), sqdist1, [[0]; [3 # 1]], [10%Z; 11%Z]. split; vm_compute; reflexivity. Qed.

(** also for a positive weight other than 1 (the transformation is not positively homogeneous) *)
Theorem mo_weight_inside_differs_pos : exists (wt : Q) trans front (decns : list Z),
  0 < wt /\ mo_choice wt trans front decns = Some 11%Z /\ mo_choice 1 (weight_inside wt trans) front decns = Some 10%Z.
Proof. exists (1 # 4), sqdist1, [[0]; [3 # 1]], [10%Z; 11%Z]. split; [reflexivity|]. split; vm_compute; reflexivity. Qed.

Print Assumptions kselect_mo_weight_sign_only.
Print Assumptions mo_weight_inside_differs.
