(** C07 — the two further mate configurations (BinaryMateSelectionConfiguration, RealMateSelectionConfiguration): candidate crosses
    marked by a 0/1 vector are used evenly, candidate crosses weighted by a contribution vector are used the floor or the ceiling
    of their proportional share; only rows of the cross map that the decision selects appear. *)
From Coq Require Import Permutation Sorting.Sorted Qround PrimFloat.
From PV Require Import Lib.Common Lib.FloatK Model.C17_Sampling Proofs.C17_Sampling Model.C07_Config
  Proofs.C07_LocalOpt Proofs.C07_Tail Proofs.C07_Sort Proofs.C07_Tiled Proofs.C07_RealMateMo.
Local Open Scope nat_scope.

(** a 0/1 vector: the repeated options are the selected positions, each once *)
Lemma rep_from_binary_NoDup : forall x s, is_binary x = true -> NoDup (rep_from s x).
Proof.
  induction x as [|c t IH]; intros s Hb; cbn [rep_from]; [constructor|].
  unfold is_binary in Hb. cbn [forallb] in Hb. apply andb_prop in Hb as [Hc Ht].
  assert (Ht' : is_binary t = true) by exact Ht.
  apply orb_true_iff in Hc as [E|E]; apply Z.eqb_eq in E; subst c; cbn [Z.to_nat repeat app].
  - now apply IH.
  - change (Z.to_nat 1) with 1. cbn [repeat app]. constructor; [|now apply IH].
    intros Hin. apply rep_from_In_gen in Hin as (j & Hj & _). apply Nat2Z.inj in Hj. lia.
Qed.

Lemma is_binary_nonneg x : is_binary x = true -> forall c, In c x -> (0 <= c)%Z.
Proof.
  intros Hb c Hc. unfold is_binary in Hb. rewrite forallb_forall in Hb. specialize (Hb c Hc).
  apply orb_true_iff in Hb as [E|E]; apply Z.eqb_eq in E; lia.
Qed.
Lemma rep_options_binary x : is_binary x = true -> rep_options x = Some (rep_from 0 x).
Proof.
  intros Hb. unfold rep_options. destruct (existsb (fun c => (c <? 0)%Z) x) eqn:E; [|reflexivity].
  apply existsb_exists in E as (c & Hc & L). apply Z.ltb_lt in L. pose proof (is_binary_nonneg x Hb c Hc). lia.
Qed.
Lemma cfg_binary_mate_is_mate nc np x xmap choice perm perm2 : is_binary x = true ->
  cfg_binary_mate nc np x xmap choice perm perm2 = cfg_mate nc np (rep_from 0 x) xmap choice perm perm2.
Proof. intros Hb. unfold cfg_binary_mate, old_cfg_integer_mate, cfg_mate. now rewrite (rep_options_binary x Hb). Qed.

(** BinaryMateSelectionConfiguration on a 0/1 vector: only candidate crosses marked 1 are used, each the floor or the
    ceiling of ncross/k times (k marked crosses) *)
Theorem cfg_binary_mate_spec : forall nc np x xmap choice perm perm2 rows,
  let opts := rep_from 0 x in
  is_binary x = true -> 0 < length opts ->
  NoDup choice -> Forall (fun p => p < length opts) choice -> length choice = nc mod length opts ->
  Permutation perm (seq 0 nc) -> Permutation perm2 (seq 0 nc) ->
  cfg_binary_mate nc np x xmap choice perm perm2 = Some rows ->
  exists ds, xmap_rows xmap ds = Some rows /\ length rows = nc /\ length ds = nc /\
    Forall (fun r => length r = np) rows /\
    (forall d, In d ds -> exists i, d = Z.of_nat i /\ i < length x /\ nth i x 0%Z = 1%Z) /\
    (forall i, i < length x -> nth i x 0%Z = 1%Z -> nc / length opts <= count_z (Z.of_nat i) ds <= nc / length opts + 1) /\
    (forall i, i < length x -> nth i x 0%Z = 0%Z -> count_z (Z.of_nat i) ds = 0).
Proof.
  intros nc np x xmap choice perm perm2 rows opts Hb Hn Hnd Hr Hl Hperm Hperm2 H.
  rewrite (cfg_binary_mate_is_mate _ _ _ _ _ _ _ Hb) in H. fold opts in H.
  destruct (cfg_mate_spec nc np opts xmap choice perm perm2 rows Hn (rep_from_binary_NoDup x 0 Hb) Hnd Hr Hl Hperm Hperm2 H)
    as (ds & Hrows & Lrows & Lds & Frows & Hin & _ & Hcnt).
  exists ds. split; [exact Hrows|]. split; [exact Lrows|]. split; [exact Lds|]. split; [exact Frows|].
  assert (Hone : forall i, i < length x -> (0 < nth i x 0)%Z -> nth i x 0%Z = 1%Z).
  { intros i Hi Hp. destruct (is_binary_nth x i Hb Hi) as [E|E]; [lia | exact E]. }
  split; [|split].
  - intros d Hd. destruct (rep_from_In x d (Hin d Hd)) as (i & E & Hi & Hp). exists i. split; [exact E|]. split; [exact Hi|]. now apply Hone.
  - intros i Hi E1.
    assert (C : count_z (Z.of_nat i) opts = 1).
    { unfold opts. rewrite (rep_from_count x i (is_binary_nonneg x Hb) Hi), E1. reflexivity. }
    assert (Hio : In (Z.of_nat i) opts).
    { apply (count_occ_In Z.eq_dec). unfold count_z in C. lia. }
    destruct (In_nth _ _ 0%Z Hio) as (j & Hj & Ej). destruct (Hcnt j Hj) as [Cj Bj]. rewrite Ej in Cj. lia.
  - intros i Hi E0.
    assert (C : count_z (Z.of_nat i) opts = 0).
    { unfold opts. rewrite (rep_from_count x i (is_binary_nonneg x Hb) Hi), E0. reflexivity. }
    unfold count_z in *. apply (count_occ_not_In Z.eq_dec). intros Hd. apply Hin in Hd.
    apply (count_occ_In Z.eq_dec) in Hd. lia.
Qed.

(** RealMateSelectionConfiguration (ideal pointers): candidate cross i is used the floor or the ceiling of ncross*x_i/sum(x) times *)
Theorem cfg_real_mate_q_spec : forall nc np (p : list Q) xmap order off perm perm2 rows,
  Forall (fun x => 0 <= x)%Q p -> (0 < sumQ p)%Q -> Permutation order (seq 0 (length p)) ->
  nonincr (gather 0%Q p order) = true ->
  (0 <= off)%Q -> (off < sumQ p / inject_Z (Z.of_nat nc))%Q -> Permutation perm (seq 0 nc) -> Permutation perm2 (seq 0 nc) ->
  cfg_real_mate_q nc np p xmap order off perm perm2 = Some rows ->
  exists ds, xmap_rows xmap ds = Some rows /\ length rows = nc /\ length ds = nc /\
    Forall (fun r => length r = np) rows /\
    (forall d, In d ds -> exists i, d = Z.of_nat i /\ i < length p /\ ~ (nth i p 0 == 0)%Q) /\
    (forall i, i < length p ->
       (Qfloor (nth i p 0 * inject_Z (Z.of_nat nc) / sumQ p)%Q <= Z.of_nat (count_z (Z.of_nat i) ds)
        <= Qceiling (nth i p 0 * inject_Z (Z.of_nat nc) / sumQ p)%Q)%Z).
Proof.
  intros nc np p xmap order off perm perm2 rows Hp Htot Hord Hsort Hoff0 Hoff Hperm Hperm2 H.
  unfold cfg_real_mate_q in H. destruct (shape_ok nc np && xmap_ok np xmap) eqn:Hs; [|discriminate].
  apply andb_prop in Hs as [_ Hxm].
  destruct (sus_q_spec p order nc off perm Hp Htot Hord Hsort (fun _ => conj Hoff0 Hoff) Hperm) as (sel & Hsel & Lsel & Hcnt).
  destruct (sus_q_members p order nc off perm sel Hperm Hsel) as (_ & _ & Hmem).
  rewrite Hsel in H.
  assert (Lperm2 : length perm2 = nc) by (rewrite (Permutation_length Hperm2); apply seq_length).
  rewrite Lperm2, Nat.eqb_refl in H.
  assert (Lz : length (zs sel) = nc) by (rewrite zs_length; exact Lsel).
  assert (Pds : Permutation (permute 0%Z perm2 (zs sel)) (zs sel)) by (apply permute_Permutation; rewrite Lz; exact Hperm2).
  destruct (xmap_rows_spec _ _ _ H) as [Lrows Irows].
  exists (permute 0%Z perm2 (zs sel)). split; [exact H|]. split; [now rewrite Lrows, permute_length|].
  split; [now rewrite permute_length|]. split; [|split].
  - apply Forall_forall. intros r Hr'. destruct (Irows r Hr') as (d & _ & Ed). apply xmap_row_In in Ed.
    unfold xmap_ok in Hxm. rewrite forallb_forall in Hxm. apply Nat.eqb_eq. now apply Hxm.
  - intros v Hv. apply (Permutation_in _ Pds) in Hv. apply In_zs in Hv as (i & E & Hi). exists i.
    assert (Ri : i < length p).
    { specialize (Hmem i Hi). apply (Permutation_in _ Hord) in Hmem. apply in_seq in Hmem. lia. }
    split; [exact E|]. split; [exact Ri|]. intros Hz.
    destruct (Hcnt i Ri) as [_ H0]. specialize (H0 Hz). unfold count_nat in H0.
    apply (count_occ_In Nat.eq_dec) in Hi. lia.
  - intros i Hi. rewrite (count_z_Permutation _ _ _ Pds), count_zs. exact (proj1 (Hcnt i Hi)).
Qed.

Example C07_mate_ext_hyps_satisfiable :
  let xmap := [[0;1];[0;2];[1;2]]%Z in
  is_binary [1;0;1]%Z = true /\ Permutation [1;0;2] (seq 0 3) /\
  cfg_binary_mate 3 2 [1;0;1]%Z xmap [1] [1;0;2] [2;1;0] = Some [[1;2];[0;1];[1;2]]%Z /\
  cfg_real_mate_q 2 2 [1#2; 0; 1#2]%Q xmap [2;0;1] (1#4)%Q [0;1] [1;0] = Some [[0;1];[1;2]]%Z.
Proof. cbv zeta. split; [reflexivity|]. split; [apply is_perm_sound; reflexivity|]. split; vm_compute; reflexivity. Qed.

(** * UsefulnessCriterionIntegerSelection.problem: the bounds of the decision space (Model section 11).
    Repaired code: for EVERY cross design the two bounds have one entry per candidate cross and are stacked; the upper bound is
    nparent * sum(nmating) everywhere; every allocation of the design's matings (a fortiori of its ncross crosses) to the
    candidate crosses is a point of the decision space, and the space is not degenerate.
    Former code (finding C07-uc-integer-bounds-shape, fixed): the bounds could be stacked iff there was one cross. *)
Lemma np_repeat_arr_length a n : length (np_repeat_arr a n) = length a * n.
Proof. unfold np_repeat_arr. induction a as [|v t IH]; cbn [flat_map length]; [reflexivity|]. rewrite app_length, repeat_length, IH. lia. Qed.

Theorem uc_int_bounds_total : forall nc np nm nx,
  uc_int_bounds nc np nm nx = Some (repeat 0%Z nx, repeat (Z.of_nat np * sumZ nm)%Z nx).
Proof. intros nc np nm nx. unfold uc_int_bounds, np_stack2, uc_int_upper. cbv zeta. now rewrite !repeat_length, Nat.eqb_refl. Qed.

Lemma sumZ_nonneg x : Forall (fun v => 0 <= v)%Z x -> (0 <= sumZ x)%Z.
Proof. induction 1 as [|v t Hv _ IH]; cbn [sumZ fold_right]; [lia|]. unfold sumZ in IH. lia. Qed.
Lemma sumZ_bounds_member x v : Forall (fun v => 0 <= v)%Z x -> In v x -> (v <= sumZ x)%Z.
Proof.
  induction 1 as [|a t Ha Ht IH]; intros Hin; [destruct Hin|]. cbn [sumZ fold_right]. fold (sumZ t).
  pose proof (sumZ_nonneg t Ht). destruct Hin as [->|Hin]; [lia|]. specialize (IH Hin). lia.
Qed.
(** a valid per-cross array sums to at least the number of crosses *)
Lemma sumZ_pos_array nm : forallb (fun v => (0 <? v)%Z) nm = true -> (Z.of_nat (length nm) <= sumZ nm)%Z.
Proof.
  induction nm as [|v t IH]; cbn [forallb length sumZ fold_right]; [lia|]. fold (sumZ t). intros H.
  apply andb_true_iff in H as [Hv Ht]. apply Z.ltb_lt in Hv. specialize (IH Ht). lia.
Qed.

Theorem uc_int_bounds_admit_every_allocation : forall nc np nm nx b x,
  0 < np -> Forall (fun v => 0 <= v)%Z nm ->
  uc_int_bounds nc np nm nx = Some b ->
  length x = nx -> Forall (fun v => 0 <= v)%Z x -> (sumZ x <= sumZ nm)%Z ->
  in_bounds b x = true.
Proof.
  intros nc np nm nx b x Hnp Hnm Hb Lx Hx Hs. rewrite uc_int_bounds_total in Hb. injection Hb as <-.
  unfold in_bounds. cbn [fst snd]. rewrite !repeat_length, Lx, Nat.eqb_refl. cbn [andb].
  pose proof (sumZ_nonneg nm Hnm) as Snm.
  apply andb_true_iff. split; apply forallb_forall; intros [a c] Hin; cbn [fst snd]; apply Z.leb_le.
  - pose proof (in_combine_l _ _ _ _ Hin) as Ha. apply repeat_spec in Ha. subst a.
    apply in_combine_r in Hin. rewrite Forall_forall in Hx. now apply Hx.
  - pose proof (in_combine_r _ _ _ _ Hin) as Hc. apply repeat_spec in Hc. subst c.
    apply in_combine_l in Hin. pose proof (sumZ_bounds_member x a Hx Hin). nia.
Qed.

(** under the cross designs a protocol accepts: the upper bound is at least the number of crosses (so it is positive and every
    multiset of ncross candidate crosses, written as a count vector, is a point of the decision space) *)
Theorem uc_int_upper_covers_design : forall nc np nm npg,
  proto_args_ok nc np (MArray nm) npg = true ->
  (Z.of_nat nc <= sumZ nm)%Z /\ (sumZ nm <= uc_int_upper np nm)%Z /\ (0 < uc_int_upper np nm)%Z /\
  0 < np /\ Forall (fun v => 0 <= v)%Z nm.
Proof.
  intros nc np nm npg H. unfold proto_args_ok in H. apply andb_true_iff in H as [H _]. apply andb_true_iff in H as [Hs Hm].
  cbn [matpar_proto_ok] in Hm. apply andb_true_iff in Hm as [Hl Hp]. apply Nat.eqb_eq in Hl.
  unfold shape_ok in Hs. apply andb_true_iff in Hs as [Hc Hn].
  apply negb_true_iff, Nat.eqb_neq in Hc. apply negb_true_iff, Nat.eqb_neq in Hn.
  pose proof (sumZ_pos_array nm Hp) as Hsum. rewrite Hl in Hsum. unfold uc_int_upper.
  assert (HF : Forall (fun v => 0 <= v)%Z nm).
  { apply Forall_forall. intros v Hv. rewrite forallb_forall in Hp. specialize (Hp v Hv). apply Z.ltb_lt in Hp. lia. }
  repeat split; try assumption; nia.
Qed.

(** the former code *)
Theorem old_uc_int_bounds_iff : forall nc np nm nx, length nm = nc -> 0 < nx ->
  (old_uc_int_bounds nc np nm nx <> None <-> nc = 1).
Proof.
  intros nc np nm nx Hl Hx. unfold old_uc_int_bounds, np_stack2. cbv zeta. rewrite repeat_length, np_repeat_arr_length, map_length, Hl.
  destruct (Nat.eqb_spec nx (nc * nx)) as [E|N]; split; intros H; try congruence; try nia.
Qed.
Theorem old_uc_int_bounds_refuted : exists nc np nm nx,
  proto_args_ok nc np (MArray nm) (MScalar 1%Z) = true /\ 0 < nx /\ old_uc_int_bounds nc np nm nx = None /\
  uc_int_bounds nc np nm nx = Some (repeat 0%Z nx, repeat 4%Z nx).
Proof. exists 2, 2, [1;1]%Z, 3. repeat split. lia. Qed.
(** where the former code worked (one cross) the repaired code computes the same bounds *)
Theorem uc_int_bounds_agrees_with_old_on_one_cross : forall np m nx,
  old_uc_int_bounds 1 np [m] nx = uc_int_bounds 1 np [m] nx.
Proof.
  intros np m nx. rewrite uc_int_bounds_total. unfold old_uc_int_bounds, np_stack2, np_repeat_arr. cbv zeta. cbn [map flat_map sumZ fold_right].
  rewrite app_nil_r, !repeat_length, Nat.eqb_refl. repeat f_equal; lia.
Qed.

(** * object lifecycle (Model section 12) *)
Lemma session_app s0 a b : session s0 (a ++ b) = session (session s0 a) b.
Proof. apply fold_left_app. Qed.
(** whatever happened before (any initial object, any history of copies, setters, in-place writes and samplings): once the
    caller has set the decision vector, the shape and the cross map, the fields are exactly those values - nothing of the
    history survives, so every later sampling is the model's sampling of those values *)
Theorem session_last_write_wins : forall s0 hist d nc np x tail,
  Forall (fun o => match o with OpCopy | OpDeepCopy | OpSetRng | OpSample => True | _ => False end) tail ->
  session s0 (hist ++ [OpSetDecn d; OpSetShape nc np; OpSetXmap x] ++ tail) = {| st_nc := nc; st_np := np; st_decn := d; st_xmap := x |}.
Proof.
  intros s0 hist d nc np x tail Ht. rewrite !session_app. cbn [session fold_left apply_op st_nc st_np st_decn st_xmap].
  induction Ht as [|o tl Ho _ IH]; [reflexivity|]. cbn [fold_left]. destruct o; try contradiction; exact IH.
Qed.
Theorem session_state_determines_sample : forall s0 s0' h h', session s0 h = session s0' h' ->
  sample_subset (session s0 h) = sample_subset (session s0' h') /\ sample_binary (session s0 h) = sample_binary (session s0' h') /\
  sample_integer (session s0 h) = sample_integer (session s0' h') /\ sample_mate (session s0 h) = sample_mate (session s0' h') /\
  sample_integer_mate (session s0 h) = sample_integer_mate (session s0' h') /\ sample_binary_mate (session s0 h) = sample_binary_mate (session s0' h').
Proof. intros s0 s0' h h' E. rewrite E. repeat split. Qed.

Print Assumptions cfg_binary_mate_spec.
Print Assumptions cfg_real_mate_q_spec.
Print Assumptions uc_int_bounds_admit_every_allocation.
Print Assumptions uc_int_upper_covers_design.
