(** C05 — sessions, the scale law, and the expected maximum breeding value of homozygous lines.

    - a problem object that is re-used (data re-assigned through its setters or updated IN PLACE between calls) answers every
      call from the data it holds AT THAT CALL: [run] folds a history of assignments, in-place updates and calls; the answer of
      a call is [latent] of the data the history left, whatever happened earlier (this is what the lifecycle cases of the
      correspondence test against).  In particular the targets of the PAU / MOGS problems may be overwritten in place: the
      flags are computed from the array held (the former code cached them in the setter — refuted below on [old_..._stale]);
    - linear criteria are homogeneous of degree one in their table: scaling the table by any [a] scales the latent vector by
      [a], in every encoding (the exact power-of-two instances are what the scaled cases of the correspondence check);
    - the expected maximum breeding value of a line whose progeny all have the same breeding value b (a fully homozygous
      line) is b, whatever the numbers of replicates and progeny. *)
From Coq Require Import PrimFloat Permutation.
From PV Require Import Lib.Common Lib.FloatK Model.C05_Latent Model.C05_Factory Proofs.C05_Latent Proofs.C05_Avail.
Local Open Scope Q_scope.

(** * sessions *)
(** [OSet fd]: new data through the property setters; [OUpd f]: the data held are updated in place (f = [set_targets tf'] for
    a write into the target array; any other function of the data for a write into another array); [OCall d]: latentfn *)
Inductive op := OSet (fd : fdata) | OUpd (f : fdata -> fdata) | OCall (d : dec).
Definition step (n : nat) (st : fdata * list (option (list lv))) (o : op) : fdata * list (option (list lv)) :=
  match o with OSet fd => (fd, snd st) | OUpd f => (f (fst st), snd st) | OCall d => (fst st, snd st ++ [latent n (fst st) d]) end.
Definition run (n : nat) (fd0 : fdata) (ops : list op) := fold_left (step n) ops (fd0, []).
(** the data a history leaves in the object: the last assignment (the constructor's data if there is none) with the in-place
    updates made since *)
Definition last_set (fd0 : fdata) (ops : list op) : fdata := fold_left (fun fd o => match o with OSet f => f | OUpd f => f fd | OCall _ => fd end) ops fd0.

Lemma run_state n ops : forall fd0 acc, fst (fold_left (step n) ops (fd0, acc)) = last_set fd0 ops.
Proof. induction ops as [|o ops IH]; intros fd0 acc; [reflexivity|]. destruct o; cbn; apply IH. Qed.
Lemma session_call n fd0 ops d :
  snd (run n fd0 (ops ++ [OCall d])) = snd (run n fd0 ops) ++ [latent n (last_set fd0 ops) d].
Proof. unfold run. rewrite fold_left_app. cbn. rewrite run_state. reflexivity. Qed.
(** two histories that end with the same data give the same answer to the next call *)
Lemma session_history_irrelevant n fd0 fd0' ops ops' d : last_set fd0 ops = last_set fd0' ops' ->
  last (snd (run n fd0 (ops ++ [OCall d]))) None = last (snd (run n fd0' (ops' ++ [OCall d]))) None.
Proof. intros E. rewrite !session_call, !last_last, E. reflexivity. Qed.

(** * scale law of the linear criteria *)
Definition scaleM (a : Q) (M : list (list Q)) : list (list Q) := map (map (Qmult a)) M.
Lemma nth_map_Qmult a (r : list Q) j : nth j (map (Qmult a) r) 0 == a * nth j r 0.
Proof.
  revert j. induction r as [|x r IH]; intros [|j]; cbn [map nth]; try ring. apply IH.
Qed.
Lemma mget_scale a M i j : mget (scaleM a M) i j == a * mget M i j.
Proof.
  unfold mget, scaleM. revert i. induction M as [|r M IH]; intros [|i]; cbn [map nth].
  - destruct j; cbn [nth]; ring.
  - destruct j; cbn [nth]; ring.
  - apply nth_map_Qmult.
  - apply IH.
Qed.
Lemma lin_subset_scale a t M s : qleq (lin_subset t (scaleM a M) s) (map (Qmult a) (lin_subset t M s)).
Proof.
  unfold lin_subset. rewrite map_map. apply qleq_map. intros j _. rewrite !sumf_sumg.
  rewrite (sumg_ext (fun i => mget (scaleM a M) i j) (fun i => a * mget M i j)) by (intros; apply mget_scale).
  rewrite sumg_scale. unfold sumf, sumg, Qdiv. ring.
Qed.
Lemma lin_vec_scale a n t M c : qleq (lin_vec n t (scaleM a M) c) (map (Qmult a) (lin_vec n t M c)).
Proof.
  unfold lin_vec. rewrite map_map. apply qleq_map. intros j _. rewrite !sumf_sumg.
  rewrite (sumg_ext (fun i => nth i c 0 * mget (scaleM a M) i j) (fun i => a * (nth i c 0 * mget M i j))) by (intros; rewrite mget_scale; ring).
  rewrite sumg_scale. unfold sumf, sumg, Qdiv. ring.
Qed.
Definition lv_scale (a : Q) (v : lv) : lv := match v with Ex q => Ex (a * q) | Sq q => Sq (a * a * q) | OneMinus q => OneMinus q end.
Lemma lveq_scale_Ex a x y : qleq x (map (Qmult a) y) -> Forall2 lv_eq (map Ex x) (map (lv_scale a) (map Ex y)).
Proof. intros H. rewrite map_map. change (fun v => lv_scale a (Ex v)) with (fun v => Ex (a * v)). rewrite <- (map_map (Qmult a) Ex). apply lveq_Ex. exact H. Qed.
Lemma latent_lin_scale n g t M a d :
  res_eq (latent n (FLin g t (scaleM a M)) d) (omap (map (lv_scale a)) (latent n (FLin g t M) d)).
Proof.
  destruct d as [s|x]; cbn [latent].
  - destruct (is_nil s); cbn [omap res_eq]; [exact I|]. apply lveq_scale_Ex, lin_subset_scale.
  - destruct (contrib_of g x) as [c|]; cbn [omap res_eq]; [|exact I]. apply lveq_scale_Ex, lin_vec_scale.
Qed.

(** * expected maximum breeding value of a line whose progeny all have breeding value b *)
Lemma maxl_ge l x : In x l -> x <= maxl l.
Proof.
  intros H. assert (N : l <> []) by (intro E; subst; contradiction).
  pose proof (proj1 (maxl_lub l (maxl l) N) (Qle_refl _)) as F. rewrite Forall_forall in F. apply F, H.
Qed.
Lemma maxl_const l b : l <> [] -> (forall x, In x l -> x == b) -> maxl l == b.
Proof.
  intros N H. apply Qle_antisym.
  - apply (maxl_lub l b N). apply Forall_forall. intros x Hx. rewrite (H x Hx). apply Qle_refl.
  - destruct l as [|x r]; [congruence|]. rewrite <- (H x (or_introl eq_refl)). apply maxl_ge. left. reflexivity.
Qed.
Lemma embv_entry_const reps q b : reps <> [] ->
  (forall bvs, In bvs reps -> bvs <> [] /\ forall r, In r bvs -> nth q r 0 == b) -> embv_entry reps q == b.
Proof.
  intros N H. unfold embv_entry.
  assert (E : qsum (map (fun bvs => colmax bvs q) reps) == b * nq (length reps)).
  { change (qsum (map (fun bvs => colmax bvs q) reps)) with (sumg (fun bvs => colmax bvs q) reps).
    rewrite (sumg_ext (fun bvs => colmax bvs q) (fun _ => b * 1)).
    - rewrite sumg_scale, sumg_const_len. reflexivity.
    - intros bvs Hb. destruct (H bvs Hb) as [Nb Hr]. unfold colmax. rewrite maxl_const with (b := b).
      + ring.
      + destruct bvs; [congruence | discriminate].
      + intros x Hx. apply in_map_iff in Hx as (r & <- & Hr'). apply Hr, Hr'. }
  rewrite E. field. intro Z0. assert (P : 1 <= nq (length reps)) by (apply nq_pos; destruct reps; [congruence | cbn; lia]).
  rewrite Z0 in P. unfold Qle in P; cbn in P; lia.
Qed.

(** * in-place update of the target array (finding C05-tfreq-inplace-stale-flags, repaired) *)
(** a call after the targets were overwritten in place answers for the data with the NEW targets, after any history *)
Lemma tfreq_inplace_call n fd0 ops tf' d :
  snd (run n fd0 (ops ++ [OUpd (set_targets tf'); OCall d])) = snd (run n fd0 ops) ++ [latent n (set_targets tf' (last_set fd0 ops)) d].
Proof.
  change (ops ++ [OUpd (set_targets tf'); OCall d]) with (ops ++ [OUpd (set_targets tf')] ++ [OCall d]). rewrite app_assoc, session_call.
  unfold run, last_set. rewrite !fold_left_app. reflexivity.
Qed.
(** ... and that answer is the DEFINITION on the current targets, whatever the targets were when the setter ran (no relation
    between [tf_set] and [tf_now] is assumed: the former guard "no target changes its class" is gone) *)
Lemma mogs_inplace_is_definition n pl G w tf_set tf_now p t s : s <> [] -> (0 < popsize pl s <= 2^53)%Z -> geno_ok pl G s p ->
  latent n (set_targets tf_now (FMogs pl G w tf_set p t)) (DSub s) = Some (map Ex (pau_def pl G w tf_now p t s ++ pafd pl G w tf_now p t s)).
Proof.
  intros Hs HN Hg. cbn [set_targets latent]. destruct s as [|i s]; [congruence|]. cbn [is_nil]. rewrite (mogs_pau_exact pl G w tf_now p t (i :: s) HN Hg). reflexivity.
Qed.
Lemma pau_inplace_is_definition n pl G w tf_set tf_now p t s : s <> [] -> (0 < popsize pl s <= 2^53)%Z -> geno_ok pl G s p -> targets_unit tf_now p t ->
  latent n (set_targets tf_now (FPau pl G w tf_set p t)) (DSub s) = Some (map Ex (pau_def pl G w tf_now p t s)).
Proof.
  intros Hs HN Hg Ht. cbn [set_targets latent]. destruct s as [|i s]; [congruence|]. cbn [is_nil]. rewrite (pau_exact pl G w tf_now p t (i :: s) HN Hg Ht). reflexivity.
Qed.
(** regression witness about the FORMER code ([old_pau_stale] / [old_mogs_stale]: flags cached by the setter): two taxa (2,0)
    and (2,2), ploidy 2, weights 1, targets (1/2, 1/2) at the setter, first target overwritten in place by 1: the first locus is
    fixed for the wanted allele, yet it was still reported unavailable (stale "heterozygous target" flag), while the distance
    term already used the new target *)
Lemma old_tfreq_inplace_stale_refuted : exists pl G w tf_set tf_now p t s,
  old_mogs_stale pl G w tf_set tf_now p t s <> mogs_pau_code pl G w tf_now p t s ++ pafd pl G w tf_now p t s /\
  old_pau_stale pl G w tf_set tf_now p t s <> pau_code pl G w tf_now p t s /\
  latent 2 (set_targets tf_now (FMogs pl G w tf_set p t)) (DSub s) = Some (map Ex (mogs_pau_code pl G w tf_now p t s ++ pafd pl G w tf_now p t s)) /\
  latent 2 (set_targets tf_now (FPau pl G w tf_set p t)) (DSub s) = Some (map Ex (pau_code pl G w tf_now p t s)).
Proof.
  exists 2%Z, [[2; 0]; [2; 2]]%Z, [[1]; [1]], [[1 # 2]; [1 # 2]], [[1]; [1 # 2]], 2%nat, 1%nat, [0; 1]%nat.
  split; [vm_compute; discriminate|]. split; [vm_compute; discriminate|]. split; reflexivity.
Qed.
