(** C05 — sessions, the scale law, and the expected maximum breeding value of homozygous lines.

    - a problem object that is re-used (data re-assigned through its setters between calls) answers every call from the data
      it holds AT THAT CALL: [run] folds a history of assignments and calls; the answer of a call is [latent] of the last
      assignment before it, whatever happened earlier (this is what the lifecycle cases of the correspondence test against);
    - linear criteria are homogeneous of degree one in their table: scaling the table by any [a] scales the latent vector by
      [a], in every encoding (the exact power-of-two instances are what the scaled cases of the correspondence check);
    - the expected maximum breeding value of a line whose progeny all have the same breeding value b (a fully homozygous
      line) is b, whatever the numbers of replicates and progeny. *)
From Coq Require Import PrimFloat Permutation.
From PV Require Import Lib.Common Lib.FloatK Model.C05_Latent Model.C05_Factory Proofs.C05_Latent.
Local Open Scope Q_scope.

(** * sessions *)
Inductive op := OSet (fd : fdata) | OCall (d : dec).
Definition step (n : nat) (st : fdata * list (option (list lv))) (o : op) : fdata * list (option (list lv)) :=
  match o with OSet fd => (fd, snd st) | OCall d => (fst st, snd st ++ [latent n (fst st) d]) end.
Definition run (n : nat) (fd0 : fdata) (ops : list op) := fold_left (step n) ops (fd0, []).
(** the data a history leaves in the object: the last assignment (the constructor's data if there is none) *)
Definition last_set (fd0 : fdata) (ops : list op) : fdata := fold_left (fun fd o => match o with OSet f => f | OCall _ => fd end) ops fd0.

Lemma run_state n ops : forall fd0 acc, fst (fold_left (step n) ops (fd0, acc)) = last_set fd0 ops.
Proof. induction ops as [|o ops IH]; intros fd0 acc; [reflexivity|]. destruct o; cbn; apply IH. Qed.
Lemma session_call n fd0 ops d :
  snd (run n fd0 (ops ++ [OCall d])) = snd (run n fd0 ops) ++ [latent n (last_set fd0 ops) d].
Proof. unfold run. rewrite fold_left_app. cbn. rewrite run_state. reflexivity. Qed.
(** two histories that end with the same data give the same answer to the next call *)
Lemma session_history_irrelevant n fd0 fd0' ops ops' d : last_set fd0 ops = last_set fd0' ops' ->
  last (snd (run n fd0 (ops ++ [OCall d]))) None = last (snd (run n fd0' (ops' ++ [OCall d]))) None.
Proof. intros E. rewrite !session_call, !last_last, E. reflexivity. Qed.

(** * scale law of the linear criteria *)
Definition scaleM (a : Q) (M : list (list Q)) : list (list Q) := map (map (Qmult a)) M.
Lemma nth_map_Qmult a (r : list Q) j : nth j (map (Qmult a) r) 0 == a * nth j r 0.
Proof.
  revert j. induction r as [|x r IH]; intros [|j]; cbn [map nth]; try ring. apply IH.
Qed.
Lemma mget_scale a M i j : mget (scaleM a M) i j == a * mget M i j.
Proof.
  unfold mget, scaleM. revert i. induction M as [|r M IH]; intros [|i]; cbn [map nth].
  - destruct j; cbn [nth]; ring.
  - destruct j; cbn [nth]; ring.
  - apply nth_map_Qmult.
  - apply IH.
Qed.
Lemma lin_subset_scale a t M s : qleq (lin_subset t (scaleM a M) s) (map (Qmult a) (lin_subset t M s)).
Proof.
  unfold lin_subset. rewrite map_map. apply qleq_map. intros j _. rewrite !sumf_sumg.
  rewrite (sumg_ext (fun i => mget (scaleM a M) i j) (fun i => a * mget M i j)) by (intros; apply mget_scale).
  rewrite sumg_scale. unfold sumf, sumg, Qdiv. ring.
Qed.
Lemma lin_vec_scale a n t M c : qleq (lin_vec n t (scaleM a M) c) (map (Qmult a) (lin_vec n t M c)).
Proof.
  unfold lin_vec. rewrite map_map. apply qleq_map. intros j _. rewrite !sumf_sumg.
  rewrite (sumg_ext (fun i => nth i c 0 * mget (scaleM a M) i j) (fun i => a * (nth i c 0 * mget M i j))) by (intros; rewrite mget_scale; ring).
  rewrite sumg_scale. unfold sumf, sumg, Qdiv. ring.
Qed.
Definition lv_scale (a : Q) (v : lv) : lv := match v with Ex q => Ex (a * q) | Sq q => Sq (a * a * q) | OneMinus q => OneMinus q end.
Lemma lveq_scale_Ex a x y : qleq x (map (Qmult a) y) -> Forall2 lv_eq (map Ex x) (map (lv_scale a) (map Ex y)).
Proof. intros H. rewrite map_map. change (fun v => lv_scale a (Ex v)) with (fun v => Ex (a * v)). rewrite <- (map_map (Qmult a) Ex). apply lveq_Ex. exact H. Qed.
Lemma latent_lin_scale n g t M a d :
  res_eq (latent n (FLin g t (scaleM a M)) d) (omap (map (lv_scale a)) (latent n (FLin g t M) d)).
Proof.
  destruct d as [s|x]; cbn [latent].
  - destruct (is_nil s); cbn [omap res_eq]; [exact I|]. apply lveq_scale_Ex, lin_subset_scale.
  - destruct (contrib_of g x) as [c|]; cbn [omap res_eq]; [|exact I]. apply lveq_scale_Ex, lin_vec_scale.
Qed.

(** * expected maximum breeding value of a line whose progeny all have breeding value b *)
Lemma maxl_ge l x : In x l -> x <= maxl l.
Proof.
  intros H. assert (N : l <> []) by (intro E; subst; contradiction).
  pose proof (proj1 (maxl_lub l (maxl l) N) (Qle_refl _)) as F. rewrite Forall_forall in F. apply F, H.
Qed.
Lemma maxl_const l b : l <> [] -> (forall x, In x l -> x == b) -> maxl l == b.
Proof.
  intros N H. apply Qle_antisym.
  - apply (maxl_lub l b N). apply Forall_forall. intros x Hx. rewrite (H x Hx). apply Qle_refl.
  - destruct l as [|x r]; [congruence|]. rewrite <- (H x (or_introl eq_refl)). apply maxl_ge. left. reflexivity.
Qed.
Lemma embv_entry_const reps q b : reps <> [] ->
  (forall bvs, In bvs reps -> bvs <> [] /\ forall r, In r bvs -> nth q r 0 == b) -> embv_entry reps q == b.
Proof.
  intros N H. unfold embv_entry.
  assert (E : qsum (map (fun bvs => colmax bvs q) reps) == b * nq (length reps)).
  { change (qsum (map (fun bvs => colmax bvs q) reps)) with (sumg (fun bvs => colmax bvs q) reps).
    rewrite (sumg_ext (fun bvs => colmax bvs q) (fun _ => b * 1)).
    - rewrite sumg_scale, sumg_const_len. reflexivity.
    - intros bvs Hb. destruct (H bvs Hb) as [Nb Hr]. unfold colmax. rewrite maxl_const with (b := b).
      + ring.
      + destruct bvs; [congruence | discriminate].
      + intros x Hx. apply in_map_iff in Hx as (r & <- & Hr'). apply Hr, Hr'. }
  rewrite E. field. intro Z0. assert (P : 1 <= nq (length reps)) by (apply nq_pos; destruct reps; [congruence | cbn; lia]).
  rewrite Z0 in P. unfold Qle in P; cbn in P; lia.
Qed.

(** * stale target flags after an in-place update of the target array (finding C05-tfreq-inplace-stale-flags) *)
(** witness: two taxa (2,0) and (2,2), ploidy 2, weights 1, targets (1/2, 1/2) at the setter, first target overwritten in
    place by 1: the first locus is fixed for the wanted allele, yet it is still reported unavailable (stale "heterozygous
    target" flag), while the distance term already uses the new target *)
Lemma tfreq_inplace_stale_refuted : exists pl G w tf_set tf_now p t s,
  mogs_stale pl G w tf_set tf_now p t s <> mogs_pau_code pl G w tf_now p t s ++ pafd pl G w tf_now p t s /\
  pau_stale pl G w tf_set tf_now p t s <> pau_code pl G w tf_now p t s.
Proof.
  exists 2%Z, [[2; 0]; [2; 2]]%Z, [[1]; [1]], [[1 # 2]; [1 # 2]], [[1]; [1 # 2]], 2%nat, 1%nat, [0; 1]%nat.
  split; vm_compute; discriminate.
Qed.
(** exact guard: if the in-place update leaves every target in its class (<= 0, strictly between, >= 1 for MOGS; = 0,
    strictly between, = 1 for PAU) the stored flags are still right and the result is the definition on the current targets *)
Lemma wsum_flags_ext' w p t f g : (forall j q, (j < p)%nat -> (q < t)%nat -> f j q = g j q) -> wsum_flags w p t f = wsum_flags w p t g.
Proof.
  intros H. unfold wsum_flags. apply map_ext_in. intros q Hq. apply in_seq in Hq. unfold sumf. f_equal. apply map_ext_in. intros j Hj. apply in_seq in Hj.
  rewrite H by lia. reflexivity.
Qed.
Lemma mogs_stale_partial pl G w tf_set tf_now p t s :
  (forall j q, (j < p)%nat -> (q < t)%nat -> Qle_bool (mget tf_set j q) 0 = Qle_bool (mget tf_now j q) 0 /\ Qle_bool 1 (mget tf_set j q) = Qle_bool 1 (mget tf_now j q)) ->
  mogs_stale pl G w tf_set tf_now p t s = mogs_pau_code pl G w tf_now p t s ++ pafd pl G w tf_now p t s.
Proof.
  intros H. unfold mogs_stale, mogs_pau_code. f_equal. apply wsum_flags_ext'. intros j q Hj Hq.
  unfold mogs_unavail_code. destruct (H j q Hj Hq) as [-> ->]. reflexivity.
Qed.
Lemma pau_stale_partial pl G w tf_set tf_now p t s :
  (forall j q, (j < p)%nat -> (q < t)%nat -> t_minor (mget tf_set j q) = t_minor (mget tf_now j q) /\ t_het (mget tf_set j q) = t_het (mget tf_now j q)
                                            /\ t_major (mget tf_set j q) = t_major (mget tf_now j q)) ->
  pau_stale pl G w tf_set tf_now p t s = pau_code pl G w tf_now p t s.
Proof.
  intros H. unfold pau_stale, pau_code. apply wsum_flags_ext'. intros j q Hj Hq.
  unfold pau_unavail_code, pau_unavail_gen. destruct (H j q Hj Hq) as (-> & -> & ->). reflexivity.
Qed.
