(** C13 — soundness of the positive-definiteness certificate used to decide when
    [is_positive_semidefinite] is compared: if the symmetric elimination of G - delta I finds only positive
    pivots then x'Gx >= delta x'x for every x (so every eigenvalue of G is >= delta). *)
From Coq Require Import Qround.
From PV Require Import Lib.Common Model.C13_Coanc Proofs.C13_Coanc.
Local Open Scope Q_scope.

Lemma dotQ_map_add {A} (x : list Q) (f g : A -> Q) (R : list A) :
  dotQ x (map (fun r => f r + g r) R) == dotQ x (map f R) + dotQ x (map g R).
Proof.
  revert x; induction R as [|r R IH]; intros x.
  - cbn [map]. rewrite !dotQ_nil_r. ring.
  - destruct x as [|xi x]; [cbn; ring|]. cbn [map]. rewrite !dotQ_cons, IH. ring.
Qed.

Lemma dotQ_map_scale {A} (x : list Q) (t : Q) (f : A -> Q) (R : list A) :
  dotQ x (map (fun r => t * f r) R) == t * dotQ x (map f R).
Proof.
  revert x; induction R as [|r R IH]; intros x.
  - cbn [map]. rewrite !dotQ_nil_r. ring.
  - destruct x as [|xi x]; [cbn; ring|]. cbn [map]. rewrite !dotQ_cons, IH. ring.
Qed.

Lemma dotQ_ext x l1 l2 : Forall2 Qeq l1 l2 -> dotQ x l1 == dotQ x l2.
Proof.
  intros H; revert x; induction H as [|a b l1 l2 Hab H IH]; intros x.
  - reflexivity.
  - destruct x as [|xi x]; [reflexivity|]. rewrite !dotQ_cons, IH, Hab. reflexivity.
Qed.

(** one elimination step on a row  c :: rest  with pivot row  d :: r *)
Definition step (d : Q) (r : list Q) (row : list Q) : list Q :=
  match row with [] => [] | c :: rest => map2 (fun a b => Qred (a - (c / d) * b)) rest r end.

Lemma dot_step x d r c rest : length rest = length r ->
  dotQ x (step d r (c :: rest)) == dotQ x rest - (c / d) * dotQ x r.
Proof.
  cbn [step]. revert x r; induction rest as [|a rest IH]; intros x [|b r] L; try discriminate L.
  - cbn [map2]. rewrite !dotQ_nil_r. ring.
  - destruct x as [|xi x]; [cbn; ring|]. cbn [map2]. rewrite !dotQ_cons, Qred_correct, IH by (cbn in L; congruence). ring.
Qed.

Definition hd0 (row : list Q) : Q := match row with [] => 0 | c :: _ => c end.
Definition tl0 (row : list Q) : list Q := match row with [] => [] | _ :: t => t end.

Lemma nth_map_hd0 rows i : nth i (map hd0 rows) 0 = hd0 (nth i rows []).
Proof. exact (map_nth hd0 rows [] i). Qed.
Lemma nth_map_tl0 rows i : nth i (map tl0 rows) [] = tl0 (nth i rows []).
Proof. exact (map_nth tl0 rows [] i). Qed.

Lemma qform_cons x0 x d r rows : Forall (fun row => row <> []) rows ->
  qform (x0 :: x) ((d :: r) :: rows) ==
  d * x0 * x0 + x0 * dotQ x r + x0 * dotQ x (map hd0 rows) + qform x (map tl0 rows).
Proof.
  intros NE. rewrite !qform_unfold. cbn [map]. rewrite !dotQ_cons.
  rewrite (dotQ_map_ext (dotQ (x0 :: x)) (fun row => x0 * hd0 row + dotQ x (tl0 row))).
  - rewrite dotQ_map_add, dotQ_map_scale, !map_map. ring.
  - intros row Hr. rewrite Forall_forall in NE. specialize (NE row Hr). destruct row as [|c rest]; [congruence|].
    cbn [hd0 tl0]. rewrite dotQ_cons. reflexivity.
Qed.

Lemma qform_schur x d r rows : ~ d == 0 -> Forall (fun row => length row = S (length r)) rows ->
  qform x (map (step d r) rows) == qform x (map tl0 rows) - (1 / d) * dotQ x (map hd0 rows) * dotQ x r.
Proof.
  intros Hd HL. rewrite !qform_unfold, !map_map.
  rewrite (dotQ_map_ext _ (fun row => dotQ x (tl0 row) + (- (dotQ x r / d)) * hd0 row)).
  - rewrite dotQ_map_add, dotQ_map_scale. field. exact Hd.
  - intros row Hr. rewrite Forall_forall in HL. specialize (HL row Hr). destruct row as [|c rest]; [discriminate HL|].
    rewrite dot_step by (cbn in HL; congruence). cbn [hd0 tl0]. field. exact Hd.
Qed.

(** the eliminated block is again symmetric *)
Lemma nth_map2 {A B C} (f : A -> B -> C) a b da db dc j : (j < length a)%nat -> (j < length b)%nat ->
  nth j (map2 f a b) dc = f (nth j a da) (nth j b db).
Proof.
  revert b j; induction a as [|x a IH]; intros [|y b] j La Lb; cbn in La, Lb; try lia.
  destruct j; [reflexivity|]. cbn [map2 nth]. apply IH; lia.
Qed.

Lemma Forall2_nth_Q l1 l2 i : Forall2 Qeq l1 l2 -> nth i l1 0 == nth i l2 0.
Proof.
  intros H; revert i; induction H as [|a b l1 l2 Hab H IH]; intros [|i]; cbn [nth]; try reflexivity; [exact Hab | apply IH].
Qed.

Lemma nth_map_step d r rows i : nth i (map (step d r) rows) [] = step d r (nth i rows []).
Proof. exact (map_nth (step d r) rows [] i). Qed.

Lemma step_entry d r rows i j : (i < length rows)%nat -> (j < length r)%nat ->
  Forall (fun row => length row = S (length r)) rows ->
  entry (map (step d r) rows) i j ==
  entry (map tl0 rows) i j - (nth i (map hd0 rows) 0 / d) * nth j r 0.
Proof.
  intros Hi Hj HL. unfold entry.
  rewrite (nth_map_step d r rows i), nth_map_tl0, nth_map_hd0.
  rewrite Forall_forall in HL. specialize (HL (nth i rows []) (nth_In rows [] Hi)).
  destruct (nth i rows []) as [|c rest]; [discriminate HL|]. cbn [step tl0 hd0].
  rewrite (nth_map2 _ rest r 0 0 0 j) by (cbn in HL; lia). apply Qred_correct.
Qed.

Lemma step_length d r rows : Forall (fun row => length row = S (length r)) rows ->
  Forall (fun row => length row = length r) (map (step d r) rows).
Proof.
  intros HL. rewrite Forall_map. eapply Forall_impl; [|exact HL]. cbn beta. intros [|c rest] L; [discriminate L|].
  cbn [step]. rewrite map2_length. cbn in L. lia.
Qed.

(** symmetric square matrices through entries: closed under the elimination step *)
Definition symE (M : list (list Q)) : Prop := forall i j, entry M i j == entry M j i.
Definition squareN (n : nat) (M : list (list Q)) : Prop := length M = n /\ Forall (fun row => length row = n) M.

Lemma entry_out_rows M n i j : squareN n M -> (n <= i)%nat \/ (n <= j)%nat -> entry M i j = 0.
Proof.
  intros [LM RM] H. unfold entry. destruct (Nat.lt_ge_cases i n) as [Hi|Hi].
  - destruct H as [H|H]; [lia|]. rewrite Forall_forall in RM.
    apply nth_overflow. rewrite (RM (nth i M [])) by (apply nth_In; lia). exact H.
  - rewrite (nth_overflow M) by lia. destruct j; reflexivity.
Qed.

Lemma entry_cons_SS row rows i j : entry (row :: rows) (S i) (S j) = entry (map tl0 rows) i j.
Proof.
  unfold entry. cbn [nth]. rewrite nth_map_tl0.
  destruct (nth i rows []); [destruct j; reflexivity | reflexivity].
Qed.

Lemma entry_cons_S0 row rows i : entry (row :: rows) (S i) 0 = nth i (map hd0 rows) 0.
Proof.
  unfold entry. cbn [nth]. rewrite nth_map_hd0.
  destruct (nth i rows []); reflexivity.
Qed.

Lemma entry_cons_0S d r rows j : entry ((d :: r) :: rows) 0 (S j) = nth j r 0.
Proof. reflexivity. Qed.

Theorem pd_cert_fuel_psd n : forall M, squareN n M -> symE M -> pd_cert_fuel n M = true ->
  forall x, 0 <= qform x M.
Proof.
  induction n as [|n IH]; intros M [LM RM] Hs Hc x.
  - destruct M; [|discriminate LM]. rewrite qform_unfold. cbn [map]. rewrite dotQ_nil_r. apply Qle_refl.
  - destruct M as [|row rows]; [discriminate LM|]. cbn [pd_cert_fuel] in Hc.
    destruct row as [|d r]; [discriminate Hc|]. apply andb_prop in Hc as [Hd Hc].
    assert (0 < d) as Dpos.
    { destruct (Qlt_le_dec 0 d) as [L|L]; [exact L|]. apply Qle_bool_iff in L. rewrite L in Hd. discriminate Hd. }
    assert (~ d == 0) as Dnz by (intros E; rewrite E in Dpos; discriminate Dpos).
    inversion RM as [|? ? Lrow Rrows]; subst. cbn [length] in LM, Lrow.
    assert (Lr : length r = n) by congruence. assert (Lrows : length rows = n) by congruence.
    assert (HL : Forall (fun row => length row = S (length r)) rows) by (rewrite Lr; exact Rrows).
    assert (NE : Forall (fun row => row <> []) rows).
    { eapply Forall_impl; [|exact Rrows]. cbn beta. intros [|? ?] L; [discriminate L | congruence]. }
    change (fun row => match row with [] => [] | c :: rest => map2 (fun a b => Qred (a - c / d * b)) rest r end) with (step d r) in Hc.
    (* first column = first row *)
    assert (CR : Forall2 Qeq (map hd0 rows) r).
    { assert (G : forall j, nth j (map hd0 rows) 0 == nth j r 0).
      { intros j. rewrite <- (entry_cons_S0 (d :: r) rows j), <- (entry_cons_0S d r rows j). apply Hs. }
      assert (LL : length (map hd0 rows) = length r) by (rewrite map_length; congruence).
      clear - G LL. revert r G LL. induction (map hd0 rows) as [|a l IHl]; intros [|b r] G LL; try discriminate LL; constructor.
      - apply (G 0%nat).
      - apply IHl; [intros j; apply (G (S j)) | cbn in LL; congruence]. }
    (* the eliminated block is symmetric and square *)
    assert (SQ : squareN n (map (step d r) rows)).
    { split; [rewrite map_length; exact Lrows|]. rewrite <- Lr. apply step_length, HL. }
    assert (SY : symE (map (step d r) rows)).
    { intros i j. destruct (Nat.lt_ge_cases i n) as [Hi|Hi]; destruct (Nat.lt_ge_cases j n) as [Hj|Hj];
        try (rewrite !(entry_out_rows _ n _ _ SQ) by auto; reflexivity).
      rewrite !step_entry by (assumption || lia).
      rewrite <- !entry_cons_SS with (row := d :: r). rewrite (Hs (S i) (S j)).
      rewrite (Forall2_nth_Q _ _ i CR), (Forall2_nth_Q _ _ j CR). field. exact Dnz. }
    specialize (IH _ SQ SY Hc).
    destruct x as [|x0 x].
    + rewrite qform_unfold. rewrite dotQ_nil_l. apply Qle_refl.
    + rewrite (qform_cons x0 x d r rows NE).
      pose proof (qform_schur x d r rows Dnz HL) as QS. specialize (IH x). rewrite QS in IH.
      rewrite (dotQ_ext x _ _ CR) in IH |- *.
      set (rho := dotQ x r) in *. set (T := qform x (map tl0 rows)) in *.
      setoid_replace (d * x0 * x0 + x0 * rho + x0 * rho + T)
        with (d * ((x0 + rho / d) * (x0 + rho / d)) + (T - 1 / d * rho * rho)) by (field; exact Dnz).
      setoid_replace 0 with (0 + 0) by ring. apply Qplus_le_compat; [|exact IH].
      apply Qmult_le_0_compat; [apply Qlt_le_weak, Dpos | apply Qsq_nonneg].
Qed.

(** * shifting the diagonal: certificate for lambda_min(G) >= delta *)
From PV Require Import Proofs.C13_Optimal.

Lemma mapi_nth {A B} (f : nat -> A -> B) (l : list A) (da : A) (db : B) i : (i < length l)%nat ->
  nth i (mapi f l) db = f i (nth i l da).
Proof.
  intros Hi. unfold mapi. rewrite (nth_map2 f (seq 0 (length l)) l 0%nat da db i) by (rewrite ?seq_length; exact Hi).
  rewrite seq_nth by exact Hi. reflexivity.
Qed.

Lemma mapi_length {A B} (f : nat -> A -> B) (l : list A) : length (mapi f l) = length l.
Proof. unfold mapi. rewrite map2_length, seq_length. apply Nat.min_id. Qed.

Lemma shift_square n delta G : squareN n G -> squareN n (shift_diag delta G).
Proof.
  intros [LG RG]. split; [unfold shift_diag; rewrite mapi_length; exact LG|].
  apply Forall_forall. intros row Hrow. apply (In_nth _ _ []) in Hrow as (i & Hi & <-).
  unfold shift_diag in *. rewrite mapi_length in Hi. rewrite (mapi_nth _ G [] [] i Hi), mapi_length.
  rewrite Forall_forall in RG. apply RG, nth_In, Hi.
Qed.

Lemma shift_entry n delta G i j : squareN n G -> (i < n)%nat -> (j < n)%nat ->
  entry (shift_diag delta G) i j = if Nat.eqb i j then entry G i j - delta else entry G i j.
Proof.
  intros [LG RG] Hi Hj. unfold entry, shift_diag. rewrite (mapi_nth _ G [] [] i) by (rewrite LG; exact Hi).
  rewrite Forall_forall in RG. rewrite (mapi_nth _ (nth i G []) 0 0 j) by (rewrite (RG (nth i G [])) by (apply nth_In; lia); exact Hj).
  reflexivity.
Qed.

Lemma shift_sym n delta G : squareN n G -> symE G -> symE (shift_diag delta G).
Proof.
  intros SQ Hs i j. pose proof (shift_square n delta G SQ) as SQ'.
  destruct (Nat.lt_ge_cases i n) as [Hi|Hi]; destruct (Nat.lt_ge_cases j n) as [Hj|Hj];
    try (rewrite !(entry_out_rows _ n _ _ SQ') by auto; reflexivity).
  rewrite !(shift_entry n delta G) by assumption. rewrite (Nat.eqb_sym j i).
  destruct (Nat.eqb_spec i j) as [->|NE]; [reflexivity | apply Hs].
Qed.

Lemma sum_delta_w (g : nat -> Q) i n : (i < n)%nat ->
  sumQ (map (fun k => if Nat.eqb i k then g k else 0) (seq 0 n)) == g i.
Proof.
  intros Hi. rewrite (sumQ_map_ext _ (fun k => g i * (if Nat.eqb i k then 1 else 0))).
  - rewrite sumQ_map_scale, (sum_delta i n Hi). ring.
  - intros k _. destruct (Nat.eqb_spec i k) as [->|NE]; ring.
Qed.

Lemma sumQ_map_sub {A} (f g : A -> Q) l : sumQ (map (fun i => f i - g i) l) == sumQ (map f l) - sumQ (map g l).
Proof. induction l as [|a l IH]; [reflexivity|]. cbn [map]. rewrite !sumQ_cons, IH. ring. Qed.

Lemma qform_shift n delta G x : squareN n G -> length x = n ->
  qform x (shift_diag delta G) == qform x G - delta * dotQ x x.
Proof.
  intros SQ Lx. pose proof (shift_square n delta G SQ) as [LG' RG']. destruct SQ as [LG RG].
  rewrite (qform_idx n _ G LG' RG' LG x Lx), (qform_idx n G G LG RG LG x Lx). unfold Bf.
  rewrite (dotQ_idx x x n Lx Lx).
  rewrite <- sumQ_map_scale, <- sumQ_map_sub. apply sumQ_map_ext. intros i Hi. apply in_seq in Hi.
  rewrite (sumQ_map_ext _ (fun k => nth i x 0 * entry G i k * nth k x 0
                                     + (- (delta * nth i x 0)) * (if Nat.eqb i k then nth k x 0 else 0))).
  - rewrite sumQ_map_add, sumQ_map_scale, (sum_delta_w (fun k => nth k x 0) i n) by lia. ring.
  - intros k Hk. apply in_seq in Hk. rewrite (shift_entry n delta G i k) by (try split; assumption || lia).
    destruct (Nat.eqb i k); ring.
Qed.

Theorem pd_cert_sound n delta G : squareN n G -> symE G -> pd_cert (shift_diag delta G) = true ->
  forall x, length x = n -> delta * dotQ x x <= qform x G.
Proof.
  intros SQ Hs Hc x Lx.
  pose proof (shift_square n delta G SQ) as SQ'.
  unfold pd_cert in Hc. rewrite (proj1 SQ') in Hc.
  pose proof (pd_cert_fuel_psd n _ SQ' (shift_sym n delta G SQ Hs) Hc x) as P.
  rewrite (qform_shift n delta G x SQ Lx) in P.
  apply (Qplus_le_compat _ _ (delta * dotQ x x) (delta * dotQ x x)) in P; [|apply Qle_refl].
  setoid_replace (0 + delta * dotQ x x) with (delta * dotQ x x) in P by ring.
  setoid_replace (qform x G - delta * dotQ x x + delta * dotQ x x) with (qform x G) in P by ring. exact P.
Qed.

(** the decision used by the correspondence: [Some true] only with a certified margin above the tolerance,
    [Some false] only if a Rayleigh quotient (a diagonal entry) is below the tolerance by the margin *)
Lemma coarse_up_ge q : q <= coarse_up q.
Proof.
  unfold coarse_up. rewrite Qred_correct. unfold Zq.
  apply Qle_shift_div_l; [reflexivity|]. apply Qle_ceiling.
Qed.

Lemma coarse_dn_le q : coarse_dn q <= q.
Proof.
  unfold coarse_dn. rewrite Qred_correct. unfold Zq.
  apply Qle_shift_div_r; [reflexivity|]. apply Qfloor_le.
Qed.

Lemma Qplus_nonneg a b : 0 <= a -> 0 <= b -> 0 <= a + b.
Proof. intros Ha Hb. exact (Qplus_le_compat 0 a 0 b Ha Hb). Qed.

Lemma sum_squares_nonneg (g : nat -> Q) l : 0 <= sumQ (map (fun k => g k * g k) l).
Proof.
  induction l as [|a l IH]; [apply Qle_refl|]. cbn [map]. rewrite sumQ_cons.
  apply Qplus_nonneg; [apply Qsq_nonneg | exact IH].
Qed.

Theorem psd_decided_true n margin tol G : squareN n G -> symE G -> psd_decided margin tol G = Some true ->
  forall x, length x = n -> (Qmax' 0 tol + margin) * dotQ x x <= qform x G.
Proof.
  intros SQ Hs. unfold psd_decided.
  set (t := if Qle_bool tol 0 then 0 else tol).
  destruct (pd_cert (shift_diag (coarse_up (t + margin)) G)) eqn:E; [|destruct (existsb _ _); discriminate].
  intros _ x Lx. eapply Qle_trans; [|apply (pd_cert_sound n _ G SQ Hs E x Lx)].
  apply Qmult_le_compat_r; [|rewrite (dotQ_idx x x n Lx Lx)].
  - eapply Qle_trans; [|apply coarse_up_ge]. apply Qplus_le_compat; [|apply Qle_refl].
    subst t. unfold Qmax'. destruct (Qle_bool tol 0) eqn:E1; destruct (Qle_bool 0 tol) eqn:E2; try apply Qle_refl.
    + apply Qle_bool_iff, E1.
    + destruct (Qlt_le_dec tol 0) as [L|L]; [apply Qlt_le_weak in L; apply Qle_bool_iff in L; congruence|].
      apply Qle_bool_iff in L. congruence.
  - apply sum_squares_nonneg.
Qed.

Theorem psd_decided_false n margin tol G : squareN n G -> psd_decided margin tol G = Some false ->
  exists i, (i < n)%nat /\ entry G i i < Qmax' 0 tol - margin.
Proof.
  intros [LG RG]. unfold psd_decided.
  set (t := if Qle_bool tol 0 then 0 else tol).
  destruct (pd_cert _); [discriminate|].
  destruct (existsb _ (diag G)) eqn:E; [|discriminate]. intros _.
  apply existsb_exists in E as (dg & Hin & Hd). unfold diag in Hin. apply in_map_iff in Hin as (i & <- & Hi).
  apply in_seq in Hi. exists i. split; [lia|].
  apply negb_true_iff in Hd. destruct (Qlt_le_dec (entry G i i) (coarse_dn (t - margin))) as [L|L].
  - eapply Qlt_le_trans; [exact L|]. eapply Qle_trans; [apply coarse_dn_le|].
    apply Qplus_le_compat; [|apply Qle_refl].
    subst t. unfold Qmax'. destruct (Qle_bool tol 0) eqn:E1; destruct (Qle_bool 0 tol) eqn:E2; try apply Qle_refl.
    + apply Qle_bool_iff, E2.
    + destruct (Qlt_le_dec 0 tol) as [L'|L']; [apply Qlt_le_weak in L'; apply Qle_bool_iff in L'; congruence|].
      apply Qle_bool_iff in L'. congruence.
  - apply Qle_bool_iff in L. congruence.
Qed.
