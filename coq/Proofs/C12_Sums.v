(** C12 — algebra of finite rational sums used by the variance-matrix proofs (all up to [Qeq]). *)
From Coq Require Import Lqa Qfield.
From PV Require Import Lib.Common Model.C12_Var.
Local Open Scope Q_scope.

Lemma qsum_sumQ (l : list Q) : qsum l == sumQ l.
Proof. induction l as [|x l IH]; cbn [qsum sumQ fold_right]; [reflexivity|]. rewrite Qred_correct. fold (qsum l) (sumQ l). now rewrite IH. Qed.

Lemma sumQ_cons x l : sumQ (x :: l) = x + sumQ l. Proof. reflexivity. Qed.
Lemma sumQ_app l1 l2 : sumQ (l1 ++ l2) == sumQ l1 + sumQ l2.
Proof. induction l1 as [|x l IH]; cbn [app]; [cbn; ring|]. rewrite !sumQ_cons, IH. ring. Qed.

Lemma sumQ_ext {A} (f g : A -> Q) l : (forall i, In i l -> f i == g i) -> sumQ (map f l) == sumQ (map g l).
Proof.
  induction l as [|a l IH]; intros H; cbn [map]; [reflexivity|]. rewrite !sumQ_cons.
  rewrite (H a (or_introl eq_refl)), IH; [reflexivity|]. intros i Hi. apply H. now right.
Qed.
Lemma sumQ_ext_all {A} (f g : A -> Q) l : (forall i, f i == g i) -> sumQ (map f l) == sumQ (map g l).
Proof. intros H. apply sumQ_ext. intros; apply H. Qed.

Lemma sumQ_plus {A} (f g : A -> Q) l : sumQ (map (fun i => f i + g i) l) == sumQ (map f l) + sumQ (map g l).
Proof. induction l as [|a l IH]; cbn [map]; [cbn; ring|]. rewrite !sumQ_cons, IH. ring. Qed.
Lemma sumQ_scal {A} c (f : A -> Q) l : sumQ (map (fun i => c * f i) l) == c * sumQ (map f l).
Proof. induction l as [|a l IH]; cbn [map]; [cbn; ring|]. rewrite !sumQ_cons, IH. ring. Qed.
Lemma sumQ_scal_r {A} c (f : A -> Q) l : sumQ (map (fun i => f i * c) l) == sumQ (map f l) * c.
Proof. induction l as [|a l IH]; cbn [map]; [cbn; ring|]. rewrite !sumQ_cons, IH. ring. Qed.
Lemma sumQ_zero {A} (f : A -> Q) l : (forall i, In i l -> f i == 0) -> sumQ (map f l) == 0.
Proof. intros H. rewrite (sumQ_ext f (fun _ => 0) l H). induction l as [|a l IH]; cbn [map]; [reflexivity|]. rewrite sumQ_cons, IH; [ring|]. intros; apply H; now right. Qed.
Lemma sumQ_const0 {A} (l : list A) : sumQ (map (fun _ => 0) l) == 0.
Proof. apply sumQ_zero. reflexivity. Qed.

Lemma sumQ_swap {A B} (f : A -> B -> Q) la lb :
  sumQ (map (fun a => sumQ (map (fun b => f a b) lb)) la) == sumQ (map (fun b => sumQ (map (fun a => f a b) la)) lb).
Proof.
  induction la as [|a la IH]; cbn [map].
  - cbn [sumQ fold_right]. symmetry. apply sumQ_const0.
  - rewrite sumQ_cons, IH. rewrite <- sumQ_plus. apply sumQ_ext_all. intros b. cbn [map]. rewrite sumQ_cons. reflexivity.
Qed.

Lemma sumQ_concat {A} (f : A -> Q) (ls : list (list A)) : sumQ (map f (concat ls)) == sumQ (map (fun l => sumQ (map f l)) ls).
Proof. induction ls as [|l ls IH]; cbn [concat map]; [reflexivity|]. rewrite map_app, sumQ_app, sumQ_cons, IH. reflexivity. Qed.

Lemma sumQ_seq_shift (f : nat -> Q) s n : sumQ (map f (seq (S s) n)) = sumQ (map (fun i => f (S i)) (seq s n)).
Proof. rewrite <- seq_shift, map_map. reflexivity. Qed.

(** [Forall2 Qeq] compatibility *)
Lemma sumQ_Forall2 l1 l2 : Forall2 Qeq l1 l2 -> sumQ l1 == sumQ l2.
Proof. induction 1 as [|x y l1 l2 Hxy _ IH]; [reflexivity|]. rewrite !sumQ_cons, Hxy, IH. reflexivity. Qed.

(** * [part] as a plain double sum *)
Definition dsum (D : nat -> nat -> Q) (x y : nat -> Q) (rb cb : list nat) : Q :=
  sumQ (map (fun j => sumQ (map (fun i => x i * D i j) rb) * y j) cb).

Lemma part_dsum D x y rb cb : part D x y rb cb == dsum D x y rb cb.
Proof. unfold part, dsum. rewrite qsum_sumQ. apply sumQ_ext_all. intros j. now rewrite qsum_sumQ. Qed.

Lemma dsum_app_r D x y rb c1 c2 : dsum D x y rb (c1 ++ c2) == dsum D x y rb c1 + dsum D x y rb c2.
Proof. unfold dsum. now rewrite map_app, sumQ_app. Qed.
Lemma dsum_app_l D x y r1 r2 cb : dsum D x y (r1 ++ r2) cb == dsum D x y r1 cb + dsum D x y r2 cb.
Proof.
  unfold dsum. rewrite <- sumQ_plus. apply sumQ_ext_all. intros j. rewrite map_app, sumQ_app. ring.
Qed.
Lemma dsum_nil_l D x y cb : dsum D x y [] cb == 0.
Proof. unfold dsum. apply sumQ_zero. intros j _. cbn. ring. Qed.
Lemma dsum_nil_r D x y rb : dsum D x y rb [] == 0.
Proof. reflexivity. Qed.

Lemma dsum_ext D D' x x' y y' rb cb :
  (forall i, In i rb -> x i == x' i) -> (forall j, In j cb -> y j == y' j) ->
  (forall i j, In i rb -> In j cb -> D i j == D' i j) -> dsum D x y rb cb == dsum D' x' y' rb cb.
Proof.
  intros Hx Hy HD. unfold dsum. apply sumQ_ext. intros j Hj. rewrite (Hy j Hj).
  rewrite (sumQ_ext (fun i => x i * D i j) (fun i => x' i * D' i j) rb); [reflexivity|].
  intros i Hi. now rewrite (Hx i Hi), (HD i j Hi Hj).
Qed.

(** * bi-additive block functions: what the chunk loops may be applied to *)
Record biadd (f : list nat -> list nat -> Q) : Prop := {
  ba_l : forall a b c, f (a ++ b) c == f a c + f b c;
  ba_r : forall a b c, f a (b ++ c) == f a b + f a c;
  ba_nl : forall c, f [] c == 0;
  ba_nr : forall a, f a [] == 0 }.

Lemma biadd_part D x y : biadd (part D x y).
Proof.
  split; intros; rewrite ?part_dsum.
  - apply dsum_app_l. - apply dsum_app_r. - apply dsum_nil_l. - apply dsum_nil_r.
Qed.

Lemma biadd_concat_l f : biadd f -> forall ls c, f (concat ls) c == sumQ (map (fun l => f l c) ls).
Proof. intros B ls c. induction ls as [|l ls IH]; cbn [concat map]; [apply (ba_nl f B)|]. rewrite (ba_l f B), sumQ_cons, IH. reflexivity. Qed.
Lemma biadd_concat_r f : biadd f -> forall a ls, f a (concat ls) == sumQ (map (fun l => f a l) ls).
Proof. intros B a ls. induction ls as [|l ls IH]; cbn [concat map]; [apply (ba_nr f B)|]. rewrite (ba_r f B), sumQ_cons, IH. reflexivity. Qed.

Lemma biadd_lin f g c1 c2 : biadd f -> biadd g -> biadd (fun a b => c1 * f a b + c2 * g a b).
Proof.
  intros F G. split; intros.
  - rewrite (ba_l f F), (ba_l g G). ring.
  - rewrite (ba_r f F), (ba_r g G). ring.
  - rewrite (ba_nl f F), (ba_nl g G). ring.
  - rewrite (ba_nr f F), (ba_nr g G). ring.
Qed.
Lemma biadd_ext f g : (forall a b, f a b == g a b) -> biadd f -> biadd g.
Proof.
  intros E F. split; intros; rewrite <- !E.
  - apply (ba_l f F). - apply (ba_r f F). - apply (ba_nl f F). - apply (ba_nr f F).
Qed.
