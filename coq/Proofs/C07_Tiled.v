(** C07 — the configurations built on tiled_choice (Subset, Binary; Integer before its repair) and the composition of the
    subset configuration with the sorting optimiser:
    how often every member / individual is used, that nothing else is used, and that the result is a
    2-exchange local optimum of the number of repeated individuals within crosses. *)
From Coq Require Import Permutation Sorting.Sorted.
From PV Require Import Lib.Common Model.C17_Sampling Proofs.C17_Sampling Model.C07_Config Proofs.C07_LocalOpt Proofs.C07_Tail Proofs.C07_Sort.
Local Open Scope nat_scope.

(** * 0. counting toolkit *)
Lemma count_z_app v l l' : count_z v (l ++ l') = count_z v l + count_z v l'.
Proof. unfold count_z. apply count_occ_app. Qed.

Lemma count_z_le_length v l : count_z v l <= length l.
Proof.
  unfold count_z. induction l as [|a l IH]; [apply le_n|]. cbn [count_occ length].
  destruct (Z.eq_dec a v); lia.
Qed.

Lemma count_z_tiles v (a : list Z) q : count_z v (concat (repeat a q)) = q * count_z v a.
Proof. induction q as [|q IH]; [reflexivity|]. cbn [repeat concat]. rewrite count_z_app, IH. lia. Qed.

Lemma tiles_length_gen {A} (a : list A) q : length (concat (repeat a q)) = q * length a.
Proof. induction q as [|q IH]; [reflexivity|]. cbn [repeat concat]. rewrite app_length, IH. lia. Qed.

Lemma map_tiles {A B} (f : A -> B) l q : map f (concat (repeat l q)) = concat (repeat (map f l) q).
Proof. induction q as [|q IH]; [reflexivity|]. cbn [repeat concat]. now rewrite map_app, IH. Qed.

Lemma count_z_map_filter {A} (f : A -> Z) v l :
  count_z v (map f l) = length (filter (fun x => Z.eqb (f x) v) l).
Proof.
  unfold count_z. induction l as [|x l IH]; [reflexivity|]. cbn [map count_occ filter].
  destruct (Z.eq_dec (f x) v) as [E|NE].
  - rewrite (proj2 (Z.eqb_eq _ _) E). cbn [length]. now rewrite IH.
  - rewrite (proj2 (Z.eqb_neq _ _) NE). exact IH.
Qed.

Lemma count_z_repeat v w k : count_z v (repeat w k) = if Z.eq_dec w v then k else 0.
Proof.
  unfold count_z. destruct (Z.eq_dec w v) as [E|NE]; induction k as [|k IH]; try reflexivity;
    cbn [repeat count_occ]; destruct (Z.eq_dec w v) as [E'|NE']; try contradiction.
  - now rewrite IH.
  - exact IH.
Qed.

(** distinct positions: the labels drawn carry value v at most as often as the option array does *)
Lemma labels_count_le (a : list Z) choice v : NoDup choice -> Forall (fun p => p < length a) choice ->
  count_z v (take_labels a choice) <= count_z v a.
Proof.
  intros Hnd Hr. unfold take_labels, gather. rewrite count_z_map_filter.
  assert (E : count_z v a = length (filter (fun p => Z.eqb (nth p a 0%Z) v) (seq 0 (length a)))).
  { rewrite <- (count_z_map_filter (fun i => nth i a 0%Z) v (seq 0 (length a))). now rewrite map_nth_seq. }
  rewrite E. apply NoDup_incl_length; [now apply NoDup_filter|].
  intros p Hp. apply filter_In in Hp as [Hp Hf]. apply filter_In. split; [|exact Hf].
  apply in_seq. rewrite Forall_forall in Hr. specialize (Hr p Hp). lia.
Qed.

(** * 1. tiled_choice over an option array that may contain repeated values *)
Lemma tiled_choice_perm : forall (a : list Z) nsample choice perm x,
  0 < length a -> length choice = nsample mod length a -> Permutation perm (seq 0 nsample) ->
  tiled_choice a nsample false choice perm = Some x ->
  Permutation x (concat (repeat a (nsample / length a)) ++ take_labels a choice).
Proof.
  intros a ns choice perm x Hn Hl Hperm H.
  change (tiled_choice a ns false choice perm)
    with (option_map (take_labels a) (tiled_sel (length a) ns choice perm)) in H.
  unfold tiled_sel in H.
  destruct (Nat.eqb_spec (length a) 0) as [E0|_]; [lia|].
  assert (Lix : length (tiled_ix (length a) ns choice) = ns).
  { unfold tiled_ix. rewrite app_length, tiles_length, Hl. pose proof (Nat.div_mod ns (length a) ltac:(lia)). lia. }
  rewrite Lix, Nat.eqb_refl in H. cbn [option_map] in H. injection H as <-.
  unfold take_labels, gather.
  eapply Permutation_trans.
  - apply Permutation_map. apply permute_Permutation. rewrite Lix. exact Hperm.
  - unfold tiled_ix. rewrite map_app, map_tiles, map_nth_seq. reflexivity.
Qed.

Lemma tiled_choice_counts : forall (a : list Z) nsample choice perm x,
  0 < length a -> NoDup choice -> Forall (fun p => p < length a) choice -> length choice = nsample mod length a ->
  Permutation perm (seq 0 nsample) ->
  tiled_choice a nsample false choice perm = Some x ->
  length x = nsample /\ (forall u, In u x -> In u a) /\
  forall v, count_z v x = nsample / length a * count_z v a + count_z v (take_labels a choice) /\
            count_z v (take_labels a choice) <= count_z v a /\
            count_z v (take_labels a choice) <= nsample mod length a.
Proof.
  intros a ns choice perm x Hn Hnd Hr Hl Hperm H.
  pose proof (tiled_choice_perm a ns choice perm x Hn Hl Hperm H) as P.
  assert (Ll : length (take_labels a choice) = ns mod length a).
  { unfold take_labels, gather. now rewrite map_length. }
  split; [|split].
  - rewrite (Permutation_length P), app_length, tiles_length_gen, Ll.
    pose proof (Nat.div_mod ns (length a) ltac:(lia)). lia.
  - intros u Hu. apply (Permutation_in _ P) in Hu. apply in_app_or in Hu as [Hu|Hu].
    + apply in_concat in Hu as (l & Hl' & Hu). apply repeat_spec in Hl'. now rewrite Hl' in Hu.
    + unfold take_labels, gather in Hu. apply in_map_iff in Hu as (p & <- & Hp). apply nth_In.
      rewrite Forall_forall in Hr. now apply Hr.
  - intros v. rewrite (count_z_Permutation v _ _ P), count_z_app, count_z_tiles.
    split; [reflexivity|]. split; [now apply labels_count_le|].
    rewrite <- Ll. apply count_z_le_length.
Qed.

(** * 2. SubsetSelectionConfiguration *)
Lemma cfg_subset_inv nc np decn choice perm pms r : cfg_subset nc np decn choice perm pms = Some r ->
  exists x, cfg_subset_sample nc np decn choice perm = Some x /\ xc_tail nc np x pms = Some r.
Proof.
  unfold cfg_subset, cfg_subset_sample. destruct (shape_ok nc np); [|discriminate].
  destruct (tiled_choice decn (nc * np) false choice perm) as [x|]; [|discriminate].
  intros H. now exists x.
Qed.

(** a decision vector with repeated members (what a hill climber may return) *)
Theorem cfg_subset_multiset_spec : forall nc np decn choice perm pms r,
  0 < length decn -> NoDup choice -> Forall (fun p => p < length decn) choice -> length choice = (nc * np) mod length decn ->
  Permutation perm (seq 0 (nc * np)) ->
  (forall x, cfg_subset_sample nc np decn choice perm = Some x -> draws_ok np x pms) ->
  cfg_subset nc np decn choice perm pms = Some r ->
  length r = nc * np /\ (forall v, In v r -> In v decn) /\
  (forall v, exists e, count_z v r = (nc * np) / length decn * count_z v decn + e /\ e <= count_z v decn /\ e <= (nc * np) mod length decn) /\
  local_opt np r.
Proof.
  intros nc np decn choice perm pms r Hn Hnd Hr Hl Hperm Hd H.
  destruct (cfg_subset_inv _ _ _ _ _ _ _ H) as (x & Hx & Ht).
  pose proof (Hd x Hx) as Hdx. unfold cfg_subset_sample in Hx.
  destruct (tiled_choice_counts decn (nc * np) choice perm x Hn Hnd Hr Hl Hperm Hx) as (Lx & Inx & Cx).
  destruct (xc_tail_spec nc np x pms r Lx Hdx Ht) as (Lr & Pr & _ & Or).
  split; [exact Lr|]. split; [|split; [|exact Or]].
  - intros v Hv. apply Inx. eapply Permutation_in; [exact Pr | exact Hv].
  - intros v. destruct (Cx v) as (C1 & C2 & C3). exists (count_z v (take_labels decn choice)).
    rewrite (count_z_Permutation v _ _ Pr). split; [exact C1|]. split; [exact C2 | exact C3].
Qed.

(** the decision vector is a set *)
Theorem cfg_subset_spec : forall nc np decn choice perm pms r,
  0 < length decn -> NoDup decn ->
  NoDup choice -> Forall (fun p => p < length decn) choice -> length choice = (nc * np) mod length decn ->
  Permutation perm (seq 0 (nc * np)) ->
  (forall x, cfg_subset_sample nc np decn choice perm = Some x -> draws_ok np x pms) ->
  cfg_subset nc np decn choice perm pms = Some r ->
  length r = nc * np /\ (forall v, In v r -> In v decn) /\
  (forall i, i < length decn ->
      count_z (nth i decn 0%Z) r = (nc * np) / length decn + count_nat i choice /\ count_nat i choice <= 1) /\
  local_opt np r.
Proof.
  intros nc np decn choice perm pms r Hn Hndd Hnd Hr Hl Hperm Hd H.
  destruct (cfg_subset_multiset_spec nc np decn choice perm pms r Hn Hnd Hr Hl Hperm Hd H) as (Lr & Inr & _ & Or).
  split; [exact Lr|]. split; [exact Inr|]. split; [|exact Or].
  destruct (cfg_subset_inv _ _ _ _ _ _ _ H) as (x & Hx & Ht).
  pose proof (Hd x Hx) as Hdx. unfold cfg_subset_sample in Hx.
  destruct (tiled_choice_counts decn (nc * np) choice perm x Hn Hnd Hr Hl Hperm Hx) as (Lx & _ & _).
  destruct (xc_tail_spec nc np x pms r Lx Hdx Ht) as (_ & Pr & _ & _).
  destruct (tiled_even (length decn) (nc * np) choice perm Hn Hnd Hr Hl Hperm) as (sel & Hs & Ls & Rs & Cs).
  assert (Ex : x = take_labels decn sel).
  { change (tiled_choice decn (nc * np) false choice perm)
      with (option_map (take_labels decn) (tiled_sel (length decn) (nc * np) choice perm)) in Hx.
    rewrite Hs in Hx. cbn [option_map] in Hx. now injection Hx as <-. }
  intros i Hi. rewrite (count_z_Permutation _ _ _ Pr), Ex, labels_count by assumption. now apply Cs.
Qed.

(** * 3. tiled_choice over options = repeat(arange(len x), x): the binary configuration (and the former integer one) *)
Lemma rep_from_count_low : forall x s j, j < s -> count_z (Z.of_nat j) (rep_from s x) = 0.
Proof.
  induction x as [|c t IH]; intros s j Hj; [reflexivity|]. cbn [rep_from].
  rewrite count_z_app, count_z_repeat. destruct (Z.eq_dec (Z.of_nat s) (Z.of_nat j)); [lia|].
  rewrite IH by lia. reflexivity.
Qed.

Lemma rep_from_count_gen : forall x s i, i < length x ->
  count_z (Z.of_nat (s + i)) (rep_from s x) = Z.to_nat (nth i x 0%Z).
Proof.
  induction x as [|c t IH]; intros s i Hi; [cbn in Hi; lia|]. cbn [rep_from].
  rewrite count_z_app, count_z_repeat. destruct i as [|i].
  - rewrite Nat.add_0_r. destruct (Z.eq_dec (Z.of_nat s) (Z.of_nat s)) as [_|NE]; [|contradiction].
    rewrite rep_from_count_low by lia. cbn [nth]. lia.
  - destruct (Z.eq_dec (Z.of_nat s) (Z.of_nat (s + S i))); [lia|].
    replace (s + S i) with (S s + i) by lia. rewrite IH by (cbn [length] in Hi; lia). reflexivity.
Qed.

(** (holds for any x: a negative entry contributes nothing, and Z.to_nat of it is 0) *)
Lemma rep_from_count : forall x i, (forall c, In c x -> (0 <= c)%Z) -> i < length x ->
  count_z (Z.of_nat i) (rep_from 0 x) = Z.to_nat (nth i x 0%Z).
Proof. intros x i _ Hi. exact (rep_from_count_gen x 0 i Hi). Qed.

Lemma rep_from_In_gen : forall x s v, In v (rep_from s x) ->
  exists i, v = Z.of_nat (s + i) /\ i < length x /\ (0 < nth i x 0)%Z.
Proof.
  induction x as [|c t IH]; intros s v H; [destruct H|]. cbn [rep_from] in H.
  apply in_app_or in H as [H|H].
  - pose proof (repeat_spec _ _ _ H) as E. exists 0. rewrite Nat.add_0_r. split; [exact E|].
    split; [cbn [length]; lia|]. cbn [nth]. destruct (Z.to_nat c) eqn:Ec; [destruct H | lia].
  - destruct (IH _ _ H) as (i & E & Hi & Hp). exists (S i). split; [rewrite E; f_equal; lia|].
    split; [cbn [length]; lia | exact Hp].
Qed.

Lemma rep_from_In : forall x v, In v (rep_from 0 x) ->
  exists i, v = Z.of_nat i /\ i < length x /\ (0 < nth i x 0)%Z.
Proof. intros x v H. exact (rep_from_In_gen x 0 v H). Qed.

Lemma rep_from_length_gen : forall x s, (forall c, In c x -> (0 <= c)%Z) ->
  length (rep_from s x) = Z.to_nat (sumZ x).
Proof.
  induction x as [|c t IH]; intros s Hx; [reflexivity|]. cbn [rep_from].
  rewrite app_length, repeat_length, IH by (intros c' Hc'; apply Hx; now right).
  change (sumZ (c :: t)) with (c + sumZ t)%Z.
  rewrite Z2Nat.inj_add; [reflexivity | apply Hx; now left |].
  apply sumZ_nonneg. apply Forall_forall. intros c' Hc'. apply Hx. now right.
Qed.

Lemma rep_from_length : forall x, (forall c, In c x -> (0 <= c)%Z) ->
  length (rep_from 0 x) = Z.to_nat (sumZ x).
Proof. intros x Hx. now apply rep_from_length_gen. Qed.

Lemma rep_options_some x opts : rep_options x = Some opts ->
  opts = rep_from 0 x /\ forall c, In c x -> (0 <= c)%Z.
Proof.
  unfold rep_options. destruct (existsb (fun c => (c <? 0)%Z) x) eqn:E; [discriminate|].
  intros H. injection H as <-. split; [reflexivity|]. intros c Hc.
  destruct (Z.ltb_spec c 0) as [L|G]; [|exact G]. exfalso.
  assert (Ht : existsb (fun c => (c <? 0)%Z) x = true).
  { apply existsb_exists. exists c. split; [exact Hc | now apply Z.ltb_lt]. }
  congruence.
Qed.

Lemma cfg_repeat_tiled_inv nc np x choice perm pms r : cfg_repeat_tiled nc np x choice perm pms = Some r ->
  (forall c, In c x -> (0 <= c)%Z) /\
  exists s, tiled_choice (rep_from 0 x) (nc * np) false choice perm = Some s /\ xc_tail nc np s pms = Some r.
Proof.
  unfold cfg_repeat_tiled. destruct (shape_ok nc np); [|discriminate].
  destruct (rep_options x) as [opts|] eqn:Eo; [|discriminate].
  destruct (rep_options_some _ _ Eo) as [Eopts Hnn]. rewrite Eopts.
  destruct (tiled_choice (rep_from 0 x) (nc * np) false choice perm) as [s|]; [|discriminate].
  intros H. split; [exact Hnn|]. now exists s.
Qed.

(** the result in terms of the option array *)
Lemma cfg_repeat_tiled_core : forall nc np x choice perm pms r,
  let opts := rep_from 0 x in let t := nc * np in
  0 < length opts -> NoDup choice -> Forall (fun p => p < length opts) choice -> length choice = t mod length opts ->
  Permutation perm (seq 0 t) ->
  (forall s, tiled_choice opts t false choice perm = Some s -> draws_ok np s pms) ->
  cfg_repeat_tiled nc np x choice perm pms = Some r ->
  (forall c, In c x -> (0 <= c)%Z) /\
  length r = t /\ (forall v, In v r -> In v opts) /\
  (forall v, count_z v r = t / length opts * count_z v opts + count_z v (take_labels opts choice) /\
             count_z v (take_labels opts choice) <= count_z v opts /\
             count_z v (take_labels opts choice) <= t mod length opts) /\
  local_opt np r.
Proof.
  intros nc np x choice perm pms r. cbv zeta. intros Hn Hnd Hr Hl Hperm Hd H.
  destruct (cfg_repeat_tiled_inv _ _ _ _ _ _ _ H) as (Hnn & s & Hs & Ht).
  pose proof (Hd s Hs) as Hds.
  destruct (tiled_choice_counts (rep_from 0 x) (nc * np) choice perm s Hn Hnd Hr Hl Hperm Hs) as (Ls & Ins & Cs).
  destruct (xc_tail_spec nc np s pms r Ls Hds Ht) as (Lr & Pr & _ & Or).
  split; [exact Hnn|]. split; [exact Lr|]. split; [|split; [|exact Or]].
  - intros v Hv. apply Ins. eapply Permutation_in; [exact Pr | exact Hv].
  - intros v. rewrite (count_z_Permutation v _ _ Pr). apply Cs.
Qed.

Theorem cfg_repeat_tiled_spec : forall nc np x choice perm pms r,
  let opts := rep_from 0 x in let t := nc * np in
  0 < length opts -> NoDup choice -> Forall (fun p => p < length opts) choice -> length choice = t mod length opts ->
  Permutation perm (seq 0 t) ->
  (forall s, tiled_choice opts t false choice perm = Some s -> draws_ok np s pms) ->
  cfg_repeat_tiled nc np x choice perm pms = Some r ->
  length r = t /\
  (forall v, In v r -> exists i, v = Z.of_nat i /\ i < length x /\ (0 < nth i x 0)%Z) /\
  (forall i, i < length x -> exists e,
      count_z (Z.of_nat i) r = t / length opts * Z.to_nat (nth i x 0%Z) + e /\
      e <= Z.to_nat (nth i x 0%Z) /\ e <= t mod length opts) /\
  local_opt np r.
Proof.
  intros nc np x choice perm pms r. cbv zeta. intros Hn Hnd Hr Hl Hperm Hd H.
  destruct (cfg_repeat_tiled_core nc np x choice perm pms r Hn Hnd Hr Hl Hperm Hd H) as (Hnn & Lr & Inr & Cr & Or).
  split; [exact Lr|]. split; [|split; [|exact Or]].
  - intros v Hv. apply rep_from_In. now apply Inr.
  - intros i Hi. destruct (Cr (Z.of_nat i)) as (C1 & C2 & C3).
    rewrite (rep_from_count x i Hnn Hi) in C1, C2.
    exists (count_z (Z.of_nat i) (take_labels (rep_from 0 x) choice)).
    split; [exact C1|]. split; [exact C2 | exact C3].
Qed.

(** the sum of the vector divides the number of slots: every individual is used exactly its proportional share *)
Theorem cfg_repeat_tiled_exact : forall nc np x choice perm pms r,
  let opts := rep_from 0 x in let t := nc * np in
  0 < length opts -> NoDup choice -> Forall (fun p => p < length opts) choice -> length choice = t mod length opts ->
  Permutation perm (seq 0 t) ->
  (forall s, tiled_choice opts t false choice perm = Some s -> draws_ok np s pms) ->
  cfg_repeat_tiled nc np x choice perm pms = Some r ->
  t mod length opts = 0 ->
  forall i, i < length x -> count_z (Z.of_nat i) r = Z.to_nat (nth i x 0%Z) * (t / length opts).
Proof.
  intros nc np x choice perm pms r. cbv zeta. intros Hn Hnd Hr Hl Hperm Hd H Hm i Hi.
  destruct (cfg_repeat_tiled_spec nc np x choice perm pms r Hn Hnd Hr Hl Hperm Hd H) as (_ & _ & Cr & _).
  destruct (Cr i Hi) as (e & C1 & _ & C3). rewrite C1. rewrite Hm in C3. lia.
Qed.

Lemma is_binary_nth x i : is_binary x = true -> i < length x -> nth i x 0%Z = 0%Z \/ nth i x 0%Z = 1%Z.
Proof.
  intros Hb Hi. unfold is_binary in Hb. rewrite forallb_forall in Hb.
  specialize (Hb (nth i x 0%Z) (nth_In _ _ Hi)). apply orb_true_iff in Hb as [E|E]; apply Z.eqb_eq in E; auto.
Qed.

(** binary vectors: the chosen individuals are used evenly *)
Theorem cfg_binary_spec : forall nc np x choice perm pms r,
  let opts := rep_from 0 x in let t := nc * np in
  0 < length opts -> NoDup choice -> Forall (fun p => p < length opts) choice -> length choice = t mod length opts ->
  Permutation perm (seq 0 t) ->
  (forall s, tiled_choice opts t false choice perm = Some s -> draws_ok np s pms) ->
  cfg_binary nc np x choice perm pms = Some r ->
  (forall i, i < length x -> nth i x 0%Z = 1%Z -> t / length opts <= count_z (Z.of_nat i) r <= t / length opts + 1) /\
  (forall i, i < length x -> nth i x 0%Z = 0%Z -> count_z (Z.of_nat i) r = 0) /\ length r = t /\ local_opt np r.
Proof.
  intros nc np x choice perm pms r. cbv zeta. intros Hn Hnd Hr Hl Hperm Hd H.
  unfold cfg_binary in H. destruct (is_binary x) eqn:Eb; [|discriminate].
  destruct (cfg_repeat_tiled_spec nc np x choice perm pms r Hn Hnd Hr Hl Hperm Hd H) as (Lr & _ & Cr & Or).
  split; [|split; [|split; [exact Lr | exact Or]]].
  - intros i Hi E1. destruct (Cr i Hi) as (e & C1 & C2 & _). rewrite E1 in C1, C2.
    change (Z.to_nat 1) with 1 in C1, C2. lia.
  - intros i Hi E0. destruct (Cr i Hi) as (e & C1 & C2 & _). rewrite E0 in C1, C2.
    change (Z.to_nat 0) with 0 in C1, C2. lia.
Qed.

(** every entry of a binary vector is 0 or 1, so the two clauses above cover all individuals *)
Corollary cfg_binary_cases : forall x i, is_binary x = true -> i < length x -> nth i x 0%Z = 0%Z \/ nth i x 0%Z = 1%Z.
Proof. intros x i. apply is_binary_nth. Qed.

(** * 4. the integer configuration before commit e5bdc2c0 ([old_cfg_integer] = [cfg_repeat_tiled]): 'within one of the
      proportional share' failed when the sum does not divide the number of slots (regression witness; the repaired
      code is [cfg_integer], proved at full strength in Proofs/C07_Integer.v) *)
Theorem old_cfg_integer_share_refuted : exists nc np x choice perm pms r i,
  let opts := rep_from 0 x in let t := nc * np in
  NoDup choice /\ Forall (fun p => p < length opts) choice /\ length choice = t mod length opts /\ Permutation perm (seq 0 t) /\
  (forall s, tiled_choice opts t false choice perm = Some s -> draws_ok np s pms) /\
  old_cfg_integer nc np x choice perm pms = Some r /\ i < length x /\
  (Z.of_nat (length opts) < Z.abs (Z.of_nat (count_z (Z.of_nat i) r) * Z.of_nat (length opts) - Z.of_nat t * nth i x 0%Z))%Z.
Proof.
  exists 3, 1, [3;3]%Z, [0;1;2], [0;1;2], [[0;1;2];[0];[0];[0]], [0;0;0]%Z, 0. cbv zeta.
  assert (L : length (rep_from 0 [3;3]%Z) = 6) by reflexivity. rewrite L.
  split; [apply nodupb_NoDup; reflexivity|].
  split; [repeat (apply Forall_cons; [lia|]); apply Forall_nil|].
  split; [reflexivity|].
  split; [apply is_perm_sound; reflexivity|].
  split; [|split; [reflexivity|split; [cbn [length]; lia | vm_compute; reflexivity]]].
  intros s Hs. vm_compute in Hs. injection Hs as <-.
  intros y n Ho. vm_compute in Ho. injection Ho as <- <-.
  cbn [firstn skipn]. split.
  - repeat (apply Forall_cons; [apply is_perm_sound; reflexivity|]). apply Forall_nil.
  - repeat (apply Forall_cons; [apply is_perm_sound; reflexivity|]). apply Forall_nil.
Qed.

(** * 5. composition with the sorting optimiser: k members for k slots *)
Theorem select_sort_subset_spec : forall nc np crit choice perm pms d xc,
  let k := nc * np in
  0 < k -> NoDup choice -> Forall (fun p => p < k) choice -> length choice = 0 -> Permutation perm (seq 0 k) ->
  (forall sel x, sort_select crit k = Some sel -> cfg_subset_sample nc np (zs sel) choice perm = Some x -> draws_ok np x pms) ->
  select_sort_subset nc np crit choice perm pms = Some (d, xc) ->
  exists sel, d = zs sel /\ sort_select crit k = Some sel /\
    length sel = k /\ NoDup sel /\ Forall (fun i => i < length crit) sel /\
    (forall i j, In i sel -> j < length crit -> ~ In j sel -> (nth i crit 0 <= nth j crit 0)%Z) /\
    length xc = k /\ (forall v, In v xc <-> In v d) /\ (forall v, In v d -> count_z v xc = 1) /\ local_opt np xc.
Proof.
  intros nc np crit choice perm pms d xc. cbv zeta. intros Hk Hnd Hr Hl Hperm Hd H.
  unfold select_sort_subset in H.
  destruct (sort_select crit (nc * np)) as [sel|] eqn:Es; [|discriminate].
  destruct (cfg_subset nc np (zs sel) choice perm pms) as [r|] eqn:Ec; [|discriminate].
  injection H as <- <-.
  destruct (sort_select_topk _ _ _ Es) as (T1 & T2 & T3 & T4 & _).
  assert (Ld : length (zs sel) = nc * np) by (unfold zs; now rewrite map_length).
  assert (NDd : NoDup (zs sel)).
  { unfold zs. apply NoDup_map_inj_in; [|exact T2]. intros a b _ _ E. lia. }
  destruct choice as [|c0 ch]; [|discriminate Hl].
  destruct (cfg_subset_spec nc np (zs sel) [] perm pms r) as (Lr & Inr & Cr & Or).
  - rewrite Ld. exact Hk.
  - exact NDd.
  - constructor.
  - constructor.
  - rewrite Ld, Nat.mod_same by lia. reflexivity.
  - exact Hperm.
  - intros x Hx. exact (Hd sel x eq_refl Hx).
  - exact Ec.
  - assert (C1 : forall v, In v (zs sel) -> count_z v r = 1).
    { intros v Hv. destruct (In_nth _ _ 0%Z Hv) as (i & Hi & Ev). rewrite <- Ev.
      destruct (Cr i Hi) as [C _]. rewrite C, Ld, Nat.div_same by lia. reflexivity. }
    exists sel. split; [reflexivity|]. split; [reflexivity|].
    split; [exact T1|]. split; [exact T2|]. split; [exact T3|]. split; [exact T4|].
    split; [exact Lr|]. split; [|split; [exact C1 | exact Or]].
    intros v. split; [apply Inr|]. intros Hv. specialize (C1 v Hv). unfold count_z in C1.
    apply (count_occ_In Z.eq_dec). lia.
Qed.

(** * 6. the hypotheses are satisfiable: 3 members (resp. 3 options) for 4 slots, remainder 1, two descent passes *)
Example C07_tiled_hyps_satisfiable :
  let nc := 2 in let np := 2 in
  let choice := [1] in let perm := [3;1;0;2] in
  let pms := [seq 0 6; seq 0 6; [1;0]; [0;1]] in
  let decn := [5;2;7]%Z in
  let x := [1;0;1;1]%Z in
  let opts := rep_from 0 x in
  (* cfg_subset_spec *)
  0 < length decn /\ NoDup decn /\ NoDup choice /\ Forall (fun p => p < length decn) choice /\
  length choice = (nc * np) mod length decn /\ Permutation perm (seq 0 (nc * np)) /\
  (forall s, cfg_subset_sample nc np decn choice perm = Some s -> draws_ok np s pms) /\
  cfg_subset_sample nc np decn choice perm = Some [2;2;5;7]%Z /\
  cfg_subset nc np decn choice perm pms = Some [2;5;2;7]%Z /\
  (* cfg_repeat_tiled_spec *)
  opts = [0;2;3]%Z /\
  0 < length opts /\ Forall (fun p => p < length opts) choice /\ length choice = (nc * np) mod length opts /\
  (forall s, tiled_choice opts (nc * np) false choice perm = Some s -> draws_ok np s pms) /\
  tiled_choice opts (nc * np) false choice perm = Some [2;2;0;3]%Z /\
  cfg_repeat_tiled nc np x choice perm pms = Some [2;0;2;3]%Z.
Proof.
  cbv zeta.
  assert (Hdraw : forall s y n, outcross 2 s [seq 0 6; seq 0 6; [1; 0]; [0; 1]] = Some (y, n) -> n = 2 -> length s = 4 ->
            Forall (fun pm => Permutation pm (seq 0 (length (all_pairs (length s))))) (firstn n [seq 0 6; seq 0 6; [1; 0]; [0; 1]]) /\
            Forall (fun pm => Permutation pm (seq 0 2)) (skipn n [seq 0 6; seq 0 6; [1; 0]; [0; 1]])).
  { intros s y n _ En Ls. rewrite En, Ls. cbn [firstn skipn]. split;
      repeat (apply Forall_cons; [apply is_perm_sound; reflexivity|]); apply Forall_nil. }
  split; [cbn [length]; lia|].
  split; [repeat (constructor; [cbn [In]; intros Hin; repeat (destruct Hin as [Hin|Hin]; [discriminate Hin|]); exact Hin|]); constructor|].
  split; [apply nodupb_NoDup; reflexivity|].
  split; [repeat (apply Forall_cons; [cbn [length]; lia|]); apply Forall_nil|].
  split; [reflexivity|].
  split; [apply is_perm_sound; reflexivity|].
  split.
  { intros s Hs. vm_compute in Hs. injection Hs as <-. intros y n Ho. apply (Hdraw _ y n Ho); [|reflexivity].
    vm_compute in Ho. now injection Ho as _ <-. }
  split; [reflexivity|]. split; [reflexivity|].
  assert (Eo : rep_from 0 [1;0;1;1]%Z = [0;2;3]%Z) by reflexivity. rewrite Eo.
  split; [reflexivity|].
  split; [cbn [length]; lia|].
  split; [repeat (apply Forall_cons; [cbn [length]; lia|]); apply Forall_nil|].
  split; [reflexivity|].
  split.
  { intros s Hs. vm_compute in Hs. injection Hs as <-. intros y n Ho. apply (Hdraw _ y n Ho); [|reflexivity].
    vm_compute in Ho. now injection Ho as _ <-. }
  split; reflexivity.
Qed.

Print Assumptions tiled_choice_counts.
Print Assumptions cfg_subset_spec.
Print Assumptions cfg_subset_multiset_spec.
Print Assumptions rep_from_count.
Print Assumptions rep_from_In.
Print Assumptions rep_from_length.
Print Assumptions cfg_repeat_tiled_spec.
Print Assumptions cfg_repeat_tiled_exact.
Print Assumptions cfg_binary_spec.
Print Assumptions old_cfg_integer_share_refuted.
Print Assumptions select_sort_subset_spec.
Print Assumptions C07_tiled_hyps_satisfiable.
