(** C04 — Gauss-Seidel as coordinate descent on f(x) = 1/2 x'Ax - b'x (symmetric A, positive diagonal): no sweep increases f,
    hence f(result) <= f(0) = 0 for every tolerance and iteration limit; the residual bound on exit by tolerance; the
    structural facts about rrBLUPModel0.fit_numpy (intercept = mean, monomorphic markers get exactly zero). *)
From Coq Require Import Lqa.
From PV Require Import Lib.Common Model.C04_Gmod Model.C04_GS Proofs.C04_Counts Proofs.C04_Linear Proofs.C04_Var Proofs.C04_Sums.
Local Open Scope Q_scope.

(** ** list facts *)
Lemma set_nth_length k v x : length (set_nth k v x) = length x.
Proof. revert k. induction x as [|h t IH]; intros [|k]; cbn; try reflexivity. now rewrite IH. Qed.

Lemma nth_set_nth k v x j : (k < length x)%nat -> nth j (set_nth k v x) 0 = if Nat.eqb j k then v else nth j x 0.
Proof.
  revert k j. induction x as [|h t IH]; intros k j H; cbn in H; [lia|].
  destruct k as [|k]; destruct j as [|j]; cbn [set_nth nth Nat.eqb]; try reflexivity. apply IH. lia.
Qed.

Lemma dotQ_split3 : forall (k : nat) (r x : list Q), (k < length r)%nat -> (k < length x)%nat ->
  dotQ r x == dotQ (firstn k r) (firstn k x) + nth k r 0 * nth k x 0 + dotQ (skipn (S k) r) (skipn (S k) x).
Proof.
  induction k as [|k IH]; intros [|a r] [|c x] Hr Hx; cbn in Hr, Hx; try lia.
  - cbn [firstn skipn nth]. rewrite dotQ_cons, dotQ_nil_l. ring.
  - cbn [firstn skipn nth]. rewrite !dotQ_cons, (IH r x) by lia. cbn [skipn]. ring.
Qed.

Lemma skipn_cons_inv {A} (d : A) : forall (i : nat) (l : list A) (r : A) (rest : list A),
  skipn i l = r :: rest -> nth i l d = r /\ skipn (S i) l = rest /\ (i < length l)%nat.
Proof.
  induction i as [|i IH]; intros [|h t] r rest E; cbn in E; try discriminate.
  - injection E as -> ->. cbn. repeat split. lia.
  - destruct (IH t r rest E) as (E1 & E2 & E3). cbn [nth length]. repeat split; [exact E1 | exact E2 | lia].
Qed.

Section GS.
  Variable n : nat.
  Variable A : list (list Q).
  Variable b : list Q.
  Hypothesis HA : length A = n.
  Hypothesis HAr : rows_len n A.
  Hypothesis Hb : length b = n.

  Let a (i j : nat) : Q := nth j (nth i A []) 0.
  Let bb (i : nat) : Q := nth i b 0.

  Lemma row_len i : (i < n)%nat -> length (nth i A []) = n.
  Proof. intros H. unfold rows_len in HAr. rewrite Forall_forall in HAr. apply HAr, nth_In. lia. Qed.

  (** index form of the criterion *)
  Definition Rsum (x : nat -> Q) (i : nat) : Q := bigsum n (fun j => a i j * x j).
  Definition qfF (x : nat -> Q) : Q := (1 # 2) * bigsum n (fun i => x i * Rsum x i) - bigsum n (fun i => bb i * x i).

  Lemma matvec_nth x i : length x = n -> (i < n)%nat -> nth i (matvec A x) 0 == Rsum (fun j => nth j x 0) i.
  Proof.
    intros Lx Hi. unfold matvec. rewrite (nth_map_in (fun r => dotQ r x) [] 0) by lia. cbv beta.
    rewrite (dotQ_bigsum (nth i A []) x n) by (try apply row_len; assumption). reflexivity.
  Qed.

  Lemma qform_qfF x : length x = n -> qform A b x == qfF (fun i => nth i x 0).
  Proof.
    intros Lx. unfold qform, qfF.
    rewrite (dotQ_bigsum x (matvec A x) n) by (unfold matvec; rewrite ?map_length; assumption).
    rewrite (dotQ_bigsum b x n) by assumption.
    rewrite (bigsum_ext n (fun i => nth i x 0 * nth i (matvec A x) 0) (fun i => nth i x 0 * Rsum (fun j => nth j x 0) i))
      by (intros i Hi; now rewrite matvec_nth).
    reflexivity.
  Qed.

  (** changing one coordinate: exact change of the criterion *)
  Definition upd (x : nat -> Q) (k : nat) (v : Q) : nat -> Q := fun i => if Nat.eqb i k then v else x i.

  Lemma upd_delta x k v i : upd x k v i == x i + (v - x k) * delta k i.
  Proof. unfold upd, delta. destruct (Nat.eqb_spec i k) as [->|]; ring. Qed.

  Lemma Rsum_upd x k v i : (k < n)%nat -> Rsum (upd x k v) i == Rsum x i + (v - x k) * a i k.
  Proof.
    intros Hk. unfold Rsum.
    rewrite (bigsum_ext n _ (fun j => a i j * x j + (v - x k) * (delta k j * a i j))) by (intros j _; rewrite upd_delta; ring).
    rewrite bigsum_plus, bigsum_scale, bigsum_delta by exact Hk. reflexivity.
  Qed.

  Hypothesis sym : forall i j, (i < n)%nat -> (j < n)%nat -> a i j == a j i.

  Lemma coord_change x k v : (k < n)%nat ->
    qfF (upd x k v) - qfF x == (v - x k) * (Rsum x k - bb k) + (1 # 2) * a k k * ((v - x k) * (v - x k)).
  Proof.
    intros Hk. unfold qfF. set (d := v - x k).
    assert (E1 : bigsum n (fun i => upd x k v i * Rsum (upd x k v) i) ==
                 bigsum n (fun i => x i * Rsum x i) + d * Rsum x k + d * Rsum x k + d * d * a k k).
    { rewrite (bigsum_ext n _ (fun i => x i * Rsum x i + (d * (a k i * x i) + (d * (delta k i * Rsum x i) + d * d * (delta k i * a i k))))).
      - rewrite !bigsum_plus, !bigsum_scale, !bigsum_delta by exact Hk. fold (Rsum x k). ring.
      - intros i Hi. rewrite Rsum_upd, upd_delta by exact Hk. fold d. rewrite (sym k i Hk Hi). ring. }
    assert (E2 : bigsum n (fun i => bb i * upd x k v i) == bigsum n (fun i => bb i * x i) + d * bb k).
    { rewrite (bigsum_ext n _ (fun i => bb i * x i + d * (delta k i * bb i))) by (intros i _; rewrite upd_delta; fold d; ring).
      rewrite bigsum_plus, bigsum_scale, bigsum_delta by exact Hk. reflexivity. }
    rewrite E1, E2. ring.
  Qed.

  (** the Gauss-Seidel value of coordinate k minimises the criterion along that coordinate *)
  Lemma coord_descent x k v : (k < n)%nat -> 0 < a k k -> a k k * v == bb k - (Rsum x k - a k k * x k) ->
    qfF (upd x k v) - qfF x == - ((1 # 2) * a k k * ((v - x k) * (v - x k))).
  Proof.
    intros Hk Hpos Ev. rewrite coord_change by exact Hk.
    assert (E : Rsum x k - bb k == - (a k k * (v - x k))) by (setoid_replace (a k k * (v - x k)) with (a k k * v - a k k * x k) by ring; rewrite Ev; ring).
    rewrite E. ring.
  Qed.

  Hypothesis diag_pos : forall i, (i < n)%nat -> 0 < a i i.

  Lemma coord_descent_le x k v : (k < n)%nat -> a k k * v == bb k - (Rsum x k - a k k * x k) -> qfF (upd x k v) <= qfF x.
  Proof.
    intros Hk Ev. pose proof (coord_descent x k v Hk (diag_pos k Hk) Ev) as E.
    assert (0 <= (1 # 2) * a k k * ((v - x k) * (v - x k))).
    { apply Qmult_le_0_compat; [|apply sq_nonneg]. apply Qmult_le_0_compat; [discriminate|]. apply Qlt_le_weak, diag_pos, Hk. }
    lra.
  Qed.

  (** the list-level coordinate value solves row k given the other coordinates *)
  Lemma gs_coord_eq k x : (k < n)%nat -> length x = n ->
    a k k * gs_coord k (nth k A []) (bb k) x == bb k - (Rsum (fun j => nth j x 0) k - a k k * nth k x 0).
  Proof.
    intros Hk Lx. unfold gs_coord. rewrite Qred_correct.
    pose proof (dotQ_split3 k (nth k A []) x) as S. rewrite row_len in S by exact Hk. specialize (S Hk). rewrite Lx in S. specialize (S Hk).
    rewrite (dotQ_bigsum (nth k A []) x n) in S by (try apply row_len; assumption).
    assert (NZ : ~ a k k == 0) by (pose proof (diag_pos k Hk); lra).
    assert (ER : Rsum (fun j => nth j x 0) k == bigsum n (fun i => nth i (nth k A []) 0 * nth i x 0)) by reflexivity.
    rewrite ER, S. change (nth k (nth k A []) 0) with (a k k). field. exact NZ.
  Qed.

  Lemma upd_list k v x : (k < n)%nat -> length x = n -> forall i, nth i (set_nth k v x) 0 = upd (fun j => nth j x 0) k v i.
  Proof. intros Hk Lx i. unfold upd. apply nth_set_nth. lia. Qed.

  Lemma qfF_ext x y : (forall i, (i < n)%nat -> x i == y i) -> qfF x == qfF y.
  Proof.
    intros H. unfold qfF, Rsum. apply Qplus_comp; [apply Qmult_comp; [reflexivity|] | apply Qopp_comp].
    - apply bigsum_ext. intros i Hi. rewrite (H i Hi). apply Qmult_comp; [reflexivity|]. apply bigsum_ext. intros j Hj. now rewrite (H j Hj).
    - apply bigsum_ext. intros i Hi. now rewrite (H i Hi).
  Qed.

  (** one coordinate step on lists never increases the criterion *)
  Lemma step_descent k x : (k < n)%nat -> length x = n ->
    qform A b (set_nth k (gs_coord k (nth k A []) (bb k) x) x) <= qform A b x.
  Proof.
    intros Hk Lx. rewrite !qform_qfF by (rewrite ?set_nth_length; exact Lx).
    rewrite (qfF_ext _ (upd (fun j => nth j x 0) k (gs_coord k (nth k A []) (bb k) x))) by (intros i _; now rewrite upd_list).
    apply coord_descent_le; [exact Hk|]. now apply gs_coord_eq.
  Qed.

  (** the inner loop over the rows i, i+1, ...: [rows]/[bs] are the remaining rows of A / entries of b *)
  Lemma gs_rows_descent : forall rows bs i x, length x = n -> rows = skipn i A -> bs = skipn i b ->
    qform A b (gs_rows rows bs i x) <= qform A b x /\ length (gs_rows rows bs i x) = n.
  Proof.
    induction rows as [|r rows IH]; intros bs i x Lx Er Eb.
    - cbn. split; [apply Qle_refl | exact Lx].
    - destruct (skipn_cons_inv [] i A r rows (eq_sym Er)) as (Er0 & Er1 & Hi). rewrite HA in Hi.
      destruct bs as [|bi bs]; [exfalso; assert (L : length (skipn i b) = 0%nat) by (now rewrite <- Eb); rewrite skipn_length in L; lia|].
      destruct (skipn_cons_inv 0 i b bi bs (eq_sym Eb)) as (Eb0 & Eb1 & _).
      cbn [gs_rows]. subst r bi. fold (bb i). symmetry in Er1, Eb1.
      destruct (IH bs (S i) (set_nth i (gs_coord i (nth i A []) (bb i) x) x)) as [D L]; [now rewrite set_nth_length | exact Er1 | exact Eb1 |].
      split; [|exact L]. eapply Qle_trans; [exact D|]. now apply step_descent.
  Qed.

  (** a whole sweep never increases the criterion *)
  Lemma sweep_descent x : length x = n -> qform A b (gs_sweep A b x) <= qform A b x /\ length (gs_sweep A b x) = n.
  Proof. intros Lx. unfold gs_sweep. now apply gs_rows_descent. Qed.

  (** ... nor does any number of sweeps, whatever the tolerance *)
  Lemma loop_descent atol : forall fuel go x, length x = n ->
    qform A b (gs_loop fuel A b atol go x) <= qform A b x /\ length (gs_loop fuel A b atol go x) = n.
  Proof.
    induction fuel as [|fuel IH]; intros go x Lx; cbn [gs_loop]; [split; [apply Qle_refl | exact Lx]|].
    destruct go; [|split; [apply Qle_refl | exact Lx]].
    destruct (sweep_descent x Lx) as [D L]. destruct (IH (any_gt atol (adiff (gs_sweep A b x) x)) (gs_sweep A b x) L) as [D' L'].
    split; [eapply Qle_trans; eassumption | exact L'].
  Qed.

  Lemma qform_zero : qform A b (repeat 0 n) == 0.
  Proof.
    rewrite qform_qfF by apply repeat_length. unfold qfF.
    rewrite (bigsum_ext n _ (fun _ => 0)), (bigsum_ext n (fun i => bb i * _) (fun _ => 0)).
    - rewrite !bigsum_zero. ring.
    - intros i Hi. rewrite nth_repeat. ring.
    - intros i Hi. rewrite nth_repeat. ring.
  Qed.

  (** gauss_seidel never returns something worse than the all-zero vector, for every tolerance and iteration limit *)
  Lemma gauss_seidel_descent atol maxiter x : gauss_seidel A b atol maxiter = Some x -> qform A b x <= 0 /\ length x = n.
  Proof.
    unfold gauss_seidel. rewrite Hb. intros E.
    destruct (Qltb atol (2 * atol) && negb (Nat.eqb maxiter 0)).
    - destruct (diag_ok A); [|discriminate]. injection E as <-.
      destruct (loop_descent atol maxiter true (repeat 0 n) (repeat_length _ _)) as [D L]. split; [|exact L]. rewrite qform_zero in D. exact D.
    - injection E as <-. split; [rewrite qform_zero; apply Qle_refl | apply repeat_length].
  Qed.
End GS.

(** ** the residual of the normal equations after a sweep, and the bound on exit by tolerance *)
Lemma nth_firstn_lt {A} (d : A) : forall (k j : nat) (l : list A), (j < k)%nat -> nth j (firstn k l) d = nth j l d.
Proof.
  induction k as [|k IH]; intros j l H; [lia|]. destruct l as [|h t]; [now destruct j|].
  destruct j as [|j]; [reflexivity|]. cbn. apply IH. lia.
Qed.

Lemma bigsum_indicator_lt n k f : (k <= n)%nat -> bigsum n (fun j => if Nat.ltb j k then f j else 0) == bigsum k f.
Proof.
  induction n as [|n IH]; intros H.
  - assert (k = 0)%nat by lia. subst. reflexivity.
  - rewrite bigsum_S. destruct (Nat.eq_dec k (S n)) as [->|NE].
    + rewrite bigsum_S. destruct (Nat.ltb_spec n (S n)); [|lia]. apply Qplus_comp; [|reflexivity].
      apply bigsum_ext. intros j Hj. destruct (Nat.ltb_spec j (S n)); [reflexivity|lia].
    + rewrite IH by lia. destruct (Nat.ltb_spec n k); [lia|ring].
Qed.

Lemma dotQ_firstn_bigsum n k (r x : list Q) : length r = n -> length x = n -> (k <= n)%nat ->
  dotQ (firstn k r) (firstn k x) == bigsum n (fun j => if Nat.ltb j k then nth j r 0 * nth j x 0 else 0).
Proof.
  intros Lr Lx Hk. rewrite (dotQ_bigsum (firstn k r) (firstn k x) k) by (rewrite firstn_length; lia).
  rewrite bigsum_indicator_lt by exact Hk. apply bigsum_ext. intros j Hj. now rewrite !nth_firstn_lt by exact Hj.
Qed.

Lemma dotQ_skipn_bigsum n k (r x : list Q) : length r = n -> length x = n -> (k < n)%nat ->
  dotQ (skipn (S k) r) (skipn (S k) x) == bigsum n (fun j => if Nat.ltb k j then nth j r 0 * nth j x 0 else 0).
Proof.
  intros Lr Lx Hk. pose proof (dotQ_split3 k r x) as S. rewrite Lr, Lx in S. specialize (S Hk Hk).
  rewrite (dotQ_bigsum r x n Lr Lx), (dotQ_firstn_bigsum n k r x Lr Lx) in S by lia.
  rewrite (bigsum_split3 n k (fun j => nth j r 0 * nth j x 0) Hk) in S. lra.
Qed.

Section Residual.
  Variable n : nat.
  Variable A : list (list Q).
  Variable b : list Q.
  Hypothesis HA : length A = n.
  Hypothesis HAr : rows_len n A.
  Hypothesis Hb : length b = n.
  Let a (i j : nat) : Q := nth j (nth i A []) 0.
  Let bb (i : nat) : Q := nth i b 0.
  Hypothesis diag_nz : forall i, (i < n)%nat -> ~ a i i == 0.

  Let below (k : nat) (y : list Q) : Q := bigsum n (fun j => if Nat.ltb j k then a k j * nth j y 0 else 0).
  Let above (k : nat) (y : list Q) : Q := bigsum n (fun j => if Nat.ltb k j then a k j * nth j y 0 else 0).

  Lemma row_len' i : (i < n)%nat -> length (nth i A []) = n.
  Proof. intros H. unfold rows_len in HAr. rewrite Forall_forall in HAr. apply HAr, nth_In. lia. Qed.

  (** the value written to coordinate k uses the current list below and above k *)
  Lemma gs_coord_rows k x : (k < n)%nat -> length x = n ->
    a k k * gs_coord k (nth k A []) (bb k) x == bb k - below k x - above k x.
  Proof.
    intros Hk Lx. unfold gs_coord. rewrite Qred_correct.
    rewrite (dotQ_firstn_bigsum n k (nth k A []) x) by (try apply row_len'; assumption || lia).
    rewrite (dotQ_skipn_bigsum n k (nth k A []) x) by (try apply row_len'; assumption).
    change (nth k (nth k A []) 0) with (a k k). unfold below, above, a. field. exact (diag_nz k Hk).
  Qed.

  Lemma below_ext k x y : (forall j, (j < k)%nat -> nth j x 0 = nth j y 0) -> below k x == below k y.
  Proof. intros H. unfold below. apply bigsum_ext. intros j _. destruct (Nat.ltb_spec j k); [now rewrite H | reflexivity]. Qed.
  Lemma above_ext k x y : (forall j, (k < j)%nat -> nth j x 0 = nth j y 0) -> above k x == above k y.
  Proof. intros H. unfold above. apply bigsum_ext. intros j _. destruct (Nat.ltb_spec k j); [now rewrite H | reflexivity]. Qed.

  (** invariant of the inner loop started at row i on the list x *)
  Lemma gs_rows_spec : forall rows bs i x, length x = n -> rows = skipn i A -> bs = skipn i b ->
    let y := gs_rows rows bs i x in
    length y = n /\ (forall j, (j < i)%nat -> nth j y 0 = nth j x 0) /\
    (forall k, (i <= k < n)%nat -> a k k * nth k y 0 == bb k - below k y - above k x).
  Proof.
    induction rows as [|r rows IH]; intros bs i x Lx Er Eb y.
    - subst y. cbn. split; [exact Lx|]. split; [reflexivity|]. intros k Hk. exfalso.
      assert (L : length (skipn i A) = 0%nat) by (now rewrite <- Er). rewrite skipn_length in L. lia.
    - destruct (skipn_cons_inv [] i A r rows (eq_sym Er)) as (Er0 & Er1 & Hi). rewrite HA in Hi.
      destruct bs as [|bi bs]; [exfalso; assert (L : length (skipn i b) = 0%nat) by (now rewrite <- Eb); rewrite skipn_length in L; lia|].
      destruct (skipn_cons_inv 0 i b bi bs (eq_sym Eb)) as (Eb0 & Eb1 & _).
      subst y. cbn [gs_rows]. subst r bi. fold (bb i). symmetry in Er1, Eb1.
      set (v := gs_coord i (nth i A []) (bb i) x). set (x1 := set_nth i v x).
      assert (L1 : length x1 = n) by (unfold x1; now rewrite set_nth_length).
      destruct (IH bs (S i) x1 L1 Er1 Eb1) as (Ly & P1 & P2). set (y := gs_rows rows bs (S i) x1) in *.
      assert (X1 : forall j, nth j x1 0 = if Nat.eqb j i then v else nth j x 0) by (intro j; unfold x1; apply nth_set_nth; lia).
      split; [exact Ly|]. split.
      + intros j Hj. rewrite P1 by lia. rewrite X1. destruct (Nat.eqb_spec j i); [lia|reflexivity].
      + intros k Hk. destruct (Nat.eq_dec k i) as [->|NE].
        * rewrite P1 by lia. rewrite X1, Nat.eqb_refl. unfold v. rewrite gs_coord_rows by assumption.
          rewrite (below_ext i x y); [reflexivity|]. intros j Hj. rewrite P1 by lia. rewrite X1. destruct (Nat.eqb_spec j i); [lia|reflexivity].
        * rewrite P2 by lia. rewrite (above_ext k x1 x); [reflexivity|]. intros j Hj. rewrite X1. destruct (Nat.eqb_spec j i); [lia|reflexivity].
  Qed.

  (** after a sweep x -> y, row k of A y - b is  sum_{j>k} a_kj (y_j - x_j) *)
  Lemma sweep_residual x k : length x = n -> (k < n)%nat ->
    let y := gs_sweep A b x in
    nth k (residual A b y) 0 == bigsum n (fun j => if Nat.ltb k j then a k j * (nth j y 0 - nth j x 0) else 0).
  Proof.
    intros Lx Hk y. destruct (gs_rows_spec A b 0 x Lx eq_refl eq_refl) as (Ly & _ & P). fold (gs_sweep A b x) in Ly, P. fold y in Ly, P.
    specialize (P k (conj (Nat.le_0_l k) Hk)).
    unfold residual. rewrite (nth_map2 Qminus 0 0 0) by (unfold matvec; rewrite ?map_length; lia).
    unfold matvec. rewrite (nth_map_in (fun r => dotQ r y) [] 0) by lia. cbv beta.
    rewrite (dotQ_bigsum (nth k A []) y n) by (try apply row_len'; assumption).
    rewrite (bigsum_split3 n k _ Hk). fold (bb k). change (nth k (nth k A []) 0) with (a k k).
    assert (EB : bigsum n (fun j => if Nat.ltb j k then nth j (nth k A []) 0 * nth j y 0 else 0) == below k y) by reflexivity.
    assert (EA : bigsum n (fun j => if Nat.ltb k j then nth j (nth k A []) 0 * nth j y 0 else 0) == above k y) by reflexivity.
    rewrite EB, EA, P.
    rewrite (bigsum_ext n (fun j => if Nat.ltb k j then a k j * (nth j y 0 - nth j x 0) else 0)
                          (fun j => (if Nat.ltb k j then a k j * nth j y 0 else 0) - (if Nat.ltb k j then a k j * nth j x 0 else 0)))
      by (intros j _; destruct (Nat.ltb k j); ring).
    rewrite bigsum_minus. fold (above k y) (above k x). ring.
  Qed.

  (** exit by tolerance: every |y_j - x_j| <= atol  ==>  |(A y - b)_k| <= atol * sum_{j>k} |a_kj| *)
  Lemma any_gt_false atol (d : list Q) : any_gt atol d = false -> forall j, (j < length d)%nat -> nth j d 0 <= atol.
  Proof.
    intros H j Hj. unfold any_gt in H. assert (F : forall v, In v d -> Qltb atol v = false).
    { intros v Hv. destruct (Qltb atol v) eqn:E; [|reflexivity]. exfalso. assert (existsb (fun v0 => Qltb atol v0) d = true) by (apply existsb_exists; eauto). congruence. }
    specialize (F (nth j d 0) (nth_In _ _ Hj)). unfold Qltb in F. apply negb_false_iff, Qle_bool_iff in F. exact F.
  Qed.

  Lemma tolerance_exit_residual x atol k : length x = n -> (k < n)%nat ->
    let y := gs_sweep A b x in
    any_gt atol (adiff y x) = false ->
    Qabs' (nth k (residual A b y) 0) <= atol * bigsum n (fun j => if Nat.ltb k j then Qabs' (a k j) else 0).
  Proof.
    intros Lx Hk y Hex. pose proof (sweep_residual x k Lx Hk) as SR. cbv zeta in SR. fold y in SR. rewrite SR. clear SR.
    destruct (gs_rows_spec A b 0 x Lx eq_refl eq_refl) as (Ly & _ & _). fold (gs_sweep A b x) in Ly. fold y in Ly.
    eapply Qle_trans; [apply bigsum_abs_le|]. rewrite <- bigsum_scale. apply bigsum_le. intros j Hj.
    destruct (Nat.ltb k j).
    - assert (D : Qabs' (nth j y 0 - nth j x 0) <= atol).
      { pose proof (any_gt_false atol (adiff y x) Hex j) as G. unfold adiff in G. rewrite map2_length, Ly, Lx, Nat.min_id in G. specialize (G Hj).
        rewrite (nth_map2 (fun a0 c => Qabs' (a0 - c)) 0 0 0) in G by lia. exact G. }
      rewrite Qabs'_mult. setoid_replace (Qabs' (a k j) * Qabs' (nth j y 0 - nth j x 0)) with (Qabs' (nth j y 0 - nth j x 0) * Qabs' (a k j)) by ring.
      apply Qmult_le_compat_r; [exact D | apply Qabs'_nonneg].
    - assert (Qabs' 0 == 0) by reflexivity. rewrite H. lra.
  Qed.
End Residual.

(** ** how the loop ends: after k sweeps, and before the iteration limit only if the tolerance test passed *)
Section LoopExit.
  Variable A : list (list Q).
  Variable b : list Q.
  Variable atol : Q.

  Fixpoint iter_sweep (k : nat) (x : list Q) : list Q :=
    match k with O => x | S k' => iter_sweep k' (gs_sweep A b x) end.

  Lemma iter_sweep_last k x : iter_sweep (S k) x = gs_sweep A b (iter_sweep k x).
  Proof. revert x. induction k as [|k IH]; intros x; [reflexivity|]. cbn [iter_sweep] in *. now rewrite <- IH. Qed.

  Lemma gs_loop_exit : forall fuel x, (0 < fuel)%nat ->
    exists k, (1 <= k <= fuel)%nat /\ gs_loop fuel A b atol true x = iter_sweep k x /\
              ((k < fuel)%nat -> any_gt atol (adiff (iter_sweep k x) (iter_sweep (k - 1) x)) = false).
  Proof.
    induction fuel as [|fuel IH]; intros x H; [lia|]. cbn [gs_loop].
    destruct (any_gt atol (adiff (gs_sweep A b x) x)) eqn:E.
    - destruct fuel as [|fuel].
      + exists 1%nat. cbn. repeat split; lia.
      + destruct (IH (gs_sweep A b x)) as (k & Hk & Ek & Ck); [lia|]. exists (S k). split; [lia|]. split; [exact Ek|].
        intros Hlt. specialize (Ck ltac:(lia)). destruct k as [|k]; [lia|]. cbn [Nat.sub iter_sweep] in *. rewrite Nat.sub_0_r in *. exact Ck.
    - exists 1%nat. split; [lia|]. split; [destruct fuel; reflexivity|]. intros _. exact E.
  Qed.
End LoopExit.

(** ** rrBLUPModel0.fit_numpy: structure of the result *)
Lemma scatter_length : forall mask uh, length (scatter mask uh) = length mask.
Proof. induction mask as [|[|] m IH]; intros uh; cbn; [reflexivity| |]; destruct uh; cbn; now rewrite IH. Qed.

(** a marker outside the mask gets exactly 0 *)
Lemma scatter_masked : forall mask uh j, nth j mask true = false -> nth j (scatter mask uh) 0 = 0.
Proof.
  induction mask as [|m0 m IH]; intros uh j H; [destruct j; discriminate|].
  destruct j as [|j]; cbn in H.
  - subst m0. reflexivity.
  - destruct m0; [destruct uh|]; cbn; now apply IH.
Qed.

(** the solved effects are placed at the polymorphic markers, in order *)
Lemma select_scatter : forall mask uh, length uh = length (filter (fun x => x) mask) -> select mask (scatter mask uh) = uh.
Proof.
  induction mask as [|[|] m IH]; intros uh L; cbn in *.
  - now destruct uh.
  - destruct uh as [|x t]; [discriminate|]. cbn. f_equal. apply IH. now injection L.
  - now apply IH.
Qed.

Lemma poly_mask_length p Z : length (poly_mask p Z) = p.
Proof. unfold poly_mask. destruct Z; [apply repeat_length | now rewrite map_length, seq_length]. Qed.

(** a column is outside the mask exactly when every taxon carries the same dosage there *)
Lemma poly_mask_mono p (Z : zmat) r0 rest j : Z = r0 :: rest -> (j < p)%nat ->
  (nth j (poly_mask p Z) true = false <-> forall r, In r Z -> nth j r 0%Z = nth j r0 0%Z).
Proof.
  intros -> Hj. unfold poly_mask.
  rewrite (nth_map_in (fun j0 => negb (forallb (fun r => (nth j0 r 0 =? nth j0 r0 0)%Z) (r0 :: rest))) 0%nat true) by (now rewrite seq_length).
  rewrite seq_nth by exact Hj. cbn [Nat.add]. rewrite negb_false_iff, forallb_forall. split; intros H r Hr; [apply Z.eqb_eq | apply Z.eqb_eq]; now apply H.
Qed.

Lemma rr_fit1_structure p Z y ridge atol maxiter beta u : rr_fit1 p Z y ridge atol maxiter = Some (beta, u) ->
  beta = qmean y /\ length u = p /\ (forall j, nth j (poly_mask p Z) true = false -> nth j u 0 = 0).
Proof.
  unfold rr_fit1. destruct (gauss_seidel _ _ _ _) as [uh|]; [|discriminate]. intros E. injection E as <- <-.
  split; [reflexivity|]. split; [now rewrite scatter_length, poly_mask_length|]. intros j Hj. now apply scatter_masked.
Qed.

(** ** putting the exit analysis together *)
Lemma diag_ok_spec (A : list (list Q)) : diag_ok A = true -> forall i, (i < length A)%nat -> ~ nth i (nth i A []) 0 == 0.
Proof.
  unfold diag_ok. intros H i Hi E. rewrite forallb_forall in H.
  assert (In (i, nth i A []) (combine (seq 0 (length A)) A)).
  { replace (i, nth i A []) with (nth i (combine (seq 0 (length A)) A) (0%nat, [])).
    - apply nth_In. now rewrite combine_length, seq_length, Nat.min_id.
    - rewrite combine_nth by (now rewrite seq_length). now rewrite seq_nth. }
  specialize (H _ H0). cbn [fst snd] in H. apply negb_true_iff in H. apply Qeq_bool_iff in E. congruence.
Qed.

Lemma diag_ok_of_pos (A : list (list Q)) : (forall i, (i < length A)%nat -> 0 < nth i (nth i A []) 0) -> diag_ok A = true.
Proof.
  intros H. unfold diag_ok. apply forallb_forall. intros [i r] Hin. cbn [fst snd].
  apply In_nth with (d := (0%nat, [])) in Hin as (k & Hk & Ek). rewrite combine_length, seq_length, Nat.min_id in Hk.
  rewrite combine_nth in Ek by (now rewrite seq_length). rewrite seq_nth in Ek by exact Hk. injection Ek as <- <-. cbn [Nat.add].
  apply negb_true_iff. destruct (Qeq_bool (nth k (nth k A []) 0) 0) eqn:E; [|reflexivity]. apply Qeq_bool_iff in E. specialize (H k Hk). lra.
Qed.

Lemma iter_sweep_length n A b : length A = n -> rows_len n A -> length b = n -> (forall i, (i < n)%nat -> ~ nth i (nth i A []) 0 == 0) ->
  forall k x, length x = n -> length (iter_sweep A b k x) = n.
Proof.
  intros HA HAr Hb Hd. induction k as [|k IH]; intros x Lx; [exact Lx|]. cbn [iter_sweep]. apply IH.
  destruct (gs_rows_spec n A b HA HAr Hb Hd A b 0 x Lx eq_refl eq_refl) as (L & _). exact L.
Qed.

(** gauss_seidel stops after k <= maxiter sweeps; if it stops early, the normal equations hold up to atol * sum_{j>i} |A_ij| *)
Theorem gauss_seidel_exit_residual n A b atol maxiter xf : length A = n -> rows_len n A -> length b = n ->
  0 < atol -> (0 < maxiter)%nat -> gauss_seidel A b atol maxiter = Some xf ->
  exists k, (1 <= k <= maxiter)%nat /\ xf = iter_sweep A b k (repeat 0 n) /\
    ((k < maxiter)%nat -> forall i, (i < n)%nat ->
       Qabs' (nth i (residual A b xf) 0) <= atol * bigsum n (fun j => if Nat.ltb i j then Qabs' (nth j (nth i A []) 0) else 0)).
Proof.
  intros HA HAr Hb Hat Hmax E. unfold gauss_seidel in E. rewrite Hb in E.
  assert (T : Qltb atol (2 * atol) = true) by (apply Qltb_lt; lra). rewrite T in E.
  destruct (Nat.eqb_spec maxiter 0) as [->|NE]; [lia|]. cbn [negb andb] in E.
  destruct (diag_ok A) eqn:D; [|discriminate]. injection E as <-.
  assert (Hd : forall i, (i < n)%nat -> ~ nth i (nth i A []) 0 == 0) by (intros i Hi; apply diag_ok_spec; [exact D | now rewrite HA]).
  destruct (gs_loop_exit A b atol maxiter (repeat 0 n) Hmax) as (k & Hk & Ek & Ck).
  exists k. split; [exact Hk|]. split; [exact Ek|]. intros Hlt i Hi. specialize (Ck Hlt). rewrite Ek.
  destruct k as [|k]; [lia|]. cbn [Nat.sub] in Ck. rewrite Nat.sub_0_r in Ck. rewrite iter_sweep_last in *.
  apply (tolerance_exit_residual n A b HA HAr Hb Hd); [|exact Hi|exact Ck].
  apply (iter_sweep_length n A b HA HAr Hb Hd). apply repeat_length.
Qed.
