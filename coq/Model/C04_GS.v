(** C04 — executable model of pybrops/model/gmod/rrBLUPModel0.py: [gauss_seidel] (exact rationals) and the parts of
    [rrBLUPModel0.fit_numpy] / [rrBLUP_ML0] that are not numerical optimisation: centring, the polymorphism mask,
    Z'Z + ridge I, Z'y, the scatter of the solved effects into the full marker vector, the intercept.
    The variance components (Nelder-Mead on the spectral likelihood, eigh) are NOT modelled: the ridge parameter is an input.
    Definitions only. *)
From PV Require Import Lib.Common Model.C04_Gmod.
Local Open Scope Q_scope.

(** ** gauss_seidel(A, b, atol, maxiter) *)
(** x[i] := v *)
Fixpoint set_nth (i : nat) (v : Q) (x : list Q) : list Q :=
  match x with
  | [] => []
  | h :: t => match i with O => v :: t | S k => h :: set_nth k v t end
  end.

(** the value assigned to x[i]:  (b[i] - A[i,:i].dot(x[:i]) - A[i,i+1:].dot(x[i+1:])) / A[i,i]
    ([Qred] only normalises the fraction; it keeps the exact value) *)
Definition gs_coord (i : nat) (r : list Q) (bi : Q) (x : list Q) : Q :=
  Qred ((bi - dotQ (firstn i r) (firstn i x) - dotQ (skipn (S i) r) (skipn (S i) x)) / nth i r 0).

(** for i in range(nmkr): ...   (rows of A and entries of b consumed in step) *)
Fixpoint gs_rows (rows : list (list Q)) (bs : list Q) (i : nat) (x : list Q) : list Q :=
  match rows, bs with
  | r :: rows', bi :: bs' => gs_rows rows' bs' (S i) (set_nth i (gs_coord i r bi x) x)
  | _, _ => x
  end.
Definition gs_sweep (A : list (list Q)) (b : list Q) (x : list Q) : list Q := gs_rows A b 0 x.

Definition adiff (x y : list Q) : list Q := map2 (fun a c => Qabs' (a - c)) x y.
(** numpy.any(adiff > atol) *)
Definition any_gt (atol : Q) (d : list Q) : bool := existsb (fun v => Qltb atol v) d.

(** while numpy.any(adiff > atol) and niter < maxiter: ...      [go] is the value of the first conjunct *)
Fixpoint gs_loop (fuel : nat) (A : list (list Q)) (b : list Q) (atol : Q) (go : bool) (x : list Q) : list Q :=
  match fuel with
  | O => x
  | S k => if go then let x' := gs_sweep A b x in gs_loop k A b atol (any_gt atol (adiff x' x)) x' else x
  end.
(** a zero pivot makes numpy produce inf/nan: modelled as [None] *)
Definition diag_ok (A : list (list Q)) : bool :=
  forallb (fun ir => negb (Qeq_bool (nth (fst ir) (snd ir) 0) 0)) (combine (seq 0 (length A)) A).
(** adiff starts as the scalar 2*atol; the loop body runs at most [maxiter] times *)
Definition gauss_seidel (A : list (list Q)) (b : list Q) (atol : Q) (maxiter : nat) : option (list Q) :=
  if Qltb atol (2 * atol) && negb (Nat.eqb maxiter 0) then
    if diag_ok A then Some (gs_loop maxiter A b atol true (repeat 0 (length b))) else None
  else Some (repeat 0 (length b)).

(** the quadratic criterion  f(x) = 1/2 x'Ax - b'x *)
Definition matvec (A : list (list Q)) (x : list Q) : list Q := map (fun r => dotQ r x) A.
Definition qform (A : list (list Q)) (b x : list Q) : Q := (1 # 2) * dotQ x (matvec A x) - dotQ b x.
Definition residual (A : list (list Q)) (b x : list Q) : list Q := map2 Qminus (matvec A x) b.

(** ** rrBLUPModel0.fit_numpy *)
(** ispolymorphic = ~numpy.all(Z == Z[0,:], axis = 0) *)
Definition poly_mask (p : nat) (Z : zmat) : list bool :=
  match Z with
  | [] => repeat false p
  | r0 :: _ => map (fun j => negb (forallb (fun r => (nth j r 0 =? nth j r0 0)%Z) Z)) (seq 0 p)
  end.
(** Z[:, mask] *)
Fixpoint select {A} (mask : list bool) (l : list A) : list A :=
  match mask, l with
  | true :: m, x :: t => x :: select m t
  | false :: m, _ :: t => select m t
  | _, _ => []
  end.
(** u_a[mask] = uhat; u_a[~mask] = 0 *)
Fixpoint scatter (mask : list bool) (uhat : list Q) : list Q :=
  match mask with
  | [] => []
  | true :: m => match uhat with x :: t => x :: scatter m t | [] => 0 :: scatter m [] end
  | false :: m => 0 :: scatter m uhat
  end.

Definition transpose (p : nat) (M : qmat) : qmat := cols 0 p M.
(** y - y.mean() *)
Definition center (y : list Q) : list Q := map (fun v => v - qmean y) y.
(** Z'Z with the ridge parameter added on the diagonal *)
Definition ztz_ridge (p : nat) (Z : qmat) (ridge : Q) : qmat :=
  let Zt := transpose p Z in
  map (fun ic => map (fun jc => dotQ (snd ic) (snd jc) + (if Nat.eqb (fst ic) (fst jc) then ridge else 0))
                     (combine (seq 0 p) Zt)) (combine (seq 0 p) Zt).
Definition zty (p : nat) (Z : qmat) (y : list Q) : list Q := map (fun c => dotQ c y) (transpose p Z).

(** the penalised least-squares criterion  |y - Zu|^2 + ridge |u|^2  on the centred response *)
Definition sq (x : Q) : Q := x * x.
Definition pls (Z : qmat) (y u : list Q) (ridge : Q) : Q :=
  sumQ (map2 (fun yi zi => sq (yi - dotQ zi u)) y Z) + ridge * sumQ (map sq u).

(** one trait of fit_numpy with the ridge parameter supplied: intercept and full-length marker effects *)
Definition rr_fit1 (p : nat) (Z : zmat) (y : list Q) (ridge atol : Q) (maxiter : nat) : option (Q * list Q) :=
  let mask := poly_mask p Z in
  let Zp := map (fun r => select mask (map inject_Z r)) Z in
  let pp := length (filter (fun b => b) mask) in
  match gauss_seidel (ztz_ridge pp Zp ridge) (zty pp Zp (center y)) atol maxiter with
  | Some uh => Some (qmean y, scatter mask uh)
  | None => None end.

(** ** the clauses of the property, evaluated on an implementation output (beta, u) for one trait *)
Definition tol40 : Q := 1 # 1099511627776.
(** exit-by-tolerance bound on the normal-equation residual: |r_i| <= atol * sum_{j>i} |A_ij| (+ float slack) *)
Definition resid_ok (A : list (list Q)) (b x : list Q) (atol : Q) : bool :=
  forallb (fun t => let '(i, r, ri, bi) := t in
                    Qle_bool (Qabs' ri) (atol * sumQ (map Qabs' (skipn (S i) r)) + tol40 * (1 + Qabs' bi)))
          (combine (combine (combine (seq 0 (length A)) A) (residual A b x)) b).

Definition rr_clauses (p : nat) (Z : zmat) (y : list Q) (ridge atol : Q) (beta : Q) (u : list Q) (check_normal : bool) : bool :=
  let mask := poly_mask p Z in
  let Zp := map (fun r => select mask (map inject_Z r)) Z in
  let pp := length (filter (fun b => b) mask) in
  let up := select mask u in
  let yc := center y in
  (* intercept = training mean *)
  Qclose beta (qmean y)
  (* monomorphic markers have exactly zero effect *)
  && forallb (fun mu => (fst mu : bool) || Qeq_bool (snd mu) 0) (combine mask u)
  && Nat.eqb (length u) p
  (* never worse than the all-zero solution on the penalised least-squares criterion *)
  && Qle_bool (pls Zp yc up ridge) (pls Zp yc (repeat 0 pp) ridge + (1 # 1073741824) * (1 + pls Zp yc (repeat 0 pp) ridge))
  (* penalised normal equations, when there are more records than polymorphic markers *)
  && (negb check_normal || negb (Nat.ltb pp (length Z)) || resid_ok (ztz_ridge pp Zp ridge) (zty pp Zp yc) up atol).

Definition rr_rerun_agrees (p : nat) (Z : zmat) (y : list Q) (ridge atol : Q) (maxiter : nat) (beta : Q) (u : list Q) : bool :=
  match rr_fit1 p Z y ridge atol maxiter with
  | Some (b, um) => Qclose beta b && qclose_l u um
  | None => false end.
