(** C14 — which label arrays a returned phenotype table shares with the population it was computed from.
    A tiny store of label arrays (location -> array); a population holds the LOCATION of its taxa array (or none: the labels are
    generated).  Mirrors
      G_E_Phenotyping.phenotype : taxa_vt = numpy.concatenate(taxa_ls)                       -- always a fresh array
      TruePhenotyping.phenotype : labels_dict["taxa"] = [generated ...] if gvmat.taxa is None else gvmat.taxa ;
                                  pandas.DataFrame(labels_dict) ; pandas.concat([...], axis=1)  -- the object array is kept as it is
    (pandas 3 keeps the population's own object array as the column's buffer; a write into the table goes through).
    Definitions only. *)
From Coq Require Import String.
From PV Require Import Lib.Common Model.C14_Pheno.

Definition heap := list (list str).
Definition hread (h : heap) (l : nat) : list str := nth l h [].
Fixpoint set_nth (i : nat) (v : str) (a : list str) : list str :=
  match a, i with [], _ => [] | _ :: r, O => v :: r | x :: r, S i' => x :: set_nth i' v r end.
Fixpoint hwrite (h : heap) (l i : nat) (v : str) : heap :=
  match h, l with [], _ => [] | a :: r, O => set_nth i v a :: r | a :: r, S l' => a :: hwrite r l' i v end.
Definition halloc (h : heap) (a : list str) : heap * nat := (h ++ [a], length h).

(** the taxa column of the table: (store after the call, location of the column's buffer) *)
Definition tp_taxa_column (h : heap) (n : nat) (taxa : option nat) : heap * nat :=
  match taxa with Some l => (h, l) | None => halloc h (auto_labels "Taxon"%string n) end.
Definition ge_taxa_column (h : heap) (n : nat) (taxa : option nat) (nblocks : nat) : heap * nat :=
  halloc h (concat (repeat (match taxa with Some l => hread h l | None => auto_labels "Taxon"%string n end) nblocks)).

(** observable of the aliasing probe: does a write into the TruePhenotyping table reach the population? *)
(** only the object array of taxa labels is kept by pandas; the integer group labels are copied into the frame's own block *)
Definition tp_table_shares (taxa : option (list str)) (grp : option (list Z)) : bool :=
  match taxa with Some _ => true | None => false end.
