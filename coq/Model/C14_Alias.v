(** C14 — which label arrays a returned phenotype table shares with the population it was computed from.
    A tiny store of label arrays (location -> array); a population holds the LOCATION of its taxa array (or none: the labels are
    generated).  Mirrors
      G_E_Phenotyping.phenotype : taxa_vt = numpy.concatenate(taxa_ls)                       -- always a fresh array
      TruePhenotyping.phenotype : labels_dict["taxa"] = [generated ...] if gvmat.taxa is None else numpy.array(gvmat.taxa) ;
                                  pandas.DataFrame(labels_dict) ; pandas.concat([...], axis=1)  -- a fresh array in both branches
    (pandas 3 keeps an object array it is handed as the column's buffer, so a write into the table reaches that array: since the
    repair of C14-truepheno-table-shares-labels the array handed over is a copy; the FORMER code handed over gvmat.taxa itself,
    which is the population's own array -- kept below as [old_tp_taxa_column], a regression witness).
    Definitions only. *)
From Coq Require Import String.
From PV Require Import Lib.Common Model.C14_Pheno.

Definition heap := list (list str).
Definition hread (h : heap) (l : nat) : list str := nth l h [].
Fixpoint set_nth (i : nat) (v : str) (a : list str) : list str :=
  match a, i with [], _ => [] | _ :: r, O => v :: r | x :: r, S i' => x :: set_nth i' v r end.
Fixpoint hwrite (h : heap) (l i : nat) (v : str) : heap :=
  match h, l with [], _ => [] | a :: r, O => set_nth i v a :: r | a :: r, S l' => a :: hwrite r l' i v end.
Definition halloc (h : heap) (a : list str) : heap * nat := (h ++ [a], length h).

(** the taxa column of the table: (store after the call, location of the column's buffer) *)
Definition tp_taxa_column (h : heap) (n : nat) (taxa : option nat) : heap * nat :=
  halloc h (match taxa with Some l => hread h l | None => auto_labels "Taxon"%string n end).
(** the FORMER code (before the repair): explicit labels were handed to pandas as they are *)
Definition old_tp_taxa_column (h : heap) (n : nat) (taxa : option nat) : heap * nat :=
  match taxa with Some l => (h, l) | None => halloc h (auto_labels "Taxon"%string n) end.
Definition ge_taxa_column (h : heap) (n : nat) (taxa : option nat) (nblocks : nat) : heap * nat :=
  halloc h (concat (repeat (match taxa with Some l => hread h l | None => auto_labels "Taxon"%string n end) nblocks)).

(** observable of the aliasing probe (the harness overwrites cell 0 of the taxa column of the returned table and compares the
    population's labels with their snapshot): the population's taxa array, when there is one, is location 0 of a one-array store (no array: an empty store); every array that
    existed before the call must read as before;
    [column] is the function that builds the taxa column.  (The integer group labels are copied by pandas into the frame's own
    block in either version of the code: not part of the store.) *)
Definition probe_isolated (column : heap -> nat -> option nat -> heap * nat) (n : nat) (taxa : option (list str)) : bool :=
  let h := match taxa with Some a => [a] | None => [] end in
  let '(h', c) := column h n (match taxa with Some _ => Some 0%nat | None => None end) in
  forallb (fun l => sl_eqb (hread (hwrite h' c 0 "__mut__"%string) l) (hread h l)) (seq 0 (length h)).
Definition tp_table_isolated (n : nat) (taxa : option (list str)) : bool := probe_isolated tp_taxa_column n taxa.
Definition old_tp_table_isolated (n : nat) (taxa : option (list str)) : bool := probe_isolated old_tp_taxa_column n taxa.
