(** C19 — comparison helper of the tolerance regime ON THE DISTANCE ITSELF, used for the cases whose preference vector is not
    dyadic (0.3, 0.6, 0.7, 1/3 ...: the exact regime does not apply) and whose fronts contain points ON the preference line.
    The model returns the exact rational SQUARED distance y; the implementation's distance x must satisfy
        | x - sqrt y | <= 2^-40,
    stated without square roots:   y <= (x + d)^2   and   ( x <= d   or   (x - d)^2 <= y ),   d = 2^-40.
    In particular a model distance of exactly 0 (a point on the line) admits only results in [0, 2^-40]: the 7.45e-9 that a
    difference of squares leaves there is a disagreement, and so is a NaN ([ONonFinite] against [TFinite]).
    [sq_close] of Model/C19_Pareto.v (squares within 2^-30 (1+|y|)) stays in force beside it.  Definitions only. *)
From PV Require Import Lib.Common Model.C19_Pareto.
Local Open Scope Q_scope.

Definition dist_tol : Q := 1 # 1099511627776.            (* 2^-40 *)

Definition dist_close (x y : Q) : bool :=
  Qle_bool 0 x && Qle_bool y ((x + dist_tol) * (x + dist_tol))
  && (Qle_bool x dist_tol || Qle_bool ((x - dist_tol) * (x - dist_tol)) y).

Definition dist_close_both (x y : Q) : bool := sq_close x y && dist_close x y.

Definition tres_agree_t (m : tres) (o : tobs) : bool :=
  match m, o with
  | TRaised, ORaised => true
  | TNonFinite, ONonFinite => true
  | TFinite d2, OVals d => list_eqb dist_close_both d d2
  | _, _ => false
  end.
