(** C12 — executable model of the progeny (co)variance matrices
      pybrops/model/vmat/Dense{TwoWay,ThreeWay,FourWay,Dihybrid}DHAdditive{Genetic,Genic}VarianceMatrix.from_algmod
      pybrops/model/pcvmat/Dense{TwoWay,ThreeWay,FourWay,Dihybrid}DHAdditiveProgenyGeneticCovarianceMatrix.from_algmod
      pybrops/model/vmat/util.py (rprob_filial, cov_D1s, cov_D2s), core/util/subroutines.py (srange)
      breed/prot/sel/prob/UsefulnessCriterionSelectionProblem.py (_calc_uc)
    over exact rationals.  Every sum is normalised with [Qred] (pure efficiency; [qsum l == sumQ l]).
    Definitions only. *)
From PV Require Import Lib.Common.
Local Open Scope Q_scope.

(** * numbers *)
Definition qsum (l : list Q) : Q := fold_right (fun x a => Qred (x + a)) 0 l.
Fixpoint qpow (x : Q) (k : nat) : Q := match k with O => 1 | S k' => x * qpow x k' end.

(** selfing depth: [Some k] = k generations, [None] = infinity (single seed descent) *)
Definition depth := option nat.

(** util.rprob_filial(r, k):  two_r/(1+two_r) * (1 - 0.5^k (1-two_r)^k), second factor only for k < inf *)
Definition rprob_filial (r : Q) (k : depth) : Q :=
  let two_r := 2 * r in
  let rk := two_r / (1 + two_r) in
  match k with
  | Some k => rk * (1 - qpow (1#2) k * qpow (1 - two_r) k)
  | None => rk
  end.
Definition dsucc (k : depth) : depth := match k with Some k => Some (S k) | None => None end.

(** util.cov_D1s / cov_D2s  (nself >= 0; the negative branch raises and is outside the modelled domain) *)
Definition cov_D1s (r : Q) (nself : depth) : Q :=
  match nself with
  | Some O => 1 - 2 * r
  | _ => 1 - 2 * rprob_filial r (dsucc nself)
  end.
Definition cov_D2s (r : Q) (nself : depth) : Q :=
  match nself with
  | Some O => (1 - 2 * r) * (1 - 2 * r)
  | _ => let four_r := 4 * r in 1 - four_r + four_r * rprob_filial r (dsucc nself)
  end.

(** * chunking:  zip(range(lst,lsp,step), srange(lst+step,lsp,step)) *)
Fixpoint range_fuel (fuel lo hi step : nat) : list nat :=
  match fuel with
  | O => []
  | S f => if (lo <? hi)%nat then lo :: range_fuel f (lo + step) hi step else []
  end.
(** Python range(lo,hi,step) for step >= 1 *)
Definition range (lo hi step : nat) : list nat := range_fuel (hi - lo) lo hi step.
(** srange: range followed by the stop index *)
Definition srange (lo hi step : nat) : list nat := range lo hi step ++ [hi].
Definition chunks (lst lsp step : nat) : list (nat * nat) := combine (range lst lsp step) (srange (lst + step) lsp step).
Definition chunk_step (mem : option nat) (lst lsp : nat) : nat := match mem with None => lsp - lst | Some s => s end.
Definition ixs (c : nat * nat) : list nat := seq (fst c) (snd c - fst c).

(** accumulate  f(row block, column block)  over linkage groups, row chunks, column chunks — the loop nest of every from_algmod *)
Definition blocked (chroms : list (nat * nat)) (mem : option nat) (f : list nat -> list nat -> Q) : Q :=
  qsum (map (fun c =>
    let ch := chunks (fst c) (snd c) (chunk_step mem (fst c) (snd c)) in
    qsum (map (fun rc => qsum (map (fun cc => f (ixs rc) (ixs cc)) ch)) ch)) chroms).

(** * one block:  (reffect @ D * ceffect).sum(1)  resp.  reffect @ D @ ceffect.T  for one (trait, trait) pair *)
Definition part (D : nat -> nat -> Q) (x y : nat -> Q) (rb cb : list nat) : Q :=
  qsum (map (fun j => qsum (map (fun i => x i * D i j) rb) * y j) cb).

(** effect differences  (geno_a - geno_b)[i] * u[i,tr] *)
Definition gdiff (ga gb : list Z) (i : nat) : Z := (nth i ga 0 - nth i gb 0)%Z.
Definition eff (u : list (list Q)) (tr : nat) (ga gb : list Z) (i : nat) : Q :=
  inject_Z (gdiff ga gb i) * nth tr (nth i u []) 0.

(** tabulated D matrices (computed once, as in the code: one D1/D2 per chunk from r = mapfn(|gi - gj|)) *)
Definition tabulate (p : nat) (f : nat -> nat -> Q) : list (list Q) :=
  map (fun i => map (fun j => Qred (f i j)) (seq 0 p)) (seq 0 p).
Definition lookup (T : list (list Q)) (i j : nat) : Q := nth j (nth i T []) 0.

Record setup := {
  s_u : list (list Q);                 (* (p,t) marker effects *)
  s_chroms : list (nat * nat);         (* (stix, spix) of every linkage group *)
  s_mem : option nat;
  s_D1 : nat -> nat -> Q;
  s_D2 : nat -> nat -> Q }.

(** quadratic form of one parental difference: sum over blocks of  eff(a-b)' D eff(a-b) *)
Definition qf (S : setup) (D : nat -> nat -> Q) (t1 t2 : nat) (ga gb : list Z) (rb cb : list nat) : Q :=
  part D (eff (s_u S) t1 ga gb) (eff (s_u S) t2 ga gb) rb cb.

(** ** two-way: lower-triangle accumulation, female > male *)
Definition twoway_low (S : setup) (t1 t2 : nat) (gf gm : list Z) : Q :=
  blocked (s_chroms S) (s_mem S) (fun rb cb => qf S (s_D1 S) t1 t2 gf gm rb cb).

(** ** three-way: 1 = recurrent, 2 = female, 3 = male;  0.25 * sum (2 (p21 + p31) + p23) *)
Definition threeway_low (S : setup) (t1 t2 : nat) (g1 g2 g3 : list Z) : Q :=
  (1#4) * blocked (s_chroms S) (s_mem S) (fun rb cb =>
     let p21 := qf S (s_D1 S) t1 t2 g2 g1 rb cb in
     let p23 := qf S (s_D2 S) t1 t2 g2 g3 rb cb in
     let p31 := qf S (s_D1 S) t1 t2 g3 g1 rb cb in
     2 * (p21 + p31) + p23).

(** ** four-way (1 = female2, 2 = male2, 3 = female1, 4 = male1) and dihybrid (1 = female phase 2, 2 = female phase 1,
       3 = male phase 2, 4 = male phase 1):  0.25 * sum (p21 + p31 + p32 + p41 + p42 + p43), D2 on 21 and 43 *)
Definition quad_low (S : setup) (t1 t2 : nat) (g1 g2 g3 g4 : list Z) : Q :=
  (1#4) * blocked (s_chroms S) (s_mem S) (fun rb cb =>
     let p21 := qf S (s_D2 S) t1 t2 g2 g1 rb cb in
     let p31 := qf S (s_D1 S) t1 t2 g3 g1 rb cb in
     let p32 := qf S (s_D1 S) t1 t2 g3 g2 rb cb in
     let p41 := qf S (s_D1 S) t1 t2 g4 g1 rb cb in
     let p42 := qf S (s_D1 S) t1 t2 g4 g2 rb cb in
     let p43 := qf S (s_D2 S) t1 t2 g4 g3 rb cb in
     p21 + p31 + p32 + p41 + p42 + p43).

(** * the matrices.  [geno] = phase 0 haplotypes (n rows), [geno1] = phase 1 (dihybrid only).
    Two-way: the loops visit only male < female (last two axes); the mirror copies the lower triangle up; the diagonal keeps
    its initial value (0 for numpy.zeros) — [mirror].
    Three-way, four-way, dihybrid: the loops visit male <= female (`range(0,female+1)`), the diagonal included; the mirror
    copies the strict lower triangle up — [mirror_incl]. *)
Definition row (geno : list (list Z)) (i : nat) : list Z := nth i geno [].
Definition mirror (f m : nat) (low : nat -> nat -> Q) : Q :=
  if (m <? f)%nat then low f m else if (f <? m)%nat then low m f else 0.
Definition mirror_incl (f m : nat) (low : nat -> nat -> Q) : Q :=
  if (m <=? f)%nat then low f m else low m f.

Definition twoway_entry (S : setup) (geno : list (list Z)) (t1 t2 f m : nat) : Q :=
  mirror f m (fun a b => twoway_low S t1 t2 (row geno a) (row geno b)).
Definition threeway_entry (S : setup) (geno : list (list Z)) (t1 t2 r f m : nat) : Q :=
  mirror_incl f m (fun a b => threeway_low S t1 t2 (row geno r) (row geno a) (row geno b)).
Definition fourway_entry (S : setup) (geno : list (list Z)) (t1 t2 f2 m2 f1 m1 : nat) : Q :=
  mirror_incl f1 m1 (fun a b => quad_low S t1 t2 (row geno f2) (row geno m2) (row geno a) (row geno b)).
Definition dihybrid_entry (S : setup) (geno geno1 : list (list Z)) (t1 t2 f m : nat) : Q :=
  mirror_incl f m (fun a b => quad_low S t1 t2 (row geno1 a) (row geno a) (row geno1 b) (row geno b)).

(** the FORMER code (before the repairs `fix: ... compute the crosses whose female and male parent coincide` /
    `... compute the selfs on the diagonal`): `for male in range(0,female)` never visited the diagonal of the last two
    axes, which kept the 0 of numpy.zeros.  Kept only as regression witnesses ([old_..._refuted] in Proofs/C12_Findings.v). *)
Definition old_threeway_entry (S : setup) (geno : list (list Z)) (t1 t2 r f m : nat) : Q :=
  mirror f m (fun a b => threeway_low S t1 t2 (row geno r) (row geno a) (row geno b)).
Definition old_fourway_entry (S : setup) (geno : list (list Z)) (t1 t2 f2 m2 f1 m1 : nat) : Q :=
  mirror f1 m1 (fun a b => quad_low S t1 t2 (row geno f2) (row geno m2) (row geno a) (row geno b)).
Definition old_dihybrid_entry (S : setup) (geno geno1 : list (list Z)) (t1 t2 f m : nat) : Q :=
  mirror f m (fun a b => quad_low S t1 t2 (row geno1 a) (row geno a) (row geno1 b) (row geno b)).

(** D tables from the recombination matrix R (= gmapfn.mapfn(|genpos_i - genpos_j|)) *)
Definition mk_setup (p : nat) (u : list (list Q)) (chroms : list (nat * nat)) (mem : option nat) (nself : depth) (R : list (list Q)) : setup :=
  let T1 := tabulate p (fun i j => cov_D1s (lookup R i j) nself) in
  let T2 := tabulate p (fun i j => cov_D2s (lookup R i j) nself) in
  {| s_u := u; s_chroms := chroms; s_mem := mem; s_D1 := lookup T1; s_D2 := lookup T2 |}.

(** Haldane recombination fractions for markers at integer multiples of ln(2)/2 Morgan:
    r = (1 - exp(-2 |k_i - k_j| ln2/2))/2 = (1 - 2^-|k_i-k_j|)/2 *)
Definition r_ln2 (pos : list Z) (i j : nat) : Q :=
  (1 - qpow (1#2) (Z.to_nat (Z.abs (nth i pos 0%Z - nth j pos 0%Z)))) / 2.
Definition R_ln2 (p : nat) (pos : list Z) : list (list Q) := tabulate p (r_ln2 pos).

Definition ix (n : nat) := seq 0 n.
(** variance matrices (n,..,n,t) and covariance matrices (n,..,n,t,t) *)
Definition twoway_var S geno n t := map (fun f => map (fun m => map (fun tr => twoway_entry S geno tr tr f m) (ix t)) (ix n)) (ix n).
Definition twoway_cov S geno n t := map (fun f => map (fun m => map (fun a => map (fun b => twoway_entry S geno a b f m) (ix t)) (ix t)) (ix n)) (ix n).
Definition threeway_var S geno n t :=
  map (fun r => map (fun f => map (fun m => map (fun tr => threeway_entry S geno tr tr r f m) (ix t)) (ix n)) (ix n)) (ix n).
Definition threeway_cov S geno n t :=
  map (fun r => map (fun f => map (fun m => map (fun a => map (fun b => threeway_entry S geno a b r f m) (ix t)) (ix t)) (ix n)) (ix n)) (ix n).
Definition fourway_var S geno n t :=
  map (fun f2 => map (fun m2 => map (fun f1 => map (fun m1 => map (fun tr => fourway_entry S geno tr tr f2 m2 f1 m1) (ix t)) (ix n)) (ix n)) (ix n)) (ix n).
Definition dihybrid_var S geno geno1 n t := map (fun f => map (fun m => map (fun tr => dihybrid_entry S geno geno1 tr tr f m) (ix t)) (ix n)) (ix n).
Definition fourway_cov S geno n t :=
  map (fun f2 => map (fun m2 => map (fun f1 => map (fun m1 => map (fun a => map (fun b => fourway_entry S geno a b f2 m2 f1 m1) (ix t)) (ix t)) (ix n)) (ix n)) (ix n)) (ix n).
Definition dihybrid_cov S geno geno1 n t :=
  map (fun f => map (fun m => map (fun a => map (fun b => dihybrid_entry S geno geno1 a b f m) (ix t)) (ix t)) (ix n)) (ix n).

(** * genic variance:  sum_i (ploidy u_i)^2 p_i (1 - p_i),  p = epgc . tafreq[parents];  ploidy = 2.
    Every class loops male <= female over the last two parents and writes [..,female,male] and [..,male,female]. *)
Definition tafreq (g0 g1 : list Z) (i : nat) : Q := inject_Z (nth i g0 0 + nth i g1 0)%Z / 2.
Definition genic_freq (u : list (list Q)) (p : nat) (tr : nat) (pf : nat -> Q) : Q :=
  qsum (map (fun i => let pi := pf i in
                      let c := 2 * nth tr (nth i u []) 0 in (c * c) * pi * (1 - pi)) (ix p)).
(** two-way and dihybrid: epgc = (1/2, 1/2) over (female, male) *)
Definition genic_pair (u : list (list Q)) (p : nat) (tr : nat) (fa fb : nat -> Q) : Q :=
  genic_freq u p tr (fun i => (1#2) * fa i + (1#2) * fb i).
(** three-way: epgc = (1/2, 1/4, 1/4) over (recurrent, female, male) *)
Definition genic_tri (u : list (list Q)) (p : nat) (tr : nat) (fr fa fb : nat -> Q) : Q :=
  genic_freq u p tr (fun i => (1#2) * fr i + (1#4) * fa i + (1#4) * fb i).
(** four-way: epgc = (1/4, 1/4, 1/4, 1/4) over (female2, male2, female1, male1) *)
Definition genic_quad (u : list (list Q)) (p : nat) (tr : nat) (f1 f2 f3 f4 : nat -> Q) : Q :=
  genic_freq u p tr (fun i => (1#4) * f1 i + (1#4) * f2 i + (1#4) * f3 i + (1#4) * f4 i).
Definition taf (geno geno1 : list (list Z)) (a : nat) : nat -> Q := tafreq (row geno a) (row geno1 a).
Definition genic_entry (u : list (list Q)) (p : nat) (geno geno1 : list (list Z)) (tr f m : nat) : Q :=
  mirror_incl f m (fun a b => genic_pair u p tr (taf geno geno1 a) (taf geno geno1 b)).
Definition genic3_entry (u : list (list Q)) (p : nat) (geno geno1 : list (list Z)) (tr r f m : nat) : Q :=
  mirror_incl f m (fun a b => genic_tri u p tr (taf geno geno1 r) (taf geno geno1 a) (taf geno geno1 b)).
Definition genic4_entry (u : list (list Q)) (p : nat) (geno geno1 : list (list Z)) (tr f2 m2 f1 m1 : nat) : Q :=
  mirror_incl f1 m1 (fun a b => genic_quad u p tr (taf geno geno1 f2) (taf geno geno1 m2) (taf geno geno1 a) (taf geno geno1 b)).
Definition genic_var u p geno geno1 n t := map (fun f => map (fun m => map (fun tr => genic_entry u p geno geno1 tr f m) (ix t)) (ix n)) (ix n).
Definition genic3_var u p geno geno1 n t :=
  map (fun r => map (fun f => map (fun m => map (fun tr => genic3_entry u p geno geno1 tr r f m) (ix t)) (ix n)) (ix n)) (ix n).
Definition genic4_var u p geno geno1 n t :=
  map (fun f2 => map (fun m2 => map (fun f1 => map (fun m1 => map (fun tr => genic4_entry u p geno geno1 tr f2 m2 f1 m1) (ix t)) (ix n)) (ix n)) (ix n)) (ix n).
(** the FORMER two-way / dihybrid genic code (before `fix: ... genic variance matrices write their diagonal`): the result array was
    numpy.empty and only male < female was written, so the diagonal was never initialised ([None]).  Regression witness only. *)
Definition old_genic_entry (u : list (list Q)) (p : nat) (geno geno1 : list (list Z)) (tr f m : nat) : option Q :=
  if (f =? m)%nat then None
  else Some (genic_pair u p tr (taf geno geno1 f) (taf geno geno1 m)).

(** * usefulness criterion:  uc = epgc . bv[cconfig] + i * sqrt(var[cconfig]) ;  bv = beta + (g0 + g1) u *)
Definition bv (u : list (list Q)) (beta : list Q) (p : nat) (g0 g1 : list Z) (tr : nat) : Q :=
  nth tr beta 0 + qsum (map (fun i => inject_Z (nth i g0 0 + nth i g1 0)%Z * nth tr (nth i u []) 0) (ix p)).
Definition pmean (epgc : list Q) (bvs : list Q) : Q := qsum (map2 Qmult epgc bvs).
(** sqrt is not rational: the reported value x is accepted iff x - mean >= 0 (up to tolerance) and (x - mean)^2 = i^2 var (tolerance) *)
Definition uc_ok (si mean var x : Q) : bool :=
  Qle_bool (-(1 # 1073741824)) (x - mean) && Qclose ((x - mean) * (x - mean)) (si * si * var).

(** * comparison helpers for the correspondence shards (tolerance regime T) *)
Definition qclose_lll := list_eqb qclose_ll.
Definition qclose_l4 := list_eqb qclose_lll.
Definition qclose_l5 := list_eqb qclose_l4.
(** exact comparison (regime E) of the genic matrices *)
Definition qlll_eqb := list_eqb qll_eqb.
Definition ql4_eqb := list_eqb qlll_eqb.
Definition ql5_eqb := list_eqb ql4_eqb.
Definition qclose_l6 := list_eqb qclose_l5.
(** shipped recombination fractions respect the no-interference product rule along every linkage group:
    1 - 2 r_ik = (1 - 2 r_ij)(1 - 2 r_jk) for adjacent j = i+1 < k, r_ii = 0, r symmetric *)
Definition r_ok_chrom (R : list (list Q)) (c : nat * nat) : bool :=
  forallb (fun i => Qeq_bool (lookup R i i) 0 &&
    forallb (fun k => Qeq_bool (lookup R i k) (lookup R k i) &&
                      (if (S i <? k)%nat then Qclose (1 - 2 * lookup R i k) ((1 - 2 * lookup R i (S i)) * (1 - 2 * lookup R (S i) k)) else true))
            (seq (S i) (snd c - S i))) (ixs c).
Definition r_ok (R : list (list Q)) (chroms : list (nat * nat)) : bool := forallb (r_ok_chrom R) chroms.

(** * usefulness-criterion matrix check: one row per cross configuration of xmap *)
Fixpoint all2 {A B} (f : A -> B -> bool) (l1 : list A) (l2 : list B) : bool :=
  match l1, l2 with
  | [], [] => true
  | x :: t1, y :: t2 => f x y && all2 f t1 t2
  | _, _ => false
  end.
Definition uc_row_ok (si : Q) (epgc : list Q) (bvf : nat -> nat -> Q) (varf : list nat -> nat -> Q) (t : nat) (c : list nat) (xs : list Q) : bool :=
  all2 (fun x tr => uc_ok si (pmean epgc (map (fun k => bvf k tr) c)) (varf c tr) x) xs (ix t).
Definition uc_mat_ok si epgc bvf varf t (xmap : list (list nat)) (ucm : list (list Q)) : bool :=
  all2 (uc_row_ok si epgc bvf varf t) xmap ucm.
Definition cfg (c : list nat) (k : nat) : nat := nth k c O.
Definition uc_var (scheme : nat) (S : setup) (geno geno1 : list (list Z)) (c : list nat) (tr : nat) : Q :=
  match scheme with
  | 2%nat => twoway_entry S geno tr tr (cfg c 0) (cfg c 1)
  | 3%nat => threeway_entry S geno tr tr (cfg c 0) (cfg c 1) (cfg c 2)
  | 4%nat => fourway_entry S geno tr tr (cfg c 0) (cfg c 1) (cfg c 2) (cfg c 3)
  | _ => dihybrid_entry S geno geno1 tr tr (cfg c 0) (cfg c 1)
  end.
Definition uc_epgc (scheme : nat) : list Q :=
  match scheme with 3%nat => [1#2; 1#4; 1#4] | 4%nat => [1#4; 1#4; 1#4; 1#4] | _ => [1#2; 1#2] end.
