(** C01 — executable model of meiosis as coded in
      pybrops/breed/prot/mate/util.py : mat_meiosis / mat_dh / mat_mate          (l.14-146)
      pybrops/core/util/mate.py       : dense_meiosis / dense_dh / dense_cross   (verbatim duplicates)
    A phased genotype array of shape (nphase, ntaxa, nvrnt) is a list of phases, each a list of taxa rows.
    Every random draw is an explicit argument: one uniform matrix (len(sel) x len(xoprob)) per
    [mat_meiosis] call, consumed in call order from [pending]; the shapes requested are logged in [reqs].
    Two models of one gamete are given: [gamete_seg] follows the source line by line (flatnonzero, segment
    copies, phase toggled after each segment), [gamete] is the per-marker reading used by C02/C10.
    Definitions only. *)
From PV Require Import Lib.Common.
Local Open Scope Z_scope.

(** [rnd < xoprob] on exact rationals *)
Definition Qltb (a b : Q) : bool := (Qnum a * QDen b <? Qnum b * QDen a)%Z.

(** crossover indicator row:  rnd[i] < xoprob   (a missing draw reads as 0; never happens on well-shaped draws) *)
Fixpoint xo_row (rnd xoprob : list Q) : list bool :=
  match xoprob with
  | [] => []
  | p :: tp => Qltb (hd 0%Q rnd) p :: xo_row (tl rnd) tp
  end.

(** phase in force at every marker: running parity of the crossover indicators *including* the current marker
    (the source toggles the phase before it copies the segment that starts at the crossover index) *)
Fixpoint phases (ph : bool) (xo : list bool) : list bool :=
  match xo with
  | [] => []
  | x :: t => let ph' := xorb ph x in ph' :: phases ph' t
  end.

(** marker-by-marker choice between the two chromosome copies *)
Fixpoint pick (g0 g1 : list Z) (c : list bool) : list Z :=
  match c, g0, g1 with
  | b :: tc, a0 :: t0, a1 :: t1 => (if b then a1 else a0) :: pick t0 t1 tc
  | _, _, _ => []
  end.

Definition row (geno : list (list (list Z))) (ph s : nat) : list Z := nth s (nth ph geno []) [].

Definition gamete (geno : list (list (list Z))) (s : nat) (rnd xoprob : list Q) : list Z :=
  pick (row geno 0 s) (row geno 1 s) (phases false (xo_row rnd xoprob)).

(** ** the loop exactly as written *)
(** numpy.flatnonzero *)
Fixpoint flatnonzero (i : nat) (l : list bool) : list nat :=
  match l with
  | [] => []
  | b :: t => if b then i :: flatnonzero (S i) t else flatnonzero (S i) t
  end.
(** a[st:sp] *)
Definition slice {A} (st sp : nat) (l : list A) : list A := firstn (sp - st) (skipn st l).
(** for spix in xoix: gamete[i,stix:spix] = geno[phase,s,stix:spix]; stix = spix; phase = 1 - phase
    finally gamete[i,stix:] = geno[phase,s,stix:]   (the gamete has len(xoprob) = p columns) *)
Fixpoint seg_copy (p : nat) (g0 g1 : list Z) (xoix : list nat) (phase : bool) (stix : nat) : list Z :=
  match xoix with
  | [] => slice stix p (if phase then g1 else g0)
  | spix :: t => slice stix spix (if phase then g1 else g0) ++ seg_copy p g0 g1 t (negb phase) spix
  end.
Definition gamete_seg (geno : list (list (list Z))) (s : nat) (rnd xoprob : list Q) : list Z :=
  seg_copy (length xoprob) (row geno 0 s) (row geno 1 s) (flatnonzero 0 (xo_row rnd xoprob)) false 0.

(** ** one call of mat_meiosis: row i of the uniform matrix decides gamete i, taken from individual sel[i] *)
Fixpoint meiosis_rows (geno : list (list (list Z))) (sel : list nat) (rnd : list (list Q)) (xoprob : list Q)
  : list (list Z) :=
  match sel with
  | [] => []
  | s :: ts => gamete geno s (hd [] rnd) xoprob :: meiosis_rows geno ts (tl rnd) xoprob
  end.
Fixpoint meiosis_rows_seg (geno : list (list (list Z))) (sel : list nat) (rnd : list (list Q)) (xoprob : list Q)
  : list (list Z) :=
  match sel with
  | [] => []
  | s :: ts => gamete_seg geno s (hd [] rnd) xoprob :: meiosis_rows_seg geno ts (tl rnd) xoprob
  end.

(** the generator: matrices still to be handed out, and the shapes requested so far *)
Record rngst := mkRng { pending : list (list (list Q)); reqs : list (nat * nat) }.
Definition rng0 (draws : list (list (list Q))) : rngst := mkRng draws [].

Definition mat_meiosis (geno : list (list (list Z))) (sel : list nat) (xoprob : list Q) (r : rngst)
  : list (list Z) * rngst :=
  (meiosis_rows geno sel (hd [] (pending r)) xoprob,
   mkRng (tl (pending r)) (reqs r ++ [(length sel, length xoprob)])).

(** doubled haploid: the gamete stacked twice *)
Definition mat_dh (geno : list (list (list Z))) (sel : list nat) (xoprob : list Q) (r : rngst)
  : list (list (list Z)) * rngst :=
  let '(g, r1) := mat_meiosis geno sel xoprob r in ([g; g], r1).

(** mating: female gamete -> phase 0, male gamete -> phase 1; the female meiosis draws first *)
Definition mat_mate (fgeno mgeno : list (list (list Z))) (fsel msel : list nat) (xoprob : list Q) (r : rngst)
  : list (list (list Z)) * rngst :=
  let '(fg, r1) := mat_meiosis fgeno fsel xoprob r in
  let '(mg, r2) := mat_meiosis mgeno msel xoprob r1 in
  ([fg; mg], r2).

(** the line-by-line variant, used by the correspondence next to [mat_meiosis] *)
Definition mat_meiosis_seg (geno : list (list (list Z))) (sel : list nat) (xoprob : list Q) (r : rngst)
  : list (list Z) :=
  meiosis_rows_seg geno sel (hd [] (pending r)) xoprob.

(** ** helpers for the correspondence shards: draws and probabilities are shipped as numerators over 2^10 *)
Definition q10 (k : Z) : Q := Qmake k 1024.
Definition q10l := map q10.
Definition q10ll := map q10l.
Definition q10lll := map q10ll.
Definition shape_eqb (a b : nat * nat) : bool := Nat.eqb (fst a) (fst b) && Nat.eqb (snd a) (snd b).
Definition shapes_eqb := list_eqb shape_eqb.
