(** C07 — the selection configurations, the cross-design checks of protocol and configuration, the multi-objective choice and
    the sorting optimiser ASSEMBLED FROM THE KERNEL EXPRESSIONS regenerated from the source (Gen/C07_Kernel.v, written by
    harness/translate/c07_kernel.py on every run).  Definitions only.  The glue between the expressions (statement order of
    every sample_xconfig, `options = numpy.repeat(arange(len(decn)), decn)`, `start = rng.choice(noption)`, the keyword
    arguments of the sampling calls, the class of the configuration a protocol builds) is pinned by the translator, which
    refuses a source of another shape.  Proofs/C07_Kernel.v proves every program here equal to the hand model
    (Model/C07_Config.v); Props/C07.v states the property theorems about the programs here. *)
From Coq Require Import PrimFloat.
From PV Require Import Lib.Common Lib.FloatK Model.C17_Sampling Model.C07_Config Gen.C07_Kernel.

Definition zn (n : nat) : Z := Z.of_nat n.
(** number of entries of an output of shape (a, b) *)
Definition size2 (s : Z * Z) : nat := (Z.to_nat (fst s) * Z.to_nat (snd s))%nat.

(** * 1. cross-design checks (setters of SelectionProtocol and of cfg.SelectionConfiguration) *)
Definition kcfg_shape_ok (nc np : nat) : bool := k_cfg_ncross_ok (zn nc) && k_cfg_nparent_ok (zn np).
Definition kproto_shape_ok (nc np : nat) : bool := k_proto_ncross_ok (zn nc) && k_proto_nparent_ok (zn np).
(** an Integral passes the scalar checks, is broadcast (value = numpy.repeat(value, self.ncross)) and then passes the array
    checks like an array argument *)
Definition kmatpar_ok (scalar_ok : Z -> bool) (array_ok : Z -> list Z -> bool) (ncross : nat) (m : matpar) : bool :=
  match m with
  | MScalar v => scalar_ok v && array_ok (zn ncross) (repeat v ncross)
  | MArray a => array_ok (zn ncross) a
  end.
Definition kproto_args_ok (nc np : nat) (nm npg : matpar) : bool :=
  kproto_shape_ok nc np && kmatpar_ok k_proto_nmating_scalar_ok k_proto_nmating_array_ok nc nm
  && kmatpar_ok k_proto_nprogeny_scalar_ok k_proto_nprogeny_array_ok nc npg.
Definition kcfg_args_ok (nc np : nat) (nm npg : matpar) : bool :=
  kcfg_shape_ok nc np && kmatpar_ok k_cfg_nmating_scalar_ok k_cfg_nmating_array_ok nc nm
  && kmatpar_ok k_cfg_nprogeny_scalar_ok k_cfg_nprogeny_array_ok nc npg.

(** * 2. the tail: outcross_shuffle(out, rng); axis_shuffle(out, <axis>, rng) on an output of shape [shape] *)
Definition kxc_tail (shape : Z * Z) (axis : Z) (x : list Z) (pms : list (list nat)) : option (list Z) :=
  match outcross (Z.to_nat (snd shape)) x pms with
  | None => None
  | Some (y, n) =>
      match axis_shuffle [Z.to_nat (fst shape); Z.to_nat (snd shape)] [axis] (skipn n pms) y with
      | inr r => Some r
      | inl _ => None
      end
  end.

(** * 3. the configurations *)
Definition kcfg_subset (nc np : nat) (decn : list Z) (choice perm : list nat) (pms : list (list nat)) : option (list Z) :=
  if kcfg_shape_ok nc np then
    let sz := k_subset_size (zn nc) (zn np) in
    match tiled_choice decn (size2 sz) (k_subset_replace (zn (length decn)) (zn nc) (zn np)) choice perm with
    | None => None
    | Some x => kxc_tail sz k_subset_axis x pms
    end
  else None.

Definition kcfg_binary (nc np : nat) (decn : list Z) (choice perm : list nat) (pms : list (list nat)) : option (list Z) :=
  if is_binary decn then
    if kcfg_shape_ok nc np then
      match rep_options decn with
      | None => None
      | Some opts =>
          let sz := k_binary_size (zn nc) (zn np) in
          match tiled_choice opts (size2 sz) (k_binary_replace (zn (length opts)) (zn nc) (zn np)) choice perm with
          | None => None
          | Some x => kxc_tail sz k_binary_axis x pms
          end
      end
    else None
  else None.

(** integer configuration: element j of the index array is the kernel pointer expression *)
Definition ksys_ix (ptr : Z -> Z -> Z -> Z -> Z) (n t start : nat) : list nat :=
  map (fun j => Z.to_nat (ptr (zn start) (zn n) (zn j) (zn t))) (seq 0 t).
Definition kcfg_integer (nc np : nat) (decn : list Z) (start : nat) (perm : list nat) (pms : list (list nat)) : option (list Z) :=
  if kcfg_shape_ok nc np then
    match rep_options decn with
    | None => None
    | Some opts =>
        let t := Z.to_nat (k_int_nsample (zn nc) (zn np)) in
        if Nat.ltb start (length opts) then
          if Nat.eqb (length perm) t
          then kxc_tail (k_int_shape (zn nc) (zn np)) k_int_axis (permute 0%Z perm (take_labels opts (ksys_ix k_int_ptr (length opts) t start))) pms
          else None
        else None
    end
  else None.

(** real configuration: the argument order of stochastic_universal_sampling(labels, weights, ...) is carried by the types *)
Definition kcfg_real_f (nc np : nat) (decn : list float) (order : list nat) (off : float) (perm : list nat)
    (pms : list (list nat)) : option (list Z) :=
  if kcfg_shape_ok nc np then
    let sz := k_real_size (zn nc) (zn np) in
    let aw := k_real_args (seq 0 (length decn)) decn in
    match sus_f (snd aw) order (size2 sz) off perm with
    | None => None
    | Some sel => kxc_tail sz k_real_axis (zs sel) pms
    end
  else None.
Definition kcfg_real_q (nc np : nat) (decn : list Q) (order : list nat) (off : Q) (perm : list nat)
    (pms : list (list nat)) : option (list Z) :=
  if kcfg_shape_ok nc np then
    let sz := k_real_size (zn nc) (zn np) in
    let aw := k_real_args (seq 0 (length decn)) decn in
    match sus_q (snd aw) order (size2 sz) off perm with
    | None => None
    | Some sel => kxc_tail sz k_real_axis (zs sel) pms
    end
  else None.

(** mate configurations: xmap[out, :] selects rows; the other reading (columns) is what a transposed lookup would compute *)
Definition xmap_cols (xmap : list (list Z)) (ds : list Z) : option (list (list Z)) :=
  Some (map (fun r => map (fun d => nth (Z.to_nat d) r 0%Z) ds) xmap).
Definition kcfg_mate (nc np : nat) (decn : list Z) (xmap : list (list Z)) (choice perm perm2 : list nat)
  : option (list (list Z)) :=
  if kcfg_shape_ok nc np && xmap_ok np xmap then
    let n := Z.to_nat (k_mate_size (zn nc)) in
    match tiled_choice decn n (k_mate_replace (zn (length decn)) (zn nc) (zn np)) choice perm with
    | None => None
    | Some x => if Nat.eqb (length perm2) n then k_mate_lookup xmap_rows xmap_cols xmap (permute 0%Z perm2 x) else None
    end
  else None.
Definition kcfg_integer_mate (nc np : nat) (decn : list Z) (xmap : list (list Z)) (start : nat) (perm : list nat)
  : option (list (list Z)) :=
  if kcfg_shape_ok nc np && xmap_ok np xmap then
    match rep_options decn with
    | None => None
    | Some opts =>
        if Nat.ltb start (length opts) then
          if Nat.eqb (length perm) nc
          then k_imate_lookup xmap_rows xmap_cols xmap (permute 0%Z perm (take_labels opts (ksys_ix k_imate_ptr (length opts) nc start)))
          else None
        else None
    end
  else None.

Definition kcfg_binary_mate (nc np : nat) (decn : list Z) (xmap : list (list Z)) (choice perm perm2 : list nat)
  : option (list (list Z)) :=
  if kcfg_shape_ok nc np && xmap_ok np xmap then
    match rep_options decn with
    | None => None
    | Some opts =>
        let n := Z.to_nat (k_bmate_size (zn nc)) in
        match tiled_choice opts n (k_bmate_replace (zn (length opts)) (zn nc) (zn np)) choice perm with
        | None => None
        | Some x => if Nat.eqb (length perm2) n then k_bmate_lookup xmap_rows xmap_cols xmap (permute 0%Z perm2 x) else None
        end
    end
  else None.
Definition kcfg_real_mate_f (nc np : nat) (decn : list float) (xmap : list (list Z)) (order : list nat) (off : float)
    (perm perm2 : list nat) : option (list (list Z)) :=
  if kcfg_shape_ok nc np && xmap_ok np xmap then
    let n := Z.to_nat (k_rmate_size (zn nc)) in
    let aw := k_rmate_args (seq 0 (length decn)) decn in
    match sus_f (snd aw) order n off perm with
    | None => None
    | Some sel => if Nat.eqb (length perm2) n then k_rmate_lookup xmap_rows xmap_cols xmap (permute 0%Z perm2 (zs sel)) else None
    end
  else None.
Definition kcfg_real_mate_q (nc np : nat) (decn : list Q) (xmap : list (list Z)) (order : list nat) (off : Q)
    (perm perm2 : list nat) : option (list (list Z)) :=
  if kcfg_shape_ok nc np && xmap_ok np xmap then
    let n := Z.to_nat (k_rmate_size (zn nc)) in
    let aw := k_rmate_args (seq 0 (length decn)) decn in
    match sus_q (snd aw) order n off perm with
    | None => None
    | Some sel => if Nat.eqb (length perm2) n then k_rmate_lookup xmap_rows xmap_cols xmap (permute 0%Z perm2 (zs sel)) else None
    end
  else None.

(** * 4. the multi-objective choice of <Enc>SelectionProtocol.select:
      score = ndset_wt * ndset_trans(front); ix = score.argmax(); xconfig_decn = soln_decn[ix] *)
Definition argmin (l : list Q) : option nat := argmax (map Qopp l).
Definition kmo_index (pick : (list Q -> option nat) -> (list Q -> option nat) -> list Q -> option nat) (score : Q -> Q -> Q)
    (wt : Q) (trans : list (list Q) -> list Q) (front : list (list Q)) : option nat :=
  pick argmax argmin (map (score wt) (trans front)).
Definition kselect_mo {D C} (pick : (list Q -> option nat) -> (list Q -> option nat) -> list Q -> option nat)
    (score : Q -> Q -> Q) (row : Z -> Z) (wt : Q) (trans : list (list Q) -> list Q) (front : list (list Q)) (decns : list D)
    (cfg : D -> option C) : option (D * C) :=
  match kmo_index pick score wt trans front with
  | None => None
  | Some ix =>
      match nth_error decns (Z.to_nat (row (zn ix))) with
      | None => None
      | Some d => match cfg d with None => None | Some c => Some (d, c) end
      end
  end.
(** one objective: the configuration is built from row [row] of the solution's decision matrix *)
Definition kselect_so {D C} (row : Z) (decns : list D) (cfg : D -> option C) : option (D * C) :=
  match nth_error decns (Z.to_nat row) with
  | None => None
  | Some d => match cfg d with None => None | Some c => Some (d, c) end
  end.

(** * 5. the sorting optimiser: gbest_ix = ix[lo:hi, 0] of the ascending argsort *)
Definition ksort_select (crit : list Z) (k : nat) : option (list nat) :=
  if Nat.leb k (length crit)
  then Some (firstn (Z.to_nat (k_sort_hi (zn k)) - Z.to_nat (k_sort_lo (zn k))) (skipn (Z.to_nat (k_sort_lo (zn k))) (argsort crit)))
  else None.

(** * 6. the cross-map index generators: the recursion of triudix / triuix with the kernel expressions for the lower bound
      of the next position, the range of the loop and the test for the last position.  [fuel] bounds the recursion depth
      (k suffices); [len_l] = len(l), [last] = l[-1] *)
Fixpoint ktri_rec (st : bool -> Z -> Z) (leaf : Z -> Z -> bool) (lo hi : Z -> Z -> Z)
    (fuel : nat) (n k : Z) (len_l : nat) (last : Z) : option (list (list nat)) :=
  match fuel with
  | O => None
  | S fuel' =>
      let s := st (negb (Nat.eqb len_l 0)) last in
      let a := Z.to_nat (lo s n) in let b := Z.to_nat (hi s n) in
      let range := seq a (b - a) in
      if leaf (zn len_l) k then Some (map (fun i => [i]) range)
      else
        fold_right (fun i acc =>
                      match ktri_rec st leaf lo hi fuel' n k (S len_l) (zn i), acc with
                      | Some sub, Some rest => Some (map (cons i) sub ++ rest)
                      | _, _ => None
                      end) (Some []) range
  end.
Definition ktriudix (n k : nat) : option (list (list nat)) :=
  ktri_rec k_triudix_st k_triudix_leaf k_triudix_lo k_triudix_hi k (zn n) (zn k) 0 0%Z.
Definition ktriuix (n k : nat) : option (list (list nat)) :=
  ktri_rec k_triuix_st k_triuix_leaf k_triuix_lo k_triuix_hi k (zn n) (zn k) 0 0%Z.
Definition kxmapix (ntaxa nparent : nat) (unique_parents : bool) : option (list (list nat)) :=
  k_xmapix ktriudix ktriuix ntaxa nparent unique_parents.

(** * 7. UsefulnessCriterionIntegerSelection.problem: the bounds of the decision space.
      decn_space_lower = numpy.repeat(<k_uc_int_lower>, len(xmap)); decn_space_upper = numpy.repeat(<k_uc_int_upper>, len(xmap));
      decn_space = numpy.stack([decn_space_lower, decn_space_upper]).  The translator pins that both bounds are ONE number
      repeated len(xmap) times and that the per-cross nmating array enters the number through its sum only. *)
Definition kuc_int_bounds (nc np : nat) (nm : list Z) (nx : nat) : option (list Z * list Z) :=
  np_stack2 (repeat k_uc_int_lower nx) (repeat (k_uc_int_upper (zn nc) (zn np) (sumZ nm)) nx).

(** * 8. the decision space of the protocols over a cross map (OptimalHaploidValue* / UsefulnessCriterion* Selection .problem()).
      xmap = <Problem>._calc_xmap(<k_*_xmap arguments>) with _calc_xmap the dispatch <k_*_calc_xmap> on triudix / triuix;
      subset encoding: decn_space = numpy.arange(<space_n>), lower = numpy.repeat(<lower_v>, <lower_n>), upper likewise, ndecn;
      vector encodings: lower / upper likewise, decn_space = numpy.stack([lower, upper]) (refused unless both have one length).
      The translator pins that the problem object is built over the same map (OHV: from_pgmat_gpmod recomputes it from the same
      three arguments; UC: the map is handed on) and that a per-cross array enters a bound through its sum only. *)
Definition xmap_t := option (list (list nat)).
Definition kxmap_of (calc : (nat -> nat -> xmap_t) -> (nat -> nat -> xmap_t) -> nat -> nat -> bool -> xmap_t) (n k : Z) (u : bool) : xmap_t :=
  calc ktriudix ktriuix (Z.to_nat n) (Z.to_nat k) u.
Definition kexpr := Z -> Z -> Z -> Z -> Z -> Z.          (* ncross nparent nxmap sum(nmating) sum(nmating*nprogeny) *)
Definition kspace_subset (xm : (Z -> Z -> bool -> xmap_t) -> Z -> Z -> Z -> bool -> xmap_t)
    (calc : (nat -> nat -> xmap_t) -> (nat -> nat -> xmap_t) -> nat -> nat -> bool -> xmap_t)
    (space_n lower_v lower_n upper_v upper_n ndecn : kexpr)
    (ntaxa nparent ncross : nat) (nm npg : list Z) (u : bool) : option (list Z * list Z * list Z * Z) :=
  match xm (kxmap_of calc) (zn ntaxa) (zn nparent) (zn ncross) u with
  | None => None
  | Some L =>
      let a (f : kexpr) := f (zn ncross) (zn nparent) (zn (length L)) (sumZ nm) (sumZ (map2 Z.mul nm npg)) in
      Some (map Z.of_nat (seq 0 (Z.to_nat (a space_n))), repeat (a lower_v) (Z.to_nat (a lower_n)),
            repeat (a upper_v) (Z.to_nat (a upper_n)), a ndecn)
  end.
Definition kspace_vector {V : Type} (xm : (Z -> Z -> bool -> xmap_t) -> Z -> Z -> Z -> bool -> xmap_t)
    (calc : (nat -> nat -> xmap_t) -> (nat -> nat -> xmap_t) -> nat -> nat -> bool -> xmap_t)
    (lower_v : Z -> Z -> Z -> Z -> Z -> V) (lower_n : kexpr) (upper_v : Z -> Z -> Z -> Z -> Z -> V) (upper_n ndecn : kexpr)
    (ntaxa nparent ncross : nat) (nm npg : list Z) (u : bool) : option (list V * list V * Z) :=
  match xm (kxmap_of calc) (zn ntaxa) (zn nparent) (zn ncross) u with
  | None => None
  | Some L =>
      let a {T} (f : Z -> Z -> Z -> Z -> Z -> T) := f (zn ncross) (zn nparent) (zn (length L)) (sumZ nm) (sumZ (map2 Z.mul nm npg)) in
      let lower := repeat (a lower_v) (Z.to_nat (a lower_n)) in
      let upper := repeat (a upper_v) (Z.to_nat (a upper_n)) in
      if Nat.eqb (length lower) (length upper) then Some (lower, upper, a ndecn) else None
  end.
Definition konst {V} (v : V) : Z -> Z -> Z -> Z -> Z -> V := fun _ _ _ _ _ => v.
Definition kspace_ohv_mate := kspace_subset (@k_ohv_mate_xmap _) (@k_ohv_calc_xmap _) k_ohv_mate_space_n k_ohv_mate_lower_v k_ohv_mate_lower_n k_ohv_mate_upper_v k_ohv_mate_upper_n k_ohv_mate_ndecn.
Definition kspace_uc_mate := kspace_subset (@k_uc_mate_xmap _) (@k_uc_calc_xmap _) k_uc_mate_space_n k_uc_mate_lower_v k_uc_mate_lower_n k_uc_mate_upper_v k_uc_mate_upper_n k_uc_mate_ndecn.
Definition kspace_ohv_imate := kspace_vector (@k_ohv_imate_xmap _) (@k_ohv_calc_xmap _) k_ohv_imate_lower_v k_ohv_imate_lower_n k_ohv_imate_upper_v k_ohv_imate_upper_n k_ohv_imate_ndecn.
Definition kspace_uc_imate := kspace_vector (@k_uc_imate_xmap _) (@k_uc_calc_xmap _) k_uc_imate_lower_v k_uc_imate_lower_n k_uc_imate_upper_v k_uc_imate_upper_n k_uc_imate_ndecn.
Definition kspace_ohv_bmate := kspace_vector (@k_ohv_bmate_xmap _) (@k_ohv_calc_xmap _) k_ohv_bmate_lower_v k_ohv_bmate_lower_n k_ohv_bmate_upper_v k_ohv_bmate_upper_n k_ohv_bmate_ndecn.
Definition kspace_uc_bmate := kspace_vector (@k_uc_bmate_xmap _) (@k_uc_calc_xmap _) k_uc_bmate_lower_v k_uc_bmate_lower_n k_uc_bmate_upper_v k_uc_bmate_upper_n k_uc_bmate_ndecn.
Definition kspace_ohv_rmate := kspace_vector (@k_ohv_rmate_xmap _) (@k_ohv_calc_xmap _) (konst k_ohv_rmate_lower_v) k_ohv_rmate_lower_n (konst k_ohv_rmate_upper_v) k_ohv_rmate_upper_n k_ohv_rmate_ndecn.
Definition kspace_uc_rmate := kspace_vector (@k_uc_rmate_xmap _) (@k_uc_calc_xmap _) (konst k_uc_rmate_lower_v) k_uc_rmate_lower_n (konst k_uc_rmate_upper_v) k_uc_rmate_upper_n k_uc_rmate_ndecn.
