(** C07 — executable model of the selection configurations and of the protocol-level [select]:
    pybrops/breed/prot/sel/cfg/{Subset,Real,Integer,Binary,SubsetMate,IntegerMate,BinaryMate,RealMate}SelectionConfiguration.sample_xconfig,
    pybrops/breed/prot/sel/SelectionProtocol nmating / nprogeny setters vs cfg/SelectionConfiguration's,
    pybrops/core/util/array.py: triuix / triudix / xmapix,
    pybrops/breed/prot/sel/{Subset,Real,Integer,Binary,SubsetMate}SelectionProtocol.select
      (problem -> optimiser -> solution -> configuration, with the multi-objective argmax choice),
    pybrops/opt/algo/SortingSubsetOptimizationAlgorithm.minimize (the exact optimiser used for truncation selection).
    Definitions only.  The sampling utilities are the C17 model (imported, not copied): every draw is an explicit
    argument.  A configuration is a flat (ncross*nparent) list in C order. *)
From Coq Require Import PrimFloat.
From PV Require Import Lib.Common Lib.FloatK Model.C17_Sampling.

(** * 1. the tail shared by the four individual-based configurations
      outcross_shuffle(out, rng); axis_shuffle(out, 0, rng)
    [pms] is the list of all permutations served to [rng.shuffle] after the sampling step, in request order: one
    exchange order per pass of the outcross descent, then one permutation per cross (row).  The descent decides how
    many it consumes; the row shuffles must consume exactly the rest. *)
Definition xc_tail (ncross nparent : nat) (x : list Z) (pms : list (list nat)) : option (list Z) :=
  match outcross nparent x pms with
  | None => None
  | Some (y, n) =>
      match axis_shuffle [ncross; nparent] [0%Z] (skipn n pms) y with
      | inr r => Some r
      | inl _ => None
      end
  end.
(** number of passes of the descent (what the implementation's request log shows) *)
Definition xc_passes (nparent : nat) (x : list Z) (pms : list (list nat)) : option nat :=
  option_map snd (outcross nparent x pms).

(** the setters of SelectionConfiguration reject ncross <= 0 and nparent <= 0 *)
Definition shape_ok (ncross nparent : nat) : bool := negb (Nat.eqb ncross 0) && negb (Nat.eqb nparent 0).

(** * 2. SubsetSelectionConfiguration: tiled_choice(decn, (ncross,nparent), replace=False) *)
Definition cfg_subset (ncross nparent : nat) (decn : list Z) (choice perm : list nat) (pms : list (list nat))
  : option (list Z) :=
  if shape_ok ncross nparent then
    match tiled_choice decn (ncross * nparent) false choice perm with
    | None => None
    | Some x => xc_tail ncross nparent x pms
    end
  else None.
(** the sample before the outcross descent (used to state how many passes are made) *)
Definition cfg_subset_sample (ncross nparent : nat) (decn : list Z) (choice perm : list nat) : option (list Z) :=
  tiled_choice decn (ncross * nparent) false choice perm.

(** * 3. Integer / Binary: options = numpy.repeat(arange(len(decn)), decn) *)
Fixpoint rep_from (i : nat) (x : list Z) : list Z :=
  match x with
  | [] => []
  | c :: t => repeat (Z.of_nat i) (Z.to_nat c) ++ rep_from (S i) t
  end.
(** numpy.repeat raises for a negative count *)
Definition rep_options (x : list Z) : option (list Z) :=
  if existsb (fun c => c <? 0)%Z x then None else Some (rep_from 0 x).

(** ** 3a. tiled_choice(options, (ncross,nparent), replace=False): the code of BinarySelectionConfiguration, and of
       IntegerSelectionConfiguration before commit e5bdc2c0 *)
Definition cfg_repeat_tiled (ncross nparent : nat) (decn : list Z) (choice perm : list nat) (pms : list (list nat))
  : option (list Z) :=
  if shape_ok ncross nparent then
    match rep_options decn with
    | None => None
    | Some opts =>
        match tiled_choice opts (ncross * nparent) false choice perm with
        | None => None
        | Some x => xc_tail ncross nparent x pms
        end
    end
  else None.
(** the former integer configuration (kept only to state what was wrong with it) *)
Definition old_cfg_integer := cfg_repeat_tiled.
(** BinarySelectionConfiguration: the setter additionally requires every entry to be 0 or 1 *)
Definition is_binary (x : list Z) : bool := forallb (fun c => Z.eqb c 0 || Z.eqb c 1) x.
Definition cfg_binary (ncross nparent : nat) (decn : list Z) (choice perm : list nat) (pms : list (list nat))
  : option (list Z) :=
  if is_binary decn then cfg_repeat_tiled ncross nparent decn choice perm pms else None.

(** ** 3b. IntegerSelectionConfiguration (since commit e5bdc2c0): stochastic universal sampling in integer arithmetic
         noption = len(options); nsample = ncross*nparent; start = rng.choice(noption)
         out = options[(start + noption*arange(nsample)) // nsample]; rng.shuffle(out)
       [start] is the scripted answer of rng.choice(noption) *)
Definition sys_ix (n t start : nat) : list nat := map (fun j => (start + n * j) / t)%nat (seq 0 t).
(** None: rng.choice(0) raises for an empty option array; a start beyond the array would be an IndexError
    (the last pointer is then at or beyond noption) *)
Definition sys_choice (opts : list Z) (t start : nat) : option (list Z) :=
  if Nat.ltb start (length opts) then Some (take_labels opts (sys_ix (length opts) t start)) else None.
(** the sample after rng.shuffle(out) (before the outcross descent) *)
Definition cfg_integer_sample (ncross nparent : nat) (decn : list Z) (start : nat) (perm : list nat) : option (list Z) :=
  match rep_options decn with
  | None => None
  | Some opts =>
      match sys_choice opts (ncross * nparent) start with
      | None => None
      | Some s => if Nat.eqb (length perm) (ncross * nparent) then Some (permute 0%Z perm s) else None
      end
  end.
Definition cfg_integer (ncross nparent : nat) (decn : list Z) (start : nat) (perm : list nat) (pms : list (list nat))
  : option (list Z) :=
  if shape_ok ncross nparent then
    match cfg_integer_sample ncross nparent decn start perm with
    | None => None
    | Some x => xc_tail ncross nparent x pms
    end
  else None.

(** * 4. RealSelectionConfiguration: stochastic_universal_sampling(arange(n), decn, (ncross,nparent)) *)
Definition zs (l : list nat) : list Z := map Z.of_nat l.
(** binary64 pointers (what the code computes); [order] = decn.argsort()[::-1] *)
Definition cfg_real_f (ncross nparent : nat) (decn : list float) (order : list nat) (off : float) (perm : list nat)
    (pms : list (list nat)) : option (list Z) :=
  if shape_ok ncross nparent then
    match sus_f decn order (ncross * nparent) off perm with
    | None => None
    | Some sel => xc_tail ncross nparent (zs sel) pms
    end
  else None.
(** ideal pointers *)
Definition cfg_real_q (ncross nparent : nat) (decn : list Q) (order : list nat) (off : Q) (perm : list nat)
    (pms : list (list nat)) : option (list Z) :=
  if shape_ok ncross nparent then
    match sus_q decn order (ncross * nparent) off perm with
    | None => None
    | Some sel => xc_tail ncross nparent (zs sel) pms
    end
  else None.

(** * 5. SubsetMateSelectionConfiguration:
      out = tiled_choice(decn, (ncross,), replace=False); rng.shuffle(out); xconfig = xmap[out,:] *)
(** xmap[d,:] for one index (numpy wraps a negative index once; beyond that IndexError) *)
Definition xmap_row (xmap : list (list Z)) (d : Z) : option (list Z) :=
  let n := Z.of_nat (length xmap) in
  if (0 <=? d)%Z then nth_error xmap (Z.to_nat d)
  else if (0 <=? n + d)%Z then nth_error xmap (Z.to_nat (n + d)) else None.
Fixpoint xmap_rows (xmap : list (list Z)) (ds : list Z) : option (list (list Z)) :=
  match ds with
  | [] => Some []
  | d :: t => match xmap_row xmap d, xmap_rows xmap t with
              | Some r, Some rs => Some (r :: rs)
              | _, _ => None
              end
  end.
(** every row of the cross map must have nparent entries (setter of xconfig_xmap) *)
Definition xmap_ok (nparent : nat) (xmap : list (list Z)) : bool := forallb (fun r => Nat.eqb (length r) nparent) xmap.
Definition cfg_mate (ncross nparent : nat) (decn : list Z) (xmap : list (list Z)) (choice perm perm2 : list nat)
  : option (list (list Z)) :=
  if shape_ok ncross nparent && xmap_ok nparent xmap then
    match tiled_choice decn ncross false choice perm with
    | None => None
    | Some x => if Nat.eqb (length perm2) ncross then xmap_rows xmap (permute 0%Z perm2 x) else None
    end
  else None.

(** IntegerMateSelectionConfiguration (since commit 35c78bef): the same integer sampling over the repeated cross indices,
      out = options[(start + noption*arange(ncross)) // ncross]; rng.shuffle(out); xconfig = xmap[out,:] *)
Definition cfg_integer_mate (ncross nparent : nat) (decn : list Z) (xmap : list (list Z)) (start : nat) (perm : list nat)
  : option (list (list Z)) :=
  if shape_ok ncross nparent && xmap_ok nparent xmap then
    match rep_options decn with
    | None => None
    | Some opts =>
        match sys_choice opts ncross start with
        | None => None
        | Some s => if Nat.eqb (length perm) ncross then xmap_rows xmap (permute 0%Z perm s) else None
        end
    end
  else None.
(** the former code: tiled_choice over the repeated cross indices, then the shuffle *)
Definition old_cfg_integer_mate (ncross nparent : nat) (decn : list Z) (xmap : list (list Z)) (choice perm perm2 : list nat)
  : option (list (list Z)) :=
  if shape_ok ncross nparent && xmap_ok nparent xmap then
    match rep_options decn with
    | None => None
    | Some opts =>
        match tiled_choice opts ncross false choice perm with
        | None => None
        | Some x => if Nat.eqb (length perm2) ncross then xmap_rows xmap (permute 0%Z perm2 x) else None
        end
    end
  else None.

(** BinaryMateSelectionConfiguration: tiled_choice over the repeated cross indices, rng.shuffle, lookup - the very program the
    integer-mate configuration had before its repair.  No setter restricts the vector (the mixin's setter only asks for an
    ndarray); the protocols hand it 0/1 vectors, for which the repeated options are the marked crosses, each once *)
Definition cfg_binary_mate := old_cfg_integer_mate.
(** RealMateSelectionConfiguration:
      out = stochastic_universal_sampling(arange(n), decn, (ncross,)); rng.shuffle(out); xconfig = xmap[out,:] *)
Definition cfg_real_mate_f (ncross nparent : nat) (decn : list float) (xmap : list (list Z)) (order : list nat) (off : float)
    (perm perm2 : list nat) : option (list (list Z)) :=
  if shape_ok ncross nparent && xmap_ok nparent xmap then
    match sus_f decn order ncross off perm with
    | None => None
    | Some sel => if Nat.eqb (length perm2) ncross then xmap_rows xmap (permute 0%Z perm2 (zs sel)) else None
    end
  else None.
Definition cfg_real_mate_q (ncross nparent : nat) (decn : list Q) (xmap : list (list Z)) (order : list nat) (off : Q)
    (perm perm2 : list nat) : option (list (list Z)) :=
  if shape_ok ncross nparent && xmap_ok nparent xmap then
    match sus_q decn order ncross off perm with
    | None => None
    | Some sel => if Nat.eqb (length perm2) ncross then xmap_rows xmap (permute 0%Z perm2 (zs sel)) else None
    end
  else None.

(** * 6. cross-map index generators (core/util/array.py) *)
(** [tri_rec strict n k1 st]: the recursion with k1+1 positions still to fill and lower bound [st]
    (st = l[-1]+1 for triudix, l[-1] for triuix) *)
Fixpoint tri_rec (strict : bool) (n k1 st : nat) : list (list nat) :=
  match k1 with
  | O => map (fun i => [i]) (seq st (n - st))
  | S k' => flat_map (fun i => map (cons i) (tri_rec strict n k' (if strict then S i else i))) (seq st (n - st))
  end.
(** k = 0: `len(l) == k-1` never holds.  triudix descends with a growing lower bound until the range is empty and
    yields nothing; triuix keeps its lower bound and recurses without end (RecursionError) unless n = 0 *)
Definition triudix (n k : nat) : option (list (list nat)) :=
  match k with O => Some [] | S k1 => Some (tri_rec true n k1 0) end.
Definition triuix (n k : nat) : option (list (list nat)) :=
  match k with O => if Nat.eqb n 0 then Some [] else None | S k1 => Some (tri_rec false n k1 0) end.
Definition xmapix (ntaxa nparent : nat) (unique_parents : bool) : option (list (list nat)) :=
  if unique_parents then triudix ntaxa nparent else triuix ntaxa nparent.

(** * 7. the sorting optimiser (exact for additive criteria): score every candidate alone, sort ascending,
      take the first ndecn.  [crit] is the per-candidate objective (already weighted: smaller is better).
      Stable insertion sort; numpy's tie order is not modelled (ties are compared as sets, see [is_topk]). *)
Fixpoint ins_by (crit : list Z) (i : nat) (l : list nat) : list nat :=
  match l with
  | [] => [i]
  | j :: t => if (nth i crit 0 <=? nth j crit 0)%Z then i :: l else j :: ins_by crit i t
  end.
Definition argsort (crit : list Z) : list nat := fold_right (ins_by crit) [] (seq 0 (length crit)).
(** None: the problem constructor rejects fewer candidates than decision variables *)
Definition sort_select (crit : list Z) (k : nat) : option (list nat) :=
  if Nat.leb k (length crit) then Some (firstn k (argsort crit)) else None.
(** [sel] is a set of k distinct candidates none of which is worse than a candidate left out *)
Fixpoint nodupb (l : list nat) : bool :=
  match l with [] => true | x :: t => negb (existsb (Nat.eqb x) t) && nodupb t end.
Definition is_topk (crit : list Z) (sel : list nat) (k : nat) : bool :=
  Nat.eqb (length sel) k && nodupb sel && forallb (fun i => Nat.ltb i (length crit)) sel &&
  forallb (fun j => existsb (Nat.eqb j) sel ||
                    forallb (fun i => (nth i crit 0 <=? nth j crit 0)%Z) sel) (seq 0 (length crit)).

(** * 8. the multi-objective choice: ix = (ndset_wt * ndset_trans(front, **kwargs)).argmax()
      numpy.argmax returns the first maximum *)
Fixpoint argmax_from (best : Q) (bi i : nat) (l : list Q) : nat :=
  match l with
  | [] => bi
  | x :: t => if Qle_bool x best then argmax_from best bi (S i) t else argmax_from x i (S i) t
  end.
Definition argmax (l : list Q) : option nat :=
  match l with [] => None | x :: t => Some (argmax_from x 0 1 t) end.
(** the declared transformation is a parameter *)
Definition mo_index (wt : Q) (trans : list (list Q) -> list Q) (front : list (list Q)) : option nat :=
  argmax (map (Qmult wt) (trans front)).
Definition mo_choice {D} (wt : Q) (trans : list (list Q) -> list Q) (front : list (list Q)) (decns : list D) : option D :=
  match mo_index wt trans front with
  | None => None
  | Some ix => nth_error decns ix
  end.

(** * 9. protocol-level select *)
(** single objective, subset encoding, sorting optimiser: chosen decision = first ncross*nparent of the sorted candidates *)
Definition select_sort_subset (ncross nparent : nat) (crit : list Z) (choice perm : list nat) (pms : list (list nat))
  : option (list Z * list Z) :=
  match sort_select crit (ncross * nparent) with
  | None => None
  | Some sel => match cfg_subset ncross nparent (zs sel) choice perm pms with
                | None => None
                | Some xc => Some (zs sel, xc)
                end
  end.
(** multi-objective, any encoding: the configuration is built by [cfg] from the decision picked by the argmax *)
Definition select_mo {D C} (wt : Q) (trans : list (list Q) -> list Q) (front : list (list Q)) (decns : list D)
    (cfg : D -> option C) : option (D * C) :=
  match mo_choice wt trans front decns with
  | None => None
  | Some d => match cfg d with None => None | Some c => Some (d, c) end
  end.

(** * 10. nmating / nprogeny: an Integral (broadcast to ncross entries) or a 1-d integer array.
      SelectionConfiguration's setters: Integral > 0; array of length ncross with all entries > 0.
      SelectionProtocol's setters (since commits fcb030f4, 8be05ab5): the same checks.  Before, the protocol accepted
      Integral >= 0 and any integer array with all entries >= 0, and select() failed after the optimisation. *)
Inductive matpar := MScalar (v : Z) | MArray (a : list Z).
Definition matpar_cfg_ok (ncross : nat) (m : matpar) : bool :=
  match m with
  | MScalar v => (0 <? v)%Z
  | MArray a => Nat.eqb (length a) ncross && forallb (fun v => (0 <? v)%Z) a
  end.
Definition matpar_proto_ok (ncross : nat) (m : matpar) : bool :=
  match m with
  | MScalar v => (0 <? v)%Z
  | MArray a => Nat.eqb (length a) ncross && forallb (fun v => (0 <? v)%Z) a
  end.
Definition old_matpar_proto_ok (ncross : nat) (m : matpar) : bool :=
  match m with
  | MScalar v => (0 <=? v)%Z
  | MArray a => forallb (fun v => (0 <=? v)%Z) a
  end.
(** the stored value *)
Definition matpar_value (ncross : nat) (m : matpar) : list Z :=
  match m with MScalar v => repeat v ncross | MArray a => a end.
(** the constructor of a selection protocol accepts its cross-design arguments *)
Definition proto_args_ok (ncross nparent : nat) (nmating nprogeny : matpar) : bool :=
  shape_ok ncross nparent && matpar_proto_ok ncross nmating && matpar_proto_ok ncross nprogeny.
(** the constructor of a selection configuration accepts them *)
Definition cfg_args_ok (ncross nparent : nat) (nmating nprogeny : matpar) : bool :=
  shape_ok ncross nparent && matpar_cfg_ok ncross nmating && matpar_cfg_ok ncross nprogeny.

(** * 11. UsefulnessCriterionIntegerSelection.problem (UsefulnessCriterionSelection.py l.998-1000): bounds of the decision space,
      one entry per candidate cross of the map:
        decn_space_lower = numpy.repeat(0, len(xmap))
        decn_space_upper = numpy.repeat(self.nparent * numpy.sum(self.nmating), len(xmap))
        decn_space = numpy.stack([decn_space_lower, decn_space_upper])
      self.nmating is the protocol's ARRAY (one entry per cross); its sum is the number of matings of the whole cross design, so
      ONE number is repeated len(xmap) times.  numpy.stack raises ValueError unless both rows have the same length.
      Before the repair (finding C07-uc-integer-bounds-shape, fixed) the upper bound was
        numpy.repeat(self.ncross * self.nparent * self.nmating, len(xmap))
      numpy.repeat of an array repeats EVERY element len(xmap) times: ncross * len(xmap) entries against len(xmap) of the lower
      bound ([old_uc_int_bounds], kept as the regression witness). *)
Definition np_repeat_arr (a : list Z) (n : nat) : list Z := flat_map (fun v => repeat v n) a.
Definition np_stack2 (lower upper : list Z) : option (list Z * list Z) :=
  if Nat.eqb (length lower) (length upper) then Some (lower, upper) else None.
Definition uc_int_upper (nparent : nat) (nmating : list Z) : Z := (Z.of_nat nparent * sumZ nmating)%Z.
Definition uc_int_bounds (ncross nparent : nat) (nmating : list Z) (nxmap : nat) : option (list Z * list Z) :=
  let lower := repeat 0%Z nxmap in
  let upper := repeat (uc_int_upper nparent nmating) nxmap in
  np_stack2 lower upper.
Definition old_uc_int_bounds (ncross nparent : nat) (nmating : list Z) (nxmap : nat) : option (list Z * list Z) :=
  let lower := repeat 0%Z nxmap in
  let upper := np_repeat_arr (map (fun m => Z.of_nat ncross * Z.of_nat nparent * m)%Z nmating) nxmap in
  np_stack2 lower upper.
(** a decision vector lies in the decision space *)
Definition in_bounds (b : list Z * list Z) (x : list Z) : bool :=
  Nat.eqb (length x) (length (fst b)) && Nat.eqb (length x) (length (snd b)) &&
  forallb (fun p => (fst p <=? snd p)%Z) (combine (fst b) x) && forallb (fun p => (fst p <=? snd p)%Z) (combine x (snd b)).
Definition is_none {A} (o : option A) : bool := match o with None => true | Some _ => false end.

(** * 11b. the decision space of the protocols whose decision variables index a cross map (OptimalHaploidValue* and
      UsefulnessCriterion* Selection .problem(), all four encodings):
        xmap = <Problem>._calc_xmap(pgmat.ntaxa, self.nparent, self.unique_parents)      (= the rows xmapix enumerates)
      subset encoding:   decn_space = numpy.arange(len(xmap)); decn_space_lower = numpy.repeat(0, self.ncross);
                         decn_space_upper = numpy.repeat(len(xmap)-1, self.ncross); ndecn = self.ncross
      vector encodings:  decn_space_lower = numpy.repeat(<lo>, len(xmap)); decn_space_upper = numpy.repeat(<up>, len(xmap));
                         decn_space = numpy.stack([lower, upper]); ndecn = len(xmap)
      with <lo>, <up> = 0, 1 (binary), 0.0, 1.0 (real), 0, numpy.sum(self.nmating * self.nprogeny) (OHV integer),
      0, self.nparent * numpy.sum(self.nmating) (UC integer).  The map has comb(n, k) rows only when parents are unique; with
      unique_parents = False it has comb(n+k-1, k): the space must be sized by the map, never by a closed formula for one case. *)
Definition xmap_subset_space (ntaxa nparent ncross : nat) (unique_parents : bool) : option (list Z * list Z * list Z * Z) :=
  match xmapix ntaxa nparent unique_parents with
  | None => None
  | Some L => Some (map Z.of_nat (seq 0 (length L)), repeat 0%Z ncross, repeat (Z.of_nat (length L) - 1)%Z ncross, Z.of_nat ncross)
  end.
Definition xmap_vector_space {V : Type} (lo up : V) (ntaxa nparent : nat) (unique_parents : bool) : option (list V * list V * Z) :=
  match xmapix ntaxa nparent unique_parents with
  | None => None
  | Some L => Some (repeat lo (length L), repeat up (length L), Z.of_nat (length L))
  end.
Definition ohv_int_upper (nmating nprogeny : list Z) : Z := sumZ (map2 Z.mul nmating nprogeny).
Definition osubspace_eqb (a b : option (list Z * list Z * list Z * Z)) : bool :=
  opt_eqb (fun u v => zl_eqb (fst (fst (fst u))) (fst (fst (fst v))) && zl_eqb (snd (fst (fst u))) (snd (fst (fst v)))
                      && zl_eqb (snd (fst u)) (snd (fst v)) && Z.eqb (snd u) (snd v)) a b.
Definition ovecspaceZ_eqb (a b : option (list Z * list Z * Z)) : bool :=
  opt_eqb (fun u v => zl_eqb (fst (fst u)) (fst (fst v)) && zl_eqb (snd (fst u)) (snd (fst v)) && Z.eqb (snd u) (snd v)) a b.
Definition ovecspaceQ_eqb (a b : option (list Q * list Q * Z)) : bool :=
  opt_eqb (fun u v => ql_eqb (fst (fst u)) (fst (fst v)) && ql_eqb (snd (fst u)) (snd (fst v)) && Z.eqb (snd u) (snd v)) a b.

(** * 12. object lifecycle of a configuration: the fields a sampling reads, the operations that change them.
      The setters store their argument (no derived value is kept), an in-place write into the decision vector changes the
      same field, copy / deepcopy carry the fields over; sample_xconfig reads ncross, nparent, xconfig_decn (and the cross map)
      at the call and writes xconfig only. *)
Record cfg_state := { st_nc : nat; st_np : nat; st_decn : list Z; st_xmap : list (list Z) }.
Inductive cfg_op :=
| OpSetDecn (d : list Z) | OpMutateDecn (d : list Z) | OpSetShape (nc np : nat) | OpSetXmap (x : list (list Z))
| OpCopy | OpDeepCopy | OpSetRng | OpSample.
Definition apply_op (s : cfg_state) (o : cfg_op) : cfg_state :=
  match o with
  | OpSetDecn d | OpMutateDecn d => {| st_nc := st_nc s; st_np := st_np s; st_decn := d; st_xmap := st_xmap s |}
  | OpSetShape nc np => {| st_nc := nc; st_np := np; st_decn := st_decn s; st_xmap := st_xmap s |}
  | OpSetXmap x => {| st_nc := st_nc s; st_np := st_np s; st_decn := st_decn s; st_xmap := x |}
  | OpCopy | OpDeepCopy | OpSetRng | OpSample => s
  end.
Definition session (s0 : cfg_state) (ops : list cfg_op) : cfg_state := fold_left apply_op ops s0.
(** the samplings of the integer-vector classes as functions of the state at the call *)
Definition sample_subset (s : cfg_state) := cfg_subset (st_nc s) (st_np s) (st_decn s).
Definition sample_binary (s : cfg_state) := cfg_binary (st_nc s) (st_np s) (st_decn s).
Definition sample_integer (s : cfg_state) := cfg_integer (st_nc s) (st_np s) (st_decn s).
Definition sample_mate (s : cfg_state) := cfg_mate (st_nc s) (st_np s) (st_decn s) (st_xmap s).
Definition sample_integer_mate (s : cfg_state) := cfg_integer_mate (st_nc s) (st_np s) (st_decn s) (st_xmap s).
Definition sample_binary_mate (s : cfg_state) := cfg_binary_mate (st_nc s) (st_np s) (st_decn s) (st_xmap s).

(** * comparison helpers for the correspondence shards *)
Definition natll_eqb := list_eqb natl_eqb.
Definition onatll_eqb := opt_eqb natll_eqb.
Definition ozll_eqb := opt_eqb zll_eqb.
Definition ozl2_eqb (a b : option (list Z * list Z)) : bool :=
  opt_eqb (fun u v => zl_eqb (fst u) (fst v) && zl_eqb (snd u) (snd v)) a b.
Definition fl_eqb7 := list_eqb PrimFloat.eqb.
