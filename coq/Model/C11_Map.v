(** C11 — executable model of the genetic maps of pybrops
      pybrops/popgen/gmap/StandardGeneticMap.py, pybrops/popgen/gmap/ExtendedGeneticMap.py
        (constructor: lexsort by (chromosome, physical, genetic) + group; build_spline; interp_genpos; interp_gmap;
         congruence; select / remove / remove_discrepancies (re-sort, re-group, rebuild the spline); gdist1g/gdist2g/gdist1p/gdist2p)
      pybrops/popgen/gmap/DenseGeneticMappableMatrix.py  (interp_xoprob)
      pybrops/popgen/gmap/util.py (cM2d)
    Positions are modelled twice: exactly in Q (the theorems are about this model) and bit-exactly in binary64
    ([PrimFloat]) with the operation order of the source and of scipy's interp1d._call_linear
        y = ((x - x_lo)/(x_hi - x_lo)) * y_hi + ((x_hi - x)/(x_hi - x_lo)) * y_lo .
    A genetic position that numpy reports as NaN / +inf is [NaN] / [PInf] of type [ext].  Definitions only. *)
From Coq Require Import PrimFloat FloatOps SpecFloat.
From PV Require Import Lib.Common Lib.FloatK.
Local Open Scope Z_scope.

(** * extended rationals: finite | +inf | NaN *)
Inductive ext := Fin (q : Q) | PInf | NaN.
Definition ext_eqb (a b : ext) : bool :=
  match a, b with Fin x, Fin y => Qeq_bool x y | PInf, PInf => true | NaN, NaN => true | _, _ => false end.
(** tolerance comparison, first argument = implementation, second = model *)
Definition ext_close (a b : ext) : bool :=
  match a, b with Fin x, Fin y => Qclose x y | PInf, PInf => true | NaN, NaN => true | _, _ => false end.
Definition extl_eqb := list_eqb ext_eqb.
Definition extll_eqb := list_eqb extl_eqb.
Definition extl_close := list_eqb ext_close.
Definition extll_close := list_eqb extl_close.
(** numpy float subtraction / abs on finite-or-NaN operands (an infinite operand never occurs: positions are finite or NaN) *)
Definition ext_sub (a b : ext) : ext :=
  match a, b with Fin x, Fin y => Fin (x - y) | NaN, _ | _, NaN => NaN | PInf, Fin _ => PInf | _, _ => NaN end.
Definition ext_abs (a : ext) : ext := match a with Fin x => Fin (Qabs' x) | e => e end.

(** * marker rows.  [r_pay] is the payload that travels with a marker in ExtendedGeneticMap
      (vrnt_stop, identifier of vrnt_name, identifier of vrnt_fncode); empty for StandardGeneticMap *)
Record row := mkRow { r_chr : Z; r_phy : Z; r_gen : Q; r_pay : list Z }.

(** key order of  numpy.lexsort((vrnt_genpos, vrnt_phypos, vrnt_chrgrp)) : chromosome, then physical, then genetic *)
Definition key_leb (a b : row) : bool :=
  if r_chr a <? r_chr b then true else if r_chr b <? r_chr a then false else
  if r_phy a <? r_phy b then true else if r_phy b <? r_phy a then false else
  Qle_bool (r_gen a) (r_gen b).

(** stable sort (numpy.lexsort is stable): insertion from the right, an element goes before the first key >= its own *)
Fixpoint insert_row (x : row) (l : list row) : list row :=
  match l with
  | [] => [x]
  | y :: t => if key_leb x y then x :: y :: t else y :: insert_row x t
  end.
Definition sort_rows (l : list row) : list row := fold_right insert_row [] l.

(** numpy.unique(sorted chromosome array, return_index, return_counts): runs of equal labels *)
Fixpoint runs (l : list Z) : list (Z * Z) :=          (* (label, count) *)
  match l with
  | [] => []
  | c :: t => match runs t with
              | (c', n) :: r => if c =? c' then (c, n + 1) :: r else (c, 1) :: (c', n) :: r
              | [] => [(c, 1)]
              end
  end.
Fixpoint starts (from : Z) (counts : list Z) : list Z :=
  match counts with [] => [] | n :: t => from :: starts (from + n) t end.
(** group metadata: (vrnt_chrgrp_name, vrnt_chrgrp_stix, vrnt_chrgrp_spix, vrnt_chrgrp_len) *)
Definition group_meta (chrs : list Z) : list Z * list Z * list Z * list Z :=
  let rs := runs chrs in
  let names := map fst rs in let lens := map snd rs in
  let st := starts 0 lens in
  (names, st, map2 Z.add st lens, lens).

(** the constructor (auto_group = True): sorted rows and their grouping *)
Definition gm_rows (input : list row) : list row := sort_rows input.
Definition gm_meta (input : list row) := group_meta (map r_chr (gm_rows input)).

(** congruence(): first marker of a chromosome True, then genpos[k-1] <= genpos[k] *)
Fixpoint congruence_from (prev : option row) (l : list row) : list bool :=
  match l with
  | [] => []
  | r :: t => (match prev with
               | Some p => if r_chr p =? r_chr r then Qle_bool (r_gen p) (r_gen r) else true
               | None => true
               end) :: congruence_from (Some r) t
  end.
Definition congruence (rows : list row) : list bool := congruence_from None rows.
Definition is_congruent (rows : list row) : bool := forallb (fun b => b) (congruence rows).

(** select(mask) (remove(indices) is its complement): keep the chosen markers, then re-sort and re-group; an existing
    interpolation spline is rebuilt from the remaining markers (build_spline with the stored kind / fill value) *)
Definition select_rows (rows : list row) (mask : list bool) : list row :=
  sort_rows (map fst (filter snd (combine rows mask))).
(** remove_discrepancies(): if some marker is flagged, keep the markers flagged congruent (select(mask)) *)
Definition rd_rows (rows : list row) : list row :=
  if is_congruent rows then rows else select_rows rows (congruence rows).

(** * splines (build_spline): per chromosome the (physical, genetic) knots selected by the mask chrgrp == grp, in array
      order; interp1d(assume_sorted = False) then sorts them by x with a stable sort (argsort, kind = "mergesort") *)
Definition knots (rows : list row) (c : Z) : list (Z * Q) :=
  map (fun r => (r_phy r, r_gen r)) (filter (fun r => r_chr r =? c) rows).
Definition has_chr (rows : list row) (c : Z) : bool := existsb (fun r => r_chr r =? c) rows.
Fixpoint insert_knot (p : Z * Q) (l : list (Z * Q)) : list (Z * Q) :=
  match l with [] => [p] | q :: t => if fst p <=? fst q then p :: q :: t else q :: insert_knot p t end.
Definition sort_knots (l : list (Z * Q)) : list (Z * Q) := fold_right insert_knot [] l.
Definition spline_knots (rows : list row) (c : Z) : list (Z * Q) := sort_knots (knots rows c).

(** numpy.searchsorted(x, v) (side = left) on a sorted array: number of entries < v *)
Definition searchsorted (xs : list Z) (x : Z) : nat := length (filter (fun xi => xi <? x) xs).
(** ndarray.clip(lo, hi) = minimum(maximum(i, lo), hi) *)
Definition clipn (lo hi i : nat) : nat := Nat.min (Nat.max i lo) hi.

(** interp1d._call_linear at one point, exact *)
Definition interp1 (pts : list (Z * Q)) (x : Z) : Q :=
  let hi := clipn 1 (length pts - 1) (searchsorted (map fst pts) x) in
  let lo := (hi - 1)%nat in
  let '(xl, yl) := nth lo pts (0, 0%Q) in
  let '(xh, yh) := nth hi pts (0, 0%Q) in
  (inject_Z (x - xl) / inject_Z (xh - xl)) * yh + (inject_Z (xh - x) / inject_Z (xh - xl)) * yl.

(** interp_genpos: NaN for a chromosome without a spline (KeyError branch) *)
Definition interp_pos (rows : list row) (cx : Z * Z) : ext :=
  let '(c, x) := cx in if has_chr rows c then Fin (interp1 (spline_knots rows c) x) else NaN.
Definition interp_genpos (rows : list row) (query : list (Z * Z)) : list ext := map (interp_pos rows) query.

(** a map's own markers as a query, and its stored positions *)
Definition own_pairs (rows : list row) : list (Z * Z) := map (fun r => (r_chr r, r_phy r)) rows.
Definition fin_gens (rows : list row) : list ext := map (fun r => Fin (r_gen r)) rows.

(** * genetic distances *)
(** python slice a[st:sp] with optional, possibly negative bounds *)
Definition norm_ix (n : Z) (d : Z) (o : option Z) : Z :=
  match o with None => d | Some i => let j := if i <? 0 then i + n else i in Z.max 0 (Z.min n j) end.
Definition pyslice {A} (st sp : option Z) (l : list A) : list A :=
  let n := Z.of_nat (length l) in
  let a := norm_ix n 0 st in let b := norm_ix n n sp in
  firstn (Z.to_nat (b - a)) (skipn (Z.to_nat a) l).

(** gdist1g on arrays sorted jointly by chromosome (the documented precondition): +inf at the first marker of every
    chromosome run, first difference inside a run *)
Fixpoint gdist1g_from (prev : option (Z * ext)) (chrs : list Z) (gens : list ext) : list ext :=
  match chrs, gens with
  | c :: ct, g :: gt =>
      (match prev with
       | Some (pc, pg) => if pc =? c then ext_sub g pg else PInf
       | None => PInf
       end) :: gdist1g_from (Some (c, g)) ct gt
  | _, _ => []
  end.
Definition gdist1g (chrs : list Z) (gens : list ext) (ast asp : option Z) : list ext :=
  gdist1g_from None (pyslice ast asp chrs) (pyslice ast asp gens).

(** gdist2g: |g_i - g_j|, +inf where the chromosomes differ (assigned after the subtraction, so it overrides NaN) *)
Definition gdist2 (ci : Z) (gi : ext) (cj : Z) (gj : ext) : ext :=
  if ci =? cj then ext_abs (ext_sub gi gj) else PInf.
Definition gdist2g (chrs : list Z) (gens : list ext) (rst rsp cst csp : option Z) : list (list ext) :=
  let rows := combine (pyslice rst rsp chrs) (pyslice rst rsp gens) in
  let cols := combine (pyslice cst csp chrs) (pyslice cst csp gens) in
  map (fun r => map (fun c => gdist2 (fst r) (snd r) (fst c) (snd c)) cols) rows.

(** gdist1p / gdist2p: interpolate, then the genetic-position versions *)
Definition gdist1p (rows : list row) (query : list (Z * Z)) (ast asp : option Z) : list ext :=
  gdist1g (map fst query) (interp_genpos rows query) ast asp.
Definition gdist2p (rows : list row) (query : list (Z * Z)) (rst rsp cst csp : option Z) : list (list ext) :=
  gdist2g (map fst query) (interp_genpos rows query) rst rsp cst csp.

(** * after remove_discrepancies() / select() / remove(): interp_genpos uses the spline rebuilt from the remaining markers *)
Definition rd_interp_pos (rows : list row) (cx : Z * Z) : ext := interp_pos (rd_rows rows) cx.
Definition rd_interp_genpos (rows : list row) (query : list (Z * Z)) : list ext := map (rd_interp_pos rows) query.
(** the FORMER code (before the repair of C11-stale-spline-after-remove-discrepancies) kept the spline built from the
    unreduced rows; kept as a regression witness only *)
Definition old_rd_interp_pos (rows : list row) (cx : Z * Z) : ext := interp_pos rows cx.

(** * interp_gmap: a new map on the query markers, in query order, with the interpolated positions and a copy of the
      source map's spline; it is constructed with auto_group = False and carries no grouping metadata ([None]) *)
Definition meta_t : Type := list Z * list Z * list Z * list Z.
Definition interp_gmap (input : list row) (query : list (Z * Z)) : list (Z * Z) * list ext * option meta_t :=
  (query, interp_genpos (gm_rows input) query, None).
(** the FORMER code (before the repair of C11-interp-gmap-stale-groups) copied the source map's grouping metadata onto the
    new map; kept as a regression witness only *)
Definition old_interp_gmap (input : list row) (query : list (Z * Z)) : list (Z * Z) * list ext * option meta_t :=
  (query, interp_genpos (gm_rows input) query, Some (gm_meta input)).

(** * DenseGeneticMappableMatrix.interp_xoprob on a grouped variant matrix:
      variants sorted by (chromosome, physical); genetic positions interpolated; the crossover probability of a variant is
      the map function of the sequential genetic distance (map function applied outside this file: see C11_MapFn) *)
Definition pair_leb (a b : Z * Z) : bool :=
  if fst a <? fst b then true else if fst b <? fst a then false else snd a <=? snd b.
Fixpoint insert_pair (x : Z * Z) (l : list (Z * Z)) : list (Z * Z) :=
  match l with [] => [x] | y :: t => if pair_leb x y then x :: y :: t else y :: insert_pair x t end.
Definition sort_pairs (l : list (Z * Z)) : list (Z * Z) := fold_right insert_pair [] l.
(** first use of the map returned by interp_gmap (is_congruent() / interp_genpos() call group()): its markers are sorted by
    (chromosome, physical) and it computes the grouping of its OWN label array *)
Definition igmap_markers (query : list (Z * Z)) : list (Z * Z) := sort_pairs query.
Definition igmap_group (query : list (Z * Z)) : meta_t := group_meta (map fst (igmap_markers query)).
Definition gmat_genpos (rows : list row) (variants : list (Z * Z)) : list ext :=
  interp_genpos rows (sort_pairs variants).
Definition gmat_gaps (rows : list row) (variants : list (Z * Z)) : list ext :=
  gdist1g (map fst (sort_pairs variants)) (gmat_genpos rows variants) None None.

(** * binary64 versions (regime B) *)
Definition fnan_eqb (a b : float) : bool := if PrimFloat.is_nan a then PrimFloat.is_nan b else PrimFloat.eqb a b.
Definition fl_eqb := list_eqb fnan_eqb.
Definition fll_eqb := list_eqb fl_eqb.
(** exact rational value of a finite binary64 *)
Definition q_of_float (f : float) : ext :=
  match Prim2SF f with
  | S754_zero _ => Fin 0
  | S754_finite s m e => Fin ((if s then -1 else 1) * inject_Z (Zpos m) * Qpower 2 e)%Q
  | S754_infinity false => PInf
  | _ => NaN
  end.
Definition q_of_float' (f : float) : Q := match q_of_float f with Fin q => q | _ => 0%Q end.

(** util.cM2d and the vrnt_genpos setter with units "cM":  0.01 * array *)
Definition cM2d_f (x : float) : float := PrimFloat.mul 0x1.47ae147ae147bp-7%float x.
Definition stored_gen_f (cM : bool) (x : float) : float := if cM then cM2d_f x else x.

Record frow := mkFRow { f_chr : Z; f_phy : Z; f_gen : float }.
Definition fknots (rows : list frow) (c : Z) : list (Z * float) :=
  map (fun r => (f_phy r, f_gen r)) (filter (fun r => f_chr r =? c) rows).
Fixpoint insert_fknot (p : Z * float) (l : list (Z * float)) : list (Z * float) :=
  match l with [] => [p] | q :: t => if fst p <=? fst q then p :: q :: t else q :: insert_fknot p t end.
Definition sort_fknots (l : list (Z * float)) : list (Z * float) := fold_right insert_fknot [] l.
Definition interp1_f (pts : list (Z * float)) (x : Z) : float :=
  let hi := clipn 1 (length pts - 1) (searchsorted (map fst pts) x) in
  let lo := (hi - 1)%nat in
  let '(xl, yl) := nth lo pts (0, 0%float) in
  let '(xh, yh) := nth hi pts (0, 0%float) in
  PrimFloat.add (PrimFloat.mul (fdivZ (x - xl) (xh - xl)) yh) (PrimFloat.mul (fdivZ (xh - x) (xh - xl)) yl).
Definition interp_pos_f (rows : list frow) (cx : Z * Z) : float :=
  let '(c, x) := cx in if existsb (fun r => f_chr r =? c) rows then interp1_f (sort_fknots (fknots rows c)) x else PrimFloat.nan.
Definition interp_genpos_f (rows : list frow) (query : list (Z * Z)) : list float := map (interp_pos_f rows) query.
Fixpoint gdist1g_from_f (prev : option (Z * float)) (chrs : list Z) (gens : list float) : list float :=
  match chrs, gens with
  | c :: ct, g :: gt =>
      (match prev with
       | Some (pc, pg) => if pc =? c then PrimFloat.sub g pg else PrimFloat.infinity
       | None => PrimFloat.infinity
       end) :: gdist1g_from_f (Some (c, g)) ct gt
  | _, _ => []
  end.
Definition gdist1g_f (chrs : list Z) (gens : list float) (ast asp : option Z) : list float :=
  gdist1g_from_f None (pyslice ast asp chrs) (pyslice ast asp gens).
Definition gdist2g_f (chrs : list Z) (gens : list float) (rst rsp cst csp : option Z) : list (list float) :=
  let rows := combine (pyslice rst rsp chrs) (pyslice rst rsp gens) in
  let cols := combine (pyslice cst csp chrs) (pyslice cst csp gens) in
  map (fun r => map (fun c => if fst r =? fst c then PrimFloat.abs (PrimFloat.sub (snd r) (snd c)) else PrimFloat.infinity) cols) rows.

(** the float rows of a map: rows of the exact model with the genetic position replaced by its binary64 original.
    [frows_of] pairs the sorted exact rows with floats by converting; used by the shards through [to_rows]. *)
Definition to_rows (cM : bool) (raw : list (Z * Z * float * list Z)) : list row :=
  map (fun t => let '(c, p, g, pay) := t in mkRow c p (q_of_float' (stored_gen_f cM g)) pay) raw.
Definition to_frows (cM : bool) (raw : list (Z * Z * float * list Z)) : list frow :=
  map (fun t => let '(c, p, g, _) := t in mkFRow c p (stored_gen_f cM g)) raw.
(** float rows in map order: sort the exact rows, then read the floats back (the sort key is exact on both) *)
Definition fkey_leb (a b : frow) : bool :=
  if f_chr a <? f_chr b then true else if f_chr b <? f_chr a then false else
  if f_phy a <? f_phy b then true else if f_phy b <? f_phy a then false else
  PrimFloat.leb (f_gen a) (f_gen b).
Fixpoint insert_frow (x : frow) (l : list frow) : list frow :=
  match l with [] => [x] | y :: t => if fkey_leb x y then x :: y :: t else y :: insert_frow x t end.
Definition sort_frows (l : list frow) : list frow := fold_right insert_frow [] l.
