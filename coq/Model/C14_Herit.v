(** C14 — the heritability setters over the FAMILY of genomic models the protocols accept
      pybrops/model/gmod/DenseAdditiveLinearGenomicModel.py          (gebv/gegv = A @ u_a; var_A = var_G = its population variance;
                                                                      rrBLUPModel0 inherits all of it)
      pybrops/model/gmod/DenseAdditiveDominanceLinearGenomicModel.py  (gegv / var_G over the additive+dominance design
                                                                      Z = [A | D], D = (A != 0) & (A != ploidy), U = [u_a ; u_d];
                                                                      gebv / var_A inherited: A @ u_a)
    and G_E_Phenotyping.set_h2 (error variance from var_A) / set_H2 (error variance from var_G).
    Model/C14_Pheno.v states [set_h2] over ONE matrix of values; which matrix each setter reads is fixed here.
    Definitions only. *)
From Coq Require Import String.
From PV Require Import Lib.Common Model.C14_Pheno.
Local Open Scope Q_scope.

(** heterozygosity indicator of one dosage:  (A != 0) & (A != ploidy) *)
Definition het (ploidy a : Z) : Z := if negb (Z.eqb a 0) && negb (Z.eqb a ploidy) then 1%Z else 0%Z.
Definition dom_design (ploidy : Z) (dos : list (list Z)) : list (list Z) := map (map (het ploidy)) dos.
(** numpy.concatenate([A, D], axis = 1) *)
Definition ad_design (ploidy : Z) (dos : list (list Z)) : list (list Z) := map2 (@app Z) dos (dom_design ploidy dos).

(** the concrete genomic models: additive (also rrBLUPModel0), additive + dominance *)
Inductive gmodel := GAdd (u_a : list (list Q)) | GAddDom (u_a u_d : list (list Q)).
Definition gm_u_a (g : gmodel) : list (list Q) := match g with GAdd u => u | GAddDom u _ => u end.

(** gebv_numpy(A) = A @ u_a  (every class; the dominance class inherits it) *)
Definition gm_gebv_raw (t : nat) (dos : list (list Z)) (g : gmodel) : list (list Q) := gebv_raw t dos (gm_u_a g).
(** gegv_numpy: the additive class forwards to gebv_numpy; the dominance class computes [A | D] @ concatenate([u_a, u_d]) *)
Definition gm_gegv_raw (t : nat) (ploidy : Z) (dos : list (list Z)) (g : gmodel) : list (list Q) :=
  match g with
  | GAdd u => gebv_raw t dos u
  | GAddDom ua ud => gebv_raw t (ad_design ploidy dos) (ua ++ ud)
  end.

(** the values whose population variance a heritability setter reads: [broad = false] var_A (breeding values),
    [broad = true] var_G (genotypic values) *)
Definition gm_values (broad : bool) (t : nat) (ploidy : Z) (dos : list (list Z)) (g : gmodel) : list (list Q) :=
  if broad then gm_gegv_raw t ploidy dos g else gm_gebv_raw t dos g.
Definition gm_var (broad : bool) (t : nat) (ploidy : Z) (dos : list (list Z)) (g : gmodel) : list Q :=
  var_cols t (gm_values broad t ploidy dos g).

(** a heritability setter reading var_A ([broad = false]) or var_G ([broad = true]) *)
Definition set_her (broad : bool) (t : nat) (h : h2arg) (ploidy : Z) (dos : list (list Z)) (g : gmodel) : option (list Q) :=
  set_h2 t h (gm_values broad t ploidy dos g).
(** G_E_Phenotyping.set_h2 reads var_A, set_H2 reads var_G *)
Definition model_h2_broad : bool := false.
Definition model_H2_broad : bool := true.
Definition ge_set_h2 := set_her model_h2_broad.
Definition ge_set_H2 := set_her model_H2_broad.

(** true genotypic values (what phenotype() starts from) and true breeding values, with the location Xstar @ beta *)
Definition gm_gv (t : nat) (ploidy : Z) (dos : list (list Z)) (g : gmodel) (beta : list (list Q)) : list (list Q) :=
  map (fun r => map2 Qplus r (location t beta)) (gm_gegv_raw t ploidy dos g).
Definition gm_bv (t : nat) (dos : list (list Z)) (g : gmodel) (beta : list (list Q)) : list (list Q) :=
  gv t dos (gm_u_a g) beta.

(** the seeded defect (set_H2 through a helper that reads var_A): kept only to state its refutation *)
Definition bad_set_H2 := set_her false.
