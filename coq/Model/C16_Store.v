(** C16 — executable model of HDF5 persistence in pybrops:
      pybrops/core/util/h5py.py  (h5py_File_write_dict, typed readers)  and the to_hdf5 / from_hdf5 methods of the
      persistable classes (field lists come from Gen/C16_Fields.v, extracted from the source on every run).
    An HDF5 file is a finite map  path -> node  (group | dataset); strings are stored as UTF-8.
    Float payloads are carried as IEEE-754 bit patterns (Z), so "equal" means bit-identical.  Definitions only. *)
From Coq Require Import String Ascii.
From PV Require Import Lib.Common Lib.C16_Spec.
Local Open Scope Z_scope.

(** ** strings: lists of code points (python str) or of bytes (python bytes / HDF5 payload) *)
Definition str := list Z.
Definition str_eqb : str -> str -> bool := zl_eqb.
Definition zs (s : String.string) : str := map (fun a => Z.of_nat (Ascii.nat_of_ascii a)) (String.list_ascii_of_string s).

(** UTF-8, as python's str.encode("utf-8") / bytes.decode("utf-8") (strict: surrogates are rejected) *)
Definition utf8_enc1 (c : Z) : option (list Z) :=
  if c <? 0 then None
  else if c <? 128 then Some [c]
  else if c <? 2048 then Some [192 + c / 64; 128 + c mod 64]
  else if c <? 65536 then
    if (55296 <=? c) && (c <? 57344) then None
    else Some [224 + c / 4096; 128 + (c / 64) mod 64; 128 + c mod 64]
  else if c <? 1114112 then Some [240 + c / 262144; 128 + (c / 4096) mod 64; 128 + (c / 64) mod 64; 128 + c mod 64]
  else None.
Fixpoint utf8_enc (s : str) : option (list Z) :=
  match s with
  | [] => Some []
  | c :: t => match utf8_enc1 c, utf8_enc t with Some a, Some b => Some (a ++ b) | _, _ => None end
  end.
Definition cont (b : Z) : bool := (128 <=? b) && (b <? 192).
Fixpoint utf8_dec (b : list Z) : option str :=
  match b with
  | [] => Some []
  | b0 :: t =>
    if (0 <=? b0) && (b0 <? 128) then option_map (cons b0) (utf8_dec t)
    else if (194 <=? b0) && (b0 <? 224) then
      match t with
      | b1 :: t1 => if cont b1 then option_map (cons ((b0 - 192) * 64 + (b1 - 128))) (utf8_dec t1) else None
      | _ => None
      end
    else if (224 <=? b0) && (b0 <? 240) then
      match t with
      | b1 :: b2 :: t2 =>
        let c := (b0 - 224) * 4096 + (b1 - 128) * 64 + (b2 - 128) in
        if cont b1 && cont b2 && (2048 <=? c) && negb ((55296 <=? c) && (c <? 57344))
        then option_map (cons c) (utf8_dec t2) else None
      | _ => None
      end
    else if (240 <=? b0) && (b0 <? 245) then
      match t with
      | b1 :: b2 :: b3 :: t3 =>
        let c := (b0 - 240) * 262144 + (b1 - 128) * 4096 + (b2 - 128) * 64 + (b3 - 128) in
        if cont b1 && cont b2 && cont b3 && (65536 <=? c) && (c <? 1114112)
        then option_map (cons c) (utf8_dec t3) else None
      | _ => None
      end
    else None
  end.
Fixpoint opt_all {A} (l : list (option A)) : option (list A) :=
  match l with
  | [] => Some []
  | Some x :: t => option_map (cons x) (opt_all t)
  | None :: _ => None
  end.

(** ** values *)
Inductive dtype := TI8 | TI32 | TI64 | TBool | TF64.
Definition dtype_eqb (a b : dtype) : bool :=
  match a, b with TI8, TI8 | TI32, TI32 | TI64, TI64 | TBool, TBool | TF64, TF64 => true | _, _ => false end.

(** python-side values (what an attribute of an object holds) *)
Inductive sval :=
  | VArr (t : dtype) (sh : list Z) (d : list Z)   (* numpy array, or numpy scalar when sh = [] *)
  | VStrs (l : list str)                          (* 1-D object array of str *)
  | VBytess (l : list str)                        (* 1-D object array of bytes *)
  | VInt (z : Z)                                  (* python int *)
  | VFloat (bits : Z)                             (* python float *)
  | VStr (s : str)                                (* python str *)
  | VBytes (b : str).                             (* python bytes *)
Inductive oval :=
  | OS (v : sval)
  | OD (l : list (str * option sval)).            (* dict of simple values (hyperparams) *)
Definition obj := list (String.string * option oval).   (* attribute -> value; None = python None *)

(** file-side values *)
Inductive dset :=
  | DArr (t : dtype) (sh : list Z) (d : list Z)
  | DStrs (l : list str)                          (* 1-D variable-length string dataset, UTF-8 bytes *)
  | DStr (b : str)                                (* scalar string dataset, UTF-8 character set (written from a python str) *)
  | DBytes (b : str).                             (* scalar string dataset, ASCII character set (written from python bytes) *)

Definition sval_eqb (a b : sval) : bool :=
  match a, b with
  | VArr t sh d, VArr t' sh' d' => dtype_eqb t t' && zl_eqb sh sh' && zl_eqb d d'
  | VStrs l, VStrs l' | VBytess l, VBytess l' => zll_eqb l l'
  | VInt z, VInt z' | VFloat z, VFloat z' => z =? z'
  | VStr s, VStr s' | VBytes s, VBytes s' => zl_eqb s s'
  | _, _ => false
  end.
Definition dset_eqb (a b : dset) : bool :=
  match a, b with
  | DArr t sh d, DArr t' sh' d' => dtype_eqb t t' && zl_eqb sh sh' && zl_eqb d d'
  | DStrs l, DStrs l' => zll_eqb l l'
  | DStr s, DStr s' | DBytes s, DBytes s' => zl_eqb s s'
  | _, _ => false
  end.
(** dictionaries are compared as finite maps (same keys, same values; no key twice) *)
Fixpoint dlookup {A} (k : str) (l : list (str * A)) : option A :=
  match l with [] => None | (k', v) :: t => if str_eqb k k' then Some v else dlookup k t end.
Definition dict_eqb (a b : list (str * option sval)) : bool :=
  Nat.eqb (length a) (length b)
  && forallb (fun kv => match dlookup (fst kv) b with Some v => opt_eqb sval_eqb (snd kv) v | None => false end) a
  && forallb (fun kv => match dlookup (fst kv) a with Some _ => true | None => false end) b.
Definition oval_eqb (a b : oval) : bool :=
  match a, b with OS x, OS y => sval_eqb x y | OD x, OD y => dict_eqb x y | _, _ => false end.
Fixpoint obj_eqb (a b : obj) : bool :=
  match a, b with
  | [], [] => true
  | (k, v) :: t, (k', v') :: t' => String.eqb k k' && opt_eqb oval_eqb v v' && obj_eqb t t'
  | _, _ => false
  end.
Fixpoint attr (k : String.string) (o : obj) : option oval :=
  match o with [] => None | (k', v) :: t => if String.eqb k k' then v else attr k t end.

(** how h5py stores a python value: numpy arrays as they are, python int -> int64 scalar, python float -> float64
    scalar, str -> UTF-8 scalar string, object array of str -> variable-length UTF-8 strings *)
Definition in_i64 (z : Z) : bool := (-9223372036854775808 <=? z) && (z <=? 9223372036854775807).
Definition encode (v : sval) : option dset :=
  match v with
  | VArr t sh d => Some (DArr t sh d)
  | VStrs l => option_map DStrs (opt_all (map utf8_enc l))
  | VBytess l => Some (DStrs l)
  | VInt z => if in_i64 z then Some (DArr TI64 [] [z]) else None
  | VFloat b => Some (DArr TF64 [] [b])
  | VStr s => option_map DStr (utf8_enc s)
  | VBytes b => Some (DBytes b)
  end.

(** ** paths *)
Definition path := list str.
Definition path_eqb : path -> path -> bool := list_eqb str_eqb.
Definition is_nil {A} (l : list A) : bool := match l with [] => true | _ => false end.
(** split at '/' (47); empty components vanish, as in HDF5 ("a//b" = "a/b", leading and trailing '/' ignored) *)
Fixpoint split_aux (cur : str) (s : str) : path :=
  match s with
  | [] => if is_nil cur then [] else [rev cur]
  | c :: t => if c =? 47 then (if is_nil cur then split_aux [] t else rev cur :: split_aux [] t)
              else split_aux (c :: cur) t
  end.
Definition split_path (s : str) : path := split_aux [] s.
Fixpoint is_prefix (p q : path) : bool :=
  match p, q with
  | [], _ => true
  | a :: p', b :: q' => str_eqb a b && is_prefix p' q'
  | _ :: _, [] => false
  end.
(** proper prefixes of a path, the root included, shortest first *)
Fixpoint prefixes (p : path) : list path :=
  match p with [] => [] | a :: t => [] :: map (cons a) (prefixes t) end.

(** ** files *)
Inductive node := NGroup | NData (d : dset).
Definition file := list (path * node).
Definition lookup (p : path) (f : file) : option node :=
  match p with
  | [] => Some NGroup                         (* the root group always exists *)
  | _ => option_map snd (find (fun e => path_eqb (fst e) p) f)
  end.
Definition mem (p : path) (f : file) : bool := match lookup p f with Some _ => true | None => false end.
(** del h5file[p]: the object and, for a group, everything below it *)
Definition del (p : path) (f : file) : file := filter (fun e => negb (is_prefix p (fst e))) f.
Definition is_data (p : path) (f : file) : bool := match lookup p f with Some (NData _) => true | _ => false end.
(** h5file.create_dataset(p, data = d): fails when the name exists or a parent is a dataset; creates missing groups *)
Definition create (p : path) (d : dset) (f : file) : file + err :=
  if mem p f then inr EValue
  else if existsb (fun q => is_data q f) (prefixes p) then inr EValue
  else inl ((p, NData d) :: fold_right (fun q acc => if mem q f then acc else (q, NGroup) :: acc) [] (prefixes p) ++ f).

(** ** h5py_File_write_dict
    [VCur] is the code as it stands: when overwriting, a [None] field deletes an existing dataset and a dictionary item
    deletes the existing group (or dataset) of its name before its members are written;
    [VOld1] is the behaviour before commit 6c7554cf (a dictionary item is written into whatever is there);
    [VOld0] is the behaviour before commit 5ae6bde7 (in addition, a [None] field is skipped).
    The former versions are kept for the refutations (regression witnesses) only.
    The nested call for a dictionary item does not pass [overwrite] on: it runs with the default, [True]. *)
Inductive ver := VOld0 | VOld1 | VCur.
Definition clears_none (v : ver) : bool := match v with VOld0 => false | _ => true end.
Definition clears_dict (v : ver) : bool := match v with VCur => true | _ => false end.
Inductive item := INone | IData (d : dset) | IDict (l : list (str * option (option dset))) | IBad.
(* inner option: None = python None;  Some None = a value h5py cannot store *)

Fixpoint write_flat (fx : ver) (f : file) (g : str) (l : list (str * option (option dset))) (ow : bool) : file * option err :=
  match l with
  | [] => (f, None)
  | (k, v) :: t =>
    let p := split_path (g ++ k) in
    match v with
    | None => write_flat fx (if clears_none fx && ow && mem p f then del p f else f) g t ow
    | Some None => (f, Some EType)
    | Some (Some d) =>
      let f1 := if mem p f && ow then del p f else f in
      match create p d f1 with
      | inl f2 => write_flat fx f2 g t ow
      | inr e => (f1, Some e)
      end
    end
  end.

Fixpoint write_dict (fx : ver) (f : file) (g : str) (l : list (str * item)) (ow : bool) : file * option err :=
  match l with
  | [] => (f, None)
  | (k, it) :: t =>
    let fld := g ++ k in
    let p := split_path fld in
    match it with
    | INone => write_dict fx (if clears_none fx && ow && mem p f then del p f else f) g t ow
    | IData d =>
      let f1 := if mem p f && ow then del p f else f in
      match create p d f1 with
      | inl f2 => write_dict fx f2 g t ow
      | inr e => (f1, Some e)
      end
    | IDict sub =>
      let f0 := if clears_dict fx && ow && mem p f then del p f else f in
      match write_flat fx f0 (fld ++ [47]) sub true with
      | (f1, None) => write_dict fx f1 g t ow
      | (f1, Some e) => (f1, Some e)
      end
    | IBad => (f, Some EType)
    end
  end.

(** ** typed readers *)
Definition wrap8 (z : Z) : Z := (z + 128) mod 256 - 128.
Definition raw (d : dset) : sval :=
  match d with DArr t sh x => VArr t sh x | DStrs l => VBytess l | DStr b => VBytes b | DBytes b => VBytes b end.
Definition read_d (r : reader) (d : dset) : sval + err :=
  match r, d with
  | RNd, _ => inl (raw d)
  | RNdUtf8, DStrs l => match opt_all (map utf8_dec l) with Some s => inl (VStrs s) | None => inr EValue end
  | RInt, DArr t _ [z] => if dtype_eqb t TF64 then inr EOther else inl (VInt z)
  | RNdInt8, DArr t sh x => if dtype_eqb t TF64 then inr EOther else inl (VArr TI8 sh (if dtype_eqb t TI8 then x else map wrap8 x))
  | RNdInt, DArr t sh x => if dtype_eqb t TF64 then inr EOther else inl (VArr TI64 sh x)
  | RUtf8, DStr b | RUtf8, DBytes b => match utf8_dec b with Some s => inl (VStr s) | None => inr EValue end
  | _, _ => inr EOther
  end.
Definition read (r : reader) (f : file) (fld : str) : sval + err :=
  match lookup (split_path fld) f with
  | None => inr EOther                                    (* KeyError *)
  | Some NGroup => inr EType
  | Some (NData d) => read_d r d
  end.
(** h5py_File_read_dict: every member of the group.  [dec = true] is the code as it stands: a scalar UTF-8 string (what a
    python str is stored as) is decoded, everything else is raw (bytes stay bytes, string arrays stay arrays of bytes);
    [dec = false] is the behaviour before commit 06cf6bbd (nothing is decoded), kept for the refutation only. *)
Definition raw_member (dec : bool) (d : dset) : option sval :=
  match d with
  | DStr b => if dec then option_map VStr (utf8_dec b) else Some (VBytes b)
  | _ => Some (raw d)
  end.
Definition kids (p : path) (f : file) : file := filter (fun e => is_prefix p (fst e) && Nat.eqb (length (fst e)) (S (length p))) f.
Definition member (dec : bool) (e : path * node) : option (str * option sval) :=
  match snd e with NData d => option_map (fun v => (last (fst e) [], Some v)) (raw_member dec d) | NGroup => None end.
Definition read_dict_gen (dec : bool) (f : file) (fld : str) : list (str * option sval) + err :=
  let p := split_path fld in
  match lookup p f with
  | Some NGroup =>
    let ks := kids p f in
    if forallb (fun e => match snd e with NData _ => true | NGroup => false end) ks
    then match opt_all (map (member dec) ks) with Some l => inl l | None => inr EValue end     (* UnicodeDecodeError *)
    else inr EType
  | Some (NData _) => inr EType
  | None => inr EOther
  end.
Definition read_dict := read_dict_gen true.

(** ** to_hdf5 / from_hdf5 of a class described by its table *)
Definition slash_end (g : str) : str := if last g 0 =? 47 then g else g ++ [47].
(** groupname processing shared by both directions: None -> "", str -> ends with '/', "" -> IndexError *)
Definition norm_group (g : option str) : str + err :=
  match g with None => inl [] | Some [] => inr EIndex | Some s => inl (slash_end s) end.

Definition to_item (v : option oval) : item :=
  match v with
  | None => INone
  | Some (OS x) => match encode x with Some d => IData d | None => IBad end
  | Some (OD l) => IDict (map (fun kv => (fst kv, option_map encode (snd kv))) l)
  end.
Definition data_dict (s : cls_spec) (o : obj) : list (str * item) :=
  map (fun ka => (zs (fst ka), to_item (attr (snd ka) o))) (written s).
Definition to_hdf5 (fx : ver) (s : cls_spec) (f : file) (g : option str) (o : obj) (ow : bool) : file * option err :=
  match norm_group g with
  | inr e => (f, Some e)
  | inl gn => write_dict fx f gn (data_dict s o) ow
  end.

Fixpoint read_fields (dec : bool) (f : file) (gn : str) (l : list rfield) : list (String.string * option oval) + err :=
  match l with
  | [] => inl []
  | r :: t =>
    let fld := gn ++ zs (rkey r) in
    let v : option oval + err :=
      if ropt r && negb (mem (split_path fld) f) then inl None
      else match rrd r with
           | RDict => match read_dict_gen dec f fld with inl d => inl (Some (OD d)) | inr e => inr e end
           | rd => match read rd f fld with inl x => inl (Some (OS x)) | inr e => inr e end
           end in
    match v with
    | inr e => inr e
    | inl x => match read_fields dec f gn t with inl rest => inl ((rslot r, x) :: rest) | inr e => inr e end
    end
  end.

(** what the constructors make of the values read (observable attributes of the new object):
    class-specific normalisation of absent values *)
Definition shape_of (v : option oval) : list Z := match v with Some (OS (VArr _ sh _)) => sh | _ => [] end.
Definition zeros_f (n : Z) : oval := OS (VArr TF64 [n] (repeat 0 (Z.to_nat n))).
Definition construct (s : cls_spec) (ntrait : Z) (data : list (String.string * option oval)) : obj + err :=
  let get k := attr k data in
  let n := cname s in
  if String.eqb n "GM"%string then
    match get "ploidy"%string with None => inr EType | _ => inl data end          (* check_is_int(None) *)
  else if String.eqb n "PGM"%string then
    match get "ploidy"%string with
    | None => inr EType
    | _ => inl (map (fun kv => if String.eqb (fst kv) "ploidy"%string then (fst kv, Some (OS (VInt (hd 0 (shape_of (get "mat"%string)))))) else kv) data)
    end
  else if String.eqb n "ALGM"%string || String.eqb n "ADLGM"%string then
    inl (map (fun kv => match snd kv with
                        | None => if String.eqb (fst kv) "model_name"%string then (fst kv, Some (OS (VStr [])))
                                  else if String.eqb (fst kv) "hyperparams"%string then (fst kv, Some (OD []))
                                  else kv
                        | _ => kv end) data)
  else if String.eqb n "GE"%string then
    inl (map (fun kv => match snd kv with
                        | None => if String.eqb (fst kv) "nenv"%string || String.eqb (fst kv) "nrep"%string then kv else (fst kv, Some (zeros_f ntrait))
                        | _ => kv end) data)
  else inl data.

(** order the attributes as the harness observes them: constructor fields, then metadata *)
Definition from_hdf5_gen (dec : bool) (s : cls_spec) (ntrait : Z) (f : file) (g : option str) : obj + err :=
  match norm_group g with
  | inr e => inr e
  | inl gn =>
    if (match g with Some s0 => negb (mem (split_path s0) f) | None => false end) then inr EOther   (* check_h5py_File_has_group *)
    else if negb (forallb (fun k => mem (split_path (gn ++ zs k)) f) (required s)) then inr EOther
    else match read_fields dec f gn (reads s) with
         | inr e => inr e
         | inl data => construct s ntrait data
         end
  end.

(** the code as it stands, and the reader before commit 06cf6bbd *)
Definition from_hdf5 := from_hdf5_gen true.
Definition old_from_hdf5 := from_hdf5_gen false.

(** ** a history of writes to one location, a read after every write *)
Definition step_out := (bool * option (list (str * option dset)) * option obj)%type.
(* (write raised?, dump of the file: path string -> dataset | group, object read back | exception) *)

Definition dump_ok (f : file) (d : list (str * option dset)) : bool :=
  Nat.eqb (length f) (length d)
  && forallb (fun e => match lookup (split_path (fst e)) f, snd e with
                       | Some NGroup, None => negb (is_nil (split_path (fst e)))
                       | Some (NData x), Some y => dset_eqb x y
                       | _, _ => false end) d.
(** attributes are compared by name (the harness lists them in its own order) *)
Definition obj_sim (a b : obj) : bool :=
  Nat.eqb (length a) (length b)
  && forallb (fun kv => match find (fun kv' => String.eqb (fst kv) (fst kv')) a with
                        | Some kv' => opt_eqb oval_eqb (snd kv') (snd kv) | None => false end) b.
Definition read_ok (m : obj + err) (e : option obj) : bool :=
  match m, e with inl a, Some b => obj_sim a b | inr _, None => true | _, _ => false end.

Fixpoint agree_h5 (fx : ver) (s : cls_spec) (ntrait : Z) (g : option str) (f : file)
                  (steps : list (obj * bool)) (outs : list step_out) : bool :=
  match steps, outs with
  | [], [] => true
  | (o, ow) :: st, (werr, dump, rd) :: ot =>
    let '(f1, e) := to_hdf5 fx s f g o ow in
    Bool.eqb werr (match e with Some _ => true | None => false end)
    && match dump with Some d => dump_ok f1 d | None => true end
    && read_ok (from_hdf5 s ntrait f1 g) rd
    && agree_h5 fx s ntrait g f1 st ot
  | _, _ => false
  end.

(** h5py_File_write_dict called directly: a history of dictionaries written below one group name *)
Fixpoint agree_wd (fx : ver) (g : str) (f : file) (steps : list (list (str * item) * bool))
                  (outs : list (bool * option (list (str * option dset)))) : bool :=
  match steps, outs with
  | [], [] => true
  | (d, ow) :: st, (werr, dump) :: ot =>
    let '(f1, e) := write_dict fx f g d ow in
    Bool.eqb werr (match e with Some _ => true | None => false end)
    && match dump with Some x => dump_ok f1 x | None => true end
    && agree_wd fx g f1 st ot
  | _, _ => false
  end.

(** ** the observational equality of the property: python int = numpy integer scalar of the same value,
    python float = float64 scalar with the same bits; everything else literally *)
Definition scalar_key (v : sval) : option (Z * Z) :=
  match v with
  | VInt z => Some (0, z)
  | VArr t [] [z] => if dtype_eqb t TF64 then Some (1, z) else if dtype_eqb t TBool then None else Some (0, z)
  | VFloat b => Some (1, b)
  | _ => None
  end.
Definition is_int (t : dtype) : bool := match t with TI8 | TI32 | TI64 => true | _ => false end.
Definition sval_obs (a b : sval) : bool :=
  sval_eqb a b
  || match scalar_key a, scalar_key b with Some x, Some y => (fst x =? fst y) && (snd x =? snd y) | _, _ => false end
  || match a, b with   (* integer arrays of different width, same shape and values *)
     | VArr t sh d, VArr t' sh' d' => is_int t && is_int t' && zl_eqb sh sh' && zl_eqb d d'
     | _, _ => false end.
Definition dict_obs (a b : list (str * option sval)) : bool :=
  Nat.eqb (length a) (length b)
  && forallb (fun kv => match dlookup (fst kv) b with Some v => opt_eqb sval_obs (snd kv) v | None => false end) a
  && forallb (fun kv => match dlookup (fst kv) a with Some _ => true | None => false end) b.
Definition oval_obs (a b : oval) : bool :=
  match a, b with OS x, OS y => sval_obs x y | OD x, OD y => dict_obs x y | _, _ => false end.
Fixpoint obj_obs (a b : obj) : bool :=
  match a, b with
  | [], [] => true
  | (k, v) :: t, (k', v') :: t' => String.eqb k k' && opt_eqb oval_obs v v' && obj_obs t t'
  | _, _ => false
  end.
