(** C14 — executable model of
      pybrops/breed/prot/pt/G_E_Phenotyping.py      (phenotype, set_h2, set_H2, variance setters)
      pybrops/breed/prot/pt/TruePhenotyping.py      (phenotype)
      pybrops/breed/prot/bv/MeanPhenotypicBreedingValue.py (estimate)
      pybrops/breed/prot/bv/TrueBreedingValue.py    (estimate = gebv of the true model)
    over exact rationals.  Random draws are explicit arguments: the flat list of requests answered by the
    generator (one list of standard normals per [multivariate_normal] call, in call order) is parsed into the
    per-environment / per-replicate structure in the order the code consumes it.  Definitions only. *)
From Coq Require DecimalString.
From Coq Require Import String Ascii.
From PV Require Import Lib.Common.   (* after String: [length] is List.length again *)
Local Open Scope Q_scope.

Notation str := String.string.

(** ** true genotypic values of the additive linear model *)
(** [mat_asformat("{0,1,2}")] of a phased matrix: sum over the phase axis *)
Definition dosage (n p : nat) (ph : list (list (list Z))) : list (list Z) :=
  fold_right (map2 (map2 Z.add)) (repeat (repeat 0%Z p) n) ph.

(** Z @ u_a : (n,p) @ (p,t) *)
Definition gebv_raw (t : nat) (dos : list (list Z)) (u : list (list Q)) : list (list Q) :=
  map (fun row => colsumsQ t (map2 (fun d ur => map (Qmult (inject_Z d)) ur) row u)) dos.

(** Xstar @ beta with Xstar = [1, 1/nfixed, ..., 1/nfixed] *)
Definition location (t : nat) (beta : list (list Q)) : list Q :=
  match beta with
  | [] => repeat 0 t
  | b0 :: rest => map2 Qplus b0 (map (Qmult (1 / inject_Z (Z.of_nat (length beta)))) (colsumsQ t rest))
  end.

Definition gv (t : nat) (dos : list (list Z)) (u beta : list (list Q)) : list (list Q) :=
  map (fun r => map2 Qplus r (location t beta)) (gebv_raw t dos u).

(** ** generated labels:  prefix + str(i+1).zfill(ceil(log10(n)) + 1) *)
Definition dec (n : nat) : str := DecimalString.NilEmpty.string_of_uint (Nat.to_uint n).
Fixpoint clog10_aux (fuel k pow n : nat) : nat :=
  match fuel with O => k | S f => if (n <=? pow)%nat then k else clog10_aux f (S k) (pow * 10)%nat n end.
(** smallest k with 10^k >= n  (= ceil(log10 n) for n >= 1) *)
Definition clog10 (n : nat) : nat := clog10_aux n 0 1 n.
Fixpoint zeros_str (k : nat) : str := match k with O => String.EmptyString | S k' => String.String "0"%char (zeros_str k') end.
Definition zfill (w : nat) (s : str) : str := String.append (zeros_str (w - String.length s)) s.
Definition auto_labels (prefix : str) (n : nat) : list str :=
  map (fun i => String.append prefix (zfill (clog10 n + 1) (dec (S i)))) (seq 0 n).
Definition labels_or_auto (prefix : str) (n : nat) (l : option (list str)) : list str :=
  match l with Some x => x | None => auto_labels prefix n end.

(** ** variance parameters: None -> zeros, scalar -> broadcast, array -> as given *)
Inductive vararg := VNone | VScalar (q : Q) | VArr (l : list Q).
Definition var_vec (t : nat) (a : vararg) : list Q :=
  match a with VNone => repeat 0 t | VScalar q => repeat q t | VArr l => l end.

(** ** draws *)
Definition repdraw : Type := (list Q * list (list Q)).     (* z_rep (t), z_err (n x t) *)
Definition envdraw : Type := (list Q * list repdraw).      (* z_env (t), replicates *)

Fixpoint chunk (t k : nat) (l : list Q) : list (list Q) :=
  match k with O => [] | S k' => firstn t l :: chunk t k' (skipn t l) end.

(** the code draws, per environment: env effect (t); then per replicate: rep effect (t), error (n*t, row-major) *)
Fixpoint parse_reps (k n t : nat) (fl : list (list Q)) : option (list repdraw * list (list Q)) :=
  match k with
  | O => Some ([], fl)
  | S k' =>
    match fl with
    | zr :: ze :: fl' =>
      if (length zr =? t)%nat && (length ze =? n * t)%nat then
        match parse_reps k' n t fl' with
        | Some (rs, rem) => Some ((zr, chunk t n ze) :: rs, rem)
        | None => None
        end
      else None
    | _ => None
    end
  end.
Fixpoint parse_envs (nreps : list nat) (n t : nat) (fl : list (list Q)) : option (list envdraw * list (list Q)) :=
  match nreps with
  | [] => Some ([], fl)
  | k :: ks =>
    match fl with
    | zenv :: fl' =>
      if (length zenv =? t)%nat then
        match parse_reps k n t fl' with
        | Some (rs, rem) =>
          match parse_envs ks n t rem with
          | Some (es, rem') => Some ((zenv, rs) :: es, rem')
          | None => None
          end
        | None => None
        end
      else None
    | [] => None
    end
  end.

(** nrep: an integer is broadcast to nenv entries, an array is used as given; the loop is zip(range(nenv), nrep) *)
Inductive nreparg := NScalar (k : nat) | NArr (l : list nat).
Definition nrep_vec (nenv : nat) (a : nreparg) : list nat :=
  match a with NScalar k => repeat k nenv | NArr l => l end.

(** the nenv setter (since commit e2384507): a stored nrep array whose length differs from the new nenv and whose
    entries are all equal (numpy.all(nrep == nrep[0]); an integer nrep is stored broadcast, so it is of this kind) is
    re-broadcast to the new nenv; any other array is left as it is.  The stored array is never empty (nenv > 0). *)
Definition uniform (l : list nat) : bool := match l with [] => true | h :: t => forallb (Nat.eqb h) t end.
Definition set_nenv (nenv' : nat) (attr : list nat) : list nat :=
  if (length attr =? nenv')%nat then attr else
  match attr with
  | h :: _ => if uniform attr then repeat h nenv' else attr
  | [] => attr
  end.
(** the stored nrep array at the call: [nenv_set = None] when nenv was not reassigned after construction *)
Definition nrep_attr_of (nenv0 : nat) (a : nreparg) (nenv_set : option nat) : list nat :=
  match nenv_set with Some nenv' => set_nenv nenv' (nrep_vec nenv0 a) | None => nrep_vec nenv0 a end.

(** ** G_E_Phenotyping.phenotype *)
Definition prow : Type := (str * option Z * Z * Z * list Q).   (* taxa, taxa_grp, env, rep, trait values *)
Definition p_taxa (r : prow) : str := let '(x, _, _, _, _) := r in x.
Definition p_grp (r : prow) : option Z := let '(_, g, _, _, _) := r in g.
Definition p_env (r : prow) : Z := let '(_, _, e, _, _) := r in e.
Definition p_rep (r : prow) : Z := let '(_, _, _, k, _) := r in k.
Definition p_val (r : prow) : list Q := let '(_, _, _, _, v) := r in v.

Definition scale (sd z : list Q) : list Q := map2 Qmult z sd.
(** value = mat + env_effect + rep_effect + err_effect, in that association *)
Definition add_effects (v env rep er : list Q) : list Q := map2 Qplus (map2 Qplus (map2 Qplus v env) rep) er.

Section Phenotype.
  Variable taxa : list str.
  Variable grp : list (option Z).
  Variable gvm : list (list Q).
  Variables sd_env sd_rep sd_err : list Q.

  Fixpoint block_aux (tx : list str) (tg : list (option Z)) (tv : list (list Q)) (e r : Z) (env rep : list Q) (err : list (list Q)) : list prow :=
    match tx, tg, tv, err with
    | x :: tx', g :: tg', v :: tv', er :: err' => (x, g, e, r, add_effects v env rep er) :: block_aux tx' tg' tv' e r env rep err'
    | _, _, _, _ => []
    end.
  Definition block := block_aux taxa grp gvm.

  Fixpoint rep_blocks (e r : Z) (env : list Q) (rs : list repdraw) : list prow :=
    match rs with
    | [] => []
    | (zr, ze) :: rest => block e r env (scale sd_rep zr) (map (scale sd_err) ze) ++ rep_blocks e (r + 1)%Z env rest
    end.
  Fixpoint env_blocks (e : Z) (ds : list envdraw) : list prow :=
    match ds with
    | [] => []
    | (zenv, rs) :: rest => rep_blocks e 1%Z (scale sd_env zenv) rs ++ env_blocks (e + 1)%Z rest
    end.
End Phenotype.

Definition grp_col (n : nat) (g : option (list Z)) : list (option Z) :=
  match g with Some l => map Some l | None => repeat None n end.

(** the whole call: [None] when the call raises (since commit c6ec4108: check_ndarray_len_gteq(nrep, nenv), before any
    draw) or when the scripted requests do not have the shape/order the model consumes.
    [nrep_attr] is the stored nrep array (see [nrep_attr_of]); the loop is zip(range(nenv), nrep_attr) with the nenv in
    force at the call. *)
Definition phenotype_loop (n t : nat) (taxa : option (list str)) (grp : option (list Z)) (gvm : list (list Q))
    (nenv : nat) (nrep_attr : list nat) (sd_env sd_rep sd_err : list Q) (flat : list (list Q)) : option (list prow) :=
  match parse_envs (firstn nenv nrep_attr) n t flat with
  | Some (ds, []) => Some (env_blocks (labels_or_auto "Taxon"%string n taxa) (grp_col n grp) gvm sd_env sd_rep sd_err 1%Z ds)
  | _ => None
  end.
Definition phenotype (n t : nat) (taxa : option (list str)) (grp : option (list Z)) (gvm : list (list Q))
    (nenv : nat) (nrep_attr : list nat) (sd_env sd_rep sd_err : list Q) (flat : list (list Q)) : option (list prow) :=
  if (length nrep_attr <? nenv)%nat then None
  else phenotype_loop n t taxa grp gvm nenv nrep_attr sd_env sd_rep sd_err flat.

(** the behaviour BEFORE commits e2384507 / c6ec4108: the nenv setter left the stored nrep array alone and the call did
    not check its length, zip() silently stopped at the shorter operand -- kept only to state the refutation that
    documents the repaired defects *)
Definition old_nrep_attr_of (nenv0 : nat) (a : nreparg) (nenv_set : option nat) : list nat := nrep_vec nenv0 a.
Definition old_phenotype := phenotype_loop.

Definition pheno_cols (tnames : list str) : list str := ["taxa"; "taxa_grp"; "env"; "rep"]%string ++ tnames.

(** ** TruePhenotyping.phenotype : one row per taxon, the group column only when groups exist *)
Definition true_rows (n : nat) (taxa : option (list str)) (grp : option (list Z)) (gvm : list (list Q)) : list (str * option Z * list Q) :=
  map2 (fun xg v => (fst xg, snd xg, v)) (combine (labels_or_auto "Taxon"%string n taxa) (grp_col n grp)) gvm.
Definition true_cols (grp : option (list Z)) (tnames : list str) : list str :=
  ("taxa" :: match grp with Some _ => ["taxa_grp"] | None => [] end)%string ++ tnames.

(** ** heritability *)
Definition var_pop (c : list Q) : Q :=
  let n := inject_Z (Z.of_nat (length c)) in
  let mu := sumQ c / n in
  sumQ (map (fun x => (x - mu) * (x - mu)) c) / n.
Definition var_cols (t : nat) (m : list (list Q)) : list Q := map var_pop (cols 0 t m).
Definition h2_err (h v : Q) : Q := (1 - h) / h * v.
Inductive h2arg := HScalar (q : Q) | HArr (l : list Q).
Definition h2_vec (t : nat) (a : h2arg) : list Q := match a with HScalar q => repeat q t | HArr l => l end.
(** set_h2 / set_H2 (both use the variance of Z@u_a): new var_err, or None when the setter rejects a negative variance *)
Definition set_h2 (t : nat) (h : h2arg) (gebv : list (list Q)) : option (list Q) :=
  let ve := map2 h2_err (h2_vec t h) (var_cols t gebv) in
  if forallb (Qle_bool 0) ve then Some ve else None.
Definition heritability (v ve : Q) : Q := v / (v + ve).

(** ** MeanPhenotypicBreedingValue.estimate *)
Definition trow : Type := (str * option Z * list Q).       (* taxa, taxa_grp (None = null), all trait columns *)
Definition t_taxa (r : trow) : str := fst (fst r).
Definition t_grp (r : trow) : option Z := snd (fst r).
Definition t_val (r : trow) : list Q := snd r.

(** group key (taxon label, group label); since the fix (commit 187dc882) groupby runs with dropna=False: a null group
    label is a key of its own, sorted after every integer label.  Without a group column -- and, since commit 19866ce8,
    whenever a genotype matrix is given -- the key is the label alone (second component constant). *)
Definition key : Type := (str * option Z).
Definition key_of (use_grp : bool) (r : trow) : key :=
  if use_grp then (t_taxa r, t_grp r) else (t_taxa r, Some 0%Z).
Definition ogrp_leb (a b : option Z) : bool :=
  match a, b with
  | Some x, Some y => Z.leb x y
  | Some _, None => true
  | None, Some _ => false
  | None, None => true
  end.
Definition key_eqb (a b : key) : bool := String.eqb (fst a) (fst b) && opt_eqb Z.eqb (snd a) (snd b).
Definition key_leb (a b : key) : bool :=
  if String.eqb (fst a) (fst b) then ogrp_leb (snd a) (snd b) else String.leb (fst a) (fst b).

Fixpoint ins (k : key) (l : list key) : list key :=
  match l with
  | [] => [k]
  | h :: t => if key_eqb k h then l else if key_leb k h then k :: l else h :: ins k t
  end.
Fixpoint keys_of (use_grp : bool) (rows : list trow) : list key :=
  match rows with
  | [] => []
  | r :: rest => ins (key_of use_grp r) (keys_of use_grp rest)
  end.
Definition has_key (use_grp : bool) (k : key) (r : trow) : bool := key_eqb k (key_of use_grp r).
Definition members (use_grp : bool) (k : key) (rows : list trow) : list trow := filter (has_key use_grp k) rows.
Definition mean_rows (sel : list nat) (rs : list trow) : list Q :=
  map (fun j => sumQ (map (fun r => nth j (t_val r) 0) rs) / inject_Z (Z.of_nat (length rs))) sel.
(** groupby(by, as_index=False).agg(mean): sorted distinct keys, arithmetic mean of the members *)
Definition agg (use_grp : bool) (sel : list nat) (rows : list trow) : list (key * list Q) :=
  map (fun k => (k, mean_rows sel (members use_grp k rows))) (keys_of use_grp rows).

(** dict(zip(agg_taxa, range(len))) : a later row with the same label overwrites an earlier one *)
Fixpoint lookup_last (x : str) (a : list (key * list Q)) : option (list Q) :=
  match a with
  | [] => None
  | (k, v) :: t => match lookup_last x t with Some w => Some w | None => if String.eqb x (fst k) then Some v else None end
  end.
Definition join (gt_taxa : list str) (a : list (key * list Q)) : list (option (list Q)) :=
  map (fun x => lookup_last x a) gt_taxa.

Fixpoint index_of (s : str) (l : list str) : option nat :=
  match l with [] => None | h :: t => if String.eqb s h then Some O else option_map S (index_of s t) end.
Fixpoint resolve (tcols names : list str) : option (list nat) :=
  match tcols with
  | [] => Some []
  | c :: cs => match index_of c names, resolve cs names with Some j, Some js => Some (j :: js) | _, _ => None end
  end.

(** without a genotype matrix the group labels are exported with to_numpy(dtype=int): a null label (NaN) is cast to
    the smallest int64 (numpy on x86-64 emits a RuntimeWarning, no exception) *)
Definition null_grp_code : Z := (-9223372036854775808)%Z.
Definition grp_code (g : option Z) : Z := match g with Some z => z | None => null_grp_code end.

(** genotype matrix argument: absent, or (taxa labels if any, taxa_grp if any) *)
Definition gtarg : Type := option (option (list str) * option (list Z)).
(** result: taxa, taxa_grp, trait, rows (None = the row is missing / NaN) *)
Definition est_out : Type := (list str * option (list Z) * list str * list (option (list Q))).

(** [by_grp_gt]: is the group column a group-by key when a genotype matrix is given?  [false] in the code since
    commit 19866ce8 (by = [taxa] when gtobj is given: the join is on the label, so every record of a taxon is averaged),
    [true] in the former code (group by (taxa, taxa_grp), then join by label: the last group won). *)
Definition estimate_gen (by_grp_gt : bool) (use_grp has_grp_col : bool) (tcols names : list str) (rows : list trow) (gt : gtarg) : option est_out :=
  match resolve tcols names with
  | None => None                                             (* check_pandas_DataFrame_has_columns *)
  | Some sel =>
    if use_grp && negb has_grp_col then None else
    match gt with
    | None => let a := agg use_grp sel rows in
              Some (map (fun kv => fst (fst kv)) a, (if use_grp then Some (map (fun kv => grp_code (snd (fst kv))) a) else None), tcols,
                    map (fun kv => Some (snd kv)) a)
    | Some (None, _) => None                                 (* check_GenotypeMatrix_has_taxa *)
    | Some (Some gtx, gtg) => Some (gtx, gtg, tcols, join gtx (agg (use_grp && by_grp_gt) sel rows))
    end
  end.
Definition estimate := estimate_gen false.

(** the behaviour BEFORE commit 19866ce8 -- kept only to state the refutation that documents the repaired defect *)
Definition old_estimate := estimate_gen true.

(** the behaviour BEFORE commit 187dc882 (groupby with the default dropna=True, and the former group-by keys): records
    whose group label is null were dropped before aggregation — kept only to state the refutation that documents the
    repaired defect *)
Definition drop_null_groups (use_grp : bool) (rows : list trow) : list trow :=
  if use_grp then filter (fun r => match t_grp r with Some _ => true | None => false end) rows else rows.
Definition estimate_dropna (use_grp has_grp_col : bool) (tcols names : list str) (rows : list trow) (gt : gtarg) : option est_out :=
  old_estimate use_grp has_grp_col tcols names (drop_null_groups use_grp rows) gt.

(** ** comparison helpers for the correspondence shards (implementation values first, model values second) *)
Fixpoint list_agree {A B} (f : A -> B -> bool) (l1 : list A) (l2 : list B) : bool :=
  match l1, l2 with [], [] => true | x :: t1, y :: t2 => f x y && list_agree f t1 t2 | _, _ => false end.
Definition optz_eqb := opt_eqb Z.eqb.
Definition prow_agree (impl model : prow) : bool :=
  String.eqb (p_taxa impl) (p_taxa model) && optz_eqb (p_grp impl) (p_grp model) && Z.eqb (p_env impl) (p_env model)
  && Z.eqb (p_rep impl) (p_rep model) && qclose_l (p_val impl) (p_val model).
Definition pheno_agree (impl : list prow) (model : option (list prow)) : bool :=
  match model with Some m => list_eqb prow_agree impl m | None => false end.
(** the implementation raised *)
Definition pheno_refused (model : option (list prow)) : bool := match model with None => true | Some _ => false end.
Definition true_agree (impl model : list (str * option Z * list Q)) : bool :=
  list_eqb (fun a b => String.eqb (t_taxa a) (t_taxa b) && optz_eqb (t_grp a) (t_grp b) && qclose_l (t_val a) (t_val b)) impl model.
Definition row_agree (width : nat) (impl : list (option Q)) (model : option (list Q)) : bool :=
  match model with
  | Some v => list_agree (fun a b => match a with Some x => Qclose x b | None => false end) impl v
  | None => list_agree (fun a (_ : unit) => match a with None => true | Some _ => false end) impl (repeat tt width)
  end.
Definition optzl_eqb := opt_eqb zl_eqb.
(** [impl = None] : the implementation raised *)
Definition est_agree (impl : option (list str * option (list Z) * list str * list (list (option Q)))) (model : option est_out) : bool :=
  match impl, model with
  | None, None => true
  | Some (tx, tg, tr, m), Some (tx', tg', tr', m') =>
      sl_eqb tx tx' && optzl_eqb tg tg' && sl_eqb tr tr' && list_agree (row_agree (length tr')) m m'
  | _, _ => false
  end.
Definition h2_agree (impl : option (list Q)) (model : option (list Q)) : bool :=
  match impl, model with
  | None, None => true
  | Some a, Some b => qclose_l a b
  | _, _ => false
  end.
