(** C03 — the Python-level FORM of an index argument, as far as the scalar-index guard of insert_<axis> / incorp_<axis>
    (DenseTaxaMatrix, DenseVariantMatrix, DenseTraitMatrix) sees it:
      `isinstance(obj, (int, numpy.integer)) or (isinstance(obj, numpy.ndarray) and obj.ndim == 0 and
       numpy.issubdtype(obj.dtype, numpy.integer))`.
    The harness ships a Python int, a numpy integer scalar and a 0-d integer array as [OInt]; slices as [OSlice]; lists,
    tuples, ranges and 1-d integer arrays as [OList]; 1-d boolean arrays (and sequences of bools) as [OMask].
    Definitions only. *)
From PV Require Import Lib.Common Model.C03_LMat.
Local Open Scope Z_scope.

Inductive iform :=
| FPyInt                                         (* Python int *)
| FNpInt                                         (* numpy integer scalar (instance of numpy.integer) *)
| FArr (nd : nat) (intdt : bool)                 (* numpy.ndarray with nd dimensions, of an integer dtype or not *)
| FOther.                                        (* slice, list, tuple, range *)
(** the tests the guard can make *)
Definition f_is_int (f : iform) : bool := match f with FPyInt => true | _ => false end.
Definition f_is_npint (f : iform) : bool := match f with FNpInt => true | _ => false end.
Definition f_is_ndarray (f : iform) : bool := match f with FArr _ _ => true | _ => false end.
Definition f_intdtype (f : iform) : bool := match f with FArr _ b => b | _ => false end.
Definition f_ndim (f : iform) : Z := match f with FArr nd _ => Z.of_nat nd | _ => 0 end.
(** the forms in which an index value reaches the methods *)
Definition ships (f : iform) (o : objarg) : bool :=
  match o, f with
  | OInt _, (FPyInt | FNpInt | FArr O true) => true
  | OSlice _ _ _, FOther => true
  | OList _, (FOther | FArr (S O) true) => true
  | OMask _, (FOther | FArr (S O) false) => true
  | _, _ => false
  end.
(** what the guarded statement `obj = [obj]` makes of a scalar index *)
Definition wrap_scalar (o : objarg) : objarg := match o with OInt i => OList [i] | _ => o end.
(** the guarded statement, given the value of the guard expression (generated from the source: Gen/C03_Kernel.v); a guard
    that fires on an index which is not a scalar builds a nested list, which is not an index of the axis any more ([None]) *)
Definition guarded_wrap (guard : bool) (o : objarg) : option objarg :=
  if guard then match o with OInt i => Some (OList [i]) | _ => None end else Some o.
(** the guard evaluated on a form *)
Definition on_form (g : bool -> bool -> bool -> bool -> Z -> objarg -> option objarg) (f : iform) (o : objarg) : option objarg :=
  g (f_is_int f) (f_is_npint f) (f_is_ndarray f) (f_intdtype f) (f_ndim f) o.
(** FORMER code (before the repair of C03-zero-dim-index-insert-moveaxis): `if isinstance(obj, (int, numpy.integer)): obj = [obj]` *)
Definition old_wrap (is_int is_npint is_ndarray is_intdtype : bool) (ndim : Z) (o : objarg) : option objarg :=
  guarded_wrap (is_int || is_npint) o.
(** insert_<axis> of the source, given its guarded statement [g]: wrap, then numpy.insert as it is ([old_op_insert]: a
    scalar index that reaches numpy.insert moves axis 0 of the block) *)
Definition src_insert (g : bool -> bool -> bool -> bool -> Z -> objarg -> option objarg) (c : cls) (s : st) (k : nat) (f : iform) (o : objarg) (v : operand) : res st :=
  match on_form g f o with Some o' => old_op_insert c s k o' v | None => Err end.
(** incorp_<axis> of the source likewise: wrap, then the in-place insertion *)
Definition src_incorp (g : bool -> bool -> bool -> bool -> Z -> objarg -> option objarg) (c : cls) (s : st) (k : nat) (f : iform) (o : objarg) (v : operand) : res st :=
  match on_form g f o with Some o' => op_incorp c s k o' v | None => Err end.
