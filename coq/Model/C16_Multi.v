(** C16 — several objects of different classes in ONE HDF5 file.
    A history of to_hdf5 calls, each with its own class, group name, overwrite flag and way of handing the file over (by NAME:
    str / pathlib.Path — the method opens the file itself, with the mode the source has for that class, Gen/C16_Kernel.v
    [k_h5_open_mode]; or an OPEN h5py.File handle, used as it is).  After every write the whole file listing and every object
    written so far (each at its own location, with its own class) are compared with the implementation.  Definitions only. *)
From Coq Require Import String.
From PV Require Import Lib.Common Lib.C16_Spec Model.C16_Store Gen.C16_Kernel.
Local Open Scope Z_scope.

(** h5py.File(name, mode) on a file whose content is [f] ([ex]: does it exist on disk?): the content the method then works
    on, or None when opening raises / the file is not writable ('r', or a string that is no mode) *)
Definition open_named (mode : String.string) (ex : bool) (f : file) : option file :=
  if String.eqb mode "a" then Some f
  else if String.eqb mode "w" then Some []                               (* truncate *)
  else if String.eqb mode "r+" then (if ex then Some f else None)
  else if String.eqb mode "x" || String.eqb mode "w-" then (if ex then None else Some [])
  else None.

(** the mode the source of class [c] opens a named file with (a class without a row: no mode, opening fails) *)
Definition open_mode_of (c : String.string) (ow : bool) : String.string :=
  match find (fun r => String.eqb (fst r) c) k_h5_open_mode with Some r => snd r ow | None => EmptyString end.

(** to_hdf5 with the file handed over by name: the group name is processed first, then the file is opened *)
Definition to_hdf5_named (s : cls_spec) (ex : bool) (f : file) (g : option str) (o : obj) (ow : bool) : file * option err :=
  match norm_group g with
  | inr e => (f, Some e)
  | inl _ => match open_named (open_mode_of (cname s) ow) ex f with
             | None => (f, Some EOther)
             | Some f0 => to_hdf5 VCur s f0 g o ow
             end
  end.
Definition to_hdf5_any (by_name : bool) (s : cls_spec) (ex : bool) (f : file) (g : option str) (o : obj) (ow : bool) : file * option err :=
  if by_name then to_hdf5_named s ex f g o ow else to_hdf5 VCur s f g o ow.

Definition mstep := (cls_spec * Z * option str * obj * bool * bool)%type.      (* class, ntrait, group, object, overwrite, by name? *)
Definition mread := (cls_spec * Z * option str * option obj)%type.              (* class, ntrait, group, object read back | exception *)
Definition mout := (bool * option (list (str * option dset)) * list mread)%type. (* write raised?, whole-file dump, every location read *)

Definition mread_ok (f : file) (r : mread) : bool :=
  let '(s, nt, g, e) := r in read_ok (from_hdf5 s nt f g) e.

Fixpoint agree_mh5 (ex : bool) (f : file) (steps : list mstep) (outs : list mout) : bool :=
  match steps, outs with
  | [], [] => true
  | (s, nt, g, o, ow, by_name) :: st, (werr, dump, rds) :: ot =>
    let '(f1, e) := to_hdf5_any by_name s ex f g o ow in
    Bool.eqb werr (match e with Some _ => true | None => false end)
    && match dump with Some d => dump_ok f1 d | None => is_nil f1 end
    && forallb (mread_ok f1) rds
    && agree_mh5 (ex || negb by_name || match open_named (open_mode_of (cname s) ow) ex f with Some _ => true | None => false end) f1 st ot
  | _, _ => false
  end.

(** a history of writes, by handle, for the theorems: the state after all of them *)
Fixpoint write_seq (f : file) (steps : list (cls_spec * option str * obj * bool)) : file :=
  match steps with
  | [] => f
  | (s, g, o, ow) :: t => write_seq (fst (to_hdf5 VCur s f g o ow)) t
  end.
