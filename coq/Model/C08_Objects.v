(** C08 — components as OBJECTS that hold a generator, and the copy step.

    [Model/C08_World.v] speaks of calls with a footprint.  Stochastic components of pybrops are objects (mating, phenotyping and
    selection protocols, selection configurations, optimisers) that hold a reference to a generator: the global numpy stream
    when constructed with rng = None, the caller's generator otherwise.  The library's copy routes ([copy.copy], [copy.deepcopy],
    [.copy()], [.deepcopy()] of G_E_Phenotyping: "rng = self.rng, # should not be copied"; the [__deepcopy__] every other stochastic class
    inherits from its base class, which deep-copies every attribute but the generator; python's default shallow copy) yield a new object
    holding THE SAME generator: the copy's footprint is the source's footprint and no generator is allocated.  A copy that snapshots the
    generator ([SSnap]: what copy.deepcopy(self.rng) does, and what python's default deep copy did to these classes before they had a
    [__deepcopy__]) allocates a private generator whose state is the source's state at copy time.

    The rng property setter of a protocol that built default optimisers re-points the protocol AND those optimisers ([rng_setter]);
    formerly only the protocol ([old_rng_setter]).

    Definitions only.  A program of steps is compiled to the calls of [W] under an environment object -> location. *)
From Coq Require Import List ZArith NArith Bool.
From PV Require Import Lib.Common Gen.C08_Entropy Model.C08_World.
Import ListNotations W.

(** the source bit the translator reports for a snapshot of a generator (copy.deepcopy(self.rng), rng.get_state(), ...) *)
Module FPC.
Definition COPIES : N := 256%N.
End FPC.

Module OB.
Section Obj.
  Variable G O : Type.
  Variable out_unit : O.

  (** which generator an object holds *)
  Definition env := nat -> loc.
  Definition bind (e : env) (d : nat) (l : loc) : env := fun o => if Nat.eqb d o then l else e o.

  Inductive step :=
  | SCall (c : call G O)               (* any call of the world model: seed, spawn, a function handed a generator, history noise *)
  | SNew (d : nat) (l : loc)           (* constructor: rng = None -> LNp ; rng = generator i -> LEx i *)
  | SCopy (d s : nat)                  (* copy / deepcopy / .copy() / .deepcopy() of object s: object d holds the SAME generator *)
  | SUse (o : nat) (f : G -> O * G)    (* a stochastic method of object o: reads and advances the generator o holds *)
  | SSnap (d s : nat) (j : nat).       (* FAULTY copy (former code only): allocates generator j := current state of s's generator; d holds j *)

  (** the deep copy of a stochastic component.  Current code: the inherited [__deepcopy__] hands the generator over by reference.
      Former code ([old_]): python's default deep copy duplicated the generator (a private generator j). *)
  Definition deepcopy_step (d s : nat) : step := SCopy d s.
  Definition old_default_deepcopy_step (d s j : nat) : step := SSnap d s j.

  (** [prot.rng = <generator at l>] for a protocol object [prot] whose constructor built the default optimiser object [algo].
      Current code: the protocol is re-bound and the default optimiser follows it.  Former code ([old_]): only the protocol was re-bound,
      the optimiser kept the generator it was constructed with. *)
  Definition rng_setter (prot algo : nat) (l : loc) : list step := [SNew prot l; SCopy algo prot].
  Definition old_rng_setter (prot algo : nat) (l : loc) : list step := [SNew prot l].
  (** any sequence of stochastic calls on given objects *)
  Definition uses (us : list (nat * (G -> O * G))) : list step := map (fun u => SUse (fst u) (snd u)) us.

  Definition use_call (l : loc) (f : G -> O * G) : call G O :=
    mkcall [l] [l] (fun w => let '(o, g) := f (w l) in (o, upd w l g)).
  Definition snap_call (src : loc) (j : nat) : call G O :=
    mkcall [src] [LEx j] (fun w => (out_unit, upd w (LEx j) (w src))).
  Definition nop_call : call G O := mkcall [] [] (fun w => (out_unit, w)).

  (** the call a step performs under the current bindings; the bindings afterwards *)
  Definition step_call (e : env) (s : step) : call G O :=
    match s with
    | SCall c => c
    | SNew _ _ => nop_call
    | SCopy _ _ => nop_call               (* a copy allocates no generator and touches none *)
    | SUse o f => use_call (e o) f
    | SSnap _ s j => snap_call (e s) j
    end.
  Definition step_env (e : env) (s : step) : env :=
    match s with
    | SCall _ => e
    | SNew d l => bind e d l
    | SCopy d s => bind e d (e s)         (* the copy's footprint = the source's footprint *)
    | SUse _ _ => e
    | SSnap d _ j => bind e d (LEx j)
    end.
  Fixpoint compile (e : env) (p : list step) : list (call G O) :=
    match p with [] => [] | s :: t => step_call e s :: compile (step_env e s) t end.
  Fixpoint env_after (e : env) (p : list step) : env :=
    match p with [] => e | s :: t => env_after (step_env e s) t end.
  Definition run_obj (p : list step) (e : env) (w : world G) : list O * world G := run_prog (compile e p) w.

  (** well-formed after seeding: every call reads known locations only and never the OS; an object that is used holds a known
      generator; no snapshot copies *)
  Fixpoint wf (A : list loc) (e : env) (p : list step) : Prop :=
    match p with
    | [] => True
    | SCall c :: t => respects c /\ incl (reads c) A /\ ~ In LOs (reads c) /\ ~ In LOs (writes c) /\ wf (A ++ writes c) e t
    | SNew d l :: t => wf A (bind e d l) t
    | SCopy d s :: t => wf A (bind e d (e s)) t
    | SUse o f :: t => In (e o) A /\ e o <> LOs /\ wf A e t
    | SSnap _ _ _ :: t => False
    end.

  (** every object lives on numpy's global stream (constructed with rng = None, or a copy of such an object) *)
  Definition all_np (e : env) : Prop := forall o, e o = LNp.
  (** histories that keep it so: anything (arbitrary calls, uses, copies) but constructors with a generator and snapshot copies *)
  Definition clean (s : step) : Prop :=
    match s with SNew _ l => l = LNp | SSnap _ _ _ => False | _ => True end.

  (** programs in which every object holds the supplied generator i *)
  Fixpoint only (i : nat) (e : env) (p : list step) : Prop :=
    match p with
    | [] => True
    | SNew d l :: t => l = LEx i /\ only i (bind e d l) t
    | SCopy d s :: t => only i (bind e d (e s)) t
    | SUse o f :: t => e o = LEx i /\ only i e t
    | _ :: _ => False
    end.
End Obj.
Arguments SCall {G O} c. Arguments SNew {G O} d l. Arguments SCopy {G O} d s. Arguments SUse {G O} o f. Arguments SSnap {G O} d s j.
Arguments compile {G O} out_unit e p. Arguments run_obj {G O} out_unit p e w. Arguments env_after {G O} e p.
Arguments step_env {G O} e s. Arguments step_call {G O} out_unit e s.
Arguments wf {G O} A e p. Arguments clean {G O} s. Arguments only {G O} i e p.
Arguments deepcopy_step {G O} d s. Arguments old_default_deepcopy_step {G O} d s j.
Arguments rng_setter {G O} prot algo l. Arguments old_rng_setter {G O} prot algo l. Arguments uses {G O} us.
Arguments use_call {G O} l f. Arguments snap_call {G O} out_unit src j. Arguments nop_call {G O} out_unit.
End OB.
