(** C05 — executable model of the REPORTING path [SelectionProblem._evaluate(x, out)] (what pymoo's [Problem.evaluate] and the
    memetic hill climbers read): which element of the [evalfn] triple is stored under which key of [out], in the branch for a
    single decision vector ([x.ndim == 1]) and in the branch for a matrix of candidates (one row per candidate), and the filter
    that decides whether a key is stored at all.  The tables, the branch test and the filters are the GENERATED definitions of
    Gen/C05_Kernel.v (regenerated from pybrops/breed/prot/sel/prob/SelectionProblem.py on every run); this file only says how
    they are put together.  Definitions only. *)
From Coq Require Import String.
From Coq Require Import ZArith QArith Bool List.
From PV Require Import Lib.Common Gen.C05_Kernel Model.C05_Latent.
Import ListNotations.
Local Open Scope Q_scope.

(** the value returned by [evalfn]: (objectives, inequality constraint violations, equality constraint violations) *)
Definition triple := (list Q * list Q * list Q)%type.
(** [e[i]] for i = 0, 1, 2 (the translator refuses any other index) *)
Definition el (i : nat) (t : triple) : list Q :=
  match i with O => fst (fst t) | S O => snd (fst t) | _ => snd t end.

(** a value stored in [out]: a vector (shape (m,)) in the vector branch, a matrix (shape (rows, m)) in the matrix branch *)
Inductive outv := OV (v : list Q) | OM (m : list (list Q)).
(** the dictionary [out] after the call, keys in insertion order *)
Definition outd := list (string * outv).
(** the key names, for the correspondence shards (which do not open the string scope) *)
Definition key_F : string := "F"%string.
Definition key_G : string := "G"%string.
Definition key_H : string := "H"%string.

Definition width {A} (m : list (list A)) : nat := match m with [] => O | r :: _ => length r end.

(** vector branch:  vals = evalfn(x);  out.update({key: val for key, val in zip(keys, vals) if len(val) > 0}) *)
Definition report_vec_t (table : list (string * nat)) (ev : triple) : outd :=
  flat_map (fun kv : string * nat => let v := el (snd kv) ev in
              if k_evaluate_vec_keep (Z.of_nat (length v)) then [(fst kv, OV v)] else []) table.
Definition report_vec := report_vec_t k_evaluate_vec_table.
(** matrix branch:  vals = [evalfn(v) for v in x];  <name> = numpy.stack([e[i] for e in vals]) ...;
    out.update({key: val for key, val in zip(keys, [names]) if val.shape[1] > 0}) *)
Definition report_mat_t (table : list (string * nat)) (evs : list triple) : outd :=
  flat_map (fun kv : string * nat => let m := map (el (snd kv)) evs in
              if k_evaluate_mat_keep (Z.of_nat (length m)) (Z.of_nat (width m)) then [(fst kv, OM m)] else []) table.
Definition report_mat := report_mat_t k_evaluate_mat_table.

(** the argument of [_evaluate]: a decision vector, or a non-empty matrix of decision vectors (numpy.stack refuses no rows) *)
Inductive xarg := X1 (x : list Q) | X2 (X : list (list Q)).
Definition ndim (a : xarg) : Z := match a with X1 _ => 1%Z | X2 _ => 2%Z end.
(** [_evaluate] for a problem whose evalfn is [f]; [None]: not a call the model describes (no rows) *)
Definition evaluate (f : list Q -> triple) (a : xarg) : option outd :=
  match a with
  | X1 x => if k_evaluate_is_vec (ndim a) then Some (report_vec (f x)) else None
  | X2 X => if k_evaluate_is_vec (ndim a) then None else match X with [] => None | _ => Some (report_mat (map f X)) end
  end.

(** what the property asks of the dictionary: key present iff the declared count is positive, F / G / H are the objectives /
    inequality / equality violations of each row *)
Definition present_vec (key : string) (v : list Q) : outd := if (0 <? length v)%nat then [(key, OV v)] else [].
Definition present_mat (key : string) (m : list (list Q)) : outd := if (0 <? width m)%nat then [(key, OM m)] else [].

(** a transformation the harness defines to reach every width: row i of [M] dotted with the latent vector, plus b * sum(x) *)
Inductive trans2 := T1 (t : trans) | TLin (M : list (list Q)) (b : Q).
Definition apply_trans2 (tr : trans2) (x latent : list Q) : list Q :=
  match tr with
  | T1 t => apply_trans t x latent
  | TLin M b => map (fun row => qsum (map2 Qmult row latent) + b * qsum x) M
  end.
Definition evalfn2 (to ti te : trans2) := evalfn (apply_trans2 to) (apply_trans2 ti) (apply_trans2 te).

(** comparison of an observed dictionary with the model's: same keys in the same order, same shapes, values within 2^-30 *)
Definition outv_close (a b : outv) : bool :=
  match a, b with OV x, OV y => qclose_l x y | OM x, OM y => qclose_ll x y | _, _ => false end.
Definition outd_close (impl model : outd) : bool :=
  list_eqb (fun a b : string * outv => String.eqb (fst a) (fst b) && outv_close (snd a) (snd b)) impl model.
Definition outd_close_opt (impl : outd) (model : option outd) : bool :=
  match model with Some m => outd_close impl m | None => false end.
