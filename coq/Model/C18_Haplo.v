(** C18 — executable model of the haplotype-block code of pybrops:
      pybrops/core/util/haplo.py            nhaploblk_chrom, haplobin, haplobin_bounds, haplomat
      pybrops/breed/prot/sel/prob/OptimalHaploidValueSelectionProblem.py   _calc_haplomat, _calc_xmap, _calc_ohvmat, latentfn
      pybrops/breed/prot/sel/prob/OptimalPopulationValueSelectionProblem.py _calc_haplomat, latentfn
      pybrops/breed/prot/sel/prob/GenotypeBuilderSelectionProblem.py        _calc_haplomat, latentfn
    Genetic positions live in an abstract number type [T] with the operations the code applies to them
    ([ops]); two instances are evaluated: [fops] = binary64 ([PrimFloat], bit exact, operation order of the
    source and of numpy.linspace) and [qops] = exact rationals.  Block values (genotype . effects) are exact
    rationals (inputs are generated on dyadic grids where the binary64 sums are exact).
    An element of the (m,n,b,t) array that the code never writes (numpy.empty) is [None].
    haplobin includes its repair pass ([spread_loop]; defect C18-empty-bin, repaired in the library): the former code
    (bare equal-width bins) is [old_haplobin] in Proofs/C18_Haplo.v, kept as a regression witness.
    Definitions only. *)
From Coq Require Import PrimFloat Uint63.
From PV Require Import Lib.Common Lib.FloatK.

(** results of functions that may raise *)
Inductive res (A : Type) : Type := Ok (a : A) | Err (e : err).
Arguments Ok {A} a. Arguments Err {A} e.

(** operations on genetic positions *)
Record ops (T : Type) : Type := mkops {
  o_leb : T -> T -> bool;  o_ltb : T -> T -> bool;  o_isnan : T -> bool;  o_eq0 : T -> bool;
  o_add : T -> T -> T;  o_sub : T -> T -> T;  o_mul : T -> T -> T;  o_div : T -> T -> T;
  o_ofn : nat -> T }.
Arguments o_leb {T}. Arguments o_ltb {T}. Arguments o_isnan {T}. Arguments o_eq0 {T}. Arguments o_add {T}.
Arguments o_sub {T}. Arguments o_mul {T}. Arguments o_div {T}. Arguments o_ofn {T}.

Definition fops : ops float :=
  mkops float PrimFloat.leb PrimFloat.ltb (fun x => negb (PrimFloat.eqb x x)) (fun x => PrimFloat.eqb x 0%float)
        PrimFloat.add PrimFloat.sub PrimFloat.mul PrimFloat.div (fun n => f_of_Z (Z.of_nat n)).
Definition qops : ops Q :=
  mkops Q Qle_bool (fun x y => negb (Qle_bool y x)) (fun _ => false) (fun x => Qeq_bool x 0)
        Qplus Qminus Qmult Qdiv (fun n => inject_Z (Z.of_nat n)).

(** a[st:sp] and  out[st:sp] = vals *)
Definition slice {A} (st sp : nat) (l : list A) : list A := firstn (sp - st) (skipn st l).
Definition write {A} (st sp : nat) (vals out : list A) : list A := firstn st out ++ vals ++ skipn sp out.

Section Positions.
Context {T : Type} (O : ops T).
Let z : T := o_ofn O 0.

(** ** nhaploblk_chrom: greedy apportionment *)
(** genlen = genpos[chrgrp_spix-1] - genpos[chrgrp_stix] *)
Definition genlen (gp : list T) (stix spix : list nat) : list T :=
  map2 (fun st sp => o_sub O (nth (sp - 1) gp z) (nth st gp z)) stix spix.
(** numpy add.reduce of fewer than 8 contiguous values is a left-to-right loop *)
Definition tsum (l : list T) : T := fold_left (o_add O) l z.
(** nhaploblk_ideal = (nhaploblk / genlen.sum()) * genlen *)
Definition ideal (nhap : nat) (gl : list T) : list T :=
  let q := o_div O (o_ofn O nhap) (tsum gl) in map (fun g => o_mul O q g) gl.
(** numpy argmin: first minimum; the first NaN wins *)
Fixpoint argmin_loop (l : list T) (i bi : nat) (bv : T) : nat :=
  match l with
  | [] => bi
  | x :: r => if o_isnan O bv then bi
              else if o_isnan O x || o_ltb O x bv then argmin_loop r (S i) i x else argmin_loop r (S i) bi bv
  end.
Definition argmin (l : list T) : nat := match l with [] => 0%nat | x :: r => argmin_loop r 1 0 x end.
(** l[ix] += 1 *)
Definition incr (ix : nat) (l : list nat) : list nat :=
  firstn ix l ++ match skipn ix l with [] => [] | x :: r => S x :: r end.
Fixpoint apportion_loop (fuel : nat) (idl : list T) (cur : list nat) : list nat :=
  match fuel with
  | 0%nat => cur
  | S f => let diff := map2 (fun c i => o_sub O (o_ofn O c) i) cur idl in
           apportion_loop f idl (incr (argmin diff) cur)
  end.
Definition nhaploblk_chrom (nhap : nat) (gp : list T) (stix spix : list nat) : res (list nat) :=
  let nchr := length stix in
  if (nhap <? nchr)%nat then Err EIndex   (* the ValueError message "... (nchr = {1})".format(nchr) itself raises IndexError *)
  else Ok (apportion_loop (nhap - nchr) (ideal nhap (genlen gp stix spix)) (repeat 1%nat nchr)).

(** ** numpy.linspace(lo, hi, n+1): n+1 boundaries of n equal-width bins *)
Definition linspace (lo hi : T) (n : nat) : list T :=
  let delta := o_sub O hi lo in
  let step := o_div O delta (o_ofn O n) in
  map (fun j => if o_eq0 O step then o_add O (o_mul O (o_div O (o_ofn O j) (o_ofn O n)) delta) lo
                else o_add O (o_mul O (o_ofn O j) step) lo) (seq 0 n) ++ [hi].

(** ** haplobin *)
(** the inner loop over the bins of one chromosome, for one marker: bin j (label k+j) overwrites the label
    whenever hbound[j] <= x <= hbound[j+1]; later bins overwrite earlier ones *)
Fixpoint bin_label (hb : list T) (x : T) (k : nat) (acc : option nat) : option nat :=
  match hb with
  | [] => acc
  | lo :: tl => match tl with
                | [] => acc
                | hi :: _ => bin_label tl x (S k) (if o_leb O lo x && o_leb O x hi then Some k else acc)
                end
  end.
(** the pass over the markers of one chromosome that follows the bins (repair of the empty-bin defect):
      prev = k - nhap - 1
      for m in range(stix, spix): prev = min(max(haplobin[m], prev, k - (spix - m)), prev + 1); haplobin[m] = prev
    [k] is the label after the chromosome's last bin, [rem] = spix - m.  Python integers: [Z] (prev starts at -1 on
    the first chromosome).  A label that was never written holds whatever numpy.empty found, and so does everything
    computed from it: [None] from there on. *)
Fixpoint spread_loop (k : Z) (prev : option Z) (rem : nat) (l : list (option nat)) : list (option nat) :=
  match l with
  | [] => []
  | x :: r =>
      let v := match prev, x with
               | Some p, Some xv => Some (Z.min (Z.max (Z.max (Z.of_nat xv) p) (k - Z.of_nat rem)) (p + 1))
               | _, _ => None
               end in
      option_map Z.to_nat v :: spread_loop k v (rem - 1) r
  end.
Definition spread (k nhap st sp : nat) (lab : list (option nat)) : list (option nat) :=
  spread_loop (Z.of_nat k) (Some (Z.of_nat k - Z.of_nat nhap - 1)%Z) (sp - st) lab.
Fixpoint haplobin_loop (gp : list T) (chroms : list (nat * (nat * nat))) (k : nat) (out : list (option nat))
  : list (option nat) :=
  match chroms with
  | [] => out
  | (nhap, (st, sp)) :: rest =>
      let hb := linspace (nth st gp z) (nth (sp - 1) gp z) nhap in
      let lab := map2 (fun x cur => bin_label hb x k cur) (slice st sp gp) (slice st sp out) in
      haplobin_loop gp rest (k + nhap) (write st sp (spread (k + nhap) nhap st sp lab) out)
  end.
(** numpy.empty(len(genpos)) is all [None]; the chromosomes write their slices *)
Definition haplobin (nblk : list nat) (gp : list T) (stix spix : list nat) : list (option nat) :=
  haplobin_loop gp (combine nblk (combine stix spix)) 0 (repeat None (length gp)).
End Positions.

(** ** haplobin_bounds: run-length boundaries of the labels *)
Fixpoint breaks (prev : nat) (l : list nat) (i : nat) : list nat :=
  match l with
  | [] => []
  | x :: r => if (x =? prev)%nat then breaks prev r (S i) else i :: breaks x r (S i)
  end.
Definition haplobin_bounds (lab : list nat) : res (list nat * list nat * list nat) :=
  match lab with
  | [] => Err EIndex
  | x0 :: r => let bk := breaks x0 r 1 in
               let hst := 0%nat :: bk in let hsp := bk ++ [length lab] in
               Ok (hst, hsp, map2 Nat.sub hsp hst)
  end.

Definition all_some {A} (l : list (option A)) : option (list A) :=
  fold_right (fun x acc => match x, acc with Some a, Some r => Some (a :: r) | _, _ => None end) (Some []) l.

(** ** haplomat / _calc_haplomat *)
Definition dotZQ (g : list Z) (u : list Q) : Q := sumQ (map2 (fun a b => inject_Z a * b)%Q g u).
(** genomemat[ph,ind,st:sp].dot(u_a[st:sp,i]) *)
Definition block_val (g : list Z) (ucol : list Q) (st sp : nat) : Q := dotZQ (slice st sp g) (slice st sp ucol).
Definition cand_t := list (list (option Q)).                      (* one chromosome copy: [block][trait] *)
Definition hmat_t := list (list cand_t).                          (* [phase][individual][block][trait] *)
(** numpy.empty((m,n,nhaploblk,t)) then hmat[:,:,j,i] = ... for j, (st,sp) in enumerate(zip(hstix, hspix)):
    block j of a copy is written only when a j-th run exists *)
Definition cand_of (nhap nt : nat) (u : list (list Q)) (bounds : list (nat * nat)) (g : list Z) : cand_t :=
  map (fun j => map (fun i =>
        match nth_error bounds j with
        | Some (st, sp) => Some (block_val g (col 0%Q i u) st sp)
        | None => None
        end) (seq 0 nt)) (seq 0 nhap).
Definition hmat_of (nhap nt : nat) (geno : list (list (list Z))) (u : list (list Q)) (bounds : list (nat * nat)) : hmat_t :=
  map (map (cand_of nhap nt u bounds)) geno.

Section Haplomat.
Context {T : Type} (O : ops T).
(** [e1]: error raised when nhaploblk < nchr, [e2]: when a chromosome gets more blocks than markers
    (RuntimeError in haplo.haplomat / OPV / genotype builder, ValueError in the OHV copy) *)
Definition calc_haplomat (e1 e2 : err) (nhap : nat) (geno : list (list (list Z))) (gp : list T)
    (stix spix clen : list nat) (u : list (list Q)) (nt : nat) : res hmat_t :=
  if (nhap <? length stix)%nat then Err e1 else
  match nhaploblk_chrom O nhap gp stix spix with
  | Err e => Err e
  | Ok nblk =>
    if existsb (fun bl => (snd bl <? fst bl)%nat) (combine nblk clen) then Err e2 else
    match all_some (haplobin O nblk gp stix spix) with
    | None => Err EOther                      (* a marker left unlabelled: not reachable for sorted positions *)
    | Some lab =>
      match haplobin_bounds lab with
      | Err e => Err e
      | Ok (hst, hsp, _) =>
        let bounds := combine hst hsp in
        if (nhap <? length bounds)%nat then Err EIndex else Ok (hmat_of nhap nt geno u bounds)
      end
    end
  end.
(** the block boundaries the same call uses (observable through haplobin / haplobin_bounds) *)
Definition calc_bounds (nhap : nat) (gp : list T) (stix spix : list nat) : option (list (nat * nat)) :=
  match nhaploblk_chrom O nhap gp stix spix with
  | Err _ => None
  | Ok nblk => match all_some (haplobin O nblk gp stix spix) with
               | None => None
               | Some lab => match haplobin_bounds lab with Err _ => None | Ok (hst, hsp, _) => Some (combine hst hsp) end
               end
  end.
End Haplomat.

(** ** cross maps: triudix (strictly increasing) / triuix (non-decreasing) parent tuples, lexicographic *)
Fixpoint xmap_from (uniq : bool) (k st n : nat) : list (list nat) :=
  match k with
  | O => [[]]
  | S k' => flat_map (fun i => map (cons i) (xmap_from uniq k' (if uniq then S i else i) n)) (seq st (n - st))
  end.
Definition calc_xmap (ntaxa nparent : nat) (uniq : bool) : list (list nat) := xmap_from uniq nparent 0 ntaxa.

(** ** optimal haploid value:  ploidy * haplomat[:,xconfig,:,:].max((0,2)).sum(1) *)
(** all (phase, parent) copies designated by a parent tuple *)
Definition cands (hm : hmat_t) (parents : list nat) : list cand_t :=
  flat_map (fun phm => map (fun d => nth d phm []) parents) hm.
Definition ent (c : cand_t) (b t : nat) : option Q := nth t (nth b c []) None.
Definition omax (a b : option Q) : option Q :=
  match a, b with Some x, Some y => Some (Qmax' x y) | _, _ => None end.
Definition oadd (a b : option Q) : option Q :=
  match a, b with Some x, Some y => Some (x + y)%Q | _, _ => None end.
Definition best (cs : list cand_t) (b t : nat) : option Q :=
  match cs with [] => None | c :: r => fold_left (fun acc c' => omax acc (ent c' b t)) r (ent c b t) end.
Definition osum (l : list (option Q)) : option Q := fold_right oadd (Some 0%Q) l.
Definition ohv_row (ploidy : Z) (nb nt : nat) (cs : list cand_t) : list (option Q) :=
  map (fun t => option_map (Qmult (inject_Z ploidy)) (osum (map (fun b => best cs b t) (seq 0 nb)))) (seq 0 nt).
Definition calc_ohvmat (ploidy : Z) (nb nt : nat) (hm : hmat_t) (xmap : list (list nat)) : list (list (option Q)) :=
  map (fun xc => ohv_row ploidy nb nt (cands hm xc)) xmap.
(** OHV subset latentfn:  -(1/len(x)) * ohvmat[x,:].sum(0)  (exact value) *)
Definition ohv_latent (nt : nat) (ohv : list (list (option Q))) (x : list nat) : list (option Q) :=
  map (fun t => option_map (fun s => - (s / inject_Z (Z.of_nat (length x))))%Q
                  (osum (map (fun i => nth t (nth i ohv []) None) x))) (seq 0 nt).
(** optimal population value latentfn:  -ploidy * haplomat[:,x,:,:].max((0,1)).sum(0) *)
Definition opv_latent (nb nt : nat) (hm : hmat_t) (x : list nat) : list (option Q) :=
  map (option_map Qopp) (ohv_row (Z.of_nat (length hm)) nb nt (cands hm x)).

(** ** genotype builder latentfn: best phase per selected individual, per (block, trait) the nbest largest
    of those are added;  -(ploidy / nbestfndr) * sum *)
Fixpoint insert_desc (x : Q) (l : list Q) : list Q :=
  match l with [] => [x] | y :: r => if Qle_bool y x then x :: l else y :: insert_desc x r end.
Definition sort_desc (l : list Q) : list Q := fold_right insert_desc [] l.
Definition gb_latent (nb nt nbest : nat) (hm : hmat_t) (x : list nat) : list (option Q) :=
  let ploidy := inject_Z (Z.of_nat (length hm)) in
  map (fun t =>
    option_map (fun s => - ((ploidy / inject_Z (Z.of_nat nbest)) * s))%Q
      (osum (map (fun b =>
         match all_some (map (fun d => best (map (fun phm => nth d phm []) hm) b t) x) with
         | None => None
         | Some vals => Some (sumQ (firstn nbest (sort_desc vals)))
         end) (seq 0 nb)))) (seq 0 nt).

(** ** comparison helpers for the correspondence shards *)
Definition natl_opt_agree (model : list (option nat)) (impl : list nat) : bool :=
  list_eqb (opt_eqb Nat.eqb) model (map Some impl).
(** labels of an invalid (unsorted) layout: a label that depends on unwritten memory ([None]) is not compared *)
Fixpoint lab_agree (model : list (option nat)) (impl : list nat) : bool :=
  match model, impl with
  | [], [] => true
  | a :: m', b :: i' => match a with Some x => Nat.eqb x b | None => true end && lab_agree m' i'
  | _, _ => false
  end.
Definition res_eqb {A} (eqb : A -> A -> bool) (a b : res A) : bool :=
  match a, b with Ok x, Ok y => eqb x y | Err e1, Err e2 => err_eqb e1 e2 | _, _ => false end.
Definition bounds_eqb (a b : list nat * list nat * list nat) : bool :=
  let '(a1, a2, a3) := a in let '(b1, b2, b3) := b in natl_eqb a1 b1 && natl_eqb a2 b2 && natl_eqb a3 b3.
(** model entry vs implementation entry: a written entry must be equal; an unwritten one (None) must be
    reported unwritten by the driver (it holds whatever numpy.empty found) *)
Definition oq_eqb (a b : option Q) : bool :=
  match a, b with Some x, Some y => Qeq_bool x y | None, None => true | _, _ => false end.
(** values that depend on unwritten memory are not compared *)
Definition oq_agree (model impl : option Q) : bool :=
  match model, impl with Some x, Some y => Qeq_bool x y | Some _, None => false | None, _ => true end.
Definition oq_close (model impl : option Q) : bool :=
  match model, impl with Some x, Some y => Qclose y x | Some _, None => false | None, _ => true end.
Definition hmat_eqb : hmat_t -> hmat_t -> bool := list_eqb (list_eqb (list_eqb (list_eqb oq_eqb))).
Definition oql_agree := list_eqb oq_agree.
Definition oqll_agree := list_eqb oql_agree.
Definition natll_eqb := list_eqb natl_eqb.
(** decidable hypotheses of the ordering theorems for the binary64 instance (Proofs/C18_Float.v), evaluated per case:
    chromosomes non-empty, positions finite and sorted, >= 1 block each, linspace boundaries finite and the first
    one not above the first marker *)
Fixpoint sortedb (l : list float) : bool :=
  match l with [] => true | x :: r => match r with [] => true | y :: _ => PrimFloat.leb x y && sortedb r end end.
Definition chrom_ok_b (c : list float) : bool :=
  match c with [] => false | _ => forallb PrimFloat.is_finite c && sortedb c end.
Definition bounds_ok_b (n : nat) (c : list float) : bool :=
  let hb := linspace fops (hd 0%float c) (last c 0%float) n in
  forallb PrimFloat.is_finite hb && PrimFloat.leb (hd 0%float hb) (hd 0%float c).
Fixpoint lin_hyp_f (nblk : list nat) (chrs : list (list float)) : bool :=
  match nblk, chrs with
  | n :: nb, c :: cs => (1 <=? n)%nat && chrom_ok_b c && bounds_ok_b n c && lin_hyp_f nb cs
  | [], [] => true
  | _, _ => false
  end.
(** weighted OHV latentfn of the real/integer/binary problems:  -((1/x.sum()) * x) . ohvmat  (exact value) *)
Definition ohv_latent_w (nt : nat) (ohv : list (list (option Q))) (w : list Q) : list (option Q) :=
  map (fun t => option_map (fun s => - (s / sumQ w))%Q
                  (osum (map2 (fun wi row => option_map (Qmult wi) (nth t row None)) w ohv))) (seq 0 nt).
Definition oql_close := list_eqb oq_close.
