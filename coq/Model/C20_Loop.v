(** C20 — executable model of pybrops/breed/arch/RecurrentSelectionBreedingProgram.py
    (initialize / is_initialized / reset / advance / evolve) on an explicit heap.

    Heap: locations are indices into a list of objects; an object is a dict (ordered key -> location of a leaf,
    Python insertion order) or a leaf (a mutable list of integers).  [deepcopy] mirrors [copy.deepcopy] on such a
    dict: fresh dict, fresh leaves, sharing between keys of ONE dict preserved through the memo; [reset] calls it
    once per start container (five separate memos, as in the source).

    Operators and logbook methods are ARBITRARY functions on the heap ([operator], [logger]); [evolve] is
    parameterised by an [opset].  The correspondence instantiates them with the interpreter [act] of a small action
    language whose Python twin is harness/props/c20.py:_run_prog.  Definitions only. *)
From PV Require Import Lib.Common.
Local Open Scope nat_scope.

(** * heap *)
Definition loc := nat.
Inductive obj := ODict (kvs : list (Z * loc)) | OLeaf (xs : list Z).
Definition heap := list obj.
Definition hget (h : heap) (l : loc) : option obj := nth_error h l.
Fixpoint hset (h : heap) (l : loc) (o : obj) : heap :=
  match h, l with
  | [], _ => []
  | _ :: t, O => o :: t
  | x :: t, S l' => x :: hset t l' o
  end.
Definition halloc (h : heap) (o : obj) : heap * loc := (h ++ [o], length h).

(** ordered association lists with Python dict semantics: assignment to an existing key keeps its position *)
Fixpoint kv_get {V} (k : Z) (kvs : list (Z * V)) : option V :=
  match kvs with [] => None | (k', v) :: t => if Z.eqb k k' then Some v else kv_get k t end.
Fixpoint kv_set {V} (k : Z) (v : V) (kvs : list (Z * V)) : list (Z * V) :=
  match kvs with [] => [(k, v)] | (k', v') :: t => if Z.eqb k k' then (k, v) :: t else (k', v') :: kv_set k v t end.
Fixpoint kv_del {V} (k : Z) (kvs : list (Z * V)) : list (Z * V) :=
  match kvs with [] => [] | (k', v') :: t => if Z.eqb k k' then t else (k', v') :: kv_del k t end.

Fixpoint memo_get (l : loc) (m : list (loc * loc)) : option loc :=
  match m with [] => None | (a, b) :: t => if Nat.eqb l a then Some b else memo_get l t end.

(** copy.deepcopy of the values of a dict, in key order, with the memo of this deepcopy call *)
Fixpoint copy_kvs (h : heap) (m : list (loc * loc)) (kvs : list (Z * loc)) : option (heap * list (Z * loc)) :=
  match kvs with
  | [] => Some (h, [])
  | (k, l) :: t =>
      match memo_get l m with
      | Some l' => match copy_kvs h m t with Some (h', t') => Some (h', (k, l') :: t') | None => None end
      | None =>
          match hget h l with
          | Some (OLeaf xs) =>
              match copy_kvs (h ++ [OLeaf xs]) ((l, length h) :: m) t with
              | Some (h', t') => Some (h', (k, length h) :: t') | None => None end
          | _ => None
          end
      end
  end.
Definition deepcopy (h : heap) (d : loc) : option (heap * loc) :=
  match hget h d with
  | Some (ODict kvs) =>
      match copy_kvs h [] kvs with Some (h', kvs') => Some (h' ++ [ODict kvs'], length h') | None => None end
  | _ => None
  end.

(** observation of a container: (key, leaf location, leaf contents) in key order *)
Definition leafdata (h : heap) (l : loc) : list Z := match hget h l with Some (OLeaf xs) => xs | _ => [] end.
Definition snap1 (h : heap) (d : loc) : list (Z * loc * list Z) :=
  match hget h d with Some (ODict kvs) => map (fun kl => (fst kl, snd kl, leafdata h (snd kl))) kvs | _ => [] end.
Definition snap (h : heap) (roots : list loc) : list (list (Z * loc * list Z)) := map (snap1 h) roots.
(** contents only (what Python's == compares) *)
Definition content1 (h : heap) (d : loc) : list (Z * list Z) := map (fun x => (fst (fst x), snd x)) (snap1 h d).

(** * events *)
Definition T_INIT := 0%Z.   Definition T_EVAL := 1%Z.   Definition T_PSEL := 2%Z.   Definition T_MATE := 3%Z.
Definition T_SSEL := 4%Z.   Definition L_INIT := 10%Z.  Definition L_EVAL := 11%Z.  Definition L_PSEL := 12%Z.
Definition L_MATE := 13%Z.  Definition L_SSEL := 14%Z.  Definition T_RESET := 20%Z.

Record event := mkEv {
  e_tag : Z; e_t : Z; e_tm : Z; e_rep : Z;
  e_roots : list loc;                              (* containers received (5, or 5 + mcfg) *)
  e_dat : list (list (Z * loc * list Z));          (* their contents at the call *)
  e_misc : list (Z * Z);                           (* keyword arguments received from miscout (log events) *)
  e_ret : list (option loc);                       (* containers returned (operator / reset events); None = not a dict *)
  e_rmcfg : loc;                                   (* mating configuration returned (pselect) *)
  e_rmisc : list (Z * Z);                          (* miscout as left by the operator *)
  e_hin : heap; e_hout : heap                      (* the whole heap when the call starts / returns (model only) *)
}.
(** * operators as arbitrary heap transformers *)
Definition stash := list (option loc).
Record opres := mkRes { r_heap : heap; r_stash : stash; r_roots : list (option loc); r_mcfg : loc;
                        r_misc : list (Z * Z); r_ok : bool }.
(** heap, private memory, containers received, t_cur, t_max *)
Definition operator := heap -> stash -> list loc -> Z -> Z -> opres.
(** heap, private memory, containers received, t_cur, t_max, rep, keyword arguments; result: heap, memory, no exception *)
Definition logger := heap -> stash -> list loc -> Z -> Z -> Z -> list (Z * Z) -> heap * stash * bool.
Record opset := mkOps { o_psel : operator; o_mate : operator; o_eval : operator; o_ssel : operator;
                        l_init : logger; l_psel : logger; l_mate : logger; l_eval : logger; l_ssel : logger }.

(** * programme state (attributes of the object plus the locals mcfg / misc of advance) *)
Record pstate := mkSt {
  p_heap : heap; p_stash : stash;
  p_start : list (option loc);       (* start_genome .. start_gmod *)
  p_work : list (option loc);        (* _genome .. _gmod; None = attribute not yet set *)
  p_t : Z; p_tmax : Z; p_rep : Z;
  p_mcfg : loc; p_misc : list (Z * Z)
}.
Definition step := pstate -> pstate * list event * bool.
Definition ret_ok : step := fun st => (st, [], true).
Definition andthen (f g : step) : step := fun st =>
  let '(st1, ev1, ok1) := f st in
  if ok1 then let '(st2, ev2, ok2) := g st1 in (st2, ev1 ++ ev2, ok2) else (st1, ev1, false).
Fixpoint iter (n : nat) (f : step) : step := match n with O => ret_ok | S n' => andthen f (iter n' f) end.

(** tuple assignment  self.genome, self.geno, ... = result : arity checked first (unpacking), then the setters run left to
    right, each rejecting a non-dict (TypeError) after the earlier ones have been assigned *)
Fixpoint assign_seq (w : list (option loc)) (r : list (option loc)) : list (option loc) * bool :=
  match w, r with
  | _ :: wt, Some l :: rt => let (w', ok) := assign_seq wt rt in (Some l :: w', ok)
  | _ :: _, None :: _ => (w, false)
  | _, _ => (w, true)
  end.
Definition assign (w r : list (option loc)) : list (option loc) * bool :=
  if Nat.eqb (length r) 5 then assign_seq w r else (w, false).

Fixpoint somes (w : list (option loc)) : option (list loc) :=
  match w with [] => Some [] | Some l :: t => match somes t with Some t' => Some (l :: t') | None => None end | None :: _ => None end.

(** keys of miscout that collide with a named parameter of the log call ("t_cur", "genome"; "mcfg" where it is passed):
    Python raises TypeError (multiple values for keyword argument) before the logbook method runs.  The key numbering is
    the harness' MISC_NAMES = [m0, m1, t_cur, mcfg, genome]. *)
Definition misc_collides (with_mcfg : bool) (misc : list (Z * Z)) : bool :=
  existsb (fun kv => Z.eqb (fst kv) 2 || Z.eqb (fst kv) 4 || (with_mcfg && Z.eqb (fst kv) 3)) misc.

(** one operator call:  misc = {};  [mcfg,] containers = op(...) *)
Definition call_op (tag : Z) (op : operator) (pass_mcfg takes_mcfg : bool) : step := fun st =>
  match somes (p_work st) with
  | None => (st, [], false)                                   (* AttributeError: reset never ran (unreachable from evolve) *)
  | Some w =>
      let args := if pass_mcfg then w ++ [p_mcfg st] else w in
      let r := op (p_heap st) (p_stash st) args (p_t st) (p_tmax st) in
      let ev := mkEv tag (p_t st) (p_tmax st) 0 args (snap (p_heap st) args) [] (r_roots r) (r_mcfg r) (r_misc r) (p_heap st) (r_heap r) in
      if r_ok r then
        let (w', ok) := assign (p_work st) (r_roots r) in
        (mkSt (r_heap r) (r_stash r) (p_start st) w' (p_t st) (p_tmax st) (p_rep st)
              (if takes_mcfg then r_mcfg r else p_mcfg st) (r_misc r), [ev], ok)
      else (mkSt (r_heap r) (r_stash r) (p_start st) (p_work st) (p_t st) (p_tmax st) (p_rep st) (p_mcfg st) (p_misc st), [ev], false)
  end.

(** one logbook call:  lbook.log_x([mcfg = mcfg,] containers, t_cur, t_max, **misc) *)
Definition call_log (tag : Z) (lg : logger) (pass_mcfg : bool) : step := fun st =>
  match somes (p_work st) with
  | None => (st, [], false)
  | Some w =>
      if misc_collides pass_mcfg (p_misc st) then (st, [], false)
      else
        let args := if pass_mcfg then w ++ [p_mcfg st] else w in
        let '(h', s', ok) := lg (p_heap st) (p_stash st) args (p_t st) (p_tmax st) (p_rep st) (p_misc st) in
        let ev := mkEv tag (p_t st) (p_tmax st) (p_rep st) args (snap (p_heap st) args) (p_misc st) [] 0 [] (p_heap st) h' in
        (mkSt h' s' (p_start st) (p_work st) (p_t st) (p_tmax st) (p_rep st) (p_mcfg st) (p_misc st), [ev], ok)
  end.

Definition tick : step := fun st =>
  (mkSt (p_heap st) (p_stash st) (p_start st) (p_work st) (p_t st + 1)%Z (p_tmax st) (p_rep st) (p_mcfg st) (p_misc st), [], true).
Definition bump_rep : step := fun st =>
  (mkSt (p_heap st) (p_stash st) (p_start st) (p_work st) (p_t st) (p_tmax st) (p_rep st + 1)%Z (p_mcfg st) (p_misc st), [], true).

(** reset(): five deepcopy calls assigned one after the other (a None start container fails in the setter after the earlier
    containers have been replaced), then t_cur = 0 *)
Fixpoint reset_slots (h : heap) (start work : list (option loc)) : heap * list (option loc) * bool :=
  match start, work with
  | Some d :: st, w :: wt =>
      match deepcopy h d with
      | Some (h', d') => let '(h'', wt', ok) := reset_slots h' st wt in (h'', Some d' :: wt', ok)
      | None => (h, w :: wt, false)
      end
  | None :: _, _ :: _ => (h, work, false)
  | _, _ => (h, work, true)
  end.
Definition reset : step := fun st =>
  let '(h', w', ok) := reset_slots (p_heap st) (p_start st) (p_work st) in
  let ev := mkEv T_RESET 0 (p_tmax st) (p_rep st) [] [] [] w' 0 [] (p_heap st) h' in
  (mkSt h' (p_stash st) (p_start st) w' (if ok then 0%Z else p_t st) (p_tmax st) (p_rep st) (p_mcfg st) (p_misc st), [ev], ok).

(** one generation of advance() *)
Definition generation (ops : opset) : step :=
  andthen (call_op T_PSEL (o_psel ops) false true)
 (andthen (call_log L_PSEL (l_psel ops) true)
 (andthen (call_op T_MATE (o_mate ops) true false)
 (andthen (call_log L_MATE (l_mate ops) true)
 (andthen (call_op T_EVAL (o_eval ops) false false)
 (andthen (call_log L_EVAL (l_eval ops) false)
 (andthen (call_op T_SSEL (o_ssel ops) false false)
 (andthen (call_log L_SSEL (l_ssel ops) false)
      tick))))))).
Definition advance (ops : opset) (ngen : Z) : step := iter (Z.to_nat ngen) (generation ops).

(** one replicate of evolve() *)
Definition replicate (ops : opset) (ngen : Z) (loginit : bool) : step :=
  andthen bump_rep
 (andthen reset
 (andthen (call_op T_EVAL (o_eval ops) false false)
 (andthen (if loginit then call_log L_INIT (l_init ops) false else ret_ok)
 (andthen tick
      (advance ops ngen))))).

(** initialisation: the five start containers come from initop.initialize(miscout = None, ** kwargs) — the abstract interface
    declares [miscout] as a required parameter and the programme passes None for it, so an operator that follows the
    interface literally ([strict]) and one that gives it a default are called alike; the result is unpacked into the five
    start_* setters (which accept None) *)
Definition is_initialized (st : pstate) : bool := forallb (fun o => match o with Some _ => true | None => false end) (p_start st).
Definition initialize (strict : bool) (res : list (option loc)) : step := fun st =>
  let ev := mkEv T_INIT 0 0 0 [] [] [] [] 0 [] (p_heap st) (p_heap st) in
  if Nat.eqb (length res) 5
  then (mkSt (p_heap st) (p_stash st) res (p_work st) (p_t st) (p_tmax st) (p_rep st) (p_mcfg st) (p_misc st), [ev], true)
  else (st, [ev], false).
(** the call as it was before commit b17284d4, initop.initialize( ** kwargs ) without [miscout]: a strict operator raises
    TypeError before its body runs.  Kept only to document the repaired defect (Props: C20_initialize_without_miscout_refuted) *)
Definition initialize_old (strict : bool) (res : list (option loc)) : step := fun st =>
  if strict then (st, [], false) else initialize strict res st.

Definition evolve (ops : opset) (strict : bool) (initres : list (option loc)) (nrep ngen : Z) (loginit : bool) : step :=
  andthen (fun st => if is_initialized st then ret_ok st else initialize strict initres st)
      (iter (Z.to_nat nrep) (replicate ops ngen loginit)).

Definition evolve_old (ops : opset) (strict : bool) (initres : list (option loc)) (nrep ngen : Z) (loginit : bool) : step :=
  andthen (fun st => if is_initialized st then ret_ok st else initialize_old strict initres st)
          (iter (Z.to_nat nrep) (replicate ops ngen loginit)).

Fixpoint evolve_calls (ops : opset) (strict : bool) (initres : list (option loc)) (calls : list (Z * Z * bool)) : step :=
  match calls with
  | [] => ret_ok
  | (nrep, ngen, li) :: t => andthen (evolve ops strict initres nrep ngen li) (evolve_calls ops strict initres t)
  end.

(** * the action language (twin of harness/props/c20.py:_run_prog) *)
Inductive action :=
| ASet (c : nat) (k : Z) (v : list Z)       (* env[c][k] = fresh list v *)
| ASetT (c : nat) (k : Z)                   (* env[c][k] = [t_cur] *)
| AApp (c : nat) (k : Z) (x : Z)            (* env[c][k].append(x)        (in place, if the key exists) *)
| AAppT (c : nat) (k : Z)                   (* env[c][k].append(t_cur) *)
| ADel (c : nat) (k : Z)                    (* env[c].pop(k, None) *)
| AShare (c : nat) (k : Z) (c2 : nat) (k2 : Z)   (* env[c][k] = env[c2][k2]    (same leaf object) *)
| ANew (c : nat)                            (* env[c] = dict(env[c])      (fresh dict, shared leaves) *)
| ADeep (c : nat)                           (* env[c] = copy.deepcopy(env[c]) *)
| AMove (c c2 : nat)                        (* env[c] = env[c2]           (same dict object in two slots) *)
| AStash (c r : nat)                        (* memory[r] = env[c] *)
| AUnstash (c r : nat)                      (* env[c] = memory[r] if set *)
| AMisc (k v : Z)                           (* miscout[k] = v *)
| ABad (c : nat)                            (* env[c] = a non-dict (c < 5) *)
| ARaise.                                   (* raise *)

Record env := mkEnv { v_heap : heap; v_slots : list (option loc); v_stash : stash; v_misc : list (Z * Z); v_ok : bool }.

Fixpoint set_nth {A} (n : nat) (x : A) (l : list A) : list A :=
  match l, n with [], _ => [] | _ :: t, O => x :: t | y :: t, S n' => y :: set_nth n' x t end.
Definition slot (e : env) (c : nat) : option loc := nth c (v_slots e) None.
Definition slot_dict (e : env) (c : nat) : option (loc * list (Z * loc)) :=
  match slot e c with
  | Some l => match hget (v_heap e) l with Some (ODict kvs) => Some (l, kvs) | _ => None end
  | None => None
  end.
Definition with_heap (e : env) (h : heap) : env := mkEnv h (v_slots e) (v_stash e) (v_misc e) (v_ok e).
Definition with_slot (e : env) (c : nat) (o : option loc) : env :=
  mkEnv (v_heap e) (set_nth c o (v_slots e)) (v_stash e) (v_misc e) (v_ok e).

Definition set_leaf (e : env) (c : nat) (k : Z) (v : list Z) : env :=
  match slot_dict e c with
  | Some (l, kvs) => let h := v_heap e in with_heap e (hset (h ++ [OLeaf v]) l (ODict (kv_set k (length h) kvs)))
  | None => e
  end.
Definition app_leaf (e : env) (c : nat) (k : Z) (x : Z) : env :=
  match slot_dict e c with
  | Some (l, kvs) =>
      match kv_get k kvs with
      | Some ll => match hget (v_heap e) ll with
                   | Some (OLeaf xs) => with_heap e (hset (v_heap e) ll (OLeaf (xs ++ [x])))
                   | _ => e end
      | None => e
      end
  | None => e
  end.

Definition act (t : Z) (is_op : bool) (a : action) (e : env) : env :=
  if negb (v_ok e) then e else
  match a with
  | ASet c k v => set_leaf e c k v
  | ASetT c k => set_leaf e c k [t]
  | AApp c k x => app_leaf e c k x
  | AAppT c k => app_leaf e c k t
  | ADel c k => match slot_dict e c with
                | Some (l, kvs) => with_heap e (hset (v_heap e) l (ODict (kv_del k kvs)))
                | None => e end
  | AShare c k c2 k2 =>
      match slot_dict e c, slot_dict e c2 with
      | Some (l, kvs), Some (_, kvs2) =>
          match kv_get k2 kvs2 with
          | Some ll => with_heap e (hset (v_heap e) l (ODict (kv_set k ll kvs)))
          | None => e end
      | _, _ => e
      end
  | ANew c => match slot_dict e c with
              | Some (_, kvs) => with_slot (with_heap e (v_heap e ++ [ODict kvs])) c (Some (length (v_heap e)))
              | None => e end
  | ADeep c => match slot_dict e c with
               | Some (l, _) => match deepcopy (v_heap e) l with
                                | Some (h', l') => with_slot (with_heap e h') c (Some l')
                                | None => e end
               | None => e end
  | AMove c c2 => match slot_dict e c2 with Some (l2, _) => with_slot e c (Some l2) | None => e end
  | AStash c r => match slot_dict e c with
                  | Some (l, _) => mkEnv (v_heap e) (v_slots e) (set_nth r (Some l) (v_stash e)) (v_misc e) (v_ok e)
                  | None => e end
  | AUnstash c r => match nth r (v_stash e) None with Some l => with_slot e c (Some l) | None => e end
  | AMisc k v => if is_op then mkEnv (v_heap e) (v_slots e) (v_stash e) (kv_set k v (v_misc e)) (v_ok e) else e
  | ABad c => if Nat.ltb c 5 then with_slot e c None else e
  | ARaise => mkEnv (v_heap e) (v_slots e) (v_stash e) (v_misc e) false
  end.
Definition run_prog (t : Z) (is_op : bool) (prog : list action) (e : env) : env := fold_left (fun e a => act t is_op a e) prog e.

Inductive opkind := KPsel | KMate | KPlain.
(** pselect creates its mating configuration (a fresh empty dict) in slot 5; mate receives it there *)
Definition interp_op (kind : opkind) (prog : list action) : operator := fun h s args t tm =>
  let e0 := match kind with
            | KPsel => mkEnv (h ++ [ODict []]) (map Some (firstn 5 args) ++ [Some (length h)]) s [] true
            | KMate => mkEnv h (map Some (firstn 5 args) ++ [nth_error args 5]) s [] true
            | KPlain => mkEnv h (map Some (firstn 5 args) ++ [None]) s [] true
            end in
  let e := run_prog t true prog e0 in
  mkRes (v_heap e) (v_stash e) (firstn 5 (v_slots e)) (match nth 5 (v_slots e) None with Some l => l | None => 0 end)
        (v_misc e) (v_ok e).
Definition interp_log (prog : list action) : logger := fun h s args t tm rep misc =>
  let e := run_prog t false prog (mkEnv h (map Some (firstn 5 args) ++ [nth_error args 5]) s [] true) in
  (v_heap e, v_stash e, v_ok e).

Record progs := mkProgs { g_psel : list action; g_mate : list action; g_eval : list action; g_ssel : list action;
                          gl_init : list action; gl_psel : list action; gl_mate : list action; gl_eval : list action;
                          gl_ssel : list action }.
Definition interp (g : progs) : opset :=
  mkOps (interp_op KPsel (g_psel g)) (interp_op KMate (g_mate g)) (interp_op KPlain (g_eval g)) (interp_op KPlain (g_ssel g))
        (interp_log (gl_init g)) (interp_log (gl_psel g)) (interp_log (gl_mate g)) (interp_log (gl_eval g)) (interp_log (gl_ssel g)).

(** * a whole case: initial heap (leaves then dicts), constructor arguments, calls *)
Definition init_heap (leaves : list (list Z)) (dicts : list (list (Z * nat))) : heap :=
  map OLeaf leaves ++ map ODict dicts.
Definition dict_loc (nleaves : nat) (i : option nat) : option loc := option_map (fun j => nleaves + j) i.
Definition init_state (leaves : list (list Z)) (dicts : list (list (Z * nat))) (start : list (option nat))
           (tmax rep0 : Z) : pstate :=
  mkSt (init_heap leaves dicts) [None; None; None] (map (dict_loc (length leaves)) start)
       [None; None; None; None; None] 0 tmax rep0 0 [].
Definition run_case (leaves : list (list Z)) (dicts : list (list (Z * nat))) (start initres : list (option nat))
           (strict : bool) (tmax rep0 : Z) (calls : list (Z * Z * bool)) (g : progs) : pstate * list event * bool :=
  evolve_calls (interp g) strict (map (dict_loc (length leaves)) initres) calls
               (init_state leaves dicts start tmax rep0).

(** * comparison with the implementation's observations *)
(** an observed event: tag, [t_cur; t_max; rep], identities (roots, then leaves container by container),
    contents (key, leaf data), keyword arguments from miscout *)
Definition oevent := (Z * list Z * list nat * list (list (Z * list Z)) * list (Z * Z))%type.
Definition ev_locs (e : event) : list nat := e_roots e ++ concat (map (map (fun x => snd (fst x))) (e_dat e)).
Definition ev_obs (e : event) : oevent :=
  (e_tag e, [e_t e; e_tm e; e_rep e], ev_locs e, map (map (fun x => (fst (fst x), snd x))) (e_dat e), e_misc e).
Definition observable (e : event) : bool := negb (Z.eqb (e_tag e) T_RESET).

(** first-occurrence numbering of identities *)
Fixpoint index_of (x : nat) (l : list nat) (i : nat) : option nat :=
  match l with [] => None | y :: t => if Nat.eqb x y then Some i else index_of x t (S i) end.
Fixpoint canon_aux (seen : list nat) (l : list nat) : list nat :=
  match l with
  | [] => []
  | x :: t => match index_of x seen 0 with
              | Some i => i :: canon_aux seen t
              | None => length seen :: canon_aux (seen ++ [x]) t
              end
  end.
Definition canon (l : list nat) : list nat := canon_aux [] l.

Definition zzl_eqb := list_eqb (fun a b : Z * Z => Z.eqb (fst a) (fst b) && Z.eqb (snd a) (snd b)).
Definition kd_eqb := list_eqb (fun a b : Z * list Z => Z.eqb (fst a) (fst b) && zl_eqb (snd a) (snd b)).
Definition oev_shape_eqb (a b : oevent) : bool :=
  match a, b with
  | (ta, ia, la, da, ma), (tb, ib, lb, db, mb) =>
      Z.eqb ta tb && zl_eqb ia ib && Nat.eqb (length la) (length lb) && list_eqb kd_eqb da db && zzl_eqb ma mb
  end.
Definition oev_locs (a : oevent) : list nat := match a with (_, _, l, _, _) => l end.

Definition present (w : list (option loc)) : list bool := map (fun o => match o with Some _ => true | None => false end) w.
Definition the_somes (w : list (option loc)) : list loc := concat (map (fun o => match o with Some l => [l] | None => [] end) w).
(** final observation of a list of attribute slots as a pseudo event *)
Definition final_obs (tag : Z) (h : heap) (w : list (option loc)) : oevent :=
  let roots := the_somes w in
  let d := snap h roots in
  (tag, map (fun b : bool => if b then 1%Z else 0%Z) (present w),
   roots ++ concat (map (map (fun x => snd (fst x))) d), map (map (fun x => (fst (fst x), snd x))) d, []).

(** [agree model-result n0 impl-events impl-start impl-work impl-error impl-t_cur impl-rep] *)
Definition agree (res : pstate * list event * bool) (n0 : nat) (ievs : list oevent) (istart iwork : oevent)
           (ierr : bool) (it irep : Z) : bool :=
  let '(st, evs, ok) := res in
  let mevs := map ev_obs (filter observable evs) ++ [final_obs 100 (p_heap st) (p_start st); final_obs 101 (p_heap st) (p_work st)] in
  let ievs' := ievs ++ [istart; iwork] in
  list_eqb oev_shape_eqb mevs ievs'
  && natl_eqb (canon (List.seq 0 n0 ++ concat (map oev_locs mevs))) (canon (List.seq 0 n0 ++ concat (map oev_locs ievs')))
  && Bool.eqb (negb ok) ierr && Z.eqb (p_t st) it && Z.eqb (p_rep st) irep.
