(** C12 — enumeration semantics of the crosses (the specification side): gametes are enumerated exhaustively with
    their probabilities; nothing here refers to the coded formulas.  Definitions only.

    Part A: one meiosis of an F1 with any number of loci, no interference: the initial strand is uniform, the
            crossover indicator of gap k is Bernoulli(p_k), independent (the C02 gamete distribution).
    Part B: two-locus individuals with rational-valued alleles; a meiosis has 4 outcomes (two parental, two
            recombinant gametes); one selfing generation = two independent meioses of the same individual;
            [Egen k] = k selfing generations followed by one more meiosis (the doubled-haploid's gamete). *)
From PV Require Import Lib.Common.
Local Open Scope Q_scope.

(** * Part A: multi-locus single meiosis *)
(** expectation over independent Bernoulli(p_k) crossover indicators *)
Fixpoint Ebern (ps : list Q) (f : list bool -> Q) : Q :=
  match ps with
  | [] => f []
  | p :: ps' => p * Ebern ps' (fun l => f (true :: l)) + (1 - p) * Ebern ps' (fun l => f (false :: l))
  end.
(** which parental strand each locus is copied from: start on [s0], switch at every crossover *)
Fixpoint strand (s0 : bool) (xs : list bool) : list bool :=
  match xs with
  | [] => [s0]
  | x :: xs' => s0 :: strand (xorb s0 x) xs'
  end.
(** value carried by the gamete: sum over loci of the value of the copied allele ([av]: strand false, [bv]: strand true) *)
Fixpoint gval (av bv : list Q) (src : list bool) : Q :=
  match av, bv, src with
  | a :: av', b :: bv', s :: src' => (if s then b else a) + gval av' bv' src'
  | _, _, _ => 0
  end.
(** expectation over gametes of an F1: uniform initial strand, then the crossover indicators *)
Definition Egam (ps : list Q) (f : list bool -> Q) : Q :=
  (1#2) * Ebern ps (fun xs => f (strand false xs)) + (1#2) * Ebern ps (fun xs => f (strand true xs)).
(** covariance of two doubled-haploid values (a DH carries every gamete allele twice) *)
Definition cov_gam (ps : list Q) (a1 b1 a2 b2 : list Q) : Q :=
  Egam ps (fun s => (2 * gval a1 b1 s) * (2 * gval a2 b2 s)) - Egam ps (fun s => 2 * gval a1 b1 s) * Egam ps (fun s => 2 * gval a2 b2 s).

(** recombination-free correlation between loci i and j: product of (1 - 2 p_k) over the gaps between them *)
Fixpoint qprod (l : list Q) : Q := match l with [] => 1 | x :: t => x * qprod t end.
Definition rho (ps : list Q) (i j : nat) : Q :=
  qprod (map (fun p => 1 - 2 * p) (firstn (Nat.max i j - Nat.min i j) (skipn (Nat.min i j) ps))).
(** the corresponding two-locus recombination fraction *)
Definition rpair (ps : list Q) (i j : nat) : Q := (1 - rho ps i j) / 2.

(** * Part B: two-locus individuals, selfing *)
Definition hap := (Q * Q)%type.
Definition ind := (hap * hap)%type.
Definition Emei (r : Q) (i : ind) (f : hap -> Q) : Q :=
  let h1 := fst i in let h2 := snd i in
  ((1 - r) / 2) * f h1 + ((1 - r) / 2) * f h2 + (r / 2) * f (fst h1, snd h2) + (r / 2) * f (fst h2, snd h1).
Fixpoint Egen (r : Q) (k : nat) (i : ind) (f : hap -> Q) : Q :=
  match k with
  | O => Emei r i f
  | S k' => Emei r i (fun g1 => Emei r i (fun g2 => Egen r k' (g1, g2) f))
  end.
(** covariance between the two loci's values under an expectation operator on gametes; x4 for the doubled haploid *)
Definition cov2 (E : (hap -> Q) -> Q) : Q := E (fun g => fst g * snd g) - E (fun g => fst g) * E (fun g => snd g).
Definition dhcov (E : (hap -> Q) -> Q) : Q := 4 * cov2 E.

(** the mating schemes: which individual is selfed k times and made into doubled haploids *)
Definition E_two (r : Q) (k : nat) (A B : hap) : (hap -> Q) -> Q := Egen r k (A, B).
(** (female x male) F1, one gamete of it united with the inbred recurrent parent's *)
Definition E_three (r : Q) (k : nat) (R F M : hap) (f : hap -> Q) : Q := Emei r (F, M) (fun g => Egen r k (g, R) f).
(** a gamete of (P1,P2) united with a gamete of (P3,P4): four-way cross of inbreds, or dihybrid cross where
    (P1,P2) are the two phases of the female and (P3,P4) those of the male *)
Definition E_four (r : Q) (k : nat) (P1 P2 P3 P4 : hap) (f : hap -> Q) : Q :=
  Emei r (P1, P2) (fun g => Emei r (P3, P4) (fun h => Egen r k (g, h) f)).


(** * Part C: multi-locus individuals with selfing (haplotypes = lists of allele values, one per locus) *)
(** the gamete copies, locus by locus, the allele of the strand chosen by [src] *)
Fixpoint pick (h1 h2 : list Q) (src : list bool) : list Q :=
  match h1, h2, src with
  | a :: h1', b :: h2', s :: src' => (if s then b else a) :: pick h1' h2' src'
  | _, _, _ => []
  end.
(** one multi-locus meiosis of the individual (h1,h2): expectation over its exhaustively enumerated gametes *)
Definition EmeiL (ps : list Q) (h1 h2 : list Q) (f : list Q -> Q) : Q := Egam ps (fun src => f (pick h1 h2 src)).
(** k selfing generations (two independent meioses of the same individual each), then the doubled haploid's gamete *)
Fixpoint EgenL (ps : list Q) (k : nat) (h1 h2 : list Q) (f : list Q -> Q) : Q :=
  match k with
  | O => EmeiL ps h1 h2 f
  | S k' => EmeiL ps h1 h2 (fun g1 => EmeiL ps h1 h2 (fun g2 => EgenL ps k' g1 g2 f))
  end.
Definition EL_two (ps : list Q) (k : nat) (A B : list Q) : (list Q -> Q) -> Q := EgenL ps k A B.
Definition EL_three (ps : list Q) (k : nat) (R F M : list Q) (f : list Q -> Q) : Q := EmeiL ps F M (fun g => EgenL ps k g R f).
Definition EL_four (ps : list Q) (k : nat) (P1 P2 P3 P4 : list Q) (f : list Q -> Q) : Q :=
  EmeiL ps P1 P2 (fun g => EmeiL ps P3 P4 (fun h => EgenL ps k g h f)).
(** doubled-haploid trait value of a gamete for marker effects [u], and the covariance of two traits' values *)
Definition dval (L : nat) (u g : list Q) : Q := 2 * sumQ (map (fun i => nth i u 0 * nth i g 0) (seq 0 L)).
Definition covL (L : nat) (E : (list Q -> Q) -> Q) (u1 u2 : list Q) : Q :=
  E (fun g => dval L u1 g * dval L u2 g) - E (dval L u1) * E (dval L u2).
