(** C11 — a SESSION on one variant matrix (DenseGeneticMappableMatrix through DenseGenotypeMatrix / DensePhasedGenotypeMatrix):
    the matrix object carries  vrnt_genpos / vrnt_xoprob  (from its constructor or from earlier calls; [None] = never set) and is
    interpolated again and again, each time with the genetic map and map function GIVEN TO THAT CALL
      pybrops/popgen/gmap/DenseGeneticMappableMatrix.py
        interp_genpos(gmap)         : self.vrnt_genpos = gmap.interp_genpos(self._vrnt_chrgrp, self._vrnt_phypos)
        interp_xoprob(gmap, gmapfn) : the same assignment, then self.vrnt_xoprob = gmapfn.rprob1g(gmap, self._vrnt_chrgrp, self._vrnt_genpos)
    A genetic map is the list of its CURRENT rows (after whatever select / remove / prune / setters happened to it before the
    call).  The variants of the matrix (sorted by group_vrnt) do not change during a session.  Definitions only. *)
From PV Require Import Lib.Common Model.C11_Map Model.C11_MapFn Model.C11_Check.

Record gmstate := mkGm { gs_genpos : option (list ext); gs_xoprob : option (list xreal) }.

Inductive gmcall :=
| CallGenpos (rows : list row)                      (* matrix.interp_genpos(gmap) *)
| CallXoprob (rows : list row) (k : mapkind).       (* matrix.interp_xoprob(gmap, gmapfn) *)

Definition gm_step (variants : list (Z * Z)) (s : gmstate) (c : gmcall) : gmstate :=
  match c with
  | CallGenpos rows => mkGm (Some (gmat_genpos rows variants)) (gs_xoprob s)
  | CallXoprob rows k => mkGm (Some (gmat_genpos rows variants)) (Some (xoprob k rows variants))
  end.
Definition gm_run (variants : list (Z * Z)) (s : gmstate) (calls : list gmcall) : gmstate := fold_left (gm_step variants) calls s.
