(** C11 — the Haldane and Kosambi map functions over the reals, and an executable interval evaluator
    (Coq-Interval's verified interval arithmetic at 80 bits) used by the correspondence shards to compare
    the implementation's binary64 outputs with the real-valued functions.
    Source: pybrops/popgen/gmap/HaldaneMapFunction.py  mapfn  r = 0.5 * (1.0 - exp(-2.0 * d)),
                                                      invmapfn d = -0.5 * log(1.0 - 2.0 * r)
            pybrops/popgen/gmap/KosambiMapFunction.py  mapfn  r = 0.5 * tanh(2.0 * d),
                                                      invmapfn d = 0.5 * arctanh(2.0 * r)
    Definitions only. *)
From Coq Require Import Reals ZArith QArith Bool.
From Interval Require Import Specific_bigint Specific_ops Float_full Interval Xreal Basic.
Local Open Scope R_scope.

(** ** the four functions over R *)
Definition haldane (d : R) : R := (1 - exp (- 2 * d)) / 2.
Definition haldane_inv (r : R) : R := - ln (1 - 2 * r) / 2.
Definition kosambi (d : R) : R := tanh (2 * d) / 2.
(** arctanh x = ln ((1+x)/(1-x)) / 2 *)
Definition kosambi_inv (r : R) : R := ln ((1 + 2 * r) / (1 - 2 * r)) / 4.

Inductive mapkind := Haldane | Kosambi.
Definition mapfn (k : mapkind) : R -> R := match k with Haldane => haldane | Kosambi => kosambi end.
Definition invmapfn (k : mapkind) : R -> R := match k with Haldane => haldane_inv | Kosambi => kosambi_inv end.

(** extended-real value of a map function on a distance that may be +inf (chromosome start) or NaN (marker on a
    chromosome absent from the map): numpy gives exp(-inf) = 0 and tanh(inf) = 1, hence exactly one half at +inf *)
Inductive xreal := XR (r : R) | XNaN.

(** ** interval evaluator *)
Module F := SpecificFloat BigIntRadix2.
Module I := FloatIntervalFull F.
Definition prec : F.precision := F.PtoP 80.

Definition Iz (z : Z) : I.type := I.fromZ prec z.
Definition Iq (q : Q) : I.type := I.div prec (Iz (Qnum q)) (Iz (Zpos (Qden q))).

Definition haldane_I (d : Q) : I.type :=
  I.div prec (I.sub prec (Iz 1) (I.exp prec (I.mul prec (Iz (-2)) (Iq d)))) (Iz 2).
Definition haldane_inv_I (r : Q) : I.type :=
  I.div prec (I.neg (I.ln prec (I.sub prec (Iz 1) (I.mul prec (Iz 2) (Iq r))))) (Iz 2).
(** tanh x = (1 - exp(-2x)) / (1 + exp(-2x)), with x = 2d *)
Definition kosambi_I (d : Q) : I.type :=
  let e := I.exp prec (I.mul prec (Iz (-4)) (Iq d)) in
  I.div prec (I.div prec (I.sub prec (Iz 1) e) (I.add prec (Iz 1) e)) (Iz 2).
Definition kosambi_inv_I (r : Q) : I.type :=
  let t := I.mul prec (Iz 2) (Iq r) in
  I.div prec (I.ln prec (I.div prec (I.add prec (Iz 1) t) (I.sub prec (Iz 1) t))) (Iz 4).

Definition mapfn_I (k : mapkind) := match k with Haldane => haldane_I | Kosambi => kosambi_I end.
Definition invmapfn_I (k : mapkind) := match k with Haldane => haldane_inv_I | Kosambi => kosambi_inv_I end.

(** [within xi v tol]: every real x of the enclosure [xi] satisfies |x - v| <= tol for the rationals v, tol
    (checked as  den(tol) * (xi - v)  subset of  [-num(tol), num(tol)], whose bounds are exact integers) *)
Definition within (xi : I.type) (v tol : Q) : bool :=
  I.subset (I.mul prec (Iz (Zpos (Qden tol))) (I.sub prec xi (Iq v)))
           (I.bnd (F.fromZ (- Qnum tol)) (F.fromZ (Qnum tol))).

(** tolerances: 2^-45 (1 + |value|) for point checks; 2^-28 (1 + |d|)(1 + |value|) where the implementation evaluated
    the function at a rounded argument (|f'| <= 1 + 2|f|) *)
Definition tol45 : Q := 1 # 35184372088832.
Definition Qabs_ (x : Q) : Q := if Qle_bool 0 x then x else Qopp x.
Definition mapfn_ok (k : mapkind) (d r : Q) : bool := within (mapfn_I k d) r (tol45 * (1 + Qabs_ r)).
Definition invmapfn_ok (k : mapkind) (r d : Q) : bool := within (invmapfn_I k r) d (tol45 * (1 + Qabs_ d)).
Definition tol_near (d r : Q) : Q := (1 # 268435456) * (1 + Qabs_ d) * (1 + Qabs_ r).
Definition mapfn_near (k : mapkind) (d r : Q) : bool := within (mapfn_I k d) r (tol_near d r).
