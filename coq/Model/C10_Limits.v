(** C10 — executable model of the selection limits of
      pybrops/model/gmod/DenseAdditiveLinearGenomicModel.py : usl_numpy (l.1223-1302), usl (l.1304-1350),
                                                              lsl_numpy (l.1352-1431), lsl (l.1433-1479),
                                                              gebv_numpy (l.755-787), gebv (l.789-851: the intercept)
    on top of the allele frequency of C09 (Dense(Phased)GenotypeMatrix.afreq, bit-exact binary64) and of a closed
    breeding programme: a list of generations, each produced from the previous one by one of the seven mating
    protocols of C01 ([core], i.e. mat_meiosis / mat_mate / mat_dh as coded) applied to an arbitrary cross table.
    Effects are exact rationals (regime E: dyadic effects, the float sums are exact); the availability tests
    [p > 0.0], [p >= 1.0] are taken on the binary64 frequency.  Definitions only. *)
From Coq Require Import PrimFloat.
From PV Require Import Lib.Common Lib.FloatK Model.C01_Meiosis Model.C01_Mating Model.C09_Stats.
Local Open Scope Z_scope.

(** [self.u_a > 0.0] *)
Definition Qpos (x : Q) : bool := negb (Qle_bool x 0).

(** numpy.where(self.u_a > 0.0, p > 0.0, p >= 1.0)  — upper limit: a favourable allele counts as soon as it is present,
    an unfavourable (or neutral) one only when it is fixed *)
Definition usl_ind (u : Q) (f : float) : bool := if Qpos u then PrimFloat.ltb 0%float f else PrimFloat.leb 1%float f.
(** numpy.where(self.u_a > 0.0, p >= 1.0, p > 0.0) *)
Definition lsl_ind (u : Q) (f : float) : bool := if Qpos u then PrimFloat.leb 1%float f else PrimFloat.ltb 0%float f.
Definition b2q (b : bool) : Q := if b then 1%Q else 0%Q.

(** (float(ploidy) * self.u_a * geno).sum(0) : [u] has one row per locus and one column per trait, [freq] one entry per locus *)
Definition limit_rows (ind : Q -> float -> bool) (ploidy : Z) (u : list (list Q)) (freq : list float) : list (list Q) :=
  map2 (fun urow f => map (fun x => (inject_Z ploidy * x * b2q (ind x f))%Q) urow) u freq.
Definition limit_numpy (ind : Q -> float -> bool) (t : nat) (ploidy : Z) (u : list (list Q)) (freq : list float) : list Q :=
  colsumsQ t (limit_rows ind ploidy u freq).
Definition usl_numpy := limit_numpy usl_ind.
Definition lsl_numpy := limit_numpy lsl_ind.

(** Xstar = [1, 1/q, ..., 1/q];  location = Xstar @ beta   ([beta] has q rows and one column per trait) *)
Definition xstar (q : nat) : list Q := match q with O => [] | S q' => 1%Q :: repeat (1 # Pos.of_nat q)%Q q' end.
Definition location (t : nat) (beta : list (list Q)) : list Q :=
  colsumsQ t (map2 (fun w row => map (Qmult w) row) (xstar (length beta)) beta).
Definition qadd_l (a b : list Q) : list Q := map2 Qplus a b.

(** the three routes to the frequency: the phased object (sum over phases and taxa), the unphased object and the raw
    dosage array (sum over taxa of the phase sum), all divided by ploidy * ntaxa *)
Definition dosage (n p : nat) (geno : list (list (list Z))) : list (list Z) := tacount_ph n p geno.
Definition freq_phased (n p : nat) (geno : list (list (list Z))) : list float := afreq_ph_f n p geno.
Definition freq_dosage (ploidy : Z) (n p : nat) (geno : list (list (list Z))) : list float := afreq_f ploidy p (dosage n p geno).

(** usl(gtobj) / lsl(gtobj): ploidy is taken from the object (nphase) *)
Definition usl (t n p : nat) (u : list (list Q)) (geno : list (list (list Z))) : list Q :=
  usl_numpy t (nphase geno) u (freq_phased n p geno).
Definition lsl (t n p : nat) (u : list (list Q)) (geno : list (list (list Z))) : list Q :=
  lsl_numpy t (nphase geno) u (freq_phased n p geno).
(** usl(ndarray, ploidy) / usl(DenseGenotypeMatrix) *)
Definition usl_dosage (t n p : nat) (ploidy : Z) (u : list (list Q)) (geno : list (list (list Z))) : list Q :=
  usl_numpy t ploidy u (freq_dosage ploidy n p geno).
Definition lsl_dosage (t n p : nat) (ploidy : Z) (u : list (list Q)) (geno : list (list (list Z))) : list Q :=
  lsl_numpy t ploidy u (freq_dosage ploidy n p geno).
(** unscale = True: the intercept is added *)
Definition usl_unscaled (t n p : nat) (u beta : list (list Q)) (geno : list (list (list Z))) : list Q :=
  qadd_l (usl t n p u geno) (location t beta).
Definition lsl_unscaled (t n p : nat) (u beta : list (list Q)) (geno : list (list (list Z))) : list Q :=
  qadd_l (lsl t n p u geno) (location t beta).

(** gebv_numpy:  Z @ u_a  — one row per individual, one column per trait *)
Definition gebv_row (t : nat) (u : list (list Q)) (z : list Z) : list Q :=
  colsumsQ t (map2 (fun d urow => map (Qmult (inject_Z d)) urow) z u).
Definition gebv_numpy (t : nat) (u : list (list Q)) (dos : list (list Z)) : list (list Q) := map (gebv_row t u) dos.
(** gebv(...).unscale() = Z @ u_a + location *)
Definition gebv_unscaled (t : nat) (u beta : list (list Q)) (dos : list (list Z)) : list (list Q) :=
  map (fun r => qadd_l r (location t beta)) (gebv_numpy t u dos).

(** ** a closed breeding programme *)
Record step := mkStep { s_proto : protocol; s_xc : list (list nat); s_nm : list nat; s_np : list nat; s_nself : nat;
                        s_draws : list (list (list Q)) }.
(** the call is inside the domain of mate(): row width = number of parents, one count per cross, every parent index
    names a member of the current population (anything else raises in the implementation) *)
Definition step_ok (geno : list (list (list Z))) (s : step) : bool :=
  forallb (fun r => Nat.eqb (length r) (nparent (s_proto s))) (s_xc s) &&
  forallb (forallb (fun i => Nat.ltb i (ntaxa_of geno))) (s_xc s) &&
  Nat.eqb (length (s_nm s)) (length (s_xc s)) && Nat.eqb (length (s_np s)) (length (s_xc s)).
Definition next_gen (geno : list (list (list Z))) (xoprob : list Q) (s : step) : list (list (list Z)) :=
  fst (core (s_proto s) geno xoprob (s_xc s) (s_nm s) (s_np s) (s_nself s) (rng0 (s_draws s))).
Definition step_reqs (geno : list (list (list Z))) (xoprob : list Q) (s : step) : list (nat * nat) :=
  reqs (snd (core (s_proto s) geno xoprob (s_xc s) (s_nm s) (s_np s) (s_nself s) (rng0 (s_draws s)))).
(** the history: founders first; None = some mating call was outside its domain *)
Fixpoint history (geno : list (list (list Z))) (xoprob : list Q) (steps : list step) : option (list (list (list (list Z)))) :=
  match steps with
  | [] => Some [geno]
  | s :: ts => if step_ok geno s
               then match history (next_gen geno xoprob s) xoprob ts with Some h => Some (geno :: h) | None => None end
               else None
  end.

(** ** comparison with the implementation's observations of one generation *)
Record obs := mkObs {
  o_mat : list (list (list Z));
  o_afreq : list float; o_afreq_u : list float;
  o_usl : list Q; o_lsl : list Q;            (* phased object *)
  o_usl_u : list Q; o_lsl_u : list Q;        (* unphased object / raw array with ploidy = 2 *)
  o_uslT : list Q; o_lslT : list Q;          (* unscale = True, tolerance *)
  o_gebv : list (list Q); o_gebvT : list (list Q) }.

Definition fl_eqb' (a b : list float) : bool := list_eqb PrimFloat.eqb a b.
Definition agree_gen (t p : nat) (u beta : list (list Q)) (geno : list (list (list Z))) (o : obs) : bool :=
  let n := ntaxa_of geno in
  zlll_eqb geno (o_mat o) &&
  fl_eqb' (freq_phased n p geno) (o_afreq o) && fl_eqb' (freq_dosage 2 n p geno) (o_afreq_u o) &&
  ql_eqb (usl t n p u geno) (o_usl o) && ql_eqb (lsl t n p u geno) (o_lsl o) &&
  ql_eqb (usl_dosage t n p 2 u geno) (o_usl_u o) && ql_eqb (lsl_dosage t n p 2 u geno) (o_lsl_u o) &&
  qclose_l (o_uslT o) (usl_unscaled t n p u beta geno) && qclose_l (o_lslT o) (lsl_unscaled t n p u beta geno) &&
  qll_eqb (gebv_numpy t u (dosage n p geno)) (o_gebv o) &&
  qclose_ll (o_gebvT o) (gebv_unscaled t u beta (dosage n p geno)).

Definition agree_hist (t p : nat) (u beta : list (list Q)) (h : option (list (list (list (list Z))))) (os : list obs) : bool :=
  match h with
  | Some gs => Nat.eqb (length gs) (length os) && forallb (fun x => x) (map2 (agree_gen t p u beta) gs os)
  | None => false
  end.

(** the shapes of the uniform matrices every mating call requests, generation by generation *)
Fixpoint history_reqs (geno : list (list (list Z))) (xoprob : list Q) (steps : list step) : list (list (nat * nat)) :=
  match steps with
  | [] => []
  | s :: ts => step_reqs geno xoprob s :: history_reqs (next_gen geno xoprob s) xoprob ts
  end.
Definition reqs_eqb := list_eqb shapes_eqb.

(** effects shipped as numerators over 2^8 *)
Definition q8 (k : Z) : Q := Qmake k 256.
Definition q8ll (m : list (list Z)) : list (list Q) := map (map q8) m.
(** effects far from 1: numerators over 2^8 times 2^e (still dyadic, so the implementation's float arithmetic stays exact) *)
Definition qpow2 (e : Z) : Q := if e <? 0 then (1 # Z.to_pos (2 ^ (- e)))%Q else inject_Z (2 ^ e).
Definition qscll (e : Z) (m : list (list Q)) : list (list Q) := map (map (fun x => Qmult x (qpow2 e))) m.
