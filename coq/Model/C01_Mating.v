(** C01 — executable model of the seven mating protocols of pybrops/breed/prot/mate/
      SelfCross, TwoWayCross, TwoWayDHCross, ThreeWayCross, ThreeWayDHCross, FourWayCross, FourWayDHCross
    ([mate()] of each class, written out branch by branch as in the source), of the name / family-label /
    counter bookkeeping, of the metadata hand-over to the DensePhasedGenotypeMatrix constructor and of the
    final [group_taxa()] (DenseTaxaMatrix.py l.1260: stable lexsort by (taxa_grp, taxa), then numpy.unique).
    Names are modelled as the exact character strings (lists of code points), so the sort is the real one.
    Definitions only. *)
From PV Require Import Lib.Common Model.C01_Meiosis.
Local Open Scope Z_scope.

Inductive protocol := PSelf | P2 | P2DH | P3 | P3DH | P4 | P4DH.
Definition nparent (p : protocol) : nat :=
  match p with PSelf => 1 | P2 | P2DH => 2 | P3 | P3DH => 3 | P4 | P4DH => 4 end%nat.
(** "sx", "2w", "dh", "3w", "dh", "4w", "dh" *)
Definition prefix (p : protocol) : list Z :=
  match p with PSelf => [115; 120] | P2 => [50; 119] | P3 => [51; 119] | P4 => [52; 119] | P2DH | P3DH | P4DH => [100; 104] end.
Definition is_dh (p : protocol) : bool := match p with P2DH | P3DH | P4DH => true | _ => false end.

(** numpy.repeat(xs, counts) for equally long xs and counts *)
Fixpoint repeat_by {A} (xs : list A) (cs : list nat) : list A :=
  match xs, cs with
  | x :: tx, c :: tc => repeat x c ++ repeat_by tx tc
  | _, _ => []
  end.
(** xconfig[:,k] *)
Definition colx (k : nat) (xc : list (list nat)) : list nat := map (fun r => nth k r 0%nat) xc.
(** geno.shape[1] *)
Definition ntaxa_of (geno : list (list (list Z))) : nat := length (nth 0 geno []).
(** numpy.arange(start, start + n, dtype = int64) *)
Definition arangeZ (start : Z) (n : nat) : list Z := map (fun i => start + Z.of_nat i) (seq 0 n).

(** for i in range(nself): g = mat_mate(g, g, asel, asel, xoprob, rng)      (asel is computed once, before the loop) *)
Fixpoint selfn (k : nat) (asel : list nat) (g : list (list (list Z))) (xoprob : list Q) (r : rngst)
  : list (list (list Z)) * rngst :=
  match k with
  | O => (g, r)
  | S k' => let '(g', r') := mat_mate g g asel asel xoprob r in selfn k' asel g' xoprob r'
  end.

(** ** progeny generation of the seven protocols.  [nm], [np] are the per-cross arrays (already expanded). *)
Definition core (p : protocol) (geno : list (list (list Z))) (xoprob : list Q) (xc : list (list nat))
  (nm np : list nat) (nself : nat) (r : rngst) : list (list (list Z)) * rngst :=
  let tot := map2 Nat.mul nm np in               (* nmating * nprogeny *)
  let npr := repeat_by np nm in                   (* numpy.repeat(nprogeny, nmating) *)
  match p with
  | PSelf =>
      let fsel := repeat_by (colx 0 xc) tot in
      let '(s, r1) := mat_mate geno geno fsel fsel xoprob r in
      selfn nself (seq 0 (ntaxa_of s)) s xoprob r1
  | P2 =>
      let fsel := repeat_by (colx 0 xc) tot in
      let msel := repeat_by (colx 1 xc) tot in
      let '(h, r1) := mat_mate geno geno fsel msel xoprob r in
      selfn nself (seq 0 (ntaxa_of h)) h xoprob r1
  | P2DH =>
      let fsel := repeat_by (colx 0 xc) nm in
      let msel := repeat_by (colx 1 xc) nm in
      let '(h, r1) := mat_mate geno geno fsel msel xoprob r in
      let '(h2, r2) := selfn nself (seq 0 (ntaxa_of h)) h xoprob r1 in
      let asel := repeat_by (seq 0 (ntaxa_of h2)) npr in
      mat_dh h2 asel xoprob r2
  | P3 =>
      let rsel := repeat_by (colx 0 xc) tot in
      let fsel := repeat_by (colx 1 xc) nm in
      let msel := repeat_by (colx 2 xc) nm in
      let '(f1, r1) := mat_mate geno geno fsel msel xoprob r in
      let f1sel := repeat_by (seq 0 (ntaxa_of f1)) npr in
      let '(h, r2) := mat_mate geno f1 rsel f1sel xoprob r1 in
      selfn nself (seq 0 (ntaxa_of h)) h xoprob r2
  | P3DH =>
      let rsel := repeat_by (colx 0 xc) nm in
      let fsel := repeat_by (colx 1 xc) nm in
      let msel := repeat_by (colx 2 xc) nm in
      let '(f1, r1) := mat_mate geno geno fsel msel xoprob r in
      let hsel := seq 0 (ntaxa_of f1) in
      let '(bc, r2) := mat_mate geno f1 rsel hsel xoprob r1 in
      let '(bc2, r3) := selfn nself (seq 0 (ntaxa_of bc)) bc xoprob r2 in
      let psel := repeat_by (seq 0 (ntaxa_of bc2)) npr in
      mat_dh bc2 psel xoprob r3
  | P4 =>
      let f2sel := repeat_by (colx 0 xc) nm in
      let m2sel := repeat_by (colx 1 xc) nm in
      let f1sel := repeat_by (colx 2 xc) nm in
      let m1sel := repeat_by (colx 3 xc) nm in
      let '(ab, r1) := mat_mate geno geno f1sel m1sel xoprob r in
      let '(cd, r2) := mat_mate geno geno f2sel m2sel xoprob r1 in
      let absel := repeat_by (seq 0 (ntaxa_of ab)) npr in
      let cdsel := repeat_by (seq 0 (ntaxa_of cd)) npr in
      let '(h, r3) := mat_mate ab cd absel cdsel xoprob r2 in
      selfn nself (seq 0 (ntaxa_of h)) h xoprob r3
  | P4DH =>
      let f2sel := repeat_by (colx 0 xc) nm in
      let m2sel := repeat_by (colx 1 xc) nm in
      let f1sel := repeat_by (colx 2 xc) nm in
      let m1sel := repeat_by (colx 3 xc) nm in
      let '(ab, r1) := mat_mate geno geno f1sel m1sel xoprob r in
      let '(cd, r2) := mat_mate geno geno f2sel m2sel xoprob r1 in
      let absel := seq 0 (ntaxa_of ab) in
      let cdsel := seq 0 (ntaxa_of cd) in
      let '(dih, r3) := mat_mate ab cd absel cdsel xoprob r2 in
      let '(dih2, r4) := selfn nself (seq 0 (ntaxa_of dih)) dih xoprob r3 in
      let psel := repeat_by (seq 0 (ntaxa_of dih2)) npr in
      mat_dh dih2 psel xoprob r4
  end.

(** the founder index arrays handed to mat_mate on [pgmat.mat] — an index >= ntaxa raises IndexError there *)
Definition founder_sels (p : protocol) (xc : list (list nat)) (nm np : list nat) : list nat :=
  let tot := map2 Nat.mul nm np in
  match p with
  | PSelf => repeat_by (colx 0 xc) tot
  | P2 => repeat_by (colx 0 xc) tot ++ repeat_by (colx 1 xc) tot
  | P2DH => repeat_by (colx 0 xc) nm ++ repeat_by (colx 1 xc) nm
  | P3 => repeat_by (colx 1 xc) nm ++ repeat_by (colx 2 xc) nm ++ repeat_by (colx 0 xc) tot
  | P3DH => repeat_by (colx 1 xc) nm ++ repeat_by (colx 2 xc) nm ++ repeat_by (colx 0 xc) nm
  | P4 | P4DH => repeat_by (colx 2 xc) nm ++ repeat_by (colx 3 xc) nm ++ repeat_by (colx 0 xc) nm ++ repeat_by (colx 1 xc) nm
  end.

(** family labels: numpy.repeat(arange(fc, fc+nfam), nmating*nprogeny) in SelfCross / TwoWayCross,
    numpy.repeat(numpy.repeat(arange(fc, fc+nfam), nmating), numpy.repeat(nprogeny, nmating)) in the others *)
Definition family_labels (p : protocol) (fc : Z) (nfam : nat) (nm np : list nat) : list Z :=
  match p with
  | PSelf | P2 => repeat_by (arangeZ fc nfam) (map2 Nat.mul nm np)
  | _ => repeat_by (repeat_by (arangeZ fc nfam) nm) (repeat_by np nm)
  end.

(** ** names:  prefix + str(i).zfill(7)  as code points *)
Fixpoint digits_fuel (fuel : nat) (n : Z) : list Z :=
  match fuel with
  | O => []
  | S f => if n <? 10 then [48 + n] else digits_fuel f (n / 10) ++ [48 + n mod 10]
  end.
Definition digits (n : Z) : list Z := digits_fuel (S (Z.to_nat (Z.log2 n))) n.
Definition str_Z (n : Z) : list Z := if n <? 0 then 45 :: digits (- n) else digits n.
(** str.zfill: zeros go after a leading sign *)
Definition zfill (w : nat) (s : list Z) : list Z :=
  let pad := repeat 48 (w - length s) in
  match s with
  | c :: t => if (c =? 45) || (c =? 43) then c :: pad ++ t else pad ++ s
  | [] => pad
  end.
Definition taxon_name (pfx : list Z) (i : Z) : list Z := pfx ++ zfill 7 (str_Z i).
Definition taxa_names (pfx : list Z) (pc : Z) (n : nat) : list (list Z) := map (fun i => taxon_name pfx (pc + Z.of_nat i)) (seq 0 n).

(** ** group_taxa: stable lexsort, primary key taxa_grp, secondary key the taxon name (string order) *)
Fixpoint lex_leb (a b : list Z) : bool :=
  match a, b with
  | [], _ => true
  | _ :: _, [] => false
  | x :: ta, y :: tb => if x <? y then true else if y <? x then false else lex_leb ta tb
  end.
Definition entry := ((Z * list Z) * (list Z * list Z))%type.     (* ((family, name), (copy 0, copy 1)) *)
Definition key_leb (a b : entry) : bool :=
  let '((ga, na), _) := a in let '((gb, nb), _) := b in (ga <? gb) || ((ga =? gb) && lex_leb na nb).
Fixpoint insert_st (x : entry) (l : list entry) : list entry :=
  match l with
  | [] => [x]
  | y :: t => if key_leb x y then x :: l else y :: insert_st x t
  end.
Definition sort_st (l : list entry) : list entry := fold_right insert_st [] l.

Fixpoint zip4 (g : list Z) (t : list (list Z)) (c0 c1 : list (list Z)) : list entry :=
  match g, t, c0, c1 with
  | a :: g', b :: t', x :: c0', y :: c1' => ((a, b), (x, y)) :: zip4 g' t' c0' c1'
  | _, _, _, _ => []
  end.

(** numpy.unique(sorted labels, return_index, return_counts) *)
Fixpoint rle (l : list Z) : list (Z * nat) :=
  match l with
  | [] => []
  | x :: t => match rle t with
              | (y, c) :: r => if x =? y then (x, S c) :: r else (x, 1%nat) :: (y, c) :: r
              | [] => [(x, 1%nat)]
              end
  end.
Fixpoint starts (acc : nat) (cs : list nat) : list nat :=
  match cs with [] => [] | c :: t => acc :: starts (acc + c) t end.

(** ** marker metadata handed to the progeny matrix.  Every array is shipped as integers (strings and floats by
    an injective integer code of their bytes); None = array absent. *)
Record vmeta := mkMeta {
  vm_chrgrp : option (list Z); vm_phypos : option (list Z); vm_name : option (list Z); vm_genpos : option (list Z);
  vm_xoprob : option (list Z); vm_hapgrp : option (list Z); vm_hapalt : option (list Z); vm_hapref : option (list Z);
  vm_mask : option (list Z);
  vm_chrgrp_name : option (list Z); vm_chrgrp_stix : option (list Z); vm_chrgrp_spix : option (list Z); vm_chrgrp_len : option (list Z) }.
(** the constructor call passes vrnt_chrgrp, vrnt_phypos, vrnt_name, vrnt_genpos, vrnt_xoprob, vrnt_hapgrp, vrnt_hapalt,
    vrnt_hapref and vrnt_mask and then copies the four vrnt_chrgrp_* arrays (field by field, as in the source) *)
Definition progeny_meta (m : vmeta) : vmeta :=
  mkMeta (vm_chrgrp m) (vm_phypos m) (vm_name m) (vm_genpos m) (vm_xoprob m) (vm_hapgrp m) (vm_hapalt m) (vm_hapref m) (vm_mask m)
         (vm_chrgrp_name m) (vm_chrgrp_stix m) (vm_chrgrp_spix m) (vm_chrgrp_len m).
(** the hand-over before the repair (/repo commit 79a4ba88): vrnt_hapalt / vrnt_hapref were not passed on.
    Kept only to state the refutation that documents the repaired defect; not used by [mate]. *)
Definition progeny_meta_dropped (m : vmeta) : vmeta :=
  mkMeta (vm_chrgrp m) (vm_phypos m) (vm_name m) (vm_genpos m) (vm_xoprob m) (vm_hapgrp m) None None (vm_mask m)
         (vm_chrgrp_name m) (vm_chrgrp_stix m) (vm_chrgrp_spix m) (vm_chrgrp_len m).

Record progeny := mkProgeny {
  p_mat : list (list (list Z)); p_taxa : list (list Z); p_grp : list Z;
  p_gname : list Z; p_gstix : list Z; p_gspix : list Z; p_glen : list Z;
  p_meta : vmeta; p_pc : Z; p_fc : Z; p_reqs : list (nat * nat) }.

(** the state just before [progeny.group_taxa()] *)
Definition mate_raw (p : protocol) (geno : list (list (list Z))) (xoprob : list Q) (xc : list (list nat))
  (nm np : list nat) (nself : nat) (pc fc : Z) (r : rngst) : progeny :=
  let '(g, r') := core p geno xoprob xc nm np nself r in
  let progcnt := ntaxa_of g in
  let nfam := length xc in
  mkProgeny g (taxa_names (prefix p) pc progcnt) (family_labels p fc nfam nm np) [] [] [] []
            (mkMeta None None None None None None None None None None None None None)
            (pc + Z.of_nat progcnt) (fc + Z.of_nat nfam) (reqs r').

Definition group_taxa (x : progeny) : progeny :=
  let s := sort_st (zip4 (p_grp x) (p_taxa x) (nth 0 (p_mat x) []) (nth 1 (p_mat x) [])) in
  let grp := map (fun e : entry => fst (fst e)) s in
  let u := rle grp in
  let lens := map snd u in
  let st := starts 0 lens in
  mkProgeny [map (fun e : entry => fst (snd e)) s; map (fun e : entry => snd (snd e)) s]
            (map (fun e : entry => snd (fst e)) s) grp
            (map fst u) (map (fun n => Z.of_nat n) st) (map2 (fun a b => Z.of_nat (a + b)) st lens) (map (fun n => Z.of_nat n) lens)
            (p_meta x) (p_pc x) (p_fc x) (p_reqs x).

(** ** argument checks of mate(): an Integral count is expanded with numpy.repeat(count, len(xconfig)),
    an array count must have shape (len(xconfig),) *)
Definition expand_count (c : nat + list nat) (ncross : nat) : option (list nat) :=
  match c with
  | inl k => Some (repeat k ncross)
  | inr l => if Nat.eqb (length l) ncross then Some l else None
  end.

(** the whole call: None = an exception escapes (wrong xconfig width, wrong count shape, founder index out of range) *)
Definition mate (p : protocol) (geno : list (list (list Z))) (xoprob : list Q) (meta : vmeta) (xc : list (list nat))
  (nmating nprogeny : nat + list nat) (nself : nat) (pc fc : Z) (draws : list (list (list Q))) : option progeny :=
  if negb (forallb (fun r => Nat.eqb (length r) (nparent p)) xc) then None else
  match expand_count nmating (length xc), expand_count nprogeny (length xc) with
  | Some nm, Some np =>
      if negb (forallb (fun s => Nat.ltb s (ntaxa_of geno)) (founder_sels p xc nm np)) then None else
      let x := group_taxa (mate_raw p geno xoprob xc nm np nself pc fc (rng0 draws)) in
      Some (mkProgeny (p_mat x) (p_taxa x) (p_grp x) (p_gname x) (p_gstix x) (p_gspix x) (p_glen x)
                      (progeny_meta meta) (p_pc x) (p_fc x) (p_reqs x))
  | _, _ => None
  end.

(** ** feeding the draws: the implementation's uniforms are shipped as one flat pool in consumption order; the model first
    tells which matrices it requests (the shapes do not depend on the draws), the pool is carved accordingly, then the model runs.
    A request for zero rows consumes nothing, so such requests are not compared. *)
Fixpoint chunk (n c : nat) (l : list Q) : list (list Q) :=
  match n with O => [] | S n' => firstn c l :: chunk n' c (skipn c l) end.
Fixpoint carve (pool : list Q) (shapes : list (nat * nat)) : list (list (list Q)) :=
  match shapes with
  | [] => []
  | (r, c) :: t => chunk r c pool :: carve (skipn (r * c) pool) t
  end.
Definition nz_shapes (l : list (nat * nat)) : list (nat * nat) := filter (fun s => negb (Nat.eqb (fst s) 0)) l.
Definition mate_pool (p : protocol) (geno : list (list (list Z))) (xoprob : list Q) (meta : vmeta) (xc : list (list nat))
  (nmating nprogeny : nat + list nat) (nself : nat) (pc fc : Z) (pool : list Q) : option progeny :=
  match mate p geno xoprob meta xc nmating nprogeny nself pc fc [] with
  | None => None
  | Some x0 => mate p geno xoprob meta xc nmating nprogeny nself pc fc (carve pool (p_reqs x0))
  end.

(** ** comparison for the correspondence shards *)
Definition ozl_eqb := opt_eqb zl_eqb.
Definition vmeta_eqb (a b : vmeta) : bool :=
  ozl_eqb (vm_chrgrp a) (vm_chrgrp b) && ozl_eqb (vm_phypos a) (vm_phypos b) && ozl_eqb (vm_name a) (vm_name b) &&
  ozl_eqb (vm_genpos a) (vm_genpos b) && ozl_eqb (vm_xoprob a) (vm_xoprob b) && ozl_eqb (vm_hapgrp a) (vm_hapgrp b) &&
  ozl_eqb (vm_hapalt a) (vm_hapalt b) && ozl_eqb (vm_hapref a) (vm_hapref b) && ozl_eqb (vm_mask a) (vm_mask b) &&
  ozl_eqb (vm_chrgrp_name a) (vm_chrgrp_name b) && ozl_eqb (vm_chrgrp_stix a) (vm_chrgrp_stix b) &&
  ozl_eqb (vm_chrgrp_spix a) (vm_chrgrp_spix b) && ozl_eqb (vm_chrgrp_len a) (vm_chrgrp_len b).
Definition progeny_eqb (a b : progeny) : bool :=
  zlll_eqb (p_mat a) (p_mat b) && zll_eqb (p_taxa a) (p_taxa b) && zl_eqb (p_grp a) (p_grp b) &&
  zl_eqb (p_gname a) (p_gname b) && zl_eqb (p_gstix a) (p_gstix b) && zl_eqb (p_gspix a) (p_gspix b) && zl_eqb (p_glen a) (p_glen b) &&
  vmeta_eqb (p_meta a) (p_meta b) && Z.eqb (p_pc a) (p_pc b) && Z.eqb (p_fc a) (p_fc b) && shapes_eqb (nz_shapes (p_reqs a)) (nz_shapes (p_reqs b)).
Definition agree_mate (m : option progeny) (impl : option progeny) : bool := opt_eqb progeny_eqb m impl.
