(** C17 — executable model of pybrops/core/random/sampling.py
    (stochastic_universal_sampling, tiled_choice, axis_shuffle, outcross_shuffle) and of
    pybrops/core/util/array.py:sliceaxisix.  Definitions only.

    Randomness is explicit: the uniform offset, every shuffle permutation and every `choice` index list are
    arguments.  Arrays are flat lists in C order plus a shape.  A scripted shuffle with index list [pm] turns
    [x] into [x[pm[0]]; x[pm[1]]; ...] ([permute]).

    Stochastic universal sampling is modelled once, as a walk of a list of pointers along the cumulative
    weights ([sus_walk], exact rationals).  It is instantiated twice:
    - [sus_q]: the ideal pointers  offset + (tot/k)*i  in Q;
    - [sus_f]: the pointers and cumulative sums computed in binary64 ([PrimFloat]) in the operation order
      of the source, then converted *exactly* to rationals ([f2q]); comparisons of finite doubles are
      comparisons of their values, so this is bit-faithful to the code. *)
From Coq Require Import PrimFloat Uint63 FloatOps SpecFloat Qround.
From PV Require Import Lib.Common Lib.FloatK.
Local Open Scope Q_scope.

(** * shared: scripted permutation *)
Definition permute {A} (d : A) (pm : list nat) (x : list A) : list A := map (fun j => nth j x d) pm.
Definition count_nat (i : nat) (l : list nat) : nat := count_occ Nat.eq_dec l i.
Definition is_perm (n : nat) (pm : list nat) : bool :=
  Nat.eqb (length pm) n && forallb (fun i => existsb (Nat.eqb i) pm) (seq 0 n).

(** * 1. stochastic universal sampling *)

(** cumsum: [p0; p0+p1; ...] *)
Fixpoint cumsum_from (acc : Q) (l : list Q) : list Q :=
  match l with [] => [] | x :: t => (acc + x) :: cumsum_from (acc + x) t end.
Definition cumsum (l : list Q) : list Q := cumsum_from 0 l.

(**  while (ix < last) and (cumsum[ix] <= ptr): ix += 1
     [cs] is the part of cumsum[:last+1] that starts at position ix (see [sus_finish] for [last]). *)
Fixpoint advance (cs : list Q) (ix : nat) (ptr : Q) : list Q * nat :=
  match cs with
  | c :: ((_ :: _) as t) => if Qle_bool c ptr then advance t (S ix) ptr else (cs, ix)
  | _ => (cs, ix)
  end.
(** for ptr in ptrs: advance; sel.append(ix)  — positions in the sorted order *)
Fixpoint sus_walk (cs : list Q) (ix : nat) (ptrs : list Q) : list nat :=
  match ptrs with
  | [] => []
  | ptr :: rest => let '(cs', ix') := advance cs ix ptr in ix' :: sus_walk cs' ix' rest
  end.

(** p[indices] *)
Definition gather {A} (d : A) (x : list A) (ix : list nat) : list A := map (fun i => nth i x d) ix.

(** number of elements of positive weight, numpy.count_nonzero(p > 0.0); the walk is confined to the positions
    0..last with last = npos - 1 (commit eabf766a): in the descending order these are exactly the elements of positive
    weight, so the zero-weight tail is never walked on to *)
Definition npos (p : list Q) : nat := length (filter (fun x => negb (Qle_bool x 0)) p).

(** positions -> element indices (indices[ix]).  An output size of zero returns the empty selection before anything
    else is computed (commit f3dafbe4); None = the IndexError of an empty weight vector (indices[0]).
      while (ix < last) and (cumsum[ix] <= ptr): ix += 1
    is [advance] on the first last+1 = [np] cumulative sums (for np = 0, i.e. last = -1, the index stays 0). *)
Definition sus_finish (order : list nat) (k np : nat) (cs ptrs : list Q) (perm : list nat) : option (list nat) :=
  if Nat.eqb k 0 then Some []
  else match cs with
       | [] => None
       | _ => Some (permute 0%nat perm (gather 0%nat order (sus_walk (firstn np cs) 0 ptrs)))
       end.

(** ** ideal model (exact rationals) *)
Definition sus_ptrs_q (tot : Q) (k : nat) (off : Q) : list Q :=
  map (fun i => off + (tot / inject_Z (Z.of_nat k)) * inject_Z (Z.of_nat i)) (seq 0 k).
(** selected element indices after the shuffle; [order] = p.argsort()[::-1] *)
Definition sus_q (p : list Q) (order : list nat) (k : nat) (off : Q) (perm : list nat) : option (list nat) :=
  sus_finish order k (npos p) (cumsum (gather 0 p order)) (sus_ptrs_q (sumQ p) k off) perm.

(** ** binary64 model *)
(** exact value of a finite double *)
Definition f2q (x : float) : Q :=
  match Prim2SF x with
  | S754_finite s m e => let v := inject_Z (Zpos m) * Qpower 2 e in if s then - v else v
  | _ => 0
  end.
Definition f_finite (x : float) : bool :=
  match Prim2SF x with S754_zero _ | S754_finite _ _ _ => true | _ => false end.
(** p.sum() for fewer than 8 elements, and for any length when every partial sum is exact: left to right *)
Definition fsum (l : list float) : float :=
  match l with [] => 0%float | x :: t => fold_left PrimFloat.add t x end.
Fixpoint fcumsum_from (acc : float) (l : list float) : list float :=
  match l with [] => [] | x :: t => PrimFloat.add acc x :: fcumsum_from (PrimFloat.add acc x) t end.
Definition fcumsum (l : list float) : list float :=
  match l with [] => [] | x :: t => x :: fcumsum_from x t end.
(** ptr_dist = tot_fit / k *)
Definition sus_dist_f (tot : float) (k : nat) : float := PrimFloat.div tot (f_of_Z (Z.of_nat k)).
(** ptrs = offset + ptr_dist * numpy.arange(k) *)
Definition sus_ptrs_f (tot : float) (k : nat) (off : float) : list float :=
  map (fun i => PrimFloat.add off (PrimFloat.mul (sus_dist_f tot k) (f_of_Z (Z.of_nat i)))) (seq 0 k).
(** [p > 0.0] on finite doubles is the comparison of their exact values *)
Definition sus_f (p : list float) (order : list nat) (k : nat) (off : float) (perm : list nat) : option (list nat) :=
  sus_finish order k (npos (map f2q p)) (map f2q (fcumsum (gather 0%float p order))) (map f2q (sus_ptrs_f (fsum p) k off)) perm.
(** the upper bound handed to rng.uniform(0.0, ptr_dist); None: no draw is requested for an output size of zero *)
Definition sus_high_f (p : list float) (k : nat) : option float :=
  if Nat.eqb k 0 then None else Some (sus_dist_f (fsum p) k).

(** [order] is a permutation of the positions along which the weights do not increase (what argsort()[::-1]
    guarantees; tie order is left open) *)
Fixpoint nonincr (l : list Q) : bool :=
  match l with x :: ((y :: _) as t) => Qle_bool y x && nonincr t | _ => true end.
Definition order_ok (p : list Q) (order : list nat) : bool :=
  is_perm (length p) order && nonincr (gather 0 p order).

(** a[sel] *)
Definition take_labels (a : list Z) (sel : list nat) : list Z := gather 0%Z a sel.

(** ** the code before commits f3dafbe4 and eabf766a (kept only as regression witnesses: what was wrong with it) *)
(** no early return for an output size of zero (None: the IndexError of the float-typed empty index array, after a
    division by zero), and the walk ran along all cumulative sums, on to the zero-weight tail:
      while (ix < len(cumsum)-1) and (cumsum[ix] <= ptr): ix += 1 *)
Definition old_sus_finish (order : list nat) (k : nat) (cs ptrs : list Q) (perm : list nat) : option (list nat) :=
  match cs with
  | [] => None
  | _ => if Nat.eqb k 0 then None
         else Some (permute 0%nat perm (gather 0%nat order (sus_walk cs 0 ptrs)))
  end.
Definition old_sus_f (p : list float) (order : list nat) (k : nat) (off : float) (perm : list nat) : option (list nat) :=
  old_sus_finish order k (map f2q (fcumsum (gather 0%float p order))) (map f2q (sus_ptrs_f (fsum p) k off)) perm.

(** ** the code before commit 2efef9f2 (kept only to state what was wrong with it) *)
(** length of numpy.arange(start, stop, step): ceil((stop - start)/step) evaluated in binary64 *)
Definition arange_len_f (start stop step : float) : Z :=
  Qceiling (f2q (PrimFloat.div (PrimFloat.sub stop start) step)).
(**  while cumsum[ix] < ptr: ix += 1   (None: walked off the end, IndexError) *)
Fixpoint old_advance (cs : list Q) (ix : nat) (ptr : Q) : option (list Q * nat) :=
  match cs with
  | [] => None
  | c :: t => if Qle_bool ptr c then Some (cs, ix) else old_advance t (S ix) ptr
  end.
Fixpoint old_walk (cs : list Q) (ix : nat) (ptrs : list Q) : option (list nat) :=
  match ptrs with
  | [] => Some []
  | ptr :: rest =>
      match old_advance cs ix ptr with
      | None => None
      | Some (cs', ix') => match old_walk cs' ix' rest with None => None | Some r => Some (ix' :: r) end
      end
  end.

(** * 2. tiled_choice *)
(** indices into [a] before the shuffle: qu whole tiles, then the scripted remainder draw *)
Definition tiled_ix (n nsample : nat) (choice : list nat) : list nat :=
  concat (repeat (seq 0 n) (nsample / n)%nat) ++ choice.
(** None: the broadcast error raised when the pieces do not fill the output (only for an empty option set;
    numpy's integer divmod by zero returns (0,0)) *)
Definition tiled_sel (n nsample : nat) (choice perm : list nat) : option (list nat) :=
  let ix := if Nat.eqb n 0 then choice else tiled_ix n nsample choice in
  if Nat.eqb (length ix) nsample then Some (permute 0%nat perm ix) else None.
Definition tiled_choice (a : list Z) (nsample : nat) (replace : bool) (choice perm : list nat) : option (list Z) :=
  if replace then Some (take_labels a choice)
  else option_map (take_labels a) (tiled_sel (length a) nsample choice perm).
(** the remainder size the code requests from rng.choice *)
Definition tiled_re (n nsample : nat) : nat := if Nat.eqb n 0 then 0%nat else (nsample mod n)%nat.

(** * 3. sliceaxisix and axis_shuffle *)
Definition zmem (z : Z) (l : list Z) : bool := existsb (Z.eqb z) l.
(** one index tuple per combination of indices along the axes in [axis]; None = slice(None).
    `len(l) in a` is a comparison with the axis values as given: negative or too large values never match *)
Fixpoint sax (pos : nat) (shape : list nat) (axis : list Z) : list (list (option nat)) :=
  match shape with
  | [] => [[]]
  | d :: rest =>
      let tails := sax (S pos) rest axis in
      if zmem (Z.of_nat pos) axis
      then flat_map (fun i => map (cons (Some i)) tails) (seq 0 d)
      else map (cons None) tails
  end.
(** a 0-d shape recurses without bound in the source (RecursionError) *)
Definition sliceaxisix (shape : list nat) (axis : list Z) : option (list (list (option nat))) :=
  match shape with [] => None | _ => Some (sax 0 shape axis) end.

Definition prodn (l : list nat) : nat := fold_right Nat.mul 1%nat l.
(** C-order multi-index of a flat position, and back *)
Fixpoint unravel (shape : list nat) (t : nat) : list nat :=
  match shape with
  | [] => []
  | _ :: rest => (t / prodn rest)%nat :: unravel rest (t mod prodn rest)%nat
  end.
Fixpoint ravel (shape : list nat) (idx : list nat) : nat :=
  match shape, idx with
  | _ :: rest, i :: idx' => (i * prodn rest + ravel rest idx')%nat
  | _, _ => 0%nat
  end.
Fixpoint matches (s : list (option nat)) (idx : list nat) : bool :=
  match s, idx with
  | None :: s', _ :: idx' => matches s' idx'
  | Some i :: s', j :: idx' => Nat.eqb i j && matches s' idx'
  | [], [] => true
  | _, _ => false
  end.
(** position of the first slice(None): the axis along which rng.shuffle(a[s]) acts *)
Fixpoint first_free (s : list (option nat)) : option nat :=
  match s with
  | [] => None
  | None :: _ => Some 0%nat
  | Some _ :: s' => option_map S (first_free s')
  end.
Fixpoint set_nth (f : nat) (v : nat) (idx : list nat) : list nat :=
  match idx, f with
  | [], _ => []
  | _ :: t, O => v :: t
  | x :: t, S f' => x :: set_nth f' v t
  end.
(** where the value that ends up at flat position [t] comes from *)
Definition slice_src (shape : list nat) (s : list (option nat)) (f : nat) (pm : list nat) (t : nat) : nat :=
  let idx := unravel shape t in
  if matches s idx then ravel shape (set_nth f (nth (nth f idx 0%nat) pm 0%nat) idx) else t.
Definition apply_slice (shape : list nat) (s : list (option nat)) (f : nat) (pm : list nat) (old : list Z) : list Z :=
  map (fun t => nth (slice_src shape s f pm t) old 0%Z) (seq 0 (length old)).
(** for s in sliceaxisix(shape, axis): rng.shuffle(a[s]).
    Errors: EType when a[s] is a scalar (every dimension fixed), EOther when the script of permutations does
    not match the requests (number of slices / length of the shuffled axis). *)
Fixpoint axis_loop (shape : list nat) (ss : list (list (option nat))) (pms : list (list nat)) (a : list Z)
  : err + list Z :=
  match ss with
  | [] => match pms with [] => inr a | _ => inl EOther end
  | s :: ss' =>
      match first_free s with
      | None => inl EType
      | Some f =>
          match pms with
          | [] => inl EOther
          | pm :: pms' =>
              if Nat.eqb (length pm) (nth f shape 0%nat)
              then axis_loop shape ss' pms' (apply_slice shape s f pm a)
              else inl EOther
          end
      end
  end.
Definition axis_shuffle (shape : list nat) (axis : list Z) (pms : list (list nat)) (a : list Z) : err + list Z :=
  match sliceaxisix shape axis with
  | None => inl ERecursion
  | Some ss => axis_loop shape ss pms a
  end.

(** * 4. outcross_shuffle *)
Local Open Scope Z_scope.
(** rows of the (ncross x m) table stored flat *)
Fixpoint chunks (fuel m : nat) (x : list Z) : list (list Z) :=
  match fuel with
  | O => []
  | S fuel' => match x with [] => [] | _ => firstn m x :: chunks fuel' m (skipn m x) end
  end.
Definition rows (m : nat) (x : list Z) : list (list Z) := match m with O => [] | _ => chunks (length x) m x end.
(** sum(c - 1) over the unique values of a row = entries minus distinct entries *)
Definition dups (row : list Z) : Z := Z.of_nat (length row) - Z.of_nat (length (nodup Z.eq_dec row)).
Definition score (m : nat) (x : list Z) : Z := sumZ (map dups (rows m x)).
(** xravel[i], xravel[j] = xravel[j], xravel[i] *)
Definition swap (i j : nat) (x : list Z) : list Z :=
  map (fun t => if Nat.eqb t i then nth j x 0 else if Nat.eqb t j then nth i x 0 else nth t x 0) (seq 0 (length x)).
(** [[i,j] for i in range(n) for j in range(i+1, n)] *)
Definition all_pairs (n : nat) : list (nat * nat) :=
  flat_map (fun i => map (fun j => (i, j)) (seq (S i) (n - S i))) (seq 0 n).
(** the for loop: first exchange that lowers the score (every other exchange is undone) *)
Fixpoint first_improving (m : nat) (x : list Z) (best : Z) (pairs : list (nat * nat)) : option (list Z * Z) :=
  match pairs with
  | [] => None
  | (i, j) :: t => let x' := swap i j x in let s := score m x' in
                   if s <? best then Some (x', s) else first_improving m x best t
  end.
(** the while loop; one scripted permutation of the exchange list per pass (the list stays shuffled from pass
    to pass).  None = the oracle ran out before a local optimum was reached.  Returns the table and the number
    of passes. *)
Fixpoint outcross_loop (pms : list (list nat)) (m : nat) (x : list Z) (exch : list (nat * nat)) (best : Z) (n : nat)
  : option (list Z * nat) :=
  match pms with
  | [] => None
  | pm :: rest =>
      let exch' := permute (0%nat, 0%nat) pm exch in
      match first_improving m x best exch' with
      | Some (x', s) => outcross_loop rest m x' exch' s (S n)
      | None => Some (x, S n)
      end
  end.
Definition outcross (m : nat) (x : list Z) (pms : list (list nat)) : option (list Z * nat) :=
  outcross_loop pms m x (all_pairs (length x)) (score m x) 0%nat.

(** * comparison helpers for the correspondence shards *)
Definition onatl_eqb := opt_eqb natl_eqb.
Definition ozl_eqb := opt_eqb zl_eqb.
Definition on_eqb := opt_eqb Nat.eqb.
Definition slices_eqb := list_eqb (list_eqb on_eqb).
Definition res_eqb (a b : err + list Z) : bool :=
  match a, b with inr x, inr y => zl_eqb x y | inl e, inl e' => err_eqb e e' | _, _ => false end.
Definition oc_eqb (a b : option (list Z * nat)) : bool :=
  opt_eqb (fun u v => zl_eqb (fst u) (fst v) && Nat.eqb (snd u) (snd v)) a b.

Fixpoint nondecr (l : list Q) : bool :=
  match l with x :: ((y :: _) as t) => Qle_bool x y && nondecr t | _ => true end.

Local Open Scope Q_scope.
(** |a - b| <= e *)
Definition qnear (e a b : Q) : bool := Qle_bool (b - e) a && Qle_bool a (b + e).
(** the numerical hypotheses of the "within one draw of floor/ceiling" theorem, with dp = dc = e = an eighth of the exact
    pointer distance: the offset lies in [0, d + 2e), the binary64 cumulative sums and pointers are non-decreasing and
    within e of the exact ones *)
Definition sus_near (p : list float) (order : list nat) (k : nat) (off : float) : bool :=
  let pq := map f2q p in
  let e := sumQ pq / inject_Z (Z.of_nat k) / 8 in
  Qle_bool 0 e && Qle_bool 0 (f2q off) && negb (Qle_bool (sumQ pq / inject_Z (Z.of_nat k) + (e + e)) (f2q off)) &&
  nondecr (map f2q (fcumsum (gather 0%float p order))) && nondecr (map f2q (sus_ptrs_f (fsum p) k off)) &&
  list_eqb (qnear e) (map f2q (fcumsum (gather 0%float p order))) (cumsum (gather 0 pq order)) &&
  list_eqb (qnear e) (map f2q (sus_ptrs_f (fsum p) k off)) (sus_ptrs_q (sumQ pq) k (f2q off)).

(** one stochastic-universal-sampling case: the binary64 model reproduces the implementation's output, the
    requested upper bound of the uniform draw is the model's pointer distance (no draw for an output size of zero), the order handed over by the
    implementation is a valid descending order, the binary64 pointers and cumulative sums are non-decreasing (the
    hypotheses of the general counting theorem) and within an eighth of the pointer distance of the exact ones (the
    hypotheses of the within-one-draw theorem), and (when [exact], i.e. no binary64 operation rounds) the
    ideal model gives the same selection *)
Definition agree_sus (p : list float) (order : list nat) (k : nat) (off : float) (perm : list nat) (a : list Z)
    (exact : bool) (impl_high : option float) (impl_out : option (list Z)) : bool :=
  let pq := map f2q p in
  forallb f_finite p && f_finite off &&
  order_ok pq order &&
  ozl_eqb (option_map (take_labels a) (sus_f p order k off perm)) impl_out &&
  opt_eqb PrimFloat.eqb (sus_high_f p k) impl_high &&
  nondecr (map f2q (sus_ptrs_f (fsum p) k off)) && nondecr (map f2q (fcumsum (gather 0%float p order))) &&
  (Nat.eqb k 0 || sus_near p order k off) &&
  (if exact then ozl_eqb (option_map (take_labels a) (sus_q pq order k (f2q off) perm)) impl_out else true).
