(** C04 — executable model of the prediction / variance / allele-statistic methods of
    pybrops/model/gmod/DenseAdditiveLinearGenomicModel.py            (class tag [CA]; rrBLUPModel0 inherits all of it),
    pybrops/model/gmod/DenseAdditiveDominanceLinearGenomicModel.py   (class tag [CAD]),
    pybrops/model/gmod/DenseLinearGenomicModel.py                    (class tag [CL]),
    with genotype inputs DensePhasedGenotypeMatrix / DenseGenotypeMatrix / raw dosage ndarray, and of
    DenseBreedingValueMatrix.from_numpy as far as values, location and labels are concerned.
    Real-valued data are exact rationals [Q] (regime E/T of DESIGN 3.2), dosages and counts are [Z].
    Definitions only. *)
From PV Require Import Lib.Common.
Local Open Scope Q_scope.

Definition qmat := list (list Q).
Definition zmat := list (list Z).

Definition Qltb (a b : Q) : bool := negb (Qle_bool b a).

(** ** numpy linear algebra on lists *)
Definition vscale (x : Q) (r : list Q) : list Q := map (Qmult x) r.
Definition vadd (a b : list Q) : list Q := map2 Qplus a b.
(** [r @ M] for a vector r of length p and a (p x t) matrix M, accumulated row by row *)
Definition vecmat (t : nat) (r : list Q) (M : qmat) : list Q :=
  fold_right (fun xr acc => vadd (vscale (fst xr) (snd xr)) acc) (repeat 0 t) (combine r M).
Definition matmul (t : nat) (A M : qmat) : qmat := map (fun r => vecmat t r M) A.
Definition madd (A B : qmat) : qmat := map2 vadd A B.
(** broadcasting  A += v  (v of shape (1,t)) *)
Definition addrow (A : qmat) (v : list Q) : qmat := map (fun r => vadd r v) A.
Definition qz (M : zmat) : qmat := map (map inject_Z) M.
Definition ncols_ok {A} (k : nat) (M : list (list A)) : bool := forallb (fun r => Nat.eqb (length r) k) M.
(** numpy.concatenate([A, B], axis = 1) *)
Definition hcat {A} (M N : list (list A)) : list (list A) := map2 (@app A) M N.
(** fancy indexing of rows  M[ix]  (indices generated in range) *)
Definition takes {A} (d : A) (ix : list nat) (l : list A) : list A := map (fun i => nth i l d) ix.

(** ** the model object *)
Inductive mclass := CA | CAD | CL.
Record gmodel := mkG { g_cls : mclass; g_beta : qmat; g_umisc : qmat; g_ua : qmat; g_ud : qmat; g_t : nat }.

(** constructors: [u_misc = None] -> empty (0,t); [u_d = None] -> zeros (p,t); the additive classes have no u_d *)
Definition build (c : mclass) (beta : qmat) (um : option qmat) (ua : qmat) (ud : option qmat) (t : nat) : gmodel :=
  mkG c beta (match um with Some m => m | None => [] end) ua
      (match c with
       | CAD => match ud with Some d => d | None => repeat (repeat 0 t) (length ua) end
       | _ => [] end) t.

(** property [u]: concatenation of the random-effect blocks *)
Definition g_u (g : gmodel) : qmat := g_umisc g ++ g_ua g ++ g_ud g.
Definition nexplan_beta (g : gmodel) : nat := length (g_beta g).
Definition nexplan_u (g : gmodel) : nat := length (g_u g).
Definition nexplan_ua (g : gmodel) : nat := length (g_ua g).

(** ** genotype inputs *)
Inductive gtin :=
| GPhased (n p : nat) (ph : list zmat)      (* DensePhasedGenotypeMatrix, (m,n,p) alleles; ploidy = m *)
| GUnphased (ploidy : Z) (m : zmat)         (* DenseGenotypeMatrix, (n,p) dosages *)
| GRaw (m : zmat).                          (* numpy.ndarray of dosages *)

Definition zmadd (a b : zmat) : zmat := map2 (map2 Z.add) a b.
(** mat.sum(0) of a phased matrix *)
Definition ph_sum (n p : nat) (ph : list zmat) : zmat := fold_right zmadd (repeat (repeat 0%Z p) n) ph.
(** mat_asformat("{0,1,2}") / the array itself *)
Definition dosage (gt : gtin) : zmat :=
  match gt with GPhased n p ph => ph_sum n p ph | GUnphased _ m => m | GRaw m => m end.
Definition gt_ploidy (gt : gtin) : option Z :=
  match gt with GPhased _ _ ph => Some (Z.of_nat (length ph)) | GUnphased k _ => Some k | GRaw _ => None end.
Definition gt_ntaxa (gt : gtin) : Z := Z.of_nat (length (dosage gt)).

(** taxon labels travel with matrix objects only *)
Definition labels := (option (list String.string) * option (list Z))%type.
Definition gt_labels (gt : gtin) (l : labels) : labels :=
  match gt with GRaw _ => (None, None) | _ => l end.

(** ploidy in force: the matrix's own, or the [ploidy] keyword (default 2) for a raw array (var_a / bulmer, and the dominance
    design of gegv / predict / score / var_G) *)
Definition eff_ploidy (gt : gtin) (arg : option Z) : Z :=
  match gt_ploidy gt with Some k => k | None => match arg with Some k => k | None => 2%Z end end.

(** heterozygosity indicators: (A != 0) & (A != ploidy), for matrix objects and raw arrays alike *)
Definition het1 (ploidy a : Z) : Z := if negb (a =? 0)%Z && negb (a =? ploidy)%Z then 1%Z else 0%Z.
Definition het (gt : gtin) (arg : option Z) : zmat := map (map (het1 (eff_ploidy gt arg))) (dosage gt).
(** the marker design a genotype input is turned into by predict / score / gegv / var_G *)
Definition design (g : gmodel) (gt : gtin) (arg : option Z) : zmat :=
  match g_cls g with CAD => hcat (dosage gt) (het gt arg) | _ => dosage gt end.

(** ** predictions *)
(** X* = [1, 1/q, ..., 1/q];  location = X* @ beta *)
Definition xstar (q : nat) : list Q := match q with O => [] | S k => 1 :: repeat (1 / inject_Z (Z.of_nat q)) k end.
Definition location (g : gmodel) : list Q := vecmat (g_t g) (xstar (nexplan_beta g)) (g_beta g).

(** the effects gebv_numpy multiplies with: u_a, but the whole u for DenseLinearGenomicModel *)
Definition bv_effects (g : gmodel) : qmat := match g_cls g with CL => g_u g | _ => g_ua g end.
(** the effects gegv_numpy multiplies with *)
Definition gv_effects (g : gmodel) : qmat := match g_cls g with CAD => g_ua g ++ g_ud g | _ => bv_effects g end.

(** gebv_numpy(Z): shape check on axis 1, then Z @ u_a *)
Definition gebv_numpy (g : gmodel) (Z : zmat) : option qmat :=
  if ncols_ok (length (bv_effects g)) Z then Some (matmul (g_t g) (qz Z) (bv_effects g)) else None.
Definition gegv_numpy (g : gmodel) (Z : zmat) : option qmat :=
  if ncols_ok (length (gv_effects g)) Z then Some (matmul (g_t g) (qz Z) (gv_effects g)) else None.

(** a breeding value matrix as observed: unscaled values, row labels *)
Definition bvout := (qmat * labels)%type.
Definition gebv (g : gmodel) (gt : gtin) (l : labels) : option bvout :=
  match gebv_numpy g (dosage gt) with
  | Some v => Some (addrow v (location g), gt_labels gt l)
  | None => None end.
Definition gegv (g : gmodel) (gt : gtin) (arg : option Z) (l : labels) : option bvout :=
  match gegv_numpy g (design g gt arg) with
  | Some v => Some (addrow v (location g), gt_labels gt l)
  | None => None end.
(** TrueBreedingValue.estimate(ptobj, gtobj) = gpmod.gebv(gtobj) *)
Definition tbv_estimate := gebv.

(** predict_numpy(X, Z) = X @ beta + Z @ u, after the shape checks *)
Definition predict_numpy (g : gmodel) (X Z : qmat) : option qmat :=
  if ncols_ok (nexplan_beta g) X && Nat.eqb (length Z) (length X) && ncols_ok (nexplan_u g) Z
  then Some (madd (matmul (g_t g) X (g_beta g)) (matmul (g_t g) Z (g_u g))) else None.
Definition predict (g : gmodel) (X : qmat) (gt : gtin) (arg : option Z) (l : labels) : option bvout :=
  match predict_numpy g X (qz (design g gt arg)) with
  | Some v => Some (v, gt_labels gt l)
  | None => None end.

(** ** statistics *)
Definition qlen (l : list Q) : Q := inject_Z (Z.of_nat (length l)).
(** ([Qred] only normalises the fraction: it keeps the exact value and the shards fast) *)
Definition qmean (l : list Q) : Q := Qred (sumQ l / qlen l).
Definition sqdev (m : Q) (l : list Q) : Q := sumQ (map (fun x => (x - m) * (x - m)) l).
(** numpy var(): mean of squared deviations from the mean (population variance) *)
Definition popvar (l : list Q) : Q := sqdev (qmean l) l / qlen l.
Definition qcols (t : nat) (M : qmat) : list (list Q) := cols 0 t M.

(** score_numpy: 1 - SSE/SST per trait; [None] where SST = 0 (numpy yields inf/nan) *)
Definition rsq (y yhat : list Q) : option Q :=
  let sse := sumQ (map2 (fun a b => (a - b) * (a - b)) y yhat) in
  let sst := sqdev (qmean y) y in
  if Qeq_bool sst 0 then None else Some (1 - sse / sst).
Definition score_numpy (g : gmodel) (Y X Z : qmat) : option (list (option Q)) :=
  if ncols_ok (g_t g) Y && Nat.eqb (length X) (length Y) then
    match predict_numpy g X Z with
    | Some yh => Some (map2 rsq (qcols (g_t g) Y) (qcols (g_t g) yh))
    | None => None end
  else None.
Definition score (g : gmodel) (Y X : qmat) (gt : gtin) (arg : option Z) : option (list (option Q)) :=
  score_numpy g Y X (qz (design g gt arg)).

(** var_A = variance over taxa of gebv_numpy; var_G = variance of gegv_numpy (on the class's own design) *)
Definition var_A (g : gmodel) (gt : gtin) : option (list Q) :=
  match gebv_numpy g (dosage gt) with Some v => Some (map popvar (qcols (g_t g) v)) | None => None end.
Definition var_G (g : gmodel) (gt : gtin) (arg : option Z) : option (list Q) :=
  match gegv_numpy g (design g gt arg) with Some v => Some (map popvar (qcols (g_t g) v)) | None => None end.

(** allele counts and frequencies *)
Definition acount (gt : gtin) (p : nat) : list Z := colsumsZ p (dosage gt).
Definition afreq (gt : gtin) (p : nat) (ploidy : Z) : list Q :=
  map (fun c => inject_Z c / inject_Z (ploidy * gt_ntaxa gt)) (acount gt p).
(** var_a_numpy: ploidy^2 * sum_j u_jk^2 p_j (1 - p_j) *)
Definition var_a_of (t : nat) (u : qmat) (fr : list Q) (ploidy : Z) : list Q :=
  map (fun x => inject_Z (ploidy * ploidy) * x)
      (vecmat t (map (fun f => f * (1 - f)) fr) (map (map (fun x => x * x)) u)).
Definition var_a (g : gmodel) (gt : gtin) (arg : option Z) : list Q :=
  let k := eff_ploidy gt arg in
  var_a_of (g_t g) (bv_effects g) (afreq gt (length (bv_effects g)) k) k.
(** bulmer: var_A / var_a with NaN where var_a == 0 *)
Definition bulmer (g : gmodel) (gt : gtin) (arg : option Z) : option (list (option Q)) :=
  match var_A g gt with
  | Some vA => Some (map2 (fun a b => if Qeq_bool b 0 then None else Some (a / b)) vA (var_a g gt arg))
  | None => None end.

(** ** favourable / deleterious / neutral allele statistics (per marker j, trait k) *)
(** every class: where(u > 0, c, N - c), then 0 where u == 0 *)
Definition fa1 (u : Q) (c N : Z) : Z := if Qeq_bool u 0 then 0%Z else if Qltb 0 u then c else (N - c)%Z.
Definition da1 (u : Q) (c N : Z) : Z := if Qeq_bool u 0 then 0%Z else if Qltb u 0 then c else (N - c)%Z.

Definition maxfav (gt : gtin) : Z := (eff_ploidy gt None * gt_ntaxa gt)%Z.
Definition per_entry {A} (f : Q -> Z -> A) (u : qmat) (c : list Z) : list (list A) :=
  map2 (fun ur cj => map (fun x => f x cj) ur) u c.
Definition stat {A} (g : gmodel) (gt : gtin) (f : Q -> Z -> Z -> A) : list (list A) :=
  let u := bv_effects g in per_entry (fun x c => f x c (maxfav gt)) u (acount gt (length u)).

(** (DenseLinearGenomicModel has its own copies of facount / dacount: the same computation on its own [u]) *)
Definition fa_of (_ : gmodel) := fa1.
Definition da_of (_ : gmodel) := da1.
Definition facount g gt := stat g gt (fa_of g).
Definition dacount g gt := stat g gt (da_of g).
Definition fafreq g gt := stat g gt (fun u c N => inject_Z (fa_of g u c N) / inject_Z N).
Definition dafreq g gt := stat g gt (fun u c N => inject_Z (da_of g u c N) / inject_Z N).
(** availability: count > 0 (additive classes), count != 0 (DenseLinearGenomicModel) *)
Definition avail_of (g : gmodel) (x : Z) : bool := match g_cls g with CL => negb (x =? 0)%Z | _ => (0 <? x)%Z end.
Definition faavail g gt := stat g gt (fun u c N => avail_of g (fa_of g u c N)).
Definition daavail g gt := stat g gt (fun u c N => avail_of g (da_of g u c N)).
Definition fafixed g gt := stat g gt (fun u c N => (fa_of g u c N =? N)%Z).
Definition dafixed g gt := stat g gt (fun u c N => (da_of g u c N =? N)%Z).
Definition fapoly g gt := stat g gt (fun u c N => (0 <? fa_of g u c N)%Z && (fa_of g u c N <? N)%Z).
Definition dapoly g gt := stat g gt (fun u c N => (0 <? da_of g u c N)%Z && (da_of g u c N <? N)%Z).
Definition nafixed g gt := stat g gt (fun u c N => ((c =? 0)%Z || (c =? N)%Z) && Qeq_bool u 0).
Definition napoly g gt := stat g gt (fun u c N => ((0 <? c)%Z && (c <? N)%Z) && Qeq_bool u 0).

(** ** comparison helpers for the correspondence shards *)
Definition oqclose (a : option Q) (b : option Q) : bool := opt_eqb Qclose a b.
(** scale-free closeness  |x - y| <= 2^-30 |y|  (y the model value): a model value that is exactly zero demands an
    implementation value that is exactly zero, and a tiny non-zero one is told apart from zero; used for the variances and the
    Bulmer ratio, whose binary64 evaluation on dyadic-grid inputs has a relative error of a few ulps whatever the scale *)
Definition Qrclose (x y : Q) : bool := Qle_bool (Qabs' (x - y)) ((1 # 1073741824) * Qabs' y).
Definition qrclose_l := list_eqb Qrclose.
Definition oqrclose (a : option Q) (b : option Q) : bool := opt_eqb Qrclose a b.
(** closeness relative to a given scale s:  |x - y| <= 2^-30 s *)
Definition Qsclose (s x y : Q) : bool := Qle_bool (Qabs' (x - y)) ((1 # 1073741824) * s).
Definition colmax (l : list Q) : Q := fold_right (fun x m => Qmax' (Qabs' x) m) 0 l.
Fixpoint sclose_l (s x y : list Q) : bool :=
  match s, x, y with
  | [], [], [] => true
  | a :: s', b :: x', c :: y' => Qsclose a b c && sclose_l s' x' y'
  | _, _, _ => false end.
(** every entry within 2^-30 of the scale of its column: traits of very different scale in one matrix are each compared at
    their own scale, and an all-zero trait exactly *)
Definition sclose_cols (s : list Q) (A B : qmat) : bool := list_eqb (sclose_l s) A B.
(** the scale of trait k of a breeding value matrix: largest magnitude among its values plus the magnitudes of the fixed effects
    of the trait (the location X* @ beta is rounded at the size of its terms, which may cancel) *)
Definition bv_scale (g : gmodel) (mv : qmat) : list Q :=
  map2 Qplus (map colmax (qcols (g_t g) mv)) (map (fun c => sumQ (map Qabs' c)) (qcols (g_t g) (g_beta g))).
Definition bll_eqb := list_eqb bl_eqb.
Definition lab_eqb (a b : labels) : bool :=
  opt_eqb sl_eqb (fst a) (fst b) && opt_eqb zl_eqb (snd a) (snd b).
(** exact agreement of an (optional = raised) matrix *)
Definition agree_E (impl model : option qmat) : bool := opt_eqb qll_eqb impl model.
Definition agree_T (impl model : option qmat) : bool := opt_eqb qclose_ll impl model.
Definition agree_Tl (impl model : option (list Q)) : bool := opt_eqb qclose_l impl model.
Definition agree_To (impl model : option (list (option Q))) : bool := opt_eqb (list_eqb oqclose) impl model.
(** variances / Bulmer ratios: relative agreement, exact at zero, None (NaN) only against None *)
Definition agree_Rl (impl model : option (list Q)) : bool := opt_eqb qrclose_l impl model.
Definition agree_Ro (impl model : option (list (option Q))) : bool := opt_eqb (list_eqb oqrclose) impl model.
(** a breeding value matrix: unscaled values and location within tolerance at the scale of their trait column, labels equal *)
Definition agree_bv (g : gmodel) (impl : option (qmat * list Q * labels)) (model : option bvout) : bool :=
  match impl, model with
  | Some (v, loc, l), Some (mv, ml) =>
      let s := bv_scale g mv in
      sclose_cols s v mv && sclose_l s loc (map qmean (qcols (g_t g) mv)) && lab_eqb l ml
  | None, None => true
  | _, _ => false end.

(** ** object lifecycle: the property setters, and __copy__ / __deepcopy__ / copy() / deepcopy() (the constructor applied to copies
    of the coefficient arrays).  A model object is its current coefficient arrays and nothing else (no memoised products). *)
Definition set_beta (g : gmodel) (b : qmat) : gmodel := mkG (g_cls g) b (g_umisc g) (g_ua g) (g_ud g) (g_t g).
Definition set_umisc (g : gmodel) (m : qmat) : gmodel := mkG (g_cls g) (g_beta g) m (g_ua g) (g_ud g) (g_t g).
Definition set_ua (g : gmodel) (a : qmat) : gmodel := mkG (g_cls g) (g_beta g) (g_umisc g) a (g_ud g) (g_t g).
Definition set_ud (g : gmodel) (d : qmat) : gmodel := mkG (g_cls g) (g_beta g) (g_umisc g) (g_ua g) d (g_t g).
Definition model_copy (g : gmodel) : gmodel := mkG (g_cls g) (g_beta g) (g_umisc g) (g_ua g) (g_ud g) (g_t g).
