(** C12 — vocabulary of the regenerated kernel definitions (Gen/C12_Kernel.v): Python's comparisons and `+` on an
    "int or inf" generation number ([depth]: [Some k] / [None] = numpy.inf), and the generic shape of the from_algmod loop
    nests (group loop / row-chunk loop / column-chunk loop; accumulation over the visited index tuples, scaling, mirror
    assignment), parameterised by the expressions that the translator extracts from the source.  Definitions only. *)
From PV Require Import Lib.Common Model.C12_Var.
Local Open Scope Q_scope.

(** nself == n, nself > n, nself + n for nself an int or inf *)
Definition d_eqb (d : depth) (n : nat) : bool := match d with Some k => (k =? n)%nat | None => false end.
Definition d_gtb (d : depth) (n : nat) : bool := match d with Some k => (n <? k)%nat | None => true end.
Definition d_add (d : depth) (n : nat) : depth := match d with Some k => Some (k + n)%nat | None => None end.

(** for lst,lsp in groups: step = stepf lst lsp; for rst,rsp in rch lst lsp step: for cst,csp in cch lst lsp step: acc += f rows cols *)
Definition blocked_gen (groups : list (nat * nat)) (stepf : nat -> nat -> nat) (rch cch : nat -> nat -> nat -> list (nat * nat))
  (f : list nat -> list nat -> Q) : Q :=
  qsum (map (fun c => let step := stepf (fst c) (snd c) in
    qsum (map (fun rc => qsum (map (fun cc => f (ixs rc) (ixs cc)) (cch (fst c) (snd c) step))) (rch (fst c) (snd c) step))) groups).

(** final content of position (i,j) of the two mirrored axes, for fixed leading indices: the array starts as numpy.zeros;
    the accumulation loops add [low a b] at every visited (a,b) (and nothing elsewhere); then, for every (female, male) visited by
    the mirror loops, position [dst female male] is overwritten by the content of position [src female male] (read before any
    destination is written: destinations and sources are disjoint — lemma [loop_entry_sound] states the conditions used). *)
Definition pair_eqb (x y : nat * nat) : bool := ((fst x =? fst y) && (snd x =? snd y))%nat.
Definition loop_entry (n : nat) (visit mvisit : nat -> nat -> bool) (dst src : nat -> nat -> nat * nat) (low : nat -> nat -> Q) (i j : nat) : Q :=
  let base := fun a b => if visit a b then low a b else 0 in
  match find (fun fm => mvisit (fst fm) (snd fm) && pair_eqb (dst (fst fm) (snd fm)) (i, j)) (list_prod (seq 0 n) (seq 0 n)) with
  | Some fm => let s := src (fst fm) (snd fm) in base (fst s) (snd s)
  | None => base i j
  end.
