(** C02 — functions evaluated by the correspondence shards ([check_* inputs implementation_outputs : bool]) and the
    small models they need beyond Model/C01_Meiosis.v:
      - the source-copy matrix of one mat_meiosis call (row i of the uniform matrix decides gamete i),
      - decoding the source copy from a gamete of a parent whose two copies differ at every marker,
      - crossover probabilities assigned from genetic positions (DenseGeneticMappableMatrix.interp_xoprob =
        mapfn (StandardGeneticMap.gdist1g): exactly 1/2 at chromosome starts, mapfn(gap) elsewhere),
      - DenseExpectedMaximumBreedingValueMatrix.from_gmod (l.196-240): doubled haploids through dense_dh only.
    Definitions only. *)
From PV Require Import Lib.Common Model.C01_Meiosis Model.C02_Dist Model.C11_MapFn.
Local Open Scope Z_scope.

Definition bll_eqb := list_eqb bl_eqb.

(** ** source copies of the gametes of one call: row i of [rnd] is used for gamete i only *)
Fixpoint src_rows (n : nat) (rnd : list (list Q)) (xoprob : list Q) : list (list bool) :=
  match n with
  | O => []
  | S n' => src (xo_row (hd [] rnd) xoprob) :: src_rows n' (tl rnd) xoprob
  end.

(** which copy does every allele of [gam] come from, when the copies g0 / g1 differ at every marker *)
Fixpoint decode (g0 g1 gam : list Z) : option (list bool) :=
  match g0, g1, gam with
  | [], [], [] => Some []
  | a0 :: t0, a1 :: t1, a :: t =>
      match decode t0 t1 t with
      | Some r => if a =? a1 then (if a =? a0 then None else Some (true :: r)) else if a =? a0 then Some (false :: r) else None
      | None => None
      end
  | _, _, _ => None
  end.
Fixpoint decode_rows (geno : list (list (list Z))) (sel : list nat) (gams : list (list Z)) : option (list (list bool)) :=
  match sel, gams with
  | [], [] => Some []
  | s :: ts, g :: tg =>
      match decode (row geno 0 s) (row geno 1 s) g, decode_rows geno ts tg with
      | Some r, Some rest => Some (r :: rest)
      | _, _ => None
      end
  | _, _ => None
  end.

(** mat_meiosis / dense_meiosis (and, stacked twice, mat_dh / dense_dh): gametes equal the C01 model on the same draws, the
    provenance decoded from the implementation's gametes is the running parity of [draw < xoprob], and so is the provenance
    the harness reconstructed on its own *)
Definition check_meiosis (geno : list (list (list Z))) (sel : list nat) (xoprob : list Q) (rnd : list (list Q))
    (gams : list (list Z)) (obs : list (list bool)) : bool :=
  let want := src_rows (length sel) rnd xoprob in
  zll_eqb (fst (mat_meiosis geno sel xoprob (rng0 [rnd]))) gams
  && opt_eqb bll_eqb (decode_rows geno sel gams) (Some want)
  && bll_eqb obs want.

(** the last meiosis of a mating protocol: the provenance observed on the progeny (which side of the immediate parent
    every allele comes from) against the uniform matrix the implementation drew for that meiosis *)
Definition check_final (xoprob : list Q) (n : nat) (rnd : list (list Q)) (obs : list (list bool)) : bool :=
  (length rnd =? n)%nat && bll_eqb obs (src_rows n rnd xoprob).

(** real generator draws: every draw is k / 2^53 with 0 <= k < 2^53, and [draw < p] holds exactly for the
    first [cntZ 2^53 p] grid points *)
Definition draw_ok (u p : Q) : bool :=
  match on_grid53 u with
  | Some k => Bool.eqb (Qltb u p) (k <? cntZ two53 p)
  | None => false
  end.
Definition draws_ok (rnd : list (list Q)) (xoprob : list Q) : bool :=
  forallb (fun r => (length r =? length xoprob)%nat && forallb (fun up => draw_ok (fst up) (snd up)) (combine r xoprob)) rnd.

(** ** crossover probabilities from a genetic map *)
Definition half : Q := 1 # 2.
(** [chr], [gen]: chromosome label and interpolated genetic position of every marker (sorted, grouped);
    [xo]: the vrnt_xoprob the implementation stored *)
Fixpoint xo_map_ok (k : mapkind) (prev : option (Z * Q)) (chr : list Z) (gen xo : list Q) : bool :=
  match chr, gen, xo with
  | [], [], [] => true
  | c :: tc, g :: tg, x :: tx =>
      (match prev with
       | Some (c0, g0) => if c0 =? c then mapfn_ok k (g - g0)%Q x else Qeq_bool x half
       | None => Qeq_bool x half
       end) && xo_map_ok k (Some (c, g)) tc tg tx
  | _, _, _ => false
  end.
Definition check_map (k : mapkind) (chr : list Z) (gen xo : list Q) : bool := xo_map_ok k None chr gen xo.

(** ** expected maximum breeding value: mean over replicates of the best doubled haploid *)
Definition dosage (prog : list (list (list Z))) : list (list Z) := map2 (map2 Z.add) (nth 0 prog []) (nth 1 prog []).
(** breeding value of one dosage row for every trait: intercept_t + sum_m z_m u_(m,t); [ucols] holds one effect column per trait *)
Definition bv_row (betas : list Q) (ucols : list (list Q)) (z : list Z) : list Q :=
  map2 (fun b u => b + sumQ (map2 (fun a x => inject_Z a * x) z u))%Q betas ucols.
Definition colmax (rows : list (list Q)) : list Q :=
  match rows with [] => [] | r :: t => fold_left (map2 Qmax') t r end.
Fixpoint embv_reps (nrep : nat) (geno : list (list (list Z))) (sel : list nat) (xoprob : list Q)
    (betas : list Q) (ucols : list (list Q)) (r : rngst) : list (list Q) * rngst :=
  match nrep with
  | O => ([], r)
  | S k =>
      let '(prog, r1) := mat_dh geno sel xoprob r in
      let m := colmax (map (bv_row betas ucols) (dosage prog)) in
      let '(rest, r2) := embv_reps k geno sel xoprob betas ucols r1 in
      (m :: rest, r2)
  end.
Fixpoint embv_taxa (i : nat) (nprog nrep : list nat) (geno : list (list (list Z))) (xoprob : list Q)
    (betas : list Q) (ucols : list (list Q)) (r : rngst) : list (list Q) * rngst :=
  match nprog, nrep with
  | np :: tnp, nr :: tnr =>
      let '(mbv, r1) := embv_reps nr geno (repeat i np) xoprob betas ucols r in
      let mean := map (fun s => s / inject_Z (Z.of_nat nr))%Q (colsumsQ (length betas) mbv) in
      let '(rest, r2) := embv_taxa (S i) tnp tnr geno xoprob betas ucols r1 in
      (mean :: rest, r2)
  | _, _ => ([], r)
  end.
Definition check_embv (geno : list (list (list Z))) (xoprob : list Q) (nprog nrep : list nat) (betas : list Q)
    (ucols : list (list Q)) (draws : list (list (list Q))) (impl : list (list Q)) (shapes : list (nat * nat)) : bool :=
  let '(m, r) := embv_taxa 0 nprog nrep geno xoprob betas ucols (rng0 draws) in
  qclose_ll impl m && shapes_eqb (reqs r) shapes && (length (pending r) =? 0)%nat.
