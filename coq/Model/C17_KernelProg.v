(** C17 — the sampling utilities assembled from the kernel expressions that are regenerated from the source on every run
    (Gen/C17_Kernel.v, written by harness/translate/c17_kernel.py).  Definitions only.

    Every comparison, quotient, index expression and argument order on which the C17 theorems turn is taken from the
    generated file; what is written by hand here is only the control skeleton the translator pins textually
    (`for ptr in ptrs: while <guard>: ix += 1; sel.append(indices[ix])`, `for i in range(qu): out[lo:hi] = a`,
    `while iterate: shuffle; for i,j in exchix: exchange; if <accept>: break; undo`).  Proofs/C17_Kernel.v proves these
    programs equal to the hand model of Model/C17_Sampling.v; Props/C17.v states the property about them. *)
From Coq Require Import PrimFloat.
From PV Require Import Lib.Common Lib.FloatK Model.C17_Sampling Gen.C17_Kernel.

(** * 1. stochastic universal sampling *)
(**  while <k_sus_guard ix last cumsum[ix] ptr>: ix += 1   — index based, as in the source; [fuel] bounds the iterations
     (the guard fails at ix = last at the latest, so [length cs] is always enough) *)
Fixpoint kw_advance (fuel : nat) (cs : list Q) (last : Z) (ix : nat) (ptr : Q) : nat :=
  match fuel with
  | O => ix
  | S f => if k_sus_guard (Z.of_nat ix) last (nth ix cs 0%Q) ptr then kw_advance f cs last (S ix) ptr else ix
  end.
(**  for ptr in ptrs: <while>; sel.append(indices[ix])   (positions; [gather] applies `indices[...]`) *)
Fixpoint kw_walk (fuel : nat) (cs : list Q) (last : Z) (ix : nat) (ptrs : list Q) : list nat :=
  match ptrs with
  | [] => []
  | ptr :: rest => let ix' := kw_advance fuel cs last ix ptr in ix' :: kw_walk fuel cs last ix' rest
  end.
(** numpy.count_nonzero(<k_sus_positive>) *)
Definition k_npos (p : list Q) : nat := length (filter k_sus_positive p).
Definition k_sus_finish (order : list nat) (k : nat) (p cs ptrs : list Q) (perm : list nat) : option (list nat) :=
  if k_sus_empty (Z.of_nat k) then Some []
  else match cs with
       | [] => None
       | _ => Some (permute 0%nat perm (gather 0%nat order
                      (kw_walk (length cs) cs (k_sus_last (Z.of_nat (k_npos p))) 0 ptrs)))
       end.
(** binary64 pointers and cumulative sums, read exactly ([f2q]) for the comparisons *)
Definition k_sus_f (p : list float) (order : list nat) (k : nat) (off : float) (perm : list nat) : option (list nat) :=
  let d := k_sus_dist (fsum p) (f_of_Z (Z.of_nat k)) in
  k_sus_finish order k (map f2q p) (map f2q (fcumsum (gather 0%float p order)))
    (map (fun i => f2q (k_sus_ptr off d (f_of_Z (Z.of_nat i)))) (seq 0 k)) perm.
(** the same program over exact rationals *)
Definition k_sus_q (p : list Q) (order : list nat) (k : nat) (off : Q) (perm : list nat) : option (list nat) :=
  let d := k_sus_dist_q (sumQ p) (inject_Z (Z.of_nat k)) in
  k_sus_finish order k p (cumsum (gather 0%Q p order))
    (map (fun i => k_sus_ptr_q off d (inject_Z (Z.of_nat i))) (seq 0 k)) perm.
(** rng.uniform(<lo>, <hi>) *)
Definition k_sus_draw (p : list float) (k : nat) : option (float * float) :=
  if k_sus_empty (Z.of_nat k) then None
  else Some (k_sus_uniform_lo, k_sus_uniform_hi (k_sus_dist (fsum p) (f_of_Z (Z.of_nat k)))).

(** * 2. tiled_choice (without replacement) *)
(** range(lo, hi) for 0 <= lo *)
Definition zrange (lo hi : Z) : list nat := seq (Z.to_nat lo) (Z.to_nat (hi - lo)).
(** entry t of `out` after  for i in range(qu): out[lo i : hi i] = a ;  out[rest:] = choice   (later writes win; an entry
    never written is numpy.empty garbage, modelled as 0) — as indices into a *)
Definition k_tiled_at (n ns : nat) (choice : list nat) (t : nat) : nat :=
  let zn := Z.of_nat n in let zt := Z.of_nat t in
  let qu := k_tiled_qu (Z.of_nat ns) zn in
  if Z.leb (k_tiled_rest qu zn) zt then nth (Z.to_nat (zt - k_tiled_rest qu zn)) choice 0%nat
  else match find (fun i => Z.leb (k_tiled_lo (Z.of_nat i) zn) zt && Z.ltb zt (k_tiled_hi (Z.of_nat i) zn)) (rev (zrange 0 qu)) with
       | Some i => Z.to_nat (zt - k_tiled_lo (Z.of_nat i) zn)
       | None => 0%nat
       end.
Definition k_tiled_ix (n ns : nat) (choice : list nat) : list nat := map (k_tiled_at n ns choice) (seq 0 ns).
(** the remainder size requested from rng.choice (numpy's integer divmod by zero gives (0, 0)) *)
Definition k_tiled_req (n ns : nat) : Z := if Nat.eqb n 0 then 0%Z else k_tiled_re (Z.of_nat ns) (Z.of_nat n).
Definition k_tiled_sel (n ns : nat) (choice perm : list nat) : option (list nat) :=
  if Nat.eqb (length choice) (Z.to_nat (k_tiled_req n ns)) then Some (permute 0%nat perm (k_tiled_ix n ns choice)) else None.

(** * 3. axis_shuffle *)
Definition k_axis_shuffle (shape : list nat) (axis : list Z) (pms : list (list nat)) (a : list Z) : err + list Z :=
  let '(s, ax) := k_axis_args shape axis in
  match sliceaxisix s ax with
  | None => inl ERecursion
  | Some ss => axis_loop s ss pms a
  end.

(** * 4. outcross_shuffle *)
(** u, c = numpy.unique(xrow, return_counts=True): the counts of the distinct values (numpy lists them by ascending value,
    here by first occurrence; only their sum is used) *)
Definition unique_counts (row : list Z) : list Z :=
  map (fun u => Z.of_nat (count_occ Z.eq_dec row u)) (nodup Z.eq_dec row).
(** objfn: out = 0; for xrow in x: out += numpy.sum(<k_oc_dup_term c>) *)
Definition k_oc_objfn (m : nat) (x : list Z) : Z :=
  fold_left (fun out row => (out + sumZ (map k_oc_dup_term (unique_counts row)))%Z) (rows m x) 0%Z.
(** xravel[p] = v *)
Definition set_z (p : nat) (v : Z) (x : list Z) : list Z :=
  map (fun t => if Nat.eqb t p then v else nth t x 0%Z) (seq 0 (length x)).
(** xravel[i], xravel[j] = <k_oc_swap>: the right-hand side is evaluated first, then position i, then position j is written *)
Definition k_oc_exchange (i j : nat) (x : list Z) : list Z :=
  let '(vi, vj) := k_oc_swap (nth i x 0%Z) (nth j x 0%Z) in set_z j vj (set_z i vi x).
(** numpy.array([<k_oc_pair i j> for i in range(<i_lo>, <i_hi>) for j in range(<j_lo>, <j_hi>)]) with n = len(xravel) *)
Definition k_oc_pairs (n : nat) : list (nat * nat) :=
  let zn := Z.of_nat n in
  flat_map (fun i => map (fun j => k_oc_pair i j) (zrange (k_oc_j_lo (Z.of_nat i) zn) (k_oc_j_hi (Z.of_nat i) zn)))
           (zrange (k_oc_i_lo zn) (k_oc_i_hi zn)).
(** for i,j in exchix: exchange; score; if <k_oc_accept>: ... break; undo (the exchange again) *)
Fixpoint k_oc_first (m : nat) (x : list Z) (best : Z) (pairs : list (nat * nat)) : option (list Z * Z) :=
  match pairs with
  | [] => None
  | (i, j) :: t => let x' := k_oc_exchange i j x in let s := k_oc_objfn m x' in
                   if k_oc_accept s best then Some (x', s) else k_oc_first m (k_oc_exchange i j x') best t
  end.
(** while iterate: shuffle; local_optima = True; for ...: (local_optima = False on acceptance); iterate = <k_oc_continue> *)
Fixpoint k_oc_loop (pms : list (list nat)) (m : nat) (x : list Z) (exch : list (nat * nat)) (best : Z) (n : nat)
  : option (list Z * nat) :=
  match pms with
  | [] => None
  | pm :: rest =>
      let exch' := permute (0%nat, 0%nat) pm exch in
      let r := k_oc_first m x best exch' in
      let local_optima := match r with None => true | Some _ => false end in
      let '(x1, best1) := match r with Some (x', s) => (x', s) | None => (x, best) end in
      if k_oc_continue local_optima then k_oc_loop rest m x1 exch' best1 (S n) else Some (x1, S n)
  end.
Definition k_outcross (m : nat) (x : list Z) (pms : list (list nat)) : option (list Z * nat) :=
  k_oc_loop pms m x (k_oc_pairs (length x)) (k_oc_objfn m x) 0%nat.
