(** C05 — executable model of what the factory methods put into a problem (the data clause of the property):
    breeding values  1 beta + X u  (gebv), generalised weighted breeding values  X (u * f^-alpha)  for integer alpha with the
    source's zero-frequency guard, haplotype block values and the optimal-haploid-value table
    (ploidy * sum over blocks of the best block value over the parents and phases of a cross, looked up through the
    cross map), the cross maps (triudix / triuix for two parents), the L1 tensor, the usefulness criterion
    (contribution-weighted parental mean + intensity * sqrt(variance), the contribution vector being an argument; the square
    root is compared through its square).
    Population: phased alleles hap[phase][taxon][locus], effects u[locus][trait], intercept beta[trait].  Definitions only. *)
From PV Require Import Lib.Common Model.C05_Latent.
Local Open Scope Q_scope.

Definition zq (z : Z) : Q := inject_Z z.
Definition hapget (Hm : list (list Z)) (i j : nat) : Z := nth j (nth i Hm []) 0%Z.
(** genotype in {0,1,2} coding: sum over phases *)
Definition dosage (hap : list (list (list Z))) (i j : nat) : Z := sumZ (map (fun Hm => hapget Hm i j) hap).
(** gebv(unscaled) = X u + beta *)
Definition gebv_def (hap : list (list (list Z))) (u : list (list Q)) (beta : list Q) (n p t : nat) : list (list Q) :=
  map (fun i => map (fun q => sumf (fun j => zq (dosage hap i j) * mget u j q) (seq 0 p) + nth q beta 0) (seq 0 t)) (seq 0 n).
(** favourable allele frequency: allele 1 if u > 0, allele 0 if u < 0, and 0 by convention if u = 0 *)
Definition acountp (hap : list (list (list Z))) (n j : nat) : Z := sumZ (map (fun i => dosage hap i j) (seq 0 n)).
Definition fafreq_def (hap : list (list (list Z))) (u : list (list Q)) (n j q : nat) : Q :=
  let N := (Z.of_nat (length hap) * Z.of_nat n)%Z in let c := acountp hap n j in let e := mget u j q in
  if Qle_bool e 0 then (if Qle_bool 0 e then 0 else zq (N - c) / zq N) else zq c / zq N.
(** tmp[tmp == 0.0] = 1.0; weight = tmp ** -alpha  (alpha a natural number here) *)
Definition gw_weight (f : Q) (alpha : nat) : Q := let f' := if Qeq_bool f 0 then 1 else f in Qpower (/ f') (Z.of_nat alpha).
Definition gwgebv_def (hap : list (list (list Z))) (u : list (list Q)) (alpha n p t : nat) : list (list Q) :=
  map (fun i => map (fun q => sumf (fun j => zq (dosage hap i j) * (mget u j q * gw_weight (fafreq_def hap u n j q) alpha)) (seq 0 p)) (seq 0 t)) (seq 0 n).

(** haplotype block values: hmat[m,i,b,q] = mat[m,i,st:sp] . u[st:sp,q] *)
Definition haploval (hap : list (list (list Z))) (u : list (list Q)) (bounds : list (nat * nat)) (n t : nat) : list (list (list (list Q))) :=
  map (fun Hm => map (fun i => map (fun ab => map (fun q => sumf (fun j => zq (hapget Hm i j) * mget u j q) (seq (fst ab) (snd ab - fst ab))) (seq 0 t)) bounds) (seq 0 n)) hap.
(** one row of the OHV table: ploidy * haplomat[:,xconfig,:,:].max((0,2)).sum(1) *)
Definition ohv_row (H : list (list (list (list Q)))) (nb nt : nat) (parents : list nat) : list Q :=
  map (fun q => nq (length H) * sumf (fun b => maxl (flat_map (fun Hp => map (fun i => hget Hp i b q) parents) H)) (seq 0 nb)) (seq 0 nt).
(** cross maps for two parents: triudix (strictly increasing) and triuix (non-decreasing), lexicographic *)
Definition pairs_unique (n : nat) : list (list nat) := flat_map (fun i => map (fun j => [i; j]) (seq (S i) (n - S i))) (seq 0 n).
Definition pairs_any (n : nat) : list (list nat) := flat_map (fun i => map (fun j => [i; j]) (seq i (n - i))) (seq 0 n).
Definition ohvmat_def (hap : list (list (list Z))) (u : list (list Q)) (bounds : list (nat * nat)) (n t : nat) (unique : bool) : list (list Q) :=
  map (ohv_row (haploval hap u bounds n t) (length bounds) t) (if unique then pairs_unique n else pairs_any n).
(** cross maps for ANY number of parents k (numpy.array(list(triudix(n,k))) / triuix(n,k)): every strictly increasing
    (unique parents) / non-decreasing index tuple of length k below n, in lexicographic order; and the OHV table of a
    k-parent problem: the row of a cross is [ohv_row] on the WHOLE parent list of the cross (all columns of the cross map) *)
Fixpoint xmap_from (unique : bool) (n k lo : nat) : list (list nat) :=
  match k with
  | O => [[]]
  | S k' => flat_map (fun i => map (cons i) (xmap_from unique n k' (if unique then S i else i))) (seq lo (n - lo))
  end.
Definition xmap_def (unique : bool) (n k : nat) : list (list nat) := xmap_from unique n k 0.
(** the table on a given cross map (what _calc_ohvmat computes, for every chunk size) *)
Definition ohvmat_on (hap : list (list (list Z))) (u : list (list Q)) (bounds : list (nat * nat)) (n t : nat) (xmap : list (list nat)) : list (list Q) :=
  map (ohv_row (haploval hap u bounds n t) (length bounds) t) xmap.
Definition ohvmat_defk (hap : list (list (list Z))) (u : list (list Q)) (bounds : list (nat * nat)) (n t k : nat) (unique : bool) : list (list Q) :=
  ohvmat_on hap u bounds n t (xmap_def unique n k).
(** index tuples: [lo <= i1 (<|<=) i2 (<|<=) ...] *)
Fixpoint chain (unique : bool) (lo : nat) (l : list nat) : Prop :=
  match l with [] => True | i :: r => (lo <= i)%nat /\ chain unique (if unique then S i else i) r end.

(** L1 tensor: V[q][j][i] = mkrwt[j,q] * (tafreq[i,j] - tfreq[j,q]),  tafreq = dosage / ploidy *)
Definition l1_tensor (hap : list (list (list Z))) (w tf : list (list Q)) (n p t : nat) : list (list (list Q)) :=
  map (fun q => map (fun j => map (fun i => mget w j q * (zq (dosage hap i j) / zq (Z.of_nat (length hap)) - mget tf j q)) (seq 0 n)) (seq 0 p)) (seq 0 t).

(** usefulness criterion.  The progeny mean of a cross as coded:  pmean = epgc.dot(bvmat[cconfig,:])  — the expected
    parental genome contributions [epgc] are an ARGUMENT of the model (written down by the harness per variance-matrix
    factory: two-way / dihybrid (1/2,1/2); three-way (1/2,1/4,1/4) for (recurrent, female, male); four-way (1/4,1/4,1/4,1/4)),
    in the column order of the cross map. *)
Definition uc_mean (bv : list (list Q)) (epgc : list Q) (parents : list nat) (q : nat) : Q :=
  qsum (map2 (fun e i => e * mget bv i q) epgc parents).
(** one cross: pmean + intensity * sqrt(pvar): returned as (mean part, squared rest) — sqrt is compared through its square *)
Definition uc_parts (bv : list (list Q)) (epgc : list Q) (si : Q) (var : list Q) (t : nat) (parents : list nat) : list (Q * Q) :=
  map (fun q => (uc_mean bv epgc parents q, si * si * nth q var 0)) (seq 0 t).
(** the same with the progeny standard deviations given (sigma_q * sigma_q = var_q): the table ucmat of a UC problem *)
Definition uc_row (bv : list (list Q)) (epgc : list Q) (si : Q) (sigma : list Q) (t : nat) (parents : list nat) : list Q :=
  map (fun q => uc_mean bv epgc parents q + si * nth q sigma 0) (seq 0 t).
Definition ucmat_of (bv : list (list Q)) (epgc : list Q) (si : Q) (sigmas : list (list Q)) (t : nat) (xmap : list (list nat)) : list (list Q) :=
  map2 (fun parents sigma => uc_row bv epgc si sigma t parents) xmap sigmas.
(** the plain mean of the parents' breeding values, and uniform contributions *)
Definition plain_mean (bv : list (list Q)) (parents : list nat) (q : nat) : Q := qsum (map (fun i => mget bv i q) parents) / nq (length parents).
Definition uniform (m : nat) : list Q := repeat (1 / nq m) m.
Definition uc_ok (impl : list Q) (parts : list (Q * Q)) : bool :=
  all2 (fun v pr => let d := v - fst pr in Qle_bool (- tol30) d && Qclose (d * d) (snd pr)) impl parts.

(** expected maximum breeding value (DenseExpectedMaximumBreedingValueMatrix.from_gmod and the EMBV selection problems'
    _calc_embv).  The progeny breeding values of every replicate are an ARGUMENT of the model (recorded by the harness at the
    library's own call of gebv on each simulated progeny matrix; that the progeny are doubled haploids / selfs of the right
    parent is the independent predicate's job — meiosis is properties C01/C02):
      reps[r][g][q] = breeding value of progeny g of replicate r for trait q;
      entry q = mean over exactly the replicates drawn of the maximum over the progeny of that replicate. *)
Definition colmax (bvs : list (list Q)) (q : nat) : Q := maxl (map (fun r => nth q r 0) bvs).
Definition embv_entry (reps : list (list (list Q))) (q : nat) : Q := qsum (map (fun bvs => colmax bvs q) reps) / nq (length reps).
Definition embv_def (allreps : list (list (list (list Q)))) (t : nat) : list (list Q) :=
  map (fun reps => map (embv_entry reps) (seq 0 t)) allreps.
(** what the factory must have drawn: entry i = replicate count nrep_i, each replicate with nprogeny_i progeny *)
Definition embv_shape_ok (allreps : list (list (list (list Q)))) (nrep nprogeny : list nat) : bool :=
  list_eqb Nat.eqb (map (@length _) allreps) nrep &&
  forallb (fun rn => forallb (fun bvs => Nat.eqb (length bvs) (snd rn)) (fst rn)) (combine allreps nprogeny) &&
  Nat.eqb (length nprogeny) (length allreps).
