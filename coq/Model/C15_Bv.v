(** C15 — executable model of the breeding-value matrices
    pybrops/popgen/bvmat/DenseBreedingValueMatrix.py (+ the Estimated / GenomicEstimated subclasses, which only
    change the constructor signature): from_numpy, unscale, the statistics, the copy-on-manipulation taxa operations,
    the in-place append_taxa / incorp_taxa / remove_taxa and concat_taxa (overrides that apply the routines inherited from
    pybrops/core/mat/DenseTaxaMatrix.py / DenseTaxaTraitMatrix.py to the unscaled values and re-standardise),
    and of pybrops/core/mat/DenseScaledMatrix.py.
    The last section keeps the FORMER code of tmean and of the in-place operations / concat_taxa ([old_c_mean], [old_step]):
    it is not what the library does any more; the refutations proved about it are regression witnesses.

    Numbers are exact rationals; a missing value (NaN) is [None] and propagates through arithmetic.
    A matrix is kept column-major (one [tcol] per trait: its stored values, location, scale), because every
    computation of the source is per trait; taxa-axis operations act on every column with the same list function.
    The square root of [nanstd] is not computed: the location and scale the implementation produced are
    arguments of the model ("given") and are checked against the exact [nanmean]/[nanvar] by [loc_ok]/[sc_ok].
    Definitions only. *)
From PV Require Import Lib.Common.
Local Open Scope Q_scope.

(** * NaN-propagating arithmetic *)
Definition oq := option Q.
(** every result is normalised with [Qred] (value-preserving: [Qred q == q]) so that histories stay cheap to evaluate *)
Definition olift2 (f : Q -> Q -> Q) (a b : oq) : oq :=
  match a, b with Some x, Some y => Some (Qred (f x y)) | _, _ => None end.
Definition oadd := olift2 Qplus.
Definition osub := olift2 Qminus.
Definition omul := olift2 Qmult.
(** [1.0 / scale]; a zero scale (numpy: inf) does not occur in states accepted by [sc_ok] and is not modelled *)
Definition oinv (a : oq) : oq := match a with Some x => Some (Qred (/ x)) | None => None end.
Definition is_none {A} (a : option A) : bool := match a with None => true | Some _ => false end.

(** observed (non-missing) values of a column *)
Fixpoint somes (c : list oq) : list Q :=
  match c with [] => [] | Some v :: t => v :: somes t | None :: t => somes t end.
(** all values if none is missing *)
Fixpoint allsome (c : list oq) : option (list Q) :=
  match c with
  | [] => Some []
  | None :: _ => None
  | Some v :: t => match allsome t with Some l => Some (v :: l) | None => None end
  end.

Definition qlen (v : list Q) : Q := inject_Z (Z.of_nat (length v)).
Definition sumQr (l : list Q) : Q := fold_right (fun x acc => Qred (x + acc)) 0 l.
Definition mean_q (v : list Q) : Q := Qred (sumQr v / qlen v).
Definition var_q (v : list Q) : Q := let m := mean_q v in Qred (sumQr (map (fun x => Qred ((x - m) * (x - m))) v) / qlen v).

(** numpy.nanmean / numpy.nanvar along the taxa axis: NaN when nothing was observed *)
Definition nanmean (c : list oq) : oq := match somes c with [] => None | v => Some (mean_q v) end.
Definition nanvar (c : list oq) : oq := match somes c with [] => None | v => Some (var_q v) end.
(** ndarray.mean / ndarray.var (not NaN-aware): NaN for an empty column or when a value is missing *)
Definition np_mean (c : list oq) : oq := match allsome c with Some (x :: t) => Some (mean_q (x :: t)) | _ => None end.
Definition np_var (c : list oq) : oq := match allsome c with Some (x :: t) => Some (var_q (x :: t)) | _ => None end.

(** * one trait column *)
Record tcol := mkcol { cdat : list oq; cloc : oq; csc : oq }.

(** from_numpy:  mat = (1.0 / scale) * (mat - location) *)
Definition col_from_numpy (raw : list oq) (l s : oq) : tcol :=
  mkcol (map (fun x => omul (oinv s) (osub x l)) raw) l s.
(** unscale():  scale * mat + location *)
Definition col_unscale (c : tcol) : list oq := map (fun m => oadd (omul (csc c) m) (cloc c)) (cdat c).

(** the given location / scale are acceptable for the raw column:
    location ~ nanmean;  scale = 1 exactly when the exact variance is 0 (scale[scale == 0.0] = 1.0), else scale > 0 and scale^2 ~ nanvar *)
Definition Qlt_bool (a b : Q) : bool := negb (Qle_bool b a).
Definition loc_ok (raw : list oq) (l : oq) : bool :=
  match nanmean raw, l with None, None => true | Some m, Some l => Qclose l m | _, _ => false end.
Definition sc_ok (raw : list oq) (s : oq) : bool :=
  match nanvar raw, s with
  | None, None => true
  | Some v, Some s => if Qeq_bool v 0 then Qeq_bool s 1 else Qlt_bool 0 s && Qclose (s * s) v
  | _, _ => false
  end.
Definition prm := (oq * oq)%type.       (* (location, scale) of one trait *)
Definition params_ok (raw : list (list oq)) (p : list prm) : bool :=
  Nat.eqb (length raw) (length p) && forallb (fun x => x) (map2 (fun c lp => loc_ok c (fst lp) && sc_ok c (snd lp)) raw p).

(** * statistics of one column; [None] = the numpy reduction raises (empty column), [Some None] = NaN *)
Fixpoint qmax_l (best : Q) (v : list Q) : Q := match v with [] => best | x :: t => qmax_l (if Qlt_bool best x then x else best) t end.
Fixpoint qmin_l (best : Q) (v : list Q) : Q := match v with [] => best | x :: t => qmin_l (if Qlt_bool x best then x else best) t end.
(** first index of the maximum / minimum *)
Fixpoint argmax_l (best : Q) (bi i : nat) (v : list Q) : nat :=
  match v with [] => bi | x :: t => if Qlt_bool best x then argmax_l x i (S i) t else argmax_l best bi (S i) t end.
Fixpoint argmin_l (best : Q) (bi i : nat) (v : list Q) : nat :=
  match v with [] => bi | x :: t => if Qlt_bool x best then argmin_l x i (S i) t else argmin_l best bi (S i) t end.
Fixpoint first_none (i : nat) (c : list oq) : option nat :=
  match c with [] => None | None :: _ => Some i | Some _ :: t => first_none (S i) t end.

Definition st_max (c : list oq) : option oq :=
  match c with [] => None | _ => Some (match allsome c with Some (x :: t) => Some (qmax_l x t) | _ => None end) end.
Definition st_min (c : list oq) : option oq :=
  match c with [] => None | _ => Some (match allsome c with Some (x :: t) => Some (qmin_l x t) | _ => None end) end.
(** numpy argmax/argmin: the first NaN wins *)
Definition st_argmax (c : list oq) : option nat :=
  match c with [] => None | _ =>
    match first_none 0 c with Some i => Some i | None => match allsome c with Some (x :: t) => Some (argmax_l x 0 1 t) | _ => Some 0%nat end end end.
Definition st_argmin (c : list oq) : option nat :=
  match c with [] => None | _ =>
    match first_none 0 c with Some i => Some i | None => match allsome c with Some (x :: t) => Some (argmin_l x 0 1 t) | _ => Some 0%nat end end end.

Definition omap {A B} (f : A -> B) (a : option A) : option B := match a with Some x => Some (f x) | None => None end.
(** tmax / tmin:  out = mat.max(0); if unscale: out *= scale; out += location *)
Definition c_max (u : bool) (c : tcol) : option oq :=
  omap (fun m => if u then oadd (omul m (csc c)) (cloc c) else m) (st_max (cdat c)).
Definition c_min (u : bool) (c : tcol) : option oq :=
  omap (fun m => if u then oadd (omul m (csc c)) (cloc c) else m) (st_min (cdat c)).
(** trange:  out = ptp(mat); if unscale: out *= scale *)
Definition c_range (u : bool) (c : tcol) : option oq :=
  match st_max (cdat c), st_min (cdat c) with
  | Some mx, Some mn => let r := osub mx mn in Some (if u then omul r (csc c) else r)
  | _, _ => None
  end.
(** tmean:  out = mat.mean(0); if unscale: out *= scale; out += location *)
Definition c_mean (u : bool) (c : tcol) : option oq :=
  Some (let m := np_mean (cdat c) in if u then oadd (omul m (csc c)) (cloc c) else m).
(** tvar:  out = mat.var(0); if unscale: out *= scale**2.   tstd is  mat.std(0) [* scale]: its square is the same value *)
Definition c_var (u : bool) (c : tcol) : option oq :=
  Some (let v := np_var (cdat c) in if u then omul v (omul (csc c) (csc c)) else v).
Definition c_argmax (c : tcol) : option nat := st_argmax (cdat c).
Definition c_argmin (c : tcol) : option nat := st_argmin (cdat c).

(** * numpy index functions on a list (one axis); [None] = IndexError / ValueError *)
Definition norm_ix (n : nat) (i : Z) : option nat :=
  let nz := Z.of_nat n in
  if ((0 <=? i) && (i <? nz))%Z then Some (Z.to_nat i)
  else if ((- nz <=? i) && (i <? 0))%Z then Some (Z.to_nat (i + nz)) else None.
Fixpoint norm_all (n : nat) (ix : list Z) : option (list nat) :=
  match ix with [] => Some [] | i :: t =>
    match norm_ix n i, norm_all n t with Some k, Some ks => Some (k :: ks) | _, _ => None end end.
(** numpy.take(a, ix) *)
Fixpoint take_nat {A} (xs : list A) (ks : list nat) : option (list A) :=
  match ks with [] => Some [] | k :: t =>
    match nth_error xs k, take_nat xs t with Some x, Some r => Some (x :: r) | _, _ => None end end.
Definition take_l {A} (xs : list A) (ix : list Z) : option (list A) :=
  match norm_all (length xs) ix with Some ks => take_nat xs ks | None => None end.
(** numpy.delete(a, ix): removes the set of positions *)
Fixpoint drop_ix {A} (i : nat) (ks : list nat) (xs : list A) : list A :=
  match xs with [] => [] | x :: t => if existsb (Nat.eqb i) ks then drop_ix (S i) ks t else x :: drop_ix (S i) ks t end.
Definition delete_l {A} (xs : list A) (ix : list Z) : option (list A) :=
  match norm_all (length xs) ix with Some ks => Some (drop_ix 0 ks xs) | None => None end.
(** numpy.insert(a, i, block): position in [-n, n] *)
Definition norm_pos (n : nat) (i : Z) : option nat :=
  let nz := Z.of_nat n in
  if ((0 <=? i) && (i <=? nz))%Z then Some (Z.to_nat i)
  else if ((- nz <=? i) && (i <? 0))%Z then Some (Z.to_nat (i + nz)) else None.
Definition insert_at {A} (xs : list A) (i : Z) (vs : list A) : option (list A) :=
  match norm_pos (length xs) i with Some k => Some (firstn k xs ++ vs ++ skipn k xs) | None => None end.
(** numpy.insert(a, [i1..ik], [v1..vk]): value j goes before original position ij, stable for equal positions *)
Fixpoint norm_pos_all (n : nat) (ix : list Z) : option (list nat) :=
  match ix with [] => Some [] | i :: t =>
    match norm_pos n i, norm_pos_all n t with Some k, Some ks => Some (k :: ks) | _, _ => None end end.
Fixpoint pick_at {A} (p : nat) (ks : list nat) (vs : list A) : list A :=
  match ks, vs with k :: kt, v :: vt => if Nat.eqb k p then v :: pick_at p kt vt else pick_at p kt vt | _, _ => [] end.
Fixpoint merge_ins {A} (p : nat) (ks : list nat) (vs : list A) (xs : list A) : list A :=
  match xs with
  | [] => pick_at p ks vs
  | x :: t => pick_at p ks vs ++ x :: merge_ins (S p) ks vs t
  end.
Definition insert_l {A} (xs : list A) (ix : list Z) (vs : list A) : option (list A) :=
  if Nat.eqb (length ix) (length vs) then
    match norm_pos_all (length xs) ix with Some ks => Some (merge_ins 0 ks vs xs) | None => None end
  else None.

Inductive idx := IInt (i : Z) | IList (l : list Z).
Definition delete_any {A} (xs : list A) (o : idx) : option (list A) :=
  match o with IInt i => delete_l xs [i] | IList l => delete_l xs l end.
Definition insert_any {A} (xs : list A) (o : idx) (vs : list A) : option (list A) :=
  match o with IInt i => insert_at xs i vs | IList l => insert_l xs l vs end.

(** * matrices *)
(** raw-level state: the data a matrix stands for — raw columns, number of taxa, labels (a missing label is -1) *)
Record rawst := mkraw { r_cols : list (list oq); r_n : nat; r_taxa : option (list Z); r_grp : option (list Z) }.
Record bv := mkbv { bcols : list tcol; bn : nat; btaxa : option (list Z); bgrp : option (list Z) }.

Definition label_len_ok (n : nat) (l : option (list Z)) : bool := match l with None => true | Some x => Nat.eqb (length x) n end.
(** from_numpy + the constructor's label-length checks *)
Definition from_numpy (r : rawst) (p : list prm) : option bv :=
  if label_len_ok (r_n r) (r_taxa r) && label_len_ok (r_n r) (r_grp r) && Nat.eqb (length (r_cols r)) (length p)
  then Some (mkbv (map2 (fun c lp => col_from_numpy c (fst lp) (snd lp)) (r_cols r) p) (r_n r) (r_taxa r) (r_grp r))
  else None.
Definition unscale (b : bv) : rawst := mkraw (map col_unscale (bcols b)) (bn b) (btaxa b) (bgrp b).

(** operand of insert / adjoin / append / incorp *)
Record operand := mkopd {
  o_cols : list (list oq);            (* raw values, column-major *)
  o_k : nat;                          (* number of rows *)
  o_bv : option (list prm);           (* Some p: passed as a matrix built by from_numpy (its given parameters); None: ndarray *)
  o_isinst : bool;                    (* isinstance(values, self.__class__) *)
  o_vtaxa : option (list Z); o_vgrp : option (list Z);       (* labels of a matrix operand *)
  o_ataxa : option (list Z); o_agrp : option (list Z) }.     (* explicit taxa= / taxa_grp= arguments *)

Definition opd_cols (o : operand) : list tcol :=
  match o_bv o with Some p => map2 (fun c lp => col_from_numpy c (fst lp) (snd lp)) (o_cols o) p | None => [] end.
(** values.unscale() of a matrix operand, the array itself otherwise *)
Definition opd_unscaled (o : operand) : list (list oq) :=
  match o_bv o with Some _ => map col_unscale (opd_cols o) | None => o_cols o end.
(** values.mat of a matrix operand (what the in-place operations take), the array itself otherwise *)
Definition opd_stored (o : operand) : list (list oq) :=
  match o_bv o with Some _ => map cdat (opd_cols o) | None => o_cols o end.
Definition opd_raw (o : operand) : list (list oq) := o_cols o.
Definition opd_params_ok (o : operand) : bool :=
  match o_bv o with Some p => params_ok (o_cols o) p | None => true end.

Definition orelse {A} (a b : option A) : option A := match a with Some _ => a | None => b end.
(** all columns through the same list function *)
Fixpoint all_some {A} (l : list (option A)) : option (list A) :=
  match l with [] => Some [] | Some x :: t => omap (cons x) (all_some t) | None :: _ => None end.
Definition map_cols {A} (f : list A -> option (list A)) (cols : list (list A)) : option (list (list A)) := all_some (map f cols).
Definition map2_cols {A} (f : list A -> list A -> option (list A)) (a b : list (list A)) : option (list (list A)) :=
  if Nat.eqb (length a) (length b) then all_some (map2 f a b) else None.
Definition olabels (f : list Z -> option (list Z)) (l : option (list Z)) : option (option (list Z)) :=
  match l with None => Some None | Some x => omap Some (f x) end.

(** label handling shared by adjoin_taxa / insert_taxa (copy) — [join] is append or insert.
    Returns the taxa / taxa_grp handed to from_numpy, or None when the source raises. *)
Definition copy_labels (self_taxa self_grp : option (list Z)) (o : operand) (join : list Z -> list Z -> option (list Z))
  : option (option (list Z) * option (list Z)) :=
  let taxa := match o_bv o with Some _ => orelse (o_ataxa o) (o_vtaxa o) | None => o_ataxa o end in
  let grp := match o_bv o with Some _ => orelse (o_agrp o) (o_vgrp o) | None => o_agrp o end in
  let taxa := match self_taxa, taxa with Some _, None => Some (repeat (-1)%Z (o_k o)) | _, _ => taxa end in
  match self_grp, grp with
  | Some _, None => None                                       (* TypeError: taxa_grp argument is required *)
  | _, _ =>
    let t' := match self_taxa, taxa with Some st, Some tx => omap Some (join st tx) | _, _ => Some taxa end in
    let g' := match self_grp, grp with Some sg, Some gx => omap Some (join sg gx) | _, _ => Some grp end in
    match t', g' with Some t'', Some g'' => Some (t'', g'') | _, _ => None end
  end.
(** label handling of the in-place append_taxa / incorp_taxa: labels of an unlabelled self stay absent *)
Definition inplace_labels (self_taxa self_grp : option (list Z)) (o : operand) (join : list Z -> list Z -> option (list Z))
  : option (option (list Z) * option (list Z)) :=
  let taxa := match o_bv o with Some _ => orelse (o_ataxa o) (o_vtaxa o) | None => o_ataxa o end in
  let grp := match o_bv o with Some _ => orelse (o_agrp o) (o_vgrp o) | None => o_agrp o end in
  let taxa := match self_taxa, taxa with Some _, None => Some (repeat (-1)%Z (o_k o)) | _, _ => taxa end in
  match self_grp, grp with
  | Some _, None => None
  | _, _ =>
    let t' := match self_taxa, taxa with Some st, Some tx => omap Some (join st tx) | _, _ => Some None end in
    let g' := match self_grp, grp with Some sg, Some gx => omap Some (join sg gx) | _, _ => Some None end in
    match t', g' with Some t'', Some g'' => Some (t'', g'') | _, _ => None end
  end.

(** a matrix handed to concat_taxa besides self *)
Record part := mkpart { p_cols : list (list oq); p_n : nat; p_prm : list prm; p_taxa : option (list Z); p_grp : option (list Z) }.

Inductive op :=
| OSelect (ix : list Z)
| ODelete (o : idx)
| OInsert (o : idx) (v : operand)
| OAdjoin (v : operand)
| ORemove (o : idx)                      (* in place, remove_taxa *)
| OAppend (v : operand)                  (* in place, append_taxa *)
| OIncorp (o : idx) (v : operand)        (* in place, incorp_taxa *)
| OConcat (all_inst : bool) (before after : list part).
    (* cls.concat_taxa(before ++ [self] ++ after); all_inst: every matrix is an instance of cls (else TypeError) *)

Definition app_opt {A} (a b : list A) : option (list A) := Some (a ++ b).
Definition operand_usable (o : operand) : bool := match o_bv o with Some _ => o_isinst o | None => true end.
Definition new_n (f : list unit -> option (list unit)) (n : nat) : option nat := omap (@length unit) (f (repeat tt n)).

Definition zero_one (c : list oq) : tcol := mkcol c (Some 0) (Some 1).
Definition part_cols (p : part) : list tcol := map2 (fun c lp => col_from_numpy c (fst lp) (snd lp)) (p_cols p) (p_prm p).
Definition concat_labels (ls : list (nat * option (list Z))) (fill : bool) : option (option (list Z)) :=
  if forallb (fun x => is_none (snd x)) ls then Some None
  else if fill then Some (Some (flat_map (fun x => match snd x with Some l => l | None => repeat (-1)%Z (fst x) end) ls))
  else if existsb (fun x => is_none (snd x)) ls then None            (* ValueError: taxa_grp needed for all *)
  else Some (Some (flat_map (fun x => match snd x with Some l => l | None => [] end) ls)).
Fixpoint concat_cols (t : nat) (ms : list (list (list oq))) : list (list oq) :=
  match ms with [] => repeat [] t | m :: rest => map2 (@app oq) m (concat_cols t rest) end.

(** the constructor's label checks: taxa / taxa_grp must have one entry per taxon *)
Definition chk (r : rawst) : option rawst :=
  if label_len_ok (r_n r) (r_taxa r) && label_len_ok (r_n r) (r_grp r) then Some r else None.

(** concat_taxa on matrices given as (columns, number of taxa, taxa, taxa_grp): equal trait counts, labels joined
    (missing taxa filled with None, taxa_grp needed for all or none), values concatenated, constructor checks *)
Definition cmat := (list (list oq) * nat * option (list Z) * option (list Z))%type.
Definition concat_raw (t : nat) (ms : list cmat) : option rawst :=
  if forallb (fun m : cmat => Nat.eqb (length (fst (fst (fst m)))) t) ms then
    match concat_labels (map (fun m : cmat => (snd (fst (fst m)), snd (fst m))) ms) true,
          concat_labels (map (fun m : cmat => (snd (fst (fst m)), snd m)) ms) false with
    | Some tx, Some gp => chk (mkraw (concat_cols t (map (fun m : cmat => fst (fst (fst m))) ms))
                                     (fold_right Nat.add 0%nat (map (fun m : cmat => snd (fst (fst m))) ms)) tx gp)
    | _, _ => None end
  else None.

(** ** raw-level effect of every taxa-axis operation: the list operation applied to every raw column and to the labels.
       [vals] / [pvals] say which values an operand / a matrix handed to concat_taxa contributes: the specification uses
       their raw values, the model of the source what [values.unscale()] / [m.unscale()] computes.
       The copy-on-manipulation operations and concat_taxa build the result through the constructor (label-length checks, [chk]);
       the in-place operations assign the label arrays directly. *)
Definition raw_step (vals : operand -> list (list oq)) (pvals : part -> list (list oq)) (r : rawst) (o : op) : option rawst :=
  match o with
  | OSelect ix =>
      match map_cols (fun c => take_l c ix) (r_cols r), olabels (fun l => take_l l ix) (r_taxa r), olabels (fun l => take_l l ix) (r_grp r), new_n (fun l => take_l l ix) (r_n r) with
      | Some c, Some t, Some g, Some n => chk (mkraw c n t g) | _, _, _, _ => None end
  | ODelete ob | ORemove ob =>
      match map_cols (fun c => delete_any c ob) (r_cols r), olabels (fun l => delete_any l ob) (r_taxa r), olabels (fun l => delete_any l ob) (r_grp r), new_n (fun l => delete_any l ob) (r_n r) with
      | Some c, Some t, Some g, Some n => chk (mkraw c n t g) | _, _, _, _ => None end
  | OInsert ob v =>
      if operand_usable v then
        match map2_cols (fun c x => insert_any c ob x) (r_cols r) (vals v), copy_labels (r_taxa r) (r_grp r) v (fun a b => insert_any a ob b),
              new_n (fun l => insert_any l ob (repeat tt (o_k v))) (r_n r) with
        | Some c, Some (t, g), Some n => chk (mkraw c n t g) | _, _, _ => None end
      else None
  | OAdjoin v =>
      if operand_usable v then
        match map2_cols app_opt (r_cols r) (vals v), copy_labels (r_taxa r) (r_grp r) v app_opt with
        | Some c, Some (t, g) => chk (mkraw c (r_n r + o_k v) t g) | _, _ => None end
      else None
  | OIncorp ob v =>
      if operand_usable v then
        match map2_cols (fun c x => insert_any c ob x) (r_cols r) (vals v), inplace_labels (r_taxa r) (r_grp r) v (fun a b => insert_any a ob b),
              new_n (fun l => insert_any l ob (repeat tt (o_k v))) (r_n r) with
        | Some c, Some (t, g), Some n => Some (mkraw c n t g) | _, _, _ => None end
      else None
  | OAppend v =>
      if operand_usable v then
        match map2_cols app_opt (r_cols r) (vals v), inplace_labels (r_taxa r) (r_grp r) v app_opt with
        | Some c, Some (t, g) => Some (mkraw c (r_n r + o_k v) t g) | _, _ => None end
      else None
  | OConcat all_inst before after =>
      if all_inst then
        concat_raw (length (r_cols r))
          (map (fun q => (pvals q, p_n q, p_taxa q, p_grp q)) before ++ [(r_cols r, r_n r, r_taxa r, r_grp r)]
           ++ map (fun q => (pvals q, p_n q, p_taxa q, p_grp q)) after)
      else None
  end.

(** m.unscale() of a matrix handed to concat_taxa *)
Definition part_unscaled (q : part) : list (list oq) := map col_unscale (part_cols q).
(** re-standardisation of raw values: from_numpy(mat) with the location/scale the implementation produced;
    the labels were either checked by the constructor ([chk] inside [raw_step]) or assigned in place *)
Definition restd (r : rawst) (p : list prm) : option bv :=
  if Nat.eqb (length (r_cols r)) (length p)
  then Some (mkbv (map2 (fun c lp => col_from_numpy c (fst lp) (snd lp)) (r_cols r) p) (r_n r) (r_taxa r) (r_grp r))
  else None.
(** one operation of the source; [p] = the location/scale the implementation produced for the result.
    Every operation has the same shape: unscale self (and a matrix operand / the other matrices), apply the numpy list
    operation to the unscaled values and the labels, re-standardise.
    select/delete/insert/adjoin:  cls.from_numpy(numpy.xxx(self.unscale(), ...), taxa, taxa_grp);
    remove/append/incorp:  self._mat = self.unscale(); DenseTaxaMatrix.xxx_taxa(self, ...); self._restandardize(self._mat);
    concat:  out = DenseTaxaMatrix.concat_taxa(mats, location = 0, scale = 1); out._restandardize(concatenate(m.unscale())) *)
Definition step (b : bv) (o : op) (p : list prm) : option bv :=
  match raw_step opd_unscaled part_unscaled (unscale b) o with Some r => restd r p | None => None end.

(** the given parameters of a from_numpy-based step are acceptable for the raw matrix it is applied to *)
Definition op_operand (o : op) : option operand :=
  match o with OInsert _ v | OAdjoin v | OAppend v | OIncorp _ v => Some v | _ => None end.
Definition op_parts (o : op) : list part := match o with OConcat _ before after => before ++ after | _ => [] end.
Definition step_ok (b : bv) (o : op) (p : list prm) : bool :=
  match op_operand o with Some v => opd_params_ok v | None => true end &&
  forallb (fun q => params_ok (p_cols q) (p_prm q)) (op_parts o) &&
  match raw_step opd_unscaled part_unscaled (unscale b) o with Some r => params_ok (r_cols r) p | None => true end.

(** specification of a history at the raw level: failing operations leave the state unchanged *)
Definition spec_step (r : rawst) (o : op) : rawst := match raw_step opd_raw p_cols r o with Some r' => r' | None => r end.
Definition run_spec (r : rawst) (ops : list op) : rawst := fold_left spec_step ops r.
Fixpoint run (b : bv) (ops : list (op * list prm)) : bv :=
  match ops with [] => b | (o, p) :: t => run (match step b o p with Some b' => b' | None => b end) t end.
Fixpoint run_ok (b : bv) (ops : list (op * list prm)) : bool :=
  match ops with [] => true | (o, p) :: t => step_ok b o p && run_ok (match step b o p with Some b' => b' | None => b end) t end.

(** * DenseScaledMatrix: transform / untransform / unscale / rescale on one column *)
(** out -= location; out *= (1.0 / scale) *)
Definition col_transform (c : tcol) (m : list oq) : list oq := map (fun x => omul (osub x (cloc c)) (oinv (csc c))) m.
(** out *= scale; out += location *)
Definition col_untransform (c : tcol) (m : list oq) : list oq := map (fun x => oadd (omul x (csc c)) (cloc c)) m.
Definition col_unscale_ip (c : tcol) : tcol := mkcol (col_untransform c (cdat c)) (Some 0) (Some 1).
Definition col_rescale (c : tcol) (l s : oq) : tcol :=
  mkcol (map (fun x => omul (osub x l) (oinv s)) (col_untransform c (cdat c))) l s.

(** * comparison of a model state with what the implementation returned (regime T; patterns, labels, indices exact) *)
Fixpoint all2b {A B} (f : A -> B -> bool) (l1 : list A) (l2 : list B) : bool :=
  match l1, l2 with [], [] => true | x :: t1, y :: t2 => f x y && all2b f t1 t2 | _, _ => false end.
Definition oclose (impl model : oq) : bool :=
  match impl, model with Some a, Some b => Qclose a b | None, None => true | _, _ => false end.
Definition ocl_l := list_eqb oclose.
Definition ocl_ll := list_eqb ocl_l.
Definition oexact (a b : oq) : bool := match a, b with Some x, Some y => Qeq_bool x y | None, None => true | _, _ => false end.
Definition oex_l := list_eqb oexact.
Definition ozl_eqb (a b : option (list Z)) : bool := opt_eqb zl_eqb a b.
(** a statistic over all traits: the implementation raised (None) iff the model raises for every trait *)
Definition stat_agree (cmp : oq -> oq -> bool) (impl : option (list oq)) (model : list (option oq)) : bool :=
  match impl with
  | None => forallb is_none model && negb (Nat.eqb (length model) 0)
  | Some l => all2b (fun a m => match m with Some v => cmp a v | None => false end) l model
  end.
(** tstd against the model variance: non-negative and square close *)
Definition std_close (impl model : oq) : bool :=
  match impl, model with Some a, Some v => Qle_bool 0 a && Qclose (a * a) v | None, None => true | _, _ => false end.
(** arg-extremum: exact index when [strict]; otherwise any index carrying the extreme model value (ties may be broken by
    rounding once values come from different sources); a missing value always wins at its first position *)
Definition arg_agree (strict is_max : bool) (impl : option (list Z)) (cols : list tcol) : bool :=
  match impl with
  | None => forallb (fun c => is_none (c_argmax c)) cols && negb (Nat.eqb (length cols) 0)
  | Some l => all2b (fun (i : Z) c =>
      match (if is_max then c_argmax c else c_argmin c) with
      | None => false
      | Some k =>
          if strict || negb (is_none (first_none 0 (cdat c))) then Z.eqb i (Z.of_nat k)
          else (0 <=? i)%Z && oexact (nth (Z.to_nat i) (cdat c) None) (nth k (cdat c) None) && negb (is_none (nth (Z.to_nat i) (cdat c) None))
      end) l cols
  end.

Record snap := mksnap {
  s_mat : list (list oq); s_loc : list oq; s_sc : list oq; s_uns : list (list oq);
  s_taxa : option (list Z); s_grp : option (list Z); s_n : nat;
  s_max0 : option (list oq); s_max1 : option (list oq); s_min0 : option (list oq); s_min1 : option (list oq);
  s_mean0 : option (list oq); s_mean1 : option (list oq); s_rng0 : option (list oq); s_rng1 : option (list oq);
  s_std0 : option (list oq); s_std1 : option (list oq); s_var0 : option (list oq); s_var1 : option (list oq);
  s_amax : option (list Z); s_amin : option (list Z) }.

Definition agree_state (strict : bool) (b : bv) (s : snap) : bool :=
  let cs := bcols b in
  ocl_ll (s_mat s) (map cdat cs) && oex_l (s_loc s) (map cloc cs) && oex_l (s_sc s) (map csc cs)
  && ocl_ll (s_uns s) (map col_unscale cs)
  && ozl_eqb (s_taxa s) (btaxa b) && ozl_eqb (s_grp s) (bgrp b) && Nat.eqb (s_n s) (bn b)
  && forallb (fun c => Nat.eqb (length (cdat c)) (bn b)) cs
  && stat_agree oclose (s_max0 s) (map (c_max false) cs) && stat_agree oclose (s_max1 s) (map (c_max true) cs)
  && stat_agree oclose (s_min0 s) (map (c_min false) cs) && stat_agree oclose (s_min1 s) (map (c_min true) cs)
  && stat_agree oclose (s_mean0 s) (map (c_mean false) cs) && stat_agree oclose (s_mean1 s) (map (c_mean true) cs)
  && stat_agree oclose (s_rng0 s) (map (c_range false) cs) && stat_agree oclose (s_rng1 s) (map (c_range true) cs)
  && stat_agree std_close (s_std0 s) (map (c_var false) cs) && stat_agree std_close (s_std1 s) (map (c_var true) cs)
  && stat_agree oclose (s_var0 s) (map (c_var false) cs) && stat_agree oclose (s_var1 s) (map (c_var true) cs)
  && arg_agree strict true (s_amax s) cs && arg_agree strict false (s_amin s) cs.

Inductive obs := ObsErr | ObsOk (s : snap).
(** a whole history: every step must fail in both or succeed in both, with acceptable parameters and agreeing states *)
Fixpoint run_check (b : bv) (l : list (op * list prm * obs)) : bool :=
  match l with
  | [] => true
  | (o, p, ob) :: t =>
      match step b o p, ob with
      | None, ObsErr => run_check b t
      | Some b', ObsOk s => step_ok b o p && agree_state false b' s && run_check b' t
      | _, _ => false
      end
  end.
Definition case_check (r : rawst) (p : list prm) (s0 : obs) (l : list (op * list prm * obs)) : bool :=
  match from_numpy r p, s0 with
  | Some b, ObsOk s => params_ok (r_cols r) p && agree_state true b s && run_check b l
  | None, ObsErr => true
  | _, _ => false
  end.

(** a matrix built by the constructor from stored values with given location / scale (nothing is standardised): the statistics,
    unscale() and every later operation must agree all the same *)
Definition case_check_direct (b : bv) (s0 : obs) (l : list (op * list prm * obs)) : bool :=
  match s0 with ObsOk s => agree_state true b s && run_check b l | ObsErr => false end.

(** DenseScaledMatrix histories *)
Inductive sop :=
| STransform (m : list (list oq)) | SUntransform (m : list (list oq))
| SUnscale (inplace : bool) | SRescale (inplace : bool) (p : list prm).
Definition sstep (cs : list tcol) (o : sop) : list tcol * list (list oq) :=   (* new state, returned array *)
  match o with
  | STransform m => (cs, map2 col_transform cs m)
  | SUntransform m => (cs, map2 col_untransform cs m)
  | SUnscale ip => let r := map col_unscale_ip cs in (if ip then r else cs, map cdat r)
  | SRescale ip p => let r := map2 (fun c lp => col_rescale c (fst lp) (snd lp)) cs p in (if ip then r else cs, map cdat r)
  end.
Definition sstep_ok (cs : list tcol) (o : sop) : bool :=
  match o with SRescale _ p => params_ok (map (fun c => col_untransform c (cdat c)) cs) p | _ => true end.
Definition sagree (cs : list tcol) (mat : list (list oq)) (loc sc : list oq) : bool :=
  ocl_ll mat (map cdat cs) && oex_l loc (map cloc cs) && oex_l sc (map csc cs).
Fixpoint srun_check (cs : list tcol) (l : list (sop * (list (list oq) * (list (list oq) * (list oq * list oq))))) : bool :=
  match l with
  | [] => true
  | (o, (ret, (mat, (loc, sc)))) :: t =>
      let '(cs', r) := sstep cs o in
      sstep_ok cs o && ocl_ll ret r && sagree cs' mat loc sc && srun_check cs' t
  end.

(** * FORMER code (before the repairs 6f07c8f2, 9b536cae, 22175af7) — regression witnesses only, not used by the correspondence *)
(** tmean:  location if unscale else mat.mean(0) *)
Definition old_c_mean (u : bool) (c : tcol) : option oq := Some (if u then cloc c else np_mean (cdat c)).
(** the in-place operations and concat_taxa as inherited from DenseTaxaMatrix: they edit / glue the stored values;
    the flag of [OConcat] meant "cls is the base class and every matrix is an instance" *)
Definition old_step (b : bv) (o : op) (p : list prm) : option bv :=
  match o with
  | OSelect _ | ODelete _ | OInsert _ _ | OAdjoin _ => step b o p
  | ORemove ob =>
      (* self._mat = numpy.delete(self._mat, obj); location and scale untouched *)
      match map_cols (fun c => delete_any c ob) (map cdat (bcols b)), olabels (fun l => delete_any l ob) (btaxa b), olabels (fun l => delete_any l ob) (bgrp b),
            new_n (fun l => delete_any l ob) (bn b) with
      | Some c, Some t, Some g, Some n => Some (mkbv (map2 (fun d old => mkcol d (cloc old) (csc old)) c (bcols b)) n t g)
      | _, _, _, _ => None end
  | OAppend v =>
      if operand_usable v then
        match map2_cols app_opt (map cdat (bcols b)) (opd_stored v), inplace_labels (btaxa b) (bgrp b) v app_opt with
        | Some c, Some (t, g) => Some (mkbv (map2 (fun d old => mkcol d (cloc old) (csc old)) c (bcols b)) (bn b + o_k v) t g)
        | _, _ => None end
      else None
  | OIncorp ob v =>
      if operand_usable v then
        match map2_cols (fun c x => insert_any c ob x) (map cdat (bcols b)) (opd_stored v), inplace_labels (btaxa b) (bgrp b) v (fun a b => insert_any a ob b),
              new_n (fun l => insert_any l ob (repeat tt (o_k v))) (bn b) with
        | Some c, Some (t, g), Some n => Some (mkbv (map2 (fun d old => mkcol d (cloc old) (csc old)) c (bcols b)) n t g)
        | _, _, _ => None end
      else None
  | OConcat base before after =>
      (* cls(mat = concatenate([m.mat ...]), taxa, taxa_grp, trait): location 0.0, scale 1.0 for the base class;
         the subclasses' constructors require location and scale: TypeError *)
      if base then
        let ms := map (fun q => (map cdat (part_cols q), p_n q, p_taxa q, p_grp q)) before
                  ++ [(map cdat (bcols b), bn b, btaxa b, bgrp b)]
                  ++ map (fun q => (map cdat (part_cols q), p_n q, p_taxa q, p_grp q)) after in
        let t := length (bcols b) in
        if forallb (fun m => Nat.eqb (length (fst (fst (fst m)))) t) ms then
          match concat_labels (map (fun m => (snd (fst (fst m)), snd (fst m))) ms) true,
                concat_labels (map (fun m => (snd (fst (fst m)), snd m)) ms) false with
          | Some tx, Some gp =>
              Some (mkbv (map zero_one (concat_cols t (map (fun m => fst (fst (fst m))) ms)))
                         (fold_right Nat.add 0%nat (map (fun m => snd (fst (fst m))) ms)) tx gp)
          | _, _ => None end
        else None
      else None
  end.
