(** C13 — executable model (exact rationals) of the relationship-matrix code
      pybrops/popgen/cmat/DenseMolecularCoancestryMatrix.py        (from_gmat)
      pybrops/popgen/cmat/DenseVanRadenCoancestryMatrix.py         (from_gmat)
      pybrops/popgen/cmat/DenseYangCoancestryMatrix.py             (from_gmat)
      pybrops/popgen/cmat/DenseGeneralizedWeightedCoancestryMatrix.py (from_gmat)
      pybrops/popgen/cmat/DenseCoancestryMatrix.py  (mat_asformat, coancestry, kinship, max/min/mean,
                                                     max_inbreeding, min_inbreeding, inverse, is_positive_semidefinite)
    A genotype matrix is its per-taxon allele-count table [X] (n rows of m counts, what [gmat.tacount()] returns),
    its ploidy, and its labels.  Where the source divides by a float zero (numpy: inf/nan, no exception) the model
    answers [RNonfinite]; where it raises, [RErr].  Definitions only. *)
From Coq Require Import Qround.
From PV Require Import Lib.Common.
Local Open Scope Q_scope.

(** sums that keep the running total in lowest terms ([Qred q == q]: same value, far cheaper inside Coq) *)
Definition sumQr (l : list Q) : Q := fold_right (fun x acc => Qred (x + acc)) 0 l.
Definition dotQr (a b : list Q) : Q := sumQr (map2 Qmult a b).

(** ** outcomes *)
Inductive res (A : Type) := ROk (a : A) | RNonfinite | RErr (e : err).
Arguments ROk {A} a. Arguments RNonfinite {A}. Arguments RErr {A} e.

(** the optional reference-frequency / marker-weight argument: None, a scalar, or an array *)
Inductive oarg := ANone | AScalar (q : Q) | AArr (l : list Q).

(** ** genotype side *)
(** phased matrix (list of phases, each n x m) -> allele counts: mat.sum(phase_axis) *)
Definition zmadd (a b : list (list Z)) : list (list Z) := map2 (map2 Z.add) a b.
Definition tacount_ph (n m : nat) (ph : list (list (list Z))) : list (list Z) :=
  fold_right zmadd (repeat (repeat 0%Z m) n) ph.

Definition ntaxaZ (X : list (list Z)) : Z := Z.of_nat (length X).

(** gmat.afreq(): column sums / (ploidy * ntaxa) *)
Definition afreq_est (ploidy : Z) (m : nat) (X : list (list Z)) : list Q :=
  map (fun c => Zq c / Zq (ploidy * ntaxaZ X)) (colsumsZ m X).

Definition in01 (q : Q) : bool := Qle_bool 0 q && Qle_bool q 1.

(** p_anc / afreq argument handling (identical in VanRaden, Yang, weighted):
    None -> estimate; ndarray -> length check then range check; Real -> range check then broadcast *)
Definition resolve_freq (ploidy : Z) (m : nat) (X : list (list Z)) (a : oarg) : res (list Q) :=
  match a with
  | ANone => ROk (afreq_est ploidy m X)
  | AArr l => if negb (Nat.eqb (length l) m) then RErr EValue
              else if forallb in01 l then ROk l else RErr EValue
  | AScalar q => if in01 q then ROk (repeat q m) else RErr EValue
  end.

(** mkrwt argument: None -> ones; ndarray -> length check only (no sign check in the source);
    Real -> must be >= 0 *)
Definition resolve_wt (m : nat) (a : oarg) : res (list Q) :=
  match a with
  | ANone => ROk (repeat 1 m)
  | AArr l => if negb (Nat.eqb (length l) m) then RErr EValue else ROk l
  | AScalar q => if Qle_bool 0 q then ROk (repeat q m) else RErr EValue
  end.

(** Z = X - ploidy * p   (row-wise) *)
Definition center_row (c : Q) (p : list Q) (row : list Z) : list Q := map2 (fun x pk => Zq x - pk * c) row p.
Definition center (c : Q) (p : list Q) (X : list (list Z)) : list (list Q) := map (center_row c p) X.

(** ** the four estimators *)
(** entries are put in lowest terms (value-preserving: [Qred q == q]); keeps the evaluation inside Coq cheap *)
Definition qred_mat (G : list (list Q)) : list (list Q) := map (map Qred) G.

(** generalised weighted: G = (Z * w) Z'  *)
Definition gw_entry (w zi zj : list Q) : Q := dotQr (map2 Qmult zi w) zj.
Definition gw_mat (w : list Q) (Zm : list (list Q)) : list (list Q) :=
  map (fun zi => map (fun zj => gw_entry w zi zj) Zm) Zm.
Definition gw_from_gmat (ploidy : Z) (m : nat) (X : list (list Z)) (mkrwt afreq : oarg) : res (list (list Q)) :=
  match resolve_wt m mkrwt with
  | RErr e => RErr e | RNonfinite => RNonfinite
  | ROk w =>
    match resolve_freq ploidy m X afreq with
    | RErr e => RErr e | RNonfinite => RNonfinite
    | ROk p => ROk (qred_mat (gw_mat w (center (Zq ploidy) p X)))
    end
  end.

(** VanRaden: G = ZZ' / (ploidy * sum p(1-p)) *)
Definition het_sum (p : list Q) : Q := dotQr p (map (fun pk => 1 - pk) p).
Definition vr_mat (c : Q) (p : list Q) (Zm : list (list Q)) : list (list Q) :=
  let s := 1 / (c * het_sum p) in
  map (fun zi => map (fun zj => s * dotQr zi zj) Zm) Zm.
Definition vr_from_gmat (ploidy : Z) (m : nat) (X : list (list Z)) (p_anc : oarg) : res (list (list Q)) :=
  match resolve_freq ploidy m X p_anc with
  | RErr e => RErr e | RNonfinite => RNonfinite
  | ROk p =>
    if Qeq_bool (Zq ploidy * het_sum p) 0 then RNonfinite      (* 1.0 / 0.0 -> inf, inf * ZZ' -> inf/nan *)
    else ROk (qred_mat (vr_mat (Zq ploidy) p (center (Zq ploidy) p X)))
  end.

(** Yang: every column scaled by 1/sqrt(ploidy p (1-p)), G = ZZ'/m.  No square root in the model:
    G_ij = (1/m) sum_k Z_ik Z_jk / (ploidy p_k (1-p_k)) *)
Definition yang_den (c : Q) (p : list Q) : list Q := map (fun pk => c * pk * (1 - pk)) p.
Definition yang_entry (d zi zj : list Q) : Q := sumQr (map2 Qdiv (map2 Qmult zi zj) d).
Definition yang_mat (m : nat) (d : list Q) (Zm : list (list Q)) : list (list Q) :=
  map (fun zi => map (fun zj => (1 / Zq (Z.of_nat m)) * yang_entry d zi zj) Zm) Zm.
Definition yang_from_gmat (ploidy : Z) (m : nat) (X : list (list Z)) (p_anc : oarg) : res (list (list Q)) :=
  match resolve_freq ploidy m X p_anc with
  | RErr e => RErr e | RNonfinite => RNonfinite
  | ROk p =>
    if Nat.eqb m 0 then RErr EOther                               (* 1.0 / gmat.nvrnt : ZeroDivisionError *)
    else let d := yang_den (Zq ploidy) p in
         if existsb (fun x => Qeq_bool x 0) d then RNonfinite     (* 1/sqrt(0) = inf *)
         else ROk (qred_mat (yang_mat m d (center (Zq ploidy) p X)))
  end.

(** molecular: ploidy 1: (2/m)(XX' + YY'), Y = 1 - X;   ploidy 2: 1 + XX'/m with X in {-1,0,1} *)
Definition mol_hap_mat (m : nat) (X : list (list Z)) : list (list Q) :=
  let Y := map (map (fun x => (1 - x)%Z)) X in
  map2 (fun xi yi => map2 (fun xj yj => (2 * (1 / Zq (Z.of_nat m))) * Zq (dotZ xi xj + dotZ yi yj)) X Y) X Y.
Definition mol_dip_mat (m : nat) (X : list (list Z)) : list (list Q) :=
  let X1 := map (map (fun x => (x - 1)%Z)) X in
  map (fun xi => map (fun xj => 1 + (1 / Zq (Z.of_nat m)) * Zq (dotZ xi xj)) X1) X1.
Definition mol_from_gmat (ploidy : Z) (m : nat) (X : list (list Z)) : res (list (list Q)) :=
  if Nat.eqb m 0 then RErr EOther                                 (* 1.0 / gmat.nvrnt *)
  else if Z.eqb ploidy 1 then ROk (qred_mat (mol_hap_mat m X))
  else if Z.eqb ploidy 2 then ROk (qred_mat (mol_dip_mat m X))
  else RErr EOther.                                               (* RuntimeError: ploidy not supported *)

(** identity by state, the definition the molecular matrix is compared with (phased 0/1 alleles):
    probability that an allele drawn from taxon i and one drawn from taxon j are equal, at one locus *)
Definition ibs_locus (ai aj : list Z) : Q :=
  Zq (sumZ (map (fun a => sumZ (map (fun b => if Z.eqb a b then 1%Z else 0%Z) aj)) ai))
  / Zq (Z.of_nat (length ai) * Z.of_nat (length aj)).

(** ** the matrix object: values + labels *)
Record cmat := { cm_mat : list (list Q); cm_taxa : option (list String.string); cm_grp : option (list Z) }.
Definition with_labels (taxa : option (list String.string)) (grp : option (list Z)) (r : res (list (list Q))) : res cmat :=
  match r with ROk G => ROk {| cm_mat := G; cm_taxa := taxa; cm_grp := grp |} | RNonfinite => RNonfinite | RErr e => RErr e end.

(** taxa selection on the genotype side (rows + labels) and on the relationship side (rows and columns) *)
Definition select {A} (d : A) (ix : list nat) (l : list A) : list A := map (fun i => nth i l d) ix.
Definition select_opt {A} (d : A) (ix : list nat) (l : option (list A)) : option (list A) :=
  match l with Some x => Some (select d ix x) | None => None end.
Definition select2 (ix : list nat) (G : list (list Q)) : list (list Q) :=
  map (fun i => map (fun j => nth j (nth i G []) 0) ix) ix.

(** ** views and summaries (DenseCoancestryMatrix) *)
Inductive fmt := Coancestry | Kinship.
Definition half (f : fmt) (x : Q) : Q := match f with Coancestry => x | Kinship => (1 # 2) * x end.
Definition mat_asformat (f : fmt) (G : list (list Q)) : list (list Q) := map (map (half f)) G.
Definition entry (G : list (list Q)) (i j : nat) : Q := nth j (nth i G []) 0.
Definition coancestry (G : list (list Q)) (i j : nat) : Q := entry G i j.
Definition kinship (G : list (list Q)) (i j : nat) : Q := (1 # 2) * entry G i j.

Definition maxl (l : list Q) : Q := match l with [] => 0 | x :: t => fold_left Qmax' t x end.
Definition minl (l : list Q) : Q := match l with [] => 0 | x :: t => fold_left Qmin' t x end.
Definition meanl (l : list Q) : Q := sumQr l / Zq (Z.of_nat (length l)).
Definition diag (G : list (list Q)) : list Q := map (fun i => entry G i i) (seq 0 (length G)).
Definition columns (G : list (list Q)) : list (list Q) := cols 0 (length G) G.

(** axis = None *)
Definition max_all (f : fmt) (G : list (list Q)) : Q := half f (maxl (concat G)).
Definition min_all (f : fmt) (G : list (list Q)) : Q := half f (minl (concat G)).
Definition mean_all (f : fmt) (G : list (list Q)) : Q := half f (meanl (concat G)).
(** axis = 0 reduces over rows (one value per column), axis = 1 over columns (one value per row) *)
Definition red_axis (red : list Q -> Q) (f : fmt) (axis : nat) (G : list (list Q)) : list Q :=
  map (fun v => half f (red v)) (match axis with O => columns G | _ => G end).

Definition max_inbreeding (f : fmt) (G : list (list Q)) : Q := half f (maxl (diag G)).
(** min_inbreeding = 1 / sum(inv(G)) for a given inverse [H]; kinship format halves the result *)
Definition min_inbreeding_of (f : fmt) (H : list (list Q)) : Q := half f (1 / sumQr (concat H)).

(** ** linear algebra *)
Definition mmul (A B : list (list Q)) : list (list Q) :=
  let nc := match B with [] => O | r :: _ => length r end in
  map (fun a => map (fun j => dotQr a (col 0 j B)) (seq 0 nc)) A.
Definition ident (n : nat) : list (list Q) :=
  map (fun i => map (fun j => if Nat.eqb i j then 1 else 0) (seq 0 n)) (seq 0 n).
(** quadratic form x' G x *)
Definition qform (x : list Q) (G : list (list Q)) : Q := dotQr x (map (dotQr x) G).

(** Gauss-Jordan elimination without pivoting on [G | I] (entries normalised with Qred to keep them small).
    Nothing is proved about this function: its result is *checked* by [inv_checked]. *)
Definition mapi {A B} (f : nat -> A -> B) (l : list A) : list B := map2 f (seq 0 (length l)) l.
Fixpoint gj (k steps : nat) (A : list (list Q)) : option (list (list Q)) :=
  match steps with
  | O => Some A
  | S s =>
    let rk := nth k A [] in
    let pv := nth k rk 0 in
    if Qeq_bool pv 0 then None
    else let rk' := map (fun v => Qred (v / pv)) rk in
         gj (S k) s (mapi (fun i r => if Nat.eqb i k then rk'
                                      else let f := nth k r 0 in map2 (fun a b => Qred (a - f * b)) r rk') A)
  end.
Definition gj_inv (G : list (list Q)) : option (list (list Q)) :=
  let n := length G in
  match gj 0 n (map2 (fun r e => r ++ e) G (ident n)) with
  | Some A => Some (map (skipn n) A)
  | None => None
  end.
(** the inverse, accepted only if H is n x n and G * H = I and H * G = I hold exactly *)
Definition inv_checked (G : list (list Q)) : option (list (list Q)) :=
  let n := length G in
  match gj_inv G with
  | Some H => if Nat.eqb (length H) n && forallb (fun r => Nat.eqb (length r) n) H
                 && qll_eqb (mmul G H) (ident n) && qll_eqb (mmul H G) (ident n) then Some H else None
  | None => None
  end.
Definition scale_mat (c : Q) (G : list (list Q)) : list (list Q) := map (map (Qmult c)) G.
(** inverse(format): inv(G) or inv(0.5 G); the latter is 2 inv(G) (the inverse is unique: see C13_inverse_kinship) *)
Definition inverse_of (f : fmt) (G : list (list Q)) : option (list (list Q)) :=
  match f with
  | Coancestry => inv_checked G
  | Kinship => match inv_checked G with Some H => Some (scale_mat 2 H) | None => None end
  end.
Definition min_inbreeding (f : fmt) (G : list (list Q)) : option Q :=
  match inv_checked G with Some H => Some (min_inbreeding_of f H) | None => None end.

(** positive-definiteness certificate: all pivots of the symmetric elimination (LDL') are positive.
    [pd_cert (G - delta I)] certifies lambda_min(G) > delta. *)
Fixpoint pd_cert_fuel (fuel : nat) (G : list (list Q)) : bool :=
  match fuel with
  | O => match G with [] => true | _ => false end
  | S f =>
    match G with
    | [] => true
    | [] :: _ => false
    | (d :: r) :: rows =>
      negb (Qle_bool d 0) &&
      pd_cert_fuel f (map (fun row => match row with
                                      | [] => []
                                      | c :: rest => map2 (fun a b => Qred (a - (c / d) * b)) rest r
                                      end) rows)
    end
  end.
Definition pd_cert (G : list (list Q)) : bool := pd_cert_fuel (length G) G.
Definition shift_diag (delta : Q) (G : list (list Q)) : list (list Q) :=
  mapi (fun i row => mapi (fun j v => if Nat.eqb i j then v - delta else v) row) G.
(** thresholds are moved to the next multiple of 2^-20 in the safe direction (small denominators) *)
Definition coarse_up (q : Q) : Q := Qred (Zq (Qceiling (q * 1048576)) / 1048576).
Definition coarse_dn (q : Q) : Q := Qred (Zq (Qfloor (q * 1048576)) / 1048576).
(** is_positive_semidefinite(eigvaltol): all(eigvals(G) >= max(eigvaltol, 0)).
    Decided only with a margin: [Some true] if lambda_min > tol + margin is certified,
    [Some false] if some diagonal entry (a Rayleigh quotient) is < tol - margin, otherwise undecided. *)
Definition psd_decided (margin tol : Q) (G : list (list Q)) : option bool :=
  let t := if Qle_bool tol 0 then 0 else tol in
  if pd_cert (shift_diag (coarse_up (t + margin)) G) then Some true
  else if existsb (fun d => negb (Qle_bool (coarse_dn (t - margin)) d)) (diag G) then Some false
  else None.

(** ** comparison helpers used by the correspondence shards *)
Definition Qclose9 (x y : Q) : bool := Qle_bool (Qabs' (x - y)) ((1 # 1000000000) * (1 + Qabs' y)).
Definition mat_agree (exact : bool) (impl model : list (list Q)) : bool :=
  if exact then qll_eqb impl model else qclose_ll impl model.
(** scale-aware agreement: every entry within [tol], where the shard passes [tol] = 2^-30 x an a-priori bound of the entries
    computed from the input (weights, frequencies, ploidy) — a tolerance that shrinks with the scale of the data *)
Definition mat_within (tol : Q) (impl model : list (list Q)) : bool :=
  list_eqb (list_eqb (fun x y => Qle_bool (Qabs' (x - y)) tol)) impl model.
(** means: the usual 2^-30 (1 + |y|) tolerance plus a [slack] that the shard sets to 0 for matrices with entries up to 2^11 and to
    2^-40 max|G| beyond (summation error of a mean that cancels, for up-scaled marker weights) *)
Definition mean_agree (slack impl model : Q) : bool :=
  Qle_bool (Qabs' (impl - model)) ((1 # 1073741824) * (1 + Qabs' model) + slack).
Definition meanl_agree (slack : Q) (impl model : list Q) : bool := list_eqb (mean_agree slack) impl model.
Definition vec_agree (exact : bool) (impl model : list Q) : bool :=
  if exact then ql_eqb impl model else qclose_l impl model.
Definition q_agree (exact : bool) (impl model : Q) : bool :=
  if exact then Qeq_bool impl model else Qclose impl model.
Definition err_agree {A} (r : res A) (e : err) : bool := match r with RErr e' => err_eqb e e' | _ => false end.
Definition is_nonfinite {A} (r : res A) : bool := match r with RNonfinite => true | _ => false end.
Definition sopt_eqb := opt_eqb sl_eqb.
Definition zopt_eqb := opt_eqb zl_eqb.
Definition psd_agree (impl : option bool) (model : option bool) : bool :=
  match model, impl with Some b, Some b' => Bool.eqb b' b | Some _, None => false | None, _ => true end.

(** numpy.linalg results are compared only where the exact inverse exists and is well-conditioned *)
Definition maxabs (G : list (list Q)) : Q := fold_left Qmax' (map Qabs' (concat G)) 0.
Definition wellcond (G H : list (list Q)) : bool := Qle_bool (Zq (Z.of_nat (length G)) * maxabs G * maxabs H) 1000.
(** [Hc] is [inv_checked G], computed once per case by the shard *)
Definition inv_agree (impl : option (list (list Q))) (f : fmt) (G : list (list Q)) (Hc : option (list (list Q))) : bool :=
  match Hc with
  | Some H => if wellcond G H
              then match impl with
                   | Some Hi => list_eqb (list_eqb Qclose9) Hi (match f with Coancestry => H | Kinship => scale_mat 2 H end)
                   | None => false
                   end
              else true
  | None => true
  end.
(** ... and min_inbreeding additionally only where the sum of the inverse does not cancel *)
Definition sum_ok (H : list (list Q)) : bool :=
  let s := sumQr (concat H) in
  negb (Qeq_bool s 0) && Qle_bool (Zq (Z.of_nat (length H * length H)) * maxabs H) (1000 * Qabs' s).
Definition mininb_agree (impl : option Q) (f : fmt) (G : list (list Q)) (Hc : option (list (list Q))) : bool :=
  match Hc with
  | Some H => if wellcond G H && sum_ok H
              then match impl with Some v => Qclose9 v (min_inbreeding_of f H) | None => false end
              else true
  | None => true
  end.
Definition psd_model (tol : Q) (G : list (list Q)) : option bool :=
  psd_decided ((1 # 1000000) * (1 + Zq (Z.of_nat (length G)) * maxabs G)) tol G.
