(** C02 — sessions: a sequence of meiosis calls on one generator.  Definitions only. *)
From PV Require Import Lib.Common Model.C01_Meiosis.

(** the state handed to one call: genotypes, selection, crossover probabilities as they are AT THAT CALL *)
Record mcall := mkCall { c_geno : list (list (list Z)); c_sel : list nat; c_xoprob : list Q }.
Definition call0 : mcall := mkCall [] [] [].

(** the calls are made one after the other on the same generator (each consumes the next matrix of draws) *)
Fixpoint run_session (cs : list mcall) (r : rngst) : list (list (list Z)) :=
  match cs with
  | [] => []
  | c :: t => let gr := mat_meiosis (c_geno c) (c_sel c) (c_xoprob c) r in fst gr :: run_session t (snd gr)
  end.
