(** C20 — the attribute layer of RecurrentSelectionBreedingProgram: seventeen public properties, each with a getter
    reading one private attribute and a setter that type-checks the value and writes one private attribute, and the
    constructor as a sequence of property assignments.  The tables [model_props] / [model_ctor] are what the programme model
    (Model/C20_Loop.v: [init_state]; Model/C20_Session.v: [CSetStart], [CSetWork], [CSetT], [CSetTmax], [CSetOp],
    [CSetInit]) assumes; Gen/C20_Kernel.v regenerates them from the source on every run and Proofs/C20_Kernel.v proves the
    two equal by [reflexivity].  Definitions only.

    Numbering (properties and private attributes alike):
      0..4   start_genome start_geno start_pheno start_bval start_gmod
      5..9   genome geno pheno bval gmod
      10..14 initop pselop mateop evalop sselop
      15 t_cur   16 t_max
    Constructor parameters: 0..4 initop pselop mateop evalop sselop, 5 t_max, 6..10 start_genome .. start_gmod. *)
From PV Require Import Lib.Common Model.C20_Loop Model.C20_Session.
Local Open Scope nat_scope.

Inductive value := XNone | XDict (l : loc) | XInt (z : Z) | XOp (k : nat) | XOther.
(** the type checks of the setters: check_is_dict guarded by `is not None`, check_is_dict, check_is_int, and
    check_is_<k-th operator class> (0 initialisation, 1 parent selection, 2 mating, 3 evaluation, 4 survivor selection) *)
Inductive chk := ChkDictOrNone | ChkDict | ChkInt | ChkOp (k : nat).
Inductive csrc := SParam (i : nat) | SConst (z : Z).

Definition chk_ok (c : chk) (v : value) : bool :=
  match c, v with
  | ChkDictOrNone, XNone => true
  | ChkDictOrNone, XDict _ => true
  | ChkDict, XDict _ => true
  | ChkInt, XInt _ => true
  | ChkOp k, XOp k' => Nat.eqb k k'
  | _, _ => false
  end.

(** private attributes; None = the attribute does not exist (yet) *)
Definition attrs := list (option value).
Definition no_attrs : attrs := repeat None 17.
Definition proptable := list (nat * nat * chk).       (* per property: attribute read, attribute written, check *)

Definition prop_get (tbl : proptable) (a : attrs) (p : nat) : option value :=
  match nth_error tbl p with Some (g, _, _) => nth g a None | None => None end.
Definition prop_set (tbl : proptable) (a : attrs) (p : nat) (v : value) : attrs * bool :=
  match nth_error tbl p with
  | Some (_, s, c) => if chk_ok c v then (set_nth s (Some v) a, true) else (a, false)
  | None => (a, false)
  end.
(** the constructor: property assignments in source order, stopping at the first TypeError *)
Fixpoint construct (tbl : proptable) (ctor : list (nat * csrc)) (params : list value) (a : attrs) : attrs * bool :=
  match ctor with
  | [] => (a, true)
  | (p, src) :: t =>
      match (match src with SParam i => nth_error params i | SConst z => Some (XInt z) end) with
      | None => (a, false)
      | Some v => let (a', ok) := prop_set tbl a p v in if ok then construct tbl t params a' else (a', false)
      end
  end.

Definition model_props : proptable :=
  [(0, 0, ChkDictOrNone); (1, 1, ChkDictOrNone); (2, 2, ChkDictOrNone); (3, 3, ChkDictOrNone); (4, 4, ChkDictOrNone);
   (5, 5, ChkDict); (6, 6, ChkDict); (7, 7, ChkDict); (8, 8, ChkDict); (9, 9, ChkDict);
   (10, 10, ChkOp 0); (11, 11, ChkOp 1); (12, 12, ChkOp 2); (13, 13, ChkOp 3); (14, 14, ChkOp 4);
   (15, 15, ChkInt); (16, 16, ChkInt)].
Definition model_ctor : list (nat * csrc) :=
  [(10, SParam 0); (11, SParam 1); (12, SParam 2); (13, SParam 3); (14, SParam 4);
   (15, SConst 0); (16, SParam 5);
   (0, SParam 6); (1, SParam 7); (2, SParam 8); (3, SParam 9); (4, SParam 10)].

(** what the programme model sees of the attributes *)
Definition dict_slot (v : option value) : option loc := match v with Some (XDict l) => Some l | _ => None end.
Definition abs_start (a : attrs) : list (option loc) := map (fun i => dict_slot (nth i a None)) (seq 0 5).
Definition abs_work (a : attrs) : list (option loc) := map (fun i => dict_slot (nth i a None)) (seq 5 5).
Definition abs_int (a : attrs) (i : nat) : option Z := match nth i a None with Some (XInt z) => Some z | _ => None end.
Definition abs_op (a : attrs) (k : nat) : option nat := match nth (10 + k) a None with Some (XOp j) => Some j | _ => None end.
Definition setv_value (v : setv) : value := match v with VNone => XNone | VLoc l => XDict l | VBad => XOther end.
