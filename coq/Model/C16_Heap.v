(** C16 — heap model of copy.copy / copy.deepcopy as used by the __copy__ / __deepcopy__ methods of pybrops.
    Mutable python values (ndarrays, dicts, interpolators, nested objects) live in heap cells addressed by location;
    an attribute holds None, an immutable immediate (int, float, str) or a reference.  Allocation only appends.
    Which attribute is duplicated how comes from Gen/C16_Fields.v (cp_ctor/cp_post, dp_ctor/dp_post).  Definitions only. *)
From Coq Require Import String Ascii.
From PV Require Import Lib.Common Lib.C16_Spec Model.C16_Store.
Local Open Scope Z_scope.

Definition loc := nat.
Inductive hv := HNone | HImm (v : sval) | HRef (l : loc).
Inductive cell :=
  | CArr (v : sval)                                   (* numpy array: one mutable buffer (object arrays hold immutable str) *)
  | CDict (d : list (str * hv))                       (* python dict *)
  | COpaque (tag : Z) (payload : list Z)              (* scipy interp1d (payload: its y values) / numpy Generator *)
  | CObj (cls : String.string) (fs : list (String.string * hv)).   (* a nested pybrops object, e.g. G_E_Phenotyping.gpmod *)
Definition heap := list cell.
Definition hobj := list (String.string * hv).

Definition alloc (h : heap) (c : cell) : heap * hv := (h ++ [c], HRef (length h)).
Fixpoint hattr (k : String.string) (o : hobj) : hv :=
  match o with [] => HNone | (k', v) :: t => if String.eqb k k' then v else hattr k t end.

(** copy every value of an association list, threading the heap ([cp] is the copier for one value) *)
Fixpoint copy_kvs {K : Type} (cp : heap -> hv -> option (heap * hv)) (h : heap) (l : list (K * hv)) : option (heap * list (K * hv)) :=
  match l with
  | [] => Some (h, [])
  | (k, v) :: t =>
    match cp h v with
    | None => None
    | Some (h1, v') => match copy_kvs cp h1 t with
                       | None => None
                       | Some (h2, t') => Some (h2, (k, v') :: t')
                       end
    end
  end.
(** rebuild an object field by field as a table prescribes: target = mode(self.source) *)
Fixpoint copy_fields (sh dp : heap -> hv -> option (heap * hv)) (h : heap) (src : hobj) (fields : list cpfield) : option (heap * hobj) :=
  match fields with
  | [] => Some (h, [])
  | c :: t =>
    if String.eqb (csrc c) "" then copy_fields sh dp h src t            (* a constant keyword: nothing of the source involved *)
    else
      let v := hattr (csrc c) src in
      match (match cmode c with CPlain => Some (h, v) | CShallow => sh h v | CDeep => dp h v end) with
      | None => None
      | Some (h1, v') => match copy_fields sh dp h1 src t with
                         | None => None
                         | Some (h2, t') => Some (h2, (ctgt c, v') :: t')
                         end
      end
  end.

Section Copy.
Variable specs : list cls_spec.

(** copy.copy (deep = false) / copy.deepcopy (deep = true) of one value; [None]: out of fuel or a dangling reference.
    ndarray.__copy__ and ndarray.__deepcopy__ both duplicate the buffer; a shallow dict copy keeps the value references;
    a nested pybrops object is copied by its own __copy__/__deepcopy__ (table-driven). *)
Fixpoint copy_hv (fuel : nat) (deep : bool) (h : heap) (v : hv) : option (heap * hv) :=
  match fuel with
  | O => None
  | S n =>
    match v with
    | HRef l =>
      match nth_error h l with
      | Some (CArr x) => Some (alloc h (CArr x))
      | Some (CDict d) =>
        if deep then match copy_kvs (copy_hv n true) h d with
                     | Some (h1, d') => Some (alloc h1 (CDict d'))
                     | None => None
                     end
        else Some (alloc h (CDict d))
      | Some (COpaque t p) => Some (alloc h (COpaque t p))
      | Some (CObj cn fs) =>
        match find_spec cn specs with
        | None => None
        | Some s =>
          match copy_fields (copy_hv n false) (copy_hv n true) h fs (if deep then dp_ctor s ++ dp_post s else cp_ctor s ++ cp_post s) with
          | Some (h1, fs') => Some (alloc h1 (CObj cn fs'))
          | None => None
          end
        end
      | None => None
      end
    | _ => Some (h, v)
    end
  end.

(** __copy__ / __deepcopy__ of a top-level object of class [s] *)
Definition class_copy (fuel : nat) (deep : bool) (s : cls_spec) (h : heap) (o : hobj) : option (heap * hobj) :=
  copy_fields (copy_hv fuel false) (copy_hv fuel true) h o (if deep then dp_ctor s ++ dp_post s else cp_ctor s ++ cp_post s).
End Copy.

(** ** observation (what the harness sees of an object), one container level deep *)
Definition res_simple (h : heap) (v : hv) : option sval :=
  match v with
  | HNone => None
  | HImm x => Some x
  | HRef l => match nth_error h l with
              | Some (CArr x) => Some x
              | Some (COpaque _ p) => Some (VArr TF64 [Z.of_nat (length p)] p)
              | _ => None end
  end.
Definition resolve1 (h : heap) (v : hv) : option oval :=
  match v with
  | HNone => None
  | HImm x => Some (OS x)
  | HRef l => match nth_error h l with
              | Some (CArr x) => Some (OS x)
              | Some (CDict d) => Some (OD (map (fun kv => (fst kv, res_simple h (snd kv))) d))
              | Some (COpaque _ p) => Some (OS (VArr TF64 [Z.of_nat (length p)] p))
              | _ => None end
  end.
(** attribute path: "a" or "a.k" (k a dict key or a field of a nested object) *)
Definition sub_hv (h : heap) (v : hv) (k : str) (kf : String.string) : hv :=
  match v with
  | HRef l => match nth_error h l with
              | Some (CDict d) => match dlookup k d with Some x => x | None => HNone end
              | Some (CObj _ fs) => hattr kf fs
              | _ => HNone end
  | _ => HNone
  end.
Definition same_ref (a b : hv) : bool := match a, b with HRef x, HRef y => Nat.eqb x y | _, _ => false end.

(** poison every mutable cell reachable (two levels) from an object: the harness mutates everything it can reach *)
Definition poison_cell (c : cell) : cell :=
  match c with
  | CArr _ => CArr (VInt (-1))
  | CDict d => CDict (d ++ [(zs "__new__", HImm (VInt 1))])
  | COpaque t _ => COpaque t [-1]
  | CObj n fs => CObj n fs
  end.
Fixpoint set_nth {A} (l : list A) (i : nat) (x : A) : list A :=
  match l, i with
  | [], _ => []
  | _ :: t, O => x :: t
  | a :: t, S j => a :: set_nth t j x
  end.
Definition poison_at (h : heap) (l : loc) : heap :=
  match nth_error h l with Some c => set_nth h l (poison_cell c) | None => h end.
Definition refs_of_hv (v : hv) : list loc := match v with HRef l => [l] | _ => [] end.
Definition refs_of_cell (c : cell) : list loc :=
  match c with
  | CDict d => flat_map (fun kv => refs_of_hv (snd kv)) d
  | CObj _ fs => flat_map (fun kv => refs_of_hv (snd kv)) fs
  | _ => []
  end.
Definition reach2 (h : heap) (o : hobj) (skip : list String.string) : list loc :=
  let top := flat_map (fun kv => if smem (fst kv) skip then [] else refs_of_hv (snd kv)) o in
  top ++ flat_map (fun l => match nth_error h l with Some c => refs_of_cell c | None => [] end) top.
Definition poison_all (h : heap) (o : hobj) (skip : list String.string) : heap := fold_left poison_at (reach2 h o skip) h.

(** ** agreement with the implementation *)
Definition opt_oval_eqb := opt_eqb oval_eqb.
Definition agree_copy (specs : list cls_spec) (s : cls_spec) (deep : bool) (h : heap) (o : hobj)
           (copy_obs : list (String.string * option oval))            (* observed attributes of the copy *)
           (shares : list (String.string * str * String.string * bool))  (* (attr, dict key, sub-field, shares state with the source?) *)
           (changed : list String.string)                             (* observed names of the source that changed after mutating the copy *)
           (watch : list (String.string * (String.string * str * String.string)))   (* observed name -> (attr, dict key, sub-field) *)
           (skip : list String.string) : bool :=
  match class_copy specs 4 deep s h o with None => false | Some (h1, c) =>
  let get (hh : heap) (ob : hobj) (w : String.string * str * String.string) : option oval :=
      let '(a, k, kf) := w in
      if is_nil k && String.eqb kf "" then resolve1 hh (hattr a ob) else resolve1 hh (sub_hv hh (hattr a ob) k kf) in
  forallb (fun kv => opt_oval_eqb (resolve1 h1 (hattr (fst kv) c)) (snd kv)) copy_obs
  && forallb (fun e => let '(a, k, kf, sh) := e in
                       Bool.eqb sh (if is_nil k && String.eqb kf "" then same_ref (hattr a o) (hattr a c)
                                    else same_ref (sub_hv h1 (hattr a o) k kf) (sub_hv h1 (hattr a c) k kf))) shares
  && (let h2 := poison_all h1 c skip in
      forallb (fun nw => Bool.eqb (negb (opt_oval_eqb (get h2 o (snd nw)) (get h o (snd nw)))) (smem (fst nw) changed)) watch)
  end.
