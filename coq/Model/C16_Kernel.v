(** C16 — the parts of the persistence code on which the theorems turn, written in terms of the kernel expressions that
    harness/translate/c16_kernel.py regenerates from the source on every run (Gen/C16_Kernel.v):
      h5py_File_write_dict (field name, the three delete conditions, group name and overwrite flag of the recursive call),
      the group-name normalisation of every to_hdf5 / from_hdf5, the decode condition of h5py_File_read_dict,
      the unit conversions of the genetic-map codecs, zero-fill widths and the long-table layout of the variance-matrix codec.
    Proofs/C16_Kernel.v shows each equal to the hand model of Model/C16_Store.v / Model/C16_Codec.v.  Definitions only. *)
From Coq Require Import String PrimFloat.
From PV Require Import Lib.Common Lib.C16_Spec Model.C16_Store Model.C16_Codec Gen.C16_Kernel.
Local Open Scope Z_scope.

(** ** h5py_File_write_dict as the source has it now *)
Fixpoint write_flat_k (f : file) (g : str) (l : list (str * option (option dset))) (ow : bool) : file * option err :=
  match l with
  | [] => (f, None)
  | (k, v) :: t =>
    let p := split_path (k_wd_fieldname g k) in
    match v with
    | None => write_flat_k (if k_wd_del_none ow (mem p f) then del p f else f) g t ow
    | Some None => (f, Some EType)
    | Some (Some d) =>
      let f1 := if k_wd_del_data ow (mem p f) then del p f else f in
      match create p d f1 with
      | inl f2 => write_flat_k f2 g t ow
      | inr e => (f1, Some e)
      end
    end
  end.

Fixpoint write_dict_k (f : file) (g : str) (l : list (str * item)) (ow : bool) : file * option err :=
  match l with
  | [] => (f, None)
  | (k, it) :: t =>
    let fld := k_wd_fieldname g k in
    let p := split_path fld in
    match it with
    | INone => write_dict_k (if k_wd_del_none ow (mem p f) then del p f else f) g t ow
    | IData d =>
      let f1 := if k_wd_del_data ow (mem p f) then del p f else f in
      match create p d f1 with
      | inl f2 => write_dict_k f2 g t ow
      | inr e => (f1, Some e)
      end
    | IDict sub =>
      let f0 := if k_wd_del_dict ow (mem p f) then del p f else f in
      match write_flat_k f0 (k_wd_nested_group fld) sub (k_wd_nested_overwrite ow) with
      | (f1, None) => write_dict_k f1 g t ow
      | (f1, Some e) => (f1, Some e)
      end
    | IBad => (f, Some EType)
    end
  end.

(** group-name processing of to_hdf5 / from_hdf5 *)
Definition slash_end_k (g : str) : str := if k_h5_needs_slash g then g ++ k_h5_slash else g.
Definition norm_group_k (g : option str) : str + err :=
  match g with None => inl [] | Some [] => inr EIndex | Some s => inl (slash_end_k s) end.
Definition to_hdf5_k (s : cls_spec) (f : file) (g : option str) (o : obj) (ow : bool) : file * option err :=
  match norm_group_k g with
  | inr e => (f, Some e)
  | inl gn => write_dict_k f gn (data_dict s o) ow
  end.
Fixpoint write_all_k (s : cls_spec) (f : file) (g : option str) (os : list obj) : file * option err :=
  match os with
  | [] => (f, None)
  | o :: t => match to_hdf5_k s f g o true with
              | (f1, None) => write_all_k s f1 g t
              | r => r
              end
  end.

(** h5py_File_read_dict: what h5py hands back for a member ([bytes] for a scalar string dataset of either character set) and
    the character set recorded in its dtype *)
Definition d_is_bytes (d : dset) : bool := match d with DStr _ | DBytes _ => true | _ => false end.
Definition d_is_utf8 (d : dset) : bool := match d with DStr _ => true | _ => false end.
Definition d_payload (d : dset) : str := match d with DStr b | DBytes b => b | _ => [] end.
Definition raw_member_k (d : dset) : option sval :=
  if k_rd_decode (d_is_bytes d) (d_is_utf8 d) then option_map VStr (utf8_dec (d_payload d)) else Some (raw d).

(** ** genetic maps: the two conversions of each class *)
Definition gmap_to_cM_k (ext : bool) (x : float) : float := if ext then k_egmap_to_cM x else k_gmap_to_cM x.
Definition gmap_from_cM_k (ext : bool) (x : float) : float := if ext then k_egmap_from_cM x else k_gmap_from_cM x.
(** the unit names the harness passes, classified as the source classifies them *)
Definition units_of_k (u : String.string) : option units :=
  if existsb (String.eqb u) k_gmap_units_M then Some UM else if existsb (String.eqb u) k_gmap_units_cM then Some UcM else None.

(** ** variance matrices: the long table, column by column as the source's table says *)
Definition vm_axis (i : nat) (e : nat * nat * nat) : nat :=
  match i with O => fst (fst e) | S O => snd (fst e) | _ => snd e end.
(** column parameter -> the name the harness passes for it (its default, without the suffix) *)
Definition vm_col_label (p : String.string) : str :=
  zs (if String.eqb p "female_col" then "female" else if String.eqb p "female_grp_col" then "female_grp"
      else if String.eqb p "male_col" then "male" else if String.eqb p "male_grp_col" then "male_grp"
      else if String.eqb p "trait_col" then "trait" else "variance")%string.
Definition vm_column_k (grp_cols : bool) (m : vmat) (taxa trait : list str) (idx : list (nat * nat * nat))
           (c : String.string * String.string * nat * bool) : tbl :=
  let '(col, arr, ax, optional) := c in
  if optional && negb grp_cols then []
  else [(CS (vm_col_label col),
         if String.eqb arr "taxa" then map (fun e => CS (nth (vm_axis ax e) taxa [])) idx
         else if String.eqb arr "trait" then map (fun e => CS (nth (vm_axis ax e) trait [])) idx
         else if String.eqb arr "taxa_grp" then
           match vm_grp m with Some g => map (fun e => CI (nth (vm_axis ax e) g 0)) idx | None => repeat CNone (length idx) end
         else map (fun e => CF (nth (snd e) (nth (snd (fst e)) (nth (fst (fst e)) (vm_mat m) []) []) 0%float)) idx)].
Definition zwidth_taxa_k (n : nat) : Z := k_vm_taxazfill (Z.of_nat (clog10 20 (Z.of_nat n) 1 0)).
Definition zwidth_trait_k (n : nat) : Z := k_vm_traitzfill (Z.of_nat (clog10 20 (Z.of_nat n) 1 0)).
Definition synth_k (prefix : String.string) (w : Z) (n : nat) : list str :=
  map (fun i => zs prefix ++ zfill (Z.to_nat w) (dec (Z.of_nat i))) (seq 0 n).
Definition vm_to_pandas_k (grp_cols : bool) (m : vmat) : tbl :=
  let n := length (vm_mat m) in
  let t := length (hd [] (hd [] (vm_mat m))) in
  let taxa := match vm_taxa m with Some l => l | None => synth_k "Taxon" (zwidth_taxa_k n) n end in
  let trait := match vm_trait m with Some l => l | None => synth_k "Trait" (zwidth_trait_k t) t end in
  let idx := flat_map (fun i => flat_map (fun j => map (fun k => (i, j, k)) (seq 0 t)) (seq 0 n)) (seq 0 n) in
  flat_map (vm_column_k grp_cols m taxa trait idx) k_vm_columns.

(** ** the typed readers called directly on one dataset, and h5py_File_read_dict on a file given by its dump *)
Definition agree_rd (r : reader) (d : dset) (out : option sval) : bool :=
  match read_d r d, out with inl v, Some w => sval_eqb v w | inr _, None => true | _, _ => false end.
Definition file_of_dump (d : list (str * option dset)) : file :=
  map (fun e => (split_path (fst e), match snd e with Some x => NData x | None => NGroup end)) d.
Definition agree_rdict (dump : list (str * option dset)) (fld : str) (out : option (list (str * option sval))) : bool :=
  match read_dict (file_of_dump dump) fld, out with inl l, Some m => dict_eqb l m | inr _, None => true | _, _ => false end.
