(** C11 — the comparison functions evaluated by the correspondence shards:
    [check_* inputs implementation_outputs : bool].  Definitions only. *)
From Coq Require Import PrimFloat.
From PV Require Import Lib.Common Model.C11_Map Model.C11_MapFn.
Local Open Scope Z_scope.

Fixpoint forall2b {A B} (f : A -> B -> bool) (l1 : list A) (l2 : list B) : bool :=
  match l1, l2 with
  | [], [] => true
  | x :: t1, y :: t2 => f x y && forall2b f t1 t2
  | _, _ => false
  end.

Definition half : Q := 1 # 2.

(** ** map functions: value of the implementation at every point against the interval enclosure *)
Definition mapfn_pt (k : mapkind) (d m : ext) : bool :=
  match d, m with
  | Fin d, Fin m => mapfn_ok k d m
  | PInf, Fin m => Qeq_bool m half                 (* numpy: exp(-inf) = 0, tanh(inf) = 1 : exactly one half *)
  | NaN, NaN => true
  | _, _ => false
  end.
Definition invmapfn_pt (k : mapkind) (r v : ext) : bool :=
  match r, v with
  | Fin r, Fin v => Qle_bool 0 r && negb (Qle_bool half r) && invmapfn_ok k r v
  | Fin r, PInf => Qeq_bool r half                 (* log(0) = -inf, arctanh(1) = inf *)
  | NaN, NaN => true
  | _, _ => false
  end.
Definition check_mapfn (k : mapkind) (ds ms rs ivs ims mis : list ext) : bool :=
  forall2b (mapfn_pt k) ds ms && forall2b (invmapfn_pt k) rs ivs
  && forall2b (invmapfn_pt k) ms ims && forall2b (mapfn_pt k) ivs mis.

(** rprob1g / rprob2g / rprob1p / rprob2p: the map function applied to the distances the implementation computed *)
Definition check_rprob (k : mapkind) (dists probs : list ext) : bool := forall2b (mapfn_pt k) dists probs.

(** ** genetic maps *)
Definition raw_t := list (Z * Z * float * list Z).
Definition meta_eqb (a b : list Z * list Z * list Z * list Z) : bool :=
  let '(a1, a2, a3, a4) := a in let '(b1, b2, b3, b4) := b in zl_eqb a1 b1 && zl_eqb a2 b2 && zl_eqb a3 b3 && zl_eqb a4 b4.
Definition pairs_eqb (a b : list (Z * Z)) : bool := list_eqb (fun x y => (fst x =? fst y) && (snd x =? snd y)) a b.
Definition cmp (exact : bool) := if exact then extl_eqb else extl_close.
Definition cmp2 (exact : bool) := if exact then extll_eqb else extll_close.

Definition check_build (cm : bool) (raw : raw_t) (impl : list Z * list Z * list ext * list (list Z) * (list Z * list Z * list Z * list Z))
    (gen_f : list float) : bool :=
  let '(chr, phy, gen, pay, meta) := impl in
  let rows := gm_rows (to_rows cm raw) in
  zl_eqb (map r_chr rows) chr && zl_eqb (map r_phy rows) phy && extl_eqb (fin_gens rows) gen && zll_eqb (map r_pay rows) pay
  && meta_eqb (gm_meta (to_rows cm raw)) meta
  && fl_eqb (map f_gen (sort_frows (to_frows cm raw))) gen_f.

Definition check_congr (cm : bool) (raw : raw_t) (congr : list bool) (isc warned : bool) : bool :=
  let rows := gm_rows (to_rows cm raw) in
  bl_eqb (congruence rows) congr && Bool.eqb (is_congruent rows) isc && Bool.eqb (negb (is_congruent rows)) warned.

Definition check_interp (exact cm : bool) (raw : raw_t) (query : list (Z * Z)) (q_gen : list ext) (q_gen_f own_f : list float) : bool :=
  let rows := gm_rows (to_rows cm raw) in
  let frows := sort_frows (to_frows cm raw) in
  cmp exact q_gen (interp_genpos rows query)
  && fl_eqb (interp_genpos_f frows query) q_gen_f
  && fl_eqb (interp_genpos_f frows (own_pairs rows)) own_f
  && fl_eqb (map f_gen frows) own_f
  && extl_eqb (interp_genpos rows (own_pairs rows)) (fin_gens rows).

(** [pay]: the vrnt_stop / vrnt_name / vrnt_fncode arrays handed to ExtendedGeneticMap.interp_gmap go to the new map unchanged *)
(** a map constructed with auto_group = False: arrays stay in the supplied order ([before]), the spline is built from the
    unsorted arrays (interp1d sorts the knots itself), interpolation gives the same positions; the congruence test inside
    interp_genpos then groups (sorts) the map as a side effect (compared with [check_build] on the dump taken afterwards) *)
Definition check_nogroup (exact cm : bool) (raw : raw_t) (query : list (Z * Z))
    (before : list Z * list Z * list ext * list (list Z)) (grouped_before : bool) (q_gen : list ext) (q_gen_f : list float) : bool :=
  let '(chr, phy, gen, pay) := before in
  let rows := to_rows cm raw in
  zl_eqb (map r_chr rows) chr && zl_eqb (map r_phy rows) phy && extl_eqb (fin_gens rows) gen && zll_eqb (map r_pay rows) pay
  && negb grouped_before
  && cmp exact q_gen (interp_genpos rows query)
  && fl_eqb (interp_genpos_f (to_frows cm raw) query) q_gen_f.

(** remove_discrepancies (select(mask)) and the same reduction through remove(indices): the reduced map, interpolation
    right afterwards (the spline has been rebuilt from the remaining markers) and after an explicit build_spline().
    The knot gaps of the reduced map need not be powers of two, so positions are compared within [Qclose]. *)
Definition check_rmdisc (cm : bool) (raw : raw_t) (query : list (Z * Z))
    (impl : list Z * list Z * list ext * list (list Z) * (list Z * list Z * list Z * list Z)) (isc warned : bool)
    (direct rebuilt : list ext) : bool :=
  let '(chr, phy, gen, pay, meta) := impl in
  let rows := gm_rows (to_rows cm raw) in
  let rows' := rd_rows rows in
  zl_eqb (map r_chr rows') chr && zl_eqb (map r_phy rows') phy && extl_eqb (fin_gens rows') gen && zll_eqb (map r_pay rows') pay
  && meta_eqb (group_meta (map r_chr rows')) meta && Bool.eqb (is_congruent rows') isc && Bool.eqb (negb (is_congruent rows')) warned
  && extl_close direct (rd_interp_genpos rows query) && extl_close rebuilt (rd_interp_genpos rows query)
  && extl_eqb (rd_interp_genpos rows (own_pairs rows')) (fin_gens rows').

(** select(indices | mask) / remove(indices | slice) / ExtendedGeneticMap.prune(nt, M) — every one keeps a subset of the markers
    ([mask], read off the implementation's result), re-sorts, re-groups and rebuilds the spline: the reduced map, its grouping,
    interpolation right afterwards ([direct]) and exactness at the remaining markers *)
Definition check_select (cm : bool) (raw : raw_t) (mask : list bool) (query : list (Z * Z))
    (impl : list Z * list Z * list ext * list (list Z) * (list Z * list Z * list Z * list Z)) (isc : bool) (direct : list ext) : bool :=
  let '(chr, phy, gen, pay, meta) := impl in
  let rows' := select_rows (gm_rows (to_rows cm raw)) mask in
  (length mask =? length raw)%nat
  && zl_eqb (map r_chr rows') chr && zl_eqb (map r_phy rows') phy && extl_eqb (fin_gens rows') gen && zll_eqb (map r_pay rows') pay
  && meta_eqb (group_meta (map r_chr rows')) meta && Bool.eqb (is_congruent rows') isc
  && extl_close direct (interp_genpos rows' query)
  && extl_eqb (interp_genpos rows' (own_pairs rows')) (fin_gens rows').

(** grouping metadata of a map against the model's [option]: [None] = the map is not grouped (all four arrays absent) *)
Definition optmeta_eqb (m : option meta_t) (grouped : bool) (meta : meta_t) : bool :=
  match m with
  | None => negb grouped && meta_eqb ([], [], [], []) meta
  | Some m' => grouped && meta_eqb m' meta
  end.

Definition check_igmap (exact cm : bool) (raw : raw_t) (query : list (Z * Z)) (pay : list (list Z))
    (impl : list Z * list Z * list ext * (list Z * list Z * list Z * list Z)) (grouped : bool) (pay_impl : list (list Z)) (keys : list Z) : bool :=
  let '(chr, phy, gen, meta) := impl in
  let '(q, g, m) := interp_gmap (to_rows cm raw) query in
  pairs_eqb q (combine chr phy) && (length chr =? length phy)%nat && cmp exact gen g && optmeta_eqb m grouped meta && zll_eqb pay pay_impl
  && zl_eqb keys (let '(names, _, _, _) := gm_meta (to_rows cm raw) in names).

(** the map returned by interp_gmap used as a genetic map: it interpolates like its source ([re]); its first use sorts and
    groups it ([after]: markers, positions, grouping metadata, is_grouped()) *)
Definition check_igmap_reuse (exact cm : bool) (raw : raw_t) (query : list (Z * Z))
    (before : list Z * list Z * list ext * (list Z * list Z * list Z * list Z)) (grouped_before : bool)
    (re : list ext)
    (after : list Z * list Z * list ext * (list Z * list Z * list Z * list Z)) (grouped_after : bool) : bool :=
  let '(chr, phy, gen, meta) := before in
  let '(chr', phy', gen', meta') := after in
  let '(q, g, m) := interp_gmap (to_rows cm raw) query in
  pairs_eqb q (combine chr phy) && (length chr =? length phy)%nat && cmp exact gen g && optmeta_eqb m grouped_before meta
  && cmp exact re g
  && pairs_eqb (igmap_markers q) (combine chr' phy') && (length chr' =? length phy')%nat
  && cmp exact gen' (interp_genpos (gm_rows (to_rows cm raw)) (igmap_markers q))
  && optmeta_eqb (Some (igmap_group q)) grouped_after meta'.

Definition check_gdist_g (exact cm : bool) (raw : raw_t) (ast asp rst rsp cst csp : option Z)
    (g1 : list ext) (g1f : list float) (g2 : list (list ext)) (g2f : list (list float)) : bool :=
  let rows := gm_rows (to_rows cm raw) in
  let frows := sort_frows (to_frows cm raw) in
  cmp exact g1 (gdist1g (map r_chr rows) (fin_gens rows) ast asp)
  && cmp2 exact g2 (gdist2g (map r_chr rows) (fin_gens rows) rst rsp cst csp)
  && fl_eqb (gdist1g_f (map f_chr frows) (map f_gen frows) ast asp) g1f
  && fll_eqb (gdist2g_f (map f_chr frows) (map f_gen frows) rst rsp cst csp) g2f.

Definition check_gdist_p (exact cm : bool) (raw : raw_t) (query sq : list (Z * Z)) (ast asp rst rsp cst csp : option Z)
    (p1 : list ext) (p1f : list float) (p2 : list (list ext)) (p2f : list (list float)) : bool :=
  let rows := gm_rows (to_rows cm raw) in
  let frows := sort_frows (to_frows cm raw) in
  pairs_eqb sq (sort_pairs query)
  && cmp exact p1 (gdist1p rows sq ast asp)
  && cmp2 exact p2 (gdist2p rows query rst rsp cst csp)
  && fl_eqb (gdist1g_f (map fst sq) (interp_genpos_f frows sq) ast asp) p1f
  && fll_eqb (gdist2g_f (map fst query) (interp_genpos_f frows query) rst rsp cst csp) p2f.

(** crossover probability against the gap of the exact model ([mapfn_near]) and against the exact rational value of the
    binary64 gap the implementation really used ([mapfn_ok], 2^-45) *)
Definition xo_pt (k : mapkind) (gap gapf xo : ext) : bool :=
  match gap, gapf, xo with
  | PInf, PInf, Fin x => Qeq_bool x half
  | NaN, NaN, NaN => true
  | Fin g, Fin gf, Fin x => mapfn_near k g x && mapfn_ok k gf x
  | _, _, _ => false
  end.
Fixpoint forall3b {A B C} (f : A -> B -> C -> bool) (l1 : list A) (l2 : list B) (l3 : list C) : bool :=
  match l1, l2, l3 with
  | [], [], [] => true
  | x :: t1, y :: t2, z :: t3 => f x y z && forall3b f t1 t2 t3
  | _, _, _ => false
  end.

Definition check_gmat (exact cm : bool) (k : mapkind) (raw : raw_t) (variants sorted_variants : list (Z * Z))
    (genpos : list ext) (genpos_f : list float) (xoprob : list ext) (genpos_only_f : list float) (ungrouped_raises : bool) : bool :=
  let rows := gm_rows (to_rows cm raw) in
  let frows := sort_frows (to_frows cm raw) in
  let sv := sort_pairs variants in
  let gf := interp_genpos_f frows sv in
  pairs_eqb sorted_variants sv
  && cmp exact genpos (gmat_genpos rows variants)
  && fl_eqb gf genpos_f && fl_eqb gf genpos_only_f
  && forall3b (xo_pt k) (gmat_gaps rows variants) (map q_of_float (gdist1g_f (map fst sv) gf None None)) xoprob
  && ungrouped_raises.

(** one call of a SESSION on one variant matrix (the matrix already carries vrnt_genpos / vrnt_xoprob from its constructor or from
    earlier calls): the map given to THIS call is [raw] reduced to [mask] (markers that select / remove / prune /
    remove_discrepancies left in it, over the sorted rows; all [true] for an unreduced map); what the matrix stores after the call
    is compared as in [check_gmat]; [xoprob = None] for interp_genpos (which does not assign vrnt_xoprob) *)
Definition select_frows (frows : list frow) (mask : list bool) : list frow :=
  sort_frows (map fst (filter snd (combine frows mask))).
Definition check_gmat_call (exact cm : bool) (k : mapkind) (raw : raw_t) (mask : list bool) (variants sorted_variants : list (Z * Z))
    (genpos : list ext) (genpos_f : list float) (xoprob : option (list ext)) : bool :=
  let rows := select_rows (gm_rows (to_rows cm raw)) mask in
  let frows := select_frows (sort_frows (to_frows cm raw)) mask in
  let sv := sort_pairs variants in
  let gf := interp_genpos_f frows sv in
  (length mask =? length raw)%nat
  && pairs_eqb sorted_variants sv
  && cmp exact genpos (gmat_genpos rows variants)
  && fl_eqb gf genpos_f
  && match xoprob with
     | None => true
     | Some xo => forall3b (xo_pt k) (gmat_gaps rows variants) (map q_of_float (gdist1g_f (map fst sv) gf None None)) xo
     end.

(** ** crossover probabilities as extended reals (specification side of [xo_pt]) *)
From Coq Require Import Reals Qreals.
Definition mapfn_ext (k : mapkind) (g : ext) : xreal :=
  match g with Fin g => XR (mapfn k (Q2R g)) | PInf => XR (1 / 2)%R | NaN => XNaN end.
(** vrnt_xoprob after interp_xoprob(gmap, gmapfn) on a grouped variant matrix *)
Definition xoprob (k : mapkind) (rows : list row) (variants : list (Z * Z)) : list xreal :=
  map (mapfn_ext k) (gmat_gaps rows variants).
