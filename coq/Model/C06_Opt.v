(** C06 — executable model of pybrops' own optimisers and variation operators
    (pybrops/opt/algo/SortingSubsetOptimizationAlgorithm.py, SteepestDescentSubsetHillClimber.py,
     SortingSteepestDescentSubsetHillClimber.py, pymoo_addon.py: SubsetRandomSampling,
     ReducedExchangeCrossover, ReducedExchangeMutation, Integer{SimulatedBinaryCrossover,PolynomialMutation})
    and of the result monitor applied to every optimiser run.
    Decision elements, objective and constraint values are exact integers (the generated problems are
    integer valued, so binary64 arithmetic is exact).  The problem's evaluation function [ev] is a section
    variable: all theorems hold for every evaluation function.  Every random draw is an explicit argument.
    Definitions only. *)
From Coq Require Import Qround.
From PV Require Import Lib.Common.
Local Open Scope Z_scope.

(** ** decision-space predicates (boolean, evaluated in the correspondence shards) *)
Definition memZ (x : Z) (l : list Z) : bool := existsb (Z.eqb x) l.
Fixpoint nodupb (l : list Z) : bool :=
  match l with [] => true | x :: t => negb (memZ x t) && nodupb t end.
Definition inclb (a b : list Z) : bool := forallb (fun x => memZ x b) a.
(** a subset decision: distinct members of the candidate set, requested size *)
Definition feasible_b (cand : list Z) (k : nat) (x : list Z) : bool :=
  nodupb x && inclb x cand && Nat.eqb (length x) k.
(** an integer / binary / real vector inside its bounds (lower, upper given per coordinate) *)
Fixpoint in_bounds_b (lo hi x : list Q) : bool :=
  match lo, hi, x with
  | [], [], [] => true
  | l :: lt, h :: ht, v :: vt => Qle_bool l v && Qle_bool v h && in_bounds_b lt ht vt
  | _, _, _ => false
  end.

Fixpoint set_nth {A} (i : nat) (l : list A) (v : A) : list A :=
  match l with
  | [] => []
  | h :: t => match i with O => v :: t | S i' => h :: set_nth i' t v end
  end.

(** ** evaluation triple (obj, ineqcv, eqcv) as returned by [Problem.evalfn] *)
Definition evalT := (list Z * list Z * list Z)%type.
Definition e_obj (r : evalT) : list Z := fst (fst r).
Definition e_ineq (r : evalT) : list Z := snd (fst r).
Definition e_eq (r : evalT) : list Z := snd r.
Definition evalT_eqb (a b : evalT) : bool :=
  zl_eqb (e_obj a) (e_obj b) && zl_eqb (e_ineq a) (e_ineq b) && zl_eqb (e_eq a) (e_eq b).
(** gbest_score = obj.sum();  gbest_cv = ineqcv.sum() + eqcv.sum() *)
Definition score (r : evalT) : Z := sumZ (e_obj r).
Definition cv (r : evalT) : Z := sumZ (e_ineq r) + sumZ (e_eq r).

(** stable insertion sort of (key, element) pairs by key — the model of [obj.argsort(0)];
    the correspondence compares key sequences, so numpy's unspecified tie order is not depended upon *)
Fixpoint insert_by (kx : Z * Z) (l : list (Z * Z)) : list (Z * Z) :=
  match l with
  | [] => [kx]
  | ky :: t => if fst kx <=? fst ky then kx :: l else ky :: insert_by kx t
  end.
Definition isort (l : list (Z * Z)) : list (Z * Z) := fold_right insert_by [] l.

Section Opt.
  Variable ev : list Z -> evalT.

  (** *** SortingSubsetOptimizationAlgorithm.minimize *)
  (** evals = [prob.evalfn(numpy.array([e])) for e in prob.decn_space]; the sort key is obj[:,0] *)
  Definition single_key (e : Z) : Z := nth 0 (e_obj (ev [e])) 0.
  Definition keyed (cand : list Z) : list (Z * Z) := map (fun e => (single_key e, e)) cand.
  (** ix = obj.argsort(0); gbest_soln = decn_space[ix[0:ndecn,0]] *)
  Definition sort_select (cand : list Z) (k : nat) : list Z := firstn k (map snd (isort (keyed cand))).
  (** the solution is re-evaluated as a whole *)
  Definition sort_minimize (cand : list Z) (k : nat) : list Z * evalT :=
    let s := sort_select cand k in (s, ev s).
  (** the evalfn calls made, in order *)
  Definition sort_calls (cand : list Z) (k : nat) : list (list Z) :=
    map (fun e => [e]) cand ++ [sort_select cand k].

  (** *** steepest-descent hill climber (shared by both climbers) *)
  (** proposal: gbest_soln[i], wrkss[j] = wrkss[j], gbest_soln[i]; only gbest_soln is evaluated *)
  Definition prop (s w : list Z) (ij : nat * nat) : list Z := set_nth (fst ij) s (nth (snd ij) w 0).
  Definition pairs (s w : list Z) : list (nat * nat) := list_prod (seq 0 (length s)) (seq 0 (length w)).
  (** one proposal against the running best (best_i/best_j, best evaluation) *)
  Definition step (s w : list Z) (best : option (nat * nat) * evalT) (ij : nat * nat) : option (nat * nat) * evalT :=
    let r := ev (prop s w ij) in
    if cv r <? cv (snd best) then (Some ij, r)
    else if (cv r =? cv (snd best)) && (score r <? score (snd best)) then (Some ij, r)
    else best.
  Definition scan (s w : list Z) (g : evalT) : option (nat * nat) * evalT :=
    fold_left (step s w) (pairs s w) (None, g).
  (** while True: scan; break if nothing better; else exchange and carry the stored evaluation along *)
  Fixpoint climb (fuel : nat) (s w : list Z) (g : evalT) : option (list Z * list Z * evalT) :=
    match fuel with
    | O => None
    | S f =>
        match scan s w g with
        | (None, _) => Some (s, w, g)
        | (Some ij, r) => climb f (prop s w ij) (set_nth (snd ij) w (nth (fst ij) s 0)) r
        end
    end.
  (** every decision vector handed to evalfn by the loop, in call order *)
  Fixpoint climb_calls (fuel : nat) (s w : list Z) (g : evalT) : list (list Z) :=
    match fuel with
    | O => []
    | S f =>
        map (prop s w) (pairs s w) ++
        match scan s w g with
        | (None, _) => []
        | (Some ij, r) => climb_calls f (prop s w ij) (set_nth (snd ij) w (nth (fst ij) s 0)) r
        end
    end.

  (** wrkss = decn_space[logical_not(in1d(decn_space, gbest_soln))] *)
  Definition complement (cand s : list Z) : list Z := filter (fun e => negb (memZ e s)) cand.
  Definition climb_from (fuel : nat) (cand start : list Z) : option (list Z * list Z * evalT) :=
    climb fuel start (complement cand start) (ev start).
  Definition climb_calls_from (fuel : nat) (cand start : list Z) : list (list Z) :=
    start :: climb_calls fuel start (complement cand start) (ev start).

  (** SteepestDescentSubsetHillClimber: start = rng.choice(decn_space, ndecn, replace=False), the
      drawn positions [ix] are the oracle *)
  Definition sample (cand : list Z) (ix : list nat) : list Z := map (fun i => nth i cand 0) ix.
  Definition sd_minimize (fuel : nat) (cand : list Z) (ix : list nat) := climb_from fuel cand (sample cand ix).
  (** SortingSteepestDescentSubsetHillClimber: start = the sorting optimiser's selection *)
  Definition ssd_minimize (fuel : nat) (cand : list Z) (k : nat) := climb_from fuel cand (sort_select cand k).
End Opt.

(** ** pymoo_addon operators *)
(** SubsetRandomSampling._do: one np.random.choice(setspace, n_var, replace) per sample *)
Definition subset_sampling (cand : list Z) (ixs : list (list nat)) : list (list Z) := map (sample cand) ixs.

(** boolean-mask indexing  a[mask]  and masked assignment  a[mask] = vals *)
Fixpoint compress {A} (mask : list bool) (l : list A) : list A :=
  match mask, l with
  | m :: mt, x :: t => if m then x :: compress mt t else compress mt t
  | _, _ => []
  end.
Fixpoint scatter {A} (mask : list bool) (l vals : list A) : list A :=
  match mask, l with
  | m :: mt, x :: t =>
      if m then match vals with v :: vs => v :: scatter mt t vs | [] => x :: scatter mt t [] end
      else x :: scatter mt t vals
  | _, _ => l
  end.
(** fancy-index exchange  dst[mex] = src[mex]  (right-hand side evaluated before the assignment;
    repeated indices write the same value) *)
Definition assign_at (mex : list nat) (dst src : list Z) : list Z :=
  map (fun rx => if existsb (Nat.eqb (fst rx)) mex then nth (fst rx) src (snd rx) else snd rx)
      (combine (seq 0 (length dst)) dst).

(** ReducedExchangeCrossover._do for one mating *)
Definition rex_mab (a b : list Z) : list bool := map (fun x => negb (memZ x b)) a.
Definition rex_clen (a b : list Z) : nat :=
  Nat.min (length (compress (rex_mab a b) a)) (length (compress (rex_mab b a) b)).
(** nex = 0 if clen < 2 else np.random.randint(1, clen) *)
Definition rex_nex (clen draw : nat) : nat := if (clen <? 2)%nat then 0%nat else draw.
Definition rex_cross (a b : list Z) (mex : list nat) : list Z * list Z :=
  let mab := rex_mab a b in
  let mba := rex_mab b a in
  let ap := compress mab a in
  let bp := compress mba b in
  (scatter mab a (assign_at mex ap bp), scatter mba b (assign_at mex bp ap)).

(** ReducedExchangeMutation._do for one individual: NOTE the first mask is "individual NOT in set
    space" exactly as coded; [mex] = (np.random.random(len(pp)) < pp), [chosen] = positions drawn by
    np.random.choice(bp, nex) (with replacement) *)
Definition mex_of (u : list Q) (p : Q) : list bool := map (fun x => negb (Qle_bool p x)) u.
Definition rex_mut (setspace x : list Z) (u : list Q) (p : Q) (chosen : list nat) : list Z :=
  let mab := map (fun e => negb (memZ e setspace)) x in
  let mba := map (fun e => negb (memZ e x)) setspace in
  let ap := compress mab x in
  let bp := compress mba setspace in
  let mex := mex_of u p in
  let ap' := scatter mex ap (map (fun i => nth i bp 0) chosen) in
  scatter mab x ap'.
(** request sizes seen by the scripted numpy.random: (len(pp), len(bp), nex) *)
Definition rex_mut_req (setspace x : list Z) (u : list Q) (p : Q) : nat * nat * nat :=
  let mab := map (fun e => negb (memZ e setspace)) x in
  let mba := map (fun e => negb (memZ e x)) setspace in
  (length (compress mab x), length (compress mba setspace), length (filter (fun b => b) (mex_of u p))).

(** MutatorA / MutatorB .hillclimb (used by NSGA2MutatorA/BSubsetGeneticAlgorithm), repaired code:
      alleles = setspace[~in1d(setspace, x)];  if len(alleles) == 0: return x
      Xhc[:,:] = x;  Xhc[arange(nhcstep), lociix] = alleles[alleleix]
    Trial row t is x with locus lociix[t] exchanged for alleles[alleleix[t]] (one exchange per row).
    [lociix]/[alleleix] are the tiled_choice draws. *)
Definition mutAB_trials (x alleles : list Z) (lociix alleleix : list nat) : list (list Z) :=
  map (fun la => set_nth (fst la) x (nth (snd la) alleles 0)) (combine lociix alleleix).
(** NonDominatedSorting().do(F, only_non_dominated_front=True): positions of the rows that no other row
    Pareto-dominates, in ascending order *)
Fixpoint all2z (f : Z -> Z -> bool) (a b : list Z) : bool :=
  match a, b with x :: s, y :: t => f x y && all2z f s t | [], [] => true | _, _ => false end.
Fixpoint any2z (f : Z -> Z -> bool) (a b : list Z) : bool :=
  match a, b with x :: s, y :: t => f x y || any2z f s t | _, _ => false end.
Definition zdom (f g : list Z) : bool := all2z Z.leb f g && any2z Z.ltb f g.
Definition front_ix (F : list (list Z)) : list nat :=
  filter (fun i => negb (existsb (fun g => zdom g (nth i F [])) F)) (seq 0 (length F)).
(** numpy.argmin of a vector: first position of the minimum *)
Fixpoint argmin_from (best : nat) (bv : Z) (i : nat) (l : list Z) : nat :=
  match l with
  | [] => best
  | v :: t => if v <? bv then argmin_from i v (S i) t else argmin_from best bv (S i) t
  end.
Definition argminZ (l : list Z) : nat := match l with [] => O | v :: t => argmin_from O v 1%nat t end.
(** MutatorA: selix = np.random.choice(len(front)); the chosen trial row is front[selix] *)
Definition mutA_sel (F : list (list Z)) (draw : nat) : nat := nth draw (front_ix F) O.
(** MutatorB: minix = argmin(F[front], axis=0); selix = np.random.choice(minix) = minix[draw] *)
Definition mutB_sel (F : list (list Z)) (draw : nat) : nat :=
  let fr := front_ix F in
  nth (argminZ (map (fun i => nth draw (nth i F []) 0) fr)) fr O.
(** the whole step; [sel] maps the trial rows' objective vectors and the last draw to a row position *)
Definition mutAB_hillclimb (sel : list (list Z) -> nat -> nat) (ev : list Z -> evalT)
    (setspace x : list Z) (lociix alleleix : list nat) (draw : nat) : list Z :=
  match complement setspace x with
  | [] => x
  | alleles =>
      let T := mutAB_trials x alleles lociix alleleix in
      nth (sel (map (fun t => e_obj (ev t)) T) draw) T x
  end.
Definition mutA_hillclimb := mutAB_hillclimb mutA_sel.
Definition mutB_hillclimb := mutAB_hillclimb mutB_sel.
(** evalfn calls of the step: the input chromosome, then every trial row *)
Definition mutAB_calls (setspace x : list Z) (lociix alleleix : list nat) : list (list Z) :=
  match complement setspace x with
  | [] => [x]
  | alleles => x :: mutAB_trials x alleles lociix alleleix
  end.
(** size of the population the last np.random.choice draws from: the front (A) *)
Definition mutA_choice_n (ev : list Z -> evalT) (setspace x : list Z) (lociix alleleix : list nat) : nat :=
  length (front_ix (map (fun t => e_obj (ev t)) (mutAB_trials x (complement setspace x) lociix alleleix))).

(** the FORMER code (before the repair), kept as a regression witness:
      Xhc[:,lociix] = alleles[alleleix]
    addressed whole COLUMNS, so every row of Xhc received all nhcstep replacements (a repeated column index
    keeps the last value) and all rows were equal *)
Definition old_mutAB_row (x alleles : list Z) (lociix alleleix : list nat) : list Z :=
  fold_left (fun row la => set_nth (fst la) row (nth (snd la) alleles 0)) (combine lociix alleleix) x.
Definition old_mutAB_hillclimb (setspace x : list Z) (lociix alleleix : list nat) : list Z :=
  old_mutAB_row x (complement setspace x) lociix alleleix.
(** tiled_choice(a, size): size // a permutations of range(a) followed by size % a distinct values *)
Fixpoint chunks (a : nat) (fuel : nat) (l : list nat) : list (list nat) :=
  match fuel with
  | O => []
  | S f => match l with [] => [] | _ => firstn a l :: chunks a f (skipn a l) end
  end.
Fixpoint nodupn (l : list nat) : bool :=
  match l with [] => true | x :: t => negb (existsb (Nat.eqb x) t) && nodupn t end.
Definition tiled_ok (a size : nat) (l : list nat) : bool :=
  Nat.eqb (length l) size && forallb (fun i => (i <? a)%nat) l && forallb nodupn (chunks a size l).

(** Integer{SimulatedBinaryCrossover,PolynomialMutation}: out.round(0).astype(X.dtype) — numpy rounds
    half to even *)
Definition rhe (q : Q) : Z :=
  let f := Qfloor q in
  let d := (q - inject_Z f)%Q in
  match Qcompare d (1 # 2) with
  | Lt => f
  | Gt => f + 1
  | Eq => if Z.even f then f else f + 1
  end.
Definition int_round (xs : list Q) : list Z := map rhe xs.

(** ** result monitor *)
(** Pareto dominance on objective vectors (pymoo returns either feasible members only, or — when none is
    feasible — the single least-violating member, for which the test is trivially true) *)
Fixpoint all2 {A} (f : A -> A -> bool) (a b : list A) : bool :=
  match a, b with x :: s, y :: t => f x y && all2 f s t | [], [] => true | _, _ => false end.
Fixpoint any2 {A} (f : A -> A -> bool) (a b : list A) : bool :=
  match a, b with x :: s, y :: t => f x y || any2 f s t | _, _ => false end.
Definition qlt_bool (x y : Q) : bool := negb (Qle_bool y x).
Definition pareto_dom (f1 f2 : list Q) : bool := all2 Qle_bool f1 f2 && any2 qlt_bool f1 f2.
Definition nondominated_b (F : list (list Q)) : bool :=
  forallb (fun f1 => forallb (fun f2 => negb (pareto_dom f2 f1)) F) F.

(** ** table problems used by the correspondence (integer valued) *)
Definition look (t : list Z) (e : Z) : Z := nth (Z.to_nat e) t 0.
Definition lin (t x : list Z) : Z := sumZ (map (look t) x).
Fixpoint pairsum (P : list (list Z)) (x : list Z) : Z :=
  match x with
  | [] => 0
  | a :: r => sumZ (map (look (nth (Z.to_nat a) P [])) r) + pairsum P r
  end.
Record tprob := mkTP {
  tW : list (list Z);      (* per objective: linear weight of every element *)
  tP : list (list Z);      (* pair interaction, added to objective 0 *)
  towt : list Z;           (* obj_wt *)
  tC : list (list Z); tcap : list Z; tclip : bool; tiwt : list Z;   (* inequality constraints *)
  tD : list (list Z); ttgt : list Z; tewt : list Z                  (* equality constraints *)
}.
Definition map3 {A B C D} (f : A -> B -> C -> D) (a : list A) (b : list B) (c : list C) : list D :=
  map2 (fun ab c => f (fst ab) (snd ab) c) (combine a b) c.
Definition tp_eval (p : tprob) (x : list Z) : evalT :=
  let objs := map2 (fun j w => nth j (towt p) 1 * (lin w x + (if Nat.eqb j 0 then pairsum (tP p) x else 0)))
                   (seq 0 (length (tW p))) (tW p) in
  let ineq := map3 (fun c cap wt => let v := lin c x - cap in wt * (if tclip p then Z.max 0 v else v))
                   (tC p) (tcap p) (tiwt p) in
  let eqs := map3 (fun d tg wt => wt * Z.abs (lin d x - tg)) (tD p) (ttgt p) (tewt p) in
  (objs, ineq, eqs).
(** linear problems on integer / binary vectors: obj = wt * (A x), ineq = wt * max(0, C x - cap) *)
Definition lp_eval (A : list (list Z)) (owt : list Z) (C : list (list Z)) (cap iwt : list Z) (x : list Z) : evalT :=
  (map2 (fun a w => w * dotZ a x) A owt,
   map3 (fun c cp w => w * Z.max 0 (dotZ c x - cp)) C cap iwt, []).

(** ** position-dependent problems (the value of a member depends on the SLOT of the decision vector it occupies):
    a reported evaluation then belongs to ONE ordering of the decision — reporting the sorted / de-duplicated /
    re-ordered decision together with the values of the original rows is visible *)
(** slot-weighted table lookup: sum_a s[a] * t[x[a]] (slots beyond the weights / the vector contribute nothing) *)
Definition slin (s t x : list Z) : Z := sumZ (map2 (fun w e => w * look t e) s x).
(** table problem with one slot-weight vector per objective (SW), inequality (SC) and equality (SD) constraint *)
Definition tps_eval (p : tprob) (SW SC SD : list (list Z)) (x : list Z) : evalT :=
  let objs := map2 (fun j w => nth j (towt p) 1 * (slin (nth j SW []) w x + (if Nat.eqb j 0 then pairsum (tP p) x else 0)))
                   (seq 0 (length (tW p))) (tW p) in
  let ineq := map2 (fun j c => let v := slin (nth j SC []) c x - nth j (tcap p) 0 in
                               nth j (tiwt p) 1 * (if tclip p then Z.max 0 v else v))
                   (seq 0 (length (tC p))) (tC p) in
  let eqs := map2 (fun j d => nth j (tewt p) 1 * Z.abs (slin (nth j SD []) d x - nth j (ttgt p) 0))
                  (seq 0 (length (tD p))) (tD p) in
  (objs, ineq, eqs).
(** vector encodings (real / integer / binary), exact: every variable is first quantised to a multiple of 1/qn
    (floor(x*qn)/qn; the identity on integers), then obj = wt * (A x), ineq = wt * max(0, C x - cap),
    eq = wt * |D x - tgt| with weights that differ per variable *)
Definition evalQ := (list Q * list Q * list Q)%type.
Definition quantQ (qn : Z) (v : Q) : Q := (inject_Z (Qfloor (v * inject_Z qn)) / inject_Z qn)%Q.
Definition dotZQ (a : list Z) (x : list Q) : Q := sumQ (map2 (fun c v => (inject_Z c * v)%Q) a x).
Definition lpq_eval (qn : Z) (A : list (list Z)) (owt : list Z) (C : list (list Z)) (cap iwt : list Z)
    (D : list (list Z)) (tgt ewt : list Z) (x : list Q) : evalQ :=
  let xq := map (quantQ qn) x in
  (map2 (fun a w => (inject_Z w * dotZQ a xq)%Q) A owt,
   map3 (fun c cp w => (inject_Z w * Qmax' 0 (dotZQ c xq - inject_Z cp))%Q) C cap iwt,
   map3 (fun d tg w => (inject_Z w * Qabs' (dotZQ d xq - inject_Z tg))%Q) D tgt ewt).
Definition evalQ_eqb (a b : evalQ) : bool :=
  ql_eqb (fst (fst a)) (fst (fst b)) && ql_eqb (snd (fst a)) (snd (fst b)) && ql_eqb (snd a) (snd b).
(** the truthfulness clause of the result monitor: every reported row is the evaluation of the reported decision *)
Definition truthful_b (ev : list Z -> evalT) (X : list (list Z)) (R : list evalT) : bool := list_eqb evalT_eqb (map ev X) R.
Definition truthfulQ_b (ev : list Q -> evalQ) (X : list (list Q)) (R : list evalQ) : bool := list_eqb evalQ_eqb (map ev X) R.

(** ** comparison helpers for the shards *)
Definition opt3_eqb (a : option (list Z * list Z * evalT)) (s : list Z) (r : evalT) : bool :=
  match a with Some (s', _, r') => zl_eqb s' s && evalT_eqb r' r | None => false end.
Definition natl2_eqb := list_eqb natl_eqb.

(** ** vocabulary of the kernel definitions regenerated from the source (Gen/C06_Kernel.v) *)
(** the climbers' loop state exactly as the source keeps it: the global best (gbest_obj, gbest_ineqcv, gbest_eqcv,
    gbest_score, gbest_cv) and the running best of one scan (best_i, best_j, best_obj, best_ineqcv, best_eqcv,
    best_score, best_cv) — score and violation are STORED, not recomputed *)
Record gst := mkG { g_obj : list Z; g_ineq : list Z; g_eq : list Z; g_score : Z; g_cv : Z }.
Record hcst := mkHC { h_i : option nat; h_j : option nat; h_obj : list Z; h_ineq : list Z; h_eq : list Z; h_score : Z; h_cv : Z }.
Definition is_none {A} (o : option A) : bool := match o with None => true | Some _ => false end.
Definition g_ev (g : gst) : evalT := (g_obj g, g_ineq g, g_eq g).
Definition h_ev (b : hcst) : evalT := (h_obj b, h_ineq b, h_eq b).
(** numpy: a[ix] for an index array; M[arange(len(cols)), cols] = vals on a matrix whose rows all equal [base];
    argmin(M, axis=0); x.round(decimals).astype(int) *)
Definition np_take {A} (d : A) (l : list A) (ix : list nat) : list A := map (fun i => nth i l d) ix.
Definition np_rowwise_assign (base : list Z) (cols : list nat) (vals : list Z) : list (list Z) :=
  map (fun cv => set_nth (fst cv) base (snd cv)) (combine cols vals).
Definition np_argmin0 (ncol : nat) (M : list (list Z)) : list nat :=
  map (fun j => argminZ (map (fun r => nth j r 0) M)) (seq 0 ncol).
Definition np_round_astype (decimals : Z) (qs : list Q) : list Z := if decimals =? 0 then map rhe qs else [].
(** pymoo_addon.dominates (hand model): constraint violation first, Pareto dominance among feasible solutions *)
Definition dominates_m (o1 : list Z) (cv1 : Z) (o2 : list Z) (cv2 : Z) : bool :=
  if (cv1 <=? 0) && (cv2 <=? 0) then zdom o1 o2 else cv1 <? cv2.
