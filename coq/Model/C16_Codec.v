(** C16 — executable models of the text/table codecs of pybrops:
      VCF import (DensePhasedGenotypeMatrix.from_vcf, DenseGenotypeMatrix.from_vcf),
      data-frame layouts (to_pandas / from_pandas) of genetic maps, coancestry, breeding-value and two-way variance
      matrices and genomic models.
    Floats are binary64 ([PrimFloat]) because two codecs compute with them (cM <-> M conversion, standardisation).
    A data frame is a list of labelled columns.  Definitions only. *)
From Coq Require Import String PrimFloat.
From PV Require Import Lib.Common Lib.FloatK Model.C16_Store.
Local Open Scope Z_scope.

(** ** shared helpers *)
Definition feqb (a b : float) : bool := PrimFloat.eqb a b && Bool.eqb (PrimFloat.get_sign a) (PrimFloat.get_sign b).
Definition fl_eqb := list_eqb feqb.
Definition fll_eqb := list_eqb fl_eqb.
Definition flll_eqb := list_eqb fll_eqb.
Definition strs_eqb : list str -> list str -> bool := zll_eqb.
Definition nthd {A} (d : A) (l : list A) (i : nat) : A := nth i l d.

(** stable insertion sort *)
Section Sort.
  Context {A : Type} (leb : A -> A -> bool).
  Fixpoint insert (x : A) (l : list A) : list A :=
    match l with
    | [] => [x]
    | y :: t => if leb x y then x :: l else y :: insert x t      (* x goes after every y with  y < x  or  y = x *)
    end.
  (* [insert] places x before the first y with x <= y; to keep equal keys in input order we insert from the right *)
  Definition isort (l : list A) : list A := fold_right insert [] l.
End Sort.

(** lexicographic order on strings (python str comparison: by code point) *)
Fixpoint str_leb (a b : str) : bool :=
  match a, b with
  | [], _ => true
  | _ :: _, [] => false
  | x :: a', y :: b' => if x <? y then true else if y <? x then false else str_leb a' b'
  end.
Fixpoint dedup_sorted (l : list str) : list str :=
  match l with
  | [] => []
  | x :: t => match t with
              | [] => [x]
              | y :: _ => if str_eqb x y then dedup_sorted t else x :: dedup_sorted t
              end
  end.
(** numpy.unique on an object array of str *)
Definition uniq_strs (l : list str) : list str := dedup_sorted (isort str_leb l).
Fixpoint index_of (x : str) (l : list str) (i : nat) : option nat :=
  match l with [] => None | y :: t => if str_eqb x y then Some i else index_of x t (S i) end.

(** numpy.unique(int array, return_index, return_counts) on a sorted array: names, start indices, lengths *)
Fixpoint runs (l : list Z) (i : Z) : list (Z * Z * Z) :=
  match l with
  | [] => []
  | x :: t => match runs t (i + 1) with
              | (y, s, c) :: r => if x =? y then (x, i, c + 1) :: r else (x, i, 1) :: (y, s, c) :: r
              | [] => [(x, i, 1)]
              end
  end.
Definition grp_meta (chr : list Z) : list Z * list Z * list Z * list Z :=
  let r := runs chr 0 in
  (map (fun e => fst (fst e)) r, map (fun e => snd (fst e)) r, map (fun e => snd (fst e) + snd e) r, map snd r).

(** ** VCF import *)
Record vrec := mkV { vchrom : Z; vpos : Z; vid : option str; vgt : list (Z * Z) }.
Definition vkey_leb (a b : vrec) : bool := (vchrom a <? vchrom b) || ((vchrom a =? vchrom b) && (vpos a <=? vpos b)).
Definition none_str : str := zs "None".
Record vcf_out := mkVO {
  vo_mat : list (list (list Z));          (* phased: [phase][taxon][variant]; unphased: a single "phase" holding the dosages *)
  vo_chr : list Z; vo_pos : list Z; vo_name : list str;
  vo_meta : option (list Z * list Z * list Z * list Z) }.
Definition vcf_import (phased : bool) (n : nat) (recs : list vrec) (auto_group : bool) : vcf_out :=
  let rs := if auto_group then isort vkey_leb recs else recs in
  let allele (ph : bool) (i : nat) (r : vrec) := let g := nth i (vgt r) (0, 0) in if ph then snd g else fst g in
  let mat := if phased
             then [map (fun i => map (allele false i) rs) (seq 0 n); map (fun i => map (allele true i) rs) (seq 0 n)]
             else [map (fun i => map (fun r => allele false i r + allele true i r) rs) (seq 0 n)] in
  mkVO mat (map vchrom rs) (map vpos rs) (map (fun r => match vid r with Some s => s | None => none_str end) rs)
       (if auto_group then Some (grp_meta (map vchrom rs)) else None).

Definition meta_eqb (a b : option (list Z * list Z * list Z * list Z)) : bool :=
  match a, b with
  | None, None => true
  | Some (n1, s1, e1, l1), Some (n2, s2, e2, l2) => zl_eqb n1 n2 && zl_eqb s1 s2 && zl_eqb e1 e2 && zl_eqb l1 l2
  | _, _ => false
  end.
Definition agree_vcf (phased : bool) (samples : list str) (recs : list vrec) (auto_group : bool)
           (mat : list (list (list Z))) (taxa : list str) (chr pos : list Z) (names : list str)
           (meta : option (list Z * list Z * list Z * list Z)) (ploidy : Z) : bool :=
  let o := vcf_import phased (length samples) recs auto_group in
  zlll_eqb (vo_mat o) mat && strs_eqb samples taxa && zl_eqb (vo_chr o) chr && zl_eqb (vo_pos o) pos
  && strs_eqb (vo_name o) names && meta_eqb (vo_meta o) meta && (ploidy =? 2).

(** ** data frames *)
Inductive cell := CNone | CI (z : Z) | CF (f : float) | CS (s : str) | CB (b : bool).
Definition cell_eqb (a b : cell) : bool :=
  match a, b with
  | CNone, CNone => true
  | CI x, CI y => x =? y
  | CF x, CF y => feqb x y
  | CS x, CS y => str_eqb x y
  | CB x, CB y => Bool.eqb x y
  | _, _ => false
  end.
(** pandas isna(): None or NaN *)
Definition is_na (c : cell) : bool := match c with CNone => true | CF f => negb (PrimFloat.eqb f f) | _ => false end.
Definition tbl := list (cell * list cell).
Definition tbl_eqb (a b : tbl) : bool := list_eqb (fun x y => cell_eqb (fst x) (fst y) && list_eqb cell_eqb (snd x) (snd y)) a b.
(** df.columns.get_loc(name): position of the (first) column with that label *)
Fixpoint col_loc (c : cell) (t : tbl) (i : nat) : option nat :=
  match t with [] => None | (l, _) :: r => if cell_eqb c l then Some i else col_loc c r (S i) end.
Definition col_of (c : cell) (t : tbl) : option (list cell) :=
  match col_loc c t 0 with Some i => option_map snd (nth_error t i) | None => None end.
Definition as_float (c : cell) : option float := match c with CF f => Some f | CI z => Some (f_of_Z z) | _ => None end.
Definition as_int (c : cell) : option Z := match c with CI z => Some z | _ => None end.
Definition as_str (c : cell) : option str := match c with CS s => Some s | _ => None end.
Definition transpose {A} (d : A) (ncol : nat) (rows : list (list A)) : list (list A) := map (fun j => map (fun r => nth j r d) rows) (seq 0 ncol).

(** decimal representation of a natural number (python str(i)) *)
Fixpoint dec_aux (fuel : nat) (z : Z) (acc : str) : str :=
  match fuel with
  | O => acc
  | S k => let acc' := (48 + z mod 10) :: acc in if z / 10 =? 0 then acc' else dec_aux k (z / 10) acc'
  end.
Definition dec (z : Z) : str := dec_aux 20 z [].

(** *** genetic maps: StandardGeneticMap / ExtendedGeneticMap *)
Definition hundred : float := 100%float.
Definition centi : float := 0x1.47ae147ae147bp-7%float.       (* the binary64 nearest to 0.01 *)
Inductive units := UM | UcM.
Record gmap := mkG { g_chr : list Z; g_pos : list Z; g_stop : option (list Z); g_gen : list float;
                     g_name : option (list str); g_fn : option (list str) }.
Definition opt_strs_col (n : nat) (o : option (list str)) : list cell :=
  match o with Some l => map CS l | None => repeat CNone n end.
Definition gmap_to_pandas (ext : bool) (u : units) (g : gmap) : tbl :=
  let gen := match u with UM => g_gen g | UcM => map (fun x => PrimFloat.mul hundred x) (g_gen g) end in
  let n := length (g_chr g) in
  [(CS (zs "chr"), map CI (g_chr g)); (CS (zs "pos"), map CI (g_pos g))]
  ++ (if ext then [(CS (zs "stop"), map CI (match g_stop g with Some s => s | None => [] end))] else [])
  ++ [(CS (zs "cM"), map CF gen)]
  ++ (if ext then [(CS (zs "name"), opt_strs_col n (g_name g)); (CS (zs "fncode"), opt_strs_col n (g_fn g))] else []).
(** rows of a genetic map, sorted jointly when auto_group (lexsort keys genpos, phypos, chrgrp; chrgrp primary) *)
Record grow := mkRow { r_chr : Z; r_pos : Z; r_stop : Z; r_gen : float; r_name : str; r_fn : str }.
Definition grow_leb (a b : grow) : bool :=
  (r_chr a <? r_chr b) || ((r_chr a =? r_chr b) && ((r_pos a <? r_pos b) || ((r_pos a =? r_pos b) && PrimFloat.leb (r_gen a) (r_gen b)))).
Definition gmap_rows (g : gmap) : list grow :=
  let n := length (g_chr g) in
  map (fun i => mkRow (nth i (g_chr g) 0) (nth i (g_pos g) 0) (nth i (match g_stop g with Some s => s | None => [] end) 0)
                      (nth i (g_gen g) 0%float) (nth i (match g_name g with Some s => s | None => [] end) [])
                      (nth i (match g_fn g with Some s => s | None => [] end) [])) (seq 0 n).
Definition gmap_of_rows (g0 : gmap) (rs : list grow) : gmap :=
  mkG (map r_chr rs) (map r_pos rs) (option_map (fun _ => map r_stop rs) (g_stop g0)) (map r_gen rs)
      (option_map (fun _ => map r_name rs) (g_name g0)) (option_map (fun _ => map r_fn rs) (g_fn g0)).
(** the constructor: optional sort + group metadata; the spline's y values per chromosome *)
Definition gmap_construct (auto_group : bool) (g : gmap) : gmap * option (list Z * list Z * list Z * list Z) :=
  if auto_group then let g' := gmap_of_rows g (isort grow_leb (gmap_rows g)) in (g', Some (grp_meta (g_chr g')))
  else (g, None).
Fixpoint zuniq_sorted (l : list Z) : list Z :=
  match l with [] => [] | x :: t => match t with [] => [x] | y :: _ => if x =? y then zuniq_sorted t else x :: zuniq_sorted t end end.
(** interp1d(x = phypos[mask], y = genpos[mask], assume_sorted = False) sorts its points by x (stable) *)
Definition spline_y (g : gmap) : list (Z * list float) :=
  map (fun c => (c, map snd (isort (fun a b => fst a <=? fst b)
                                   (map snd (filter (fun p => fst p =? c) (combine (g_chr g) (combine (g_pos g) (g_gen g))))))))
      (zuniq_sorted (isort Z.leb (g_chr g))).
Definition gmap_from_pandas (ext : bool) (u : units) (with_name with_fn : bool) (auto_group : bool) (t : tbl)
  : option (gmap * option (list Z * list Z * list Z * list Z)) :=
  match col_of (CS (zs "chr")) t, col_of (CS (zs "pos")) t, col_of (CS (zs "cM")) t with
  | Some c, Some p, Some g =>
    match opt_all (map as_int c), opt_all (map as_int p), opt_all (map as_float g) with
    | Some c', Some p', Some g' =>
      let gen := match u with UM => g' | UcM => map (fun x => PrimFloat.mul centi x) g' end in
      let stop := if ext then match col_of (CS (zs "stop")) t with Some s => opt_all (map as_int s) | None => None end else None in
      let nm := if with_name then match col_of (CS (zs "name")) t with Some s => opt_all (map as_str s) | None => None end else None in
      let fn := if with_fn then match col_of (CS (zs "fncode")) t with Some s => opt_all (map as_str s) | None => None end else None in
      Some (gmap_construct auto_group (mkG c' p' stop gen nm fn))
    | _, _, _ => None
    end
  | _, _, _ => None
  end.
Definition opt_strs_eqb := opt_eqb strs_eqb.
Definition gmap_eqb (a b : gmap) : bool :=
  zl_eqb (g_chr a) (g_chr b) && zl_eqb (g_pos a) (g_pos b) && opt_eqb zl_eqb (g_stop a) (g_stop b) && fl_eqb (g_gen a) (g_gen b)
  && opt_strs_eqb (g_name a) (g_name b) && opt_strs_eqb (g_fn a) (g_fn b).
Definition spl_eqb (a b : list (Z * list float)) : bool := list_eqb (fun x y => (fst x =? fst y) && fl_eqb (snd x) (snd y)) a b.
(** agreement: [df] is the frame the implementation produced, [dfr] the frame handed to from_pandas (the same, or the
    one pandas parsed from the CSV file) *)
Definition agree_gmap (ext : bool) (u : units) (auto_group spline : bool) (g : gmap) (df dfr : tbl)
           (back : option (gmap * option (list Z * list Z * list Z * list Z) * option (list (Z * list float)))) : bool :=
  tbl_eqb (gmap_to_pandas ext u g) df
  && match gmap_from_pandas ext u (match g_name g with Some _ => true | None => false end)
                            (match g_fn g with Some _ => true | None => false end) auto_group dfr, back with
     | Some (g', m), Some (gb, mb, sb) =>
       gmap_eqb g' gb && meta_eqb m mb && opt_eqb spl_eqb (if spline then Some (spline_y g') else None) sb
     | None, None => true
     | _, _ => false
     end.

(** *** coancestry matrices (wide layout, one value column per taxon) *)
Record cmat := mkCM { cm_mat : list (list float); cm_taxa : option (list str); cm_grp : option (list Z) }.
Definition cm_to_pandas (grp_col : bool) (m : cmat) : tbl :=
  let n := length (cm_mat m) in
  let names := match cm_taxa m with Some l => l | None => map (fun i => dec (Z.of_nat i)) (seq 0 n) end in
  [(CS (zs "taxa"), map CS names)]
  ++ (if grp_col then [(CS (zs "taxa_grp"), match cm_grp m with Some g => map CI g | None => repeat CNone n end)] else [])
  ++ map (fun j => (CS (nth j names []), map CF (map (fun r => nth j r 0%float) (cm_mat m)))) (seq 0 n).
Definition cm_from_pandas (grp_col : bool) (t : tbl) : option cmat :=
  match col_of (CS (zs "taxa")) t with
  | None => None
  | Some tc =>
    match opt_all (map as_str tc) with
    | None => None
    | Some names =>
      let cols := map (fun nm => match col_of (CS nm) t with Some c => opt_all (map as_float c) | None => None end) names in
      match opt_all cols with
      | None => None
      | Some cs =>
        let n := length names in
        let mat := transpose 0%float n cs in       (* cs is column-major: transpose gives the rows *)
        let grp := if grp_col then
                     match col_of (CS (zs "taxa_grp")) t with
                     | Some g => if forallb is_na g then None
                                 else Some (map (fun c => match c with CI z => z | _ => -1 end) g)
                     | None => None
                     end
                   else None in
        Some (mkCM mat (Some names) grp)
      end
    end
  end.
Definition cm_eqb (a b : cmat) : bool :=
  fll_eqb (cm_mat a) (cm_mat b) && opt_strs_eqb (cm_taxa a) (cm_taxa b) && opt_eqb zl_eqb (cm_grp a) (cm_grp b).
Definition agree_cm (grp_col : bool) (m : cmat) (df dfr : tbl) (back : option cmat) : bool :=
  tbl_eqb (cm_to_pandas grp_col m) df && opt_eqb cm_eqb (cm_from_pandas grp_col dfr) back.

(** *** two-way variance matrices (long layout: one row per (female, male, trait)) *)
Record vmat := mkVM { vm_mat : list (list (list float)); vm_taxa : option (list str); vm_grp : option (list Z); vm_trait : option (list str) }.
Definition zfill (w : nat) (s : str) : str := repeat 48 (w - length s) ++ s.
(** ceil(log10(n)) + 1 *)
Fixpoint clog10 (fuel : nat) (n : Z) (p : Z) (k : nat) : nat :=
  match fuel with O => k | S f => if n <=? p then k else clog10 f n (p * 10) (S k) end.
Definition zwidth (n : nat) : nat := S (clog10 20 (Z.of_nat n) 1 0).
Definition synth (prefix : String.string) (n : nat) : list str :=
  map (fun i => zs prefix ++ zfill (zwidth n) (dec (Z.of_nat i))) (seq 0 n).
Definition vm_to_pandas (grp_cols : bool) (m : vmat) : tbl :=
  let n := length (vm_mat m) in
  let t := length (hd [] (hd [] (vm_mat m))) in
  let taxa := match vm_taxa m with Some l => l | None => synth "Taxon" n end in
  let trait := match vm_trait m with Some l => l | None => synth "Trait" t end in
  let idx := flat_map (fun i => flat_map (fun j => map (fun k => (i, j, k)) (seq 0 t)) (seq 0 n)) (seq 0 n) in
  let gcol (sel : nat * nat * nat -> nat) := match vm_grp m with Some g => map (fun e => CI (nth (sel e) g 0)) idx | None => repeat CNone (length idx) end in
  [(CS (zs "female"), map (fun e => CS (nth (fst (fst e)) taxa [])) idx)]
  ++ (if grp_cols then [(CS (zs "female_grp"), gcol (fun e => fst (fst e)))] else [])
  ++ [(CS (zs "male"), map (fun e => CS (nth (snd (fst e)) taxa [])) idx)]
  ++ (if grp_cols then [(CS (zs "male_grp"), gcol (fun e => snd (fst e)))] else [])
  ++ [(CS (zs "trait"), map (fun e => CS (nth (snd e) trait [])) idx);
      (CS (zs "variance"), map (fun e => CF (nth (snd e) (nth (snd (fst e)) (nth (fst (fst e)) (vm_mat m) []) []) 0%float)) idx)].
(** last row (in file order) carrying the key wins, as numpy's fancy assignment does *)
Definition vm_from_pandas (grp_cols : bool) (t : tbl) : option vmat :=
  match col_of (CS (zs "female")) t, col_of (CS (zs "male")) t, col_of (CS (zs "trait")) t, col_of (CS (zs "variance")) t with
  | Some f, Some m, Some tr, Some v =>
    match opt_all (map as_str f), opt_all (map as_str m), opt_all (map as_str tr), opt_all (map as_float v) with
    | Some f', Some m', Some tr', Some v' =>
      let taxa := uniq_strs (f' ++ m') in
      let trait := uniq_strs tr' in
      let rows := combine (combine (combine f' m') tr') v' in
      let value (a b c : str) : float :=
          fold_left (fun acc r => let '(((x, y), z), w) := r in if str_eqb x a && str_eqb y b && str_eqb z c then w else acc) rows PrimFloat.nan in
      let mat := map (fun a => map (fun b => map (fun c => value a b c) trait) taxa) taxa in
      let first_grp (names : list str) (g : list cell) (a : str) : option Z :=
          match index_of a names 0 with Some i => as_int (nth i g CNone) | None => None end in
      let grp := if grp_cols then
                   match col_of (CS (zs "female_grp")) t, col_of (CS (zs "male_grp")) t with
                   | Some fg, Some mg => opt_all (map (fun a => match first_grp m' mg a with Some z => Some z | None => first_grp f' fg a end) taxa)
                   | _, _ => None
                   end
                 else None in
      if grp_cols && (match grp with None => true | _ => false end) then None
      else Some (mkVM mat (Some taxa) grp (Some trait))
    | _, _, _, _ => None
    end
  | _, _, _, _ => None
  end.
Definition vm_eqb (a b : vmat) : bool :=
  flll_eqb (vm_mat a) (vm_mat b) && opt_strs_eqb (vm_taxa a) (vm_taxa b) && opt_eqb zl_eqb (vm_grp a) (vm_grp b) && opt_strs_eqb (vm_trait a) (vm_trait b).
Definition agree_vm (grp_cols : bool) (m : vmat) (df dfr : tbl) (back : option vmat) : bool :=
  tbl_eqb (vm_to_pandas grp_cols m) df && opt_eqb vm_eqb (vm_from_pandas grp_cols dfr) back.

(** *** breeding-value matrices (wide layout, one column per trait) *)
Record bvmat := mkBV { bv_mat : list (list float); bv_loc : list float; bv_scale : list float;
                       bv_taxa : option (list str); bv_grp : option (list Z); bv_trait : option (list str) }.
Definition bv_unscale (m : bvmat) : list (list float) :=
  map (fun row => map (fun x => PrimFloat.add (PrimFloat.mul (fst (fst x)) (snd (fst x))) (snd x))
                      (combine (combine (bv_scale m) row) (bv_loc m))) (bv_mat m).
Definition bv_to_pandas (unscale : bool) (m : bvmat) : tbl :=
  let t := length (bv_loc m) in
  let vals := if unscale then bv_unscale m else bv_mat m in
  (match bv_taxa m with Some l => [(CS (zs "taxa"), map CS l)] | None => [] end)
  ++ (match bv_grp m with Some g => [(CS (zs "taxa_grp"), map CI g)] | None => [] end)
  ++ map (fun j => (match bv_trait m with Some l => CS (nth j l []) | None => CI (Z.of_nat j) end,
                    map (fun r => CF (nth j r 0%float)) vals)) (seq 0 t).
(** numpy reductions over a short axis: left to right, starting from the first element *)
Definition fsum (l : list float) : float := match l with [] => 0%float | x :: t => fold_left PrimFloat.add t x end.
Definition fmean (l : list float) : float := PrimFloat.div (fsum l) (f_of_Z (Z.of_nat (length l))).
Definition fstd (l : list float) : float :=
  let m := fmean l in
  PrimFloat.sqrt (PrimFloat.div (fsum (map (fun x => let d := PrimFloat.sub x m in PrimFloat.mul d d) l)) (f_of_Z (Z.of_nat (length l)))).
(** from_pandas: the location / scale arguments are never used; from_numpy re-standardises *)
Definition bv_from_pandas (has_taxa has_grp : bool) (t : tbl) : option bvmat :=
  let taxa := if has_taxa then match col_of (CS (zs "taxa")) t with Some c => opt_all (map as_str c) | None => None end else None in
  let grp := if has_grp then match col_of (CS (zs "taxa_grp")) t with Some c => opt_all (map as_int c) | None => None end else None in
  let rest := filter (fun c => negb ((has_taxa && cell_eqb (fst c) (CS (zs "taxa"))) || (has_grp && cell_eqb (fst c) (CS (zs "taxa_grp"))))) t in
  match opt_all (map (fun c => opt_all (map as_float (snd c))) rest) with
  | None => None
  | Some cols =>
    let loc := map fmean cols in
    let sc := map (fun c => let s := fstd c in if PrimFloat.eqb s 0%float then 1%float else s) cols in
    let std := map (fun e => let '(c, l, s) := e in map (fun x => PrimFloat.mul (PrimFloat.div 1%float s) (PrimFloat.sub x l)) c)
                   (combine (combine cols loc) sc) in
    let n := length (hd [] cols) in
    Some (mkBV (transpose 0%float n std) loc sc taxa grp None)
  end.
(** the trait labels read back are the column labels, whatever they are (str, or the integers written for an absent array) *)
Definition bv_trait_cells (has_taxa has_grp : bool) (t : tbl) : list cell :=
  map fst (filter (fun c => negb ((has_taxa && cell_eqb (fst c) (CS (zs "taxa"))) || (has_grp && cell_eqb (fst c) (CS (zs "taxa_grp"))))) t).
Definition bv_eqb (a b : bvmat) : bool :=
  fll_eqb (bv_mat a) (bv_mat b) && fl_eqb (bv_loc a) (bv_loc b) && fl_eqb (bv_scale a) (bv_scale b)
  && opt_strs_eqb (bv_taxa a) (bv_taxa b) && opt_eqb zl_eqb (bv_grp a) (bv_grp b).
Definition agree_bv (unscale : bool) (m : bvmat) (df dfr : tbl) (back : option bvmat) (back_trait : list cell) : bool :=
  let ht := match bv_taxa m with Some _ => true | None => false end in
  let hg := match bv_grp m with Some _ => true | None => false end in
  tbl_eqb (bv_to_pandas unscale m) df
  && match bv_from_pandas ht hg dfr, back with
     | Some x, Some y => bv_eqb x y && list_eqb cell_eqb (bv_trait_cells ht hg dfr) back_trait
     | None, None => true
     | _, _ => false
     end.

(** *** genomic models (dict of frames: one per coefficient block, one column per trait) *)
Definition coef_to_pandas (trait : option (list str)) (t : nat) (m : list (list float)) : tbl :=
  map (fun j => (match trait with Some l => CS (nth j l []) | None => CI (Z.of_nat j) end, map (fun r => CF (nth j r 0%float)) m)) (seq 0 t).
(** from_pandas_dict: the trait labels are the columns of the "beta" frame; every block is read through them *)
Definition coef_from_pandas (labels : list cell) (t : tbl) : option (list (list float)) :=
  let cols := map (fun l => match l with
                            | CI z => option_map snd (nth_error t (Z.to_nat z))      (* an integer label is used as a position *)
                            | _ => col_of l t end) labels in
  match opt_all cols with
  | None => None
  | Some cs => match opt_all (map (fun c => opt_all (map as_float c)) cs) with
               | None => None
               | Some fs => Some (transpose 0%float (length (hd [] fs)) fs)
               end
  end.
Definition agree_gmod (trait : option (list str)) (t : nat) (blocks : list (list (list float))) (dfs dfrs : list tbl)
           (back : option (list (list (list float)))) (back_trait : list cell) : bool :=
  list_eqb tbl_eqb (map (coef_to_pandas trait t) blocks) dfs
  && match dfrs with
     | [] => false
     | beta :: _ =>
       let labels := map fst beta in
       match opt_all (map (coef_from_pandas labels) dfrs), back with
       | Some bs, Some bb => list_eqb fll_eqb bs bb && list_eqb cell_eqb labels back_trait
       | None, None => true
       | _, _ => false
       end
     end.
