(** C02 — the combinators over which harness/translate/c02_kernel.py regenerates the BODY of mat_meiosis / dense_meiosis
    (Gen/C02_Kernel.v) from the source on every run, statement by statement:
      numpy.empty(gshape)[i]                          [blank p]
      rnd[e]                                          [rowQ rnd e]
      a < b   (element-wise on one row)               [cmp_row f rnd xoprob]  with f the generated comparison
      numpy.flatnonzero(mask)                         [flatnonzeroZ mask]
      gamete[i, a:b] = geno[ph, s, a:b]               [copy_seg out a (Some b) (geno_row geno ph s)]
      gamete[i, a:]  = geno[ph, s, a:]                [copy_seg out a None (geno_row geno ph s)]
      for i, s in enumerate(sel)                      [enumerateZ sel]
      numpy.stack([a, b])                             the two-element list [a; b]
    Indices and the phase are integers ([Z], as in the source); the row under construction is a list of p cells that are
    overwritten in place.  Definitions only. *)
From PV Require Import Lib.Common Model.C01_Meiosis.
Local Open Scope Z_scope.

(** numpy.empty: cells not yet written (their value is irrelevant; every cell is overwritten, which is proved) *)
Definition blank (p : nat) : list Z := repeat 0 p.

Definition rowQ (rnd : list (list Q)) (i : Z) : list Q := if i <? 0 then [] else nth (Z.to_nat i) rnd [].
Definition geno_row (geno : list (list (list Z))) (phase s : Z) : list Z :=
  if (phase <? 0) || (s <? 0) then [] else row geno (Z.to_nat phase) (Z.to_nat s).

(** element-wise comparison of one row of draws with the probability vector (same recursion as C01's [xo_row]) *)
Fixpoint cmp_row (f : Q -> Q -> bool) (rnd xoprob : list Q) : list bool :=
  match xoprob with
  | [] => []
  | p :: tp => f (hd 0%Q rnd) p :: cmp_row f (tl rnd) tp
  end.

Definition flatnonzeroZ (mask : list bool) : list Z := map Z.of_nat (flatnonzero 0 mask).

(** out[a:b] = src[a:b]  (b = None: to the end); bounds are clipped as numpy does for slices of a row of length |out| *)
Definition copy_seg (out : list Z) (a : Z) (b : option Z) (src : list Z) : list Z :=
  let n := length out in
  let a' := Nat.min (Z.to_nat a) n in
  let b' := match b with Some b => Nat.min (Z.to_nat b) n | None => n end in
  firstn a' out ++ slice a' b' src ++ skipn (Nat.max a' b') out.

(** for i, s in enumerate(sel) *)
Definition enumerateZ (sel : list nat) : list (Z * Z) :=
  map (fun p => (Z.of_nat (fst p), Z.of_nat (snd p))) (combine (seq 0 (length sel)) sel).

(** phase as the source has it (0 / 1) *)
Definition b2z (b : bool) : Z := if b then 1 else 0.

(** numpy.repeat(a, n) with integer arguments *)
Definition repeatZ (a n : Z) : list Z := repeat a (Z.to_nat n).

(** ** the loop in combinator form (what Gen/C02_Kernel.v must regenerate; equal to it by [reflexivity]) *)
Definition loop_step (geno : list (list (list Z))) (i s : Z) (st_ : Z * Z * list Z) (spix : Z) : Z * Z * list Z :=
  let '(phase, stix, out) := st_ in
  (1 - phase, spix, copy_seg out stix (Some spix) (geno_row geno phase s)).
Definition loop_finish (geno : list (list (list Z))) (s : Z) (st_ : Z * Z * list Z) : list Z :=
  let '(phase, stix, out) := st_ in copy_seg out stix None (geno_row geno phase s).
Definition loop_gamete (xo : Q -> Q -> bool) (geno : list (list (list Z))) (rnd : list (list Q)) (xoprob : list Q)
    (ncol : nat) (i s : Z) : list Z :=
  loop_finish geno s
    (fold_left (loop_step geno i s) (flatnonzeroZ (cmp_row xo (rowQ rnd i) xoprob)) (0, 0, blank ncol)).
Definition loop_meiosis (xo : Q -> Q -> bool) (geno : list (list (list Z))) (sel : list nat) (xoprob : list Q)
    (rnd : list (list Q)) : list (list Z) :=
  map (fun is_ => loop_gamete xo geno rnd xoprob (length xoprob) (fst is_) (snd is_)) (enumerateZ sel).

(** [chain stix xoix p]: stix <= x1 <= x2 <= ... <= p  (the crossover indices handed to the loop) *)
Fixpoint chain (stix : nat) (xoix : list nat) (p : nat) : Prop :=
  match xoix with
  | [] => (stix <= p)%nat
  | x :: t => (stix <= x)%nat /\ chain x t p
  end.
