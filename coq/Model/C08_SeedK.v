(** C08 — the seeding interface [prng.seed] / [prng.spawn] assembled from the kernel expressions REGENERATED from the source
    ([Gen/C08_Kernel.v], written by harness/translate/c08_kernel.py on every run) on top of the bit-exact MT19937 primitives of
    [Model/C08_World.v] (module [MT]).  Definitions only.  The correspondence shards evaluate THESE definitions against the
    implementation; [Proofs/C08_Kernel.v] proves them equal to the hand-written [MT.prng_seed] / [MT.spawn_ints] by
    [reflexivity], so a changed bound, argument or guard in the source breaks the build of [Props/C08.vo]. *)
From Coq Require Import List ZArith Bool.
From PV Require Import Lib.Common Gen.C08_Entropy Model.C08_World Gen.C08_Kernel.
Import ListNotations.

Module MK.
Local Open Scope Z_scope.

(** prng.seed(s):  py_random.seed(<k_seed_py_arg s>); numpy.random.seed(py_random.randint(<k_seed_np_lo>, <k_seed_np_hi>)) *)
Definition prng_seed (s : Z) : option (MT.st * MT.st) :=
  match MT.randint k_seed_np_lo k_seed_np_hi (MT.py_seed (k_seed_py_arg s)) with
  | Some (x, py) => Some (py, MT.np_seed x)
  | None => None
  end.

(** prng.spawn(None, sbits): one draw *)
Definition spawn_one (sbits : Z) (py : MT.st) : option (list Z * MT.st) :=
  match MT.randint (k_spawn_one_lo sbits) (k_spawn_one_hi sbits) py with
  | Some (x, py1) => Some ([x], py1)
  | None => None
  end.

(** prng.spawn(n, sbits), n an int: one draw per element of range(<count>) *)
Fixpoint spawn_many (n : nat) (sbits : Z) (py : MT.st) : option (list Z * MT.st) :=
  match n with
  | O => Some ([], py)
  | S n' =>
    match MT.randint (k_spawn_many_lo sbits) (k_spawn_many_hi sbits) py with
    | Some (x, py1) => match spawn_many n' sbits py1 with Some (l, py2) => Some (x :: l, py2) | None => None end
    | None => None
    end
  end.

(** one request: [None] = spawn() / spawn(None);  [Some n] = spawn(n); a rejected n (ValueError) is [None] of the result *)
Definition spawn_req (r : option Z) (sbits : Z) (py : MT.st) : option (list Z * MT.st) :=
  match r with
  | None => spawn_one sbits py
  | Some n => if k_spawn_reject n then None else spawn_many (Z.to_nat (k_spawn_many_count n)) sbits py
  end.

Fixpoint spawn_all (reqs : list (option Z)) (sbits : Z) (py : MT.st) : option (list (list Z) * MT.st) :=
  match reqs with
  | [] => Some ([], py)
  | r :: t => match spawn_req r sbits py with
              | Some (l, py1) => match spawn_all t sbits py1 with Some (ls, py2) => Some (l :: ls, py2) | None => None end
              | None => None
              end
  end.

(** [sbits = None]: the caller did not pass sbits (the default of the signature applies) *)
Definition sbits_of (o : option Z) : Z := match o with Some b => b | None => k_spawn_default_sbits end.

Definition seed_scenario_agree (s : Z) (reqs : list (option Z)) (sbits : option Z)
    (py_key : list Z) (py_pos : nat) (np_key : list Z) (np_pos : nat) (ents : list (list Z)) (py_key2 : list Z) (py_pos2 : nat) : bool :=
  match prng_seed s with
  | None => false
  | Some (py, np) =>
    MT.st_eqb py (MT.mk py_key py_pos) && MT.st_eqb np (MT.mk np_key np_pos) &&
    match spawn_all reqs (sbits_of sbits) py with
    | None => false
    | Some (ls, py2) => zll_eqb ls ents && MT.st_eqb py2 (MT.mk py_key2 py_pos2)
    end
  end.

(** a rejected request: the implementation raised ValueError and left the python stream where it was *)
Definition spawn_rejected (n : Z) : bool := k_spawn_reject n.
End MK.
