(** C08 — executable model for "seeded runs are reproducible, explicit generators are isolated".

    Three layers, definitions only:

    1. [MT]: bit-exact model of what [pybrops.core.random.prng.seed] and [spawn] do to the two global
       streams: CPython's [random.seed(int)] (MT19937 [init_by_array] over the 32-bit words of |s|),
       [random.randint(0, 2^k - 1)] ([_randbelow]: [getrandbits(k+1)] rejection loop), numpy's legacy
       [numpy.random.seed(x)] (MT19937 [init_genrand]); [spawn] draws one 64-bit (default) integer per
       stream from the Python stream.
    2. [Footprint]: the reference graph regenerated from the source ([Gen/C08_Entropy.v]) with the set of
       entropy sources each function can reach (bit masks, computed by iteration, certified by a
       post-fixed-point check).
    3. [World]: a store of generator states {python global, numpy global, OS, explicit generators};
       a call reads and writes the locations of its footprint; programs are lists of calls. *)
From Coq Require Import List ZArith NArith PArith Bool Lia FMapPositive.
From Coq Require String.
From PV Require Import Lib.Common Gen.C08_Entropy.
Import ListNotations String.StringSyntax.

(* ================================================================================================ *)
(** * 1. MT19937 as used by CPython's [random] and numpy's legacy [RandomState] *)
Module MT.
Local Open Scope Z_scope.

Definition w32 (x : Z) : Z := Z.land x 4294967295.
Definition upd (l : list Z) (i : nat) (v : Z) : list Z := firstn i l ++ v :: skipn (S i) l.
Definition get (l : list Z) (i : nat) : Z := nth i l 0.

(** init_genrand(s): mt[0] = s; mt[i] = 1812433253 * (mt[i-1] ^ (mt[i-1] >> 30)) + i *)
Fixpoint init_genrand_aux (n : nat) (i prev : Z) : list Z :=
  match n with
  | O => []
  | S n' => let x := w32 (1812433253 * (Z.lxor prev (Z.shiftr prev 30)) + i) in x :: init_genrand_aux n' (i + 1) x
  end.
Definition init_genrand (s : Z) : list Z := let s0 := w32 s in s0 :: init_genrand_aux 623 1 s0.

(** init_by_array(key): the two mixing loops of the reference implementation, index arithmetic as in C *)
Fixpoint iba_loop1 (fuel : nat) (mt key : list Z) (klen : nat) (i j : nat) : list Z * nat :=
  match fuel with
  | O => (mt, i)
  | S f =>
    let p := get mt (i - 1) in
    let v := w32 (Z.lxor (get mt i) ((Z.lxor p (Z.shiftr p 30)) * 1664525) + get key j + Z.of_nat j) in
    let mt := upd mt i v in
    let i := S i in let j := S j in
    let '(mt, i) := if Nat.leb 624 i then (upd mt 0 (get mt 623), 1%nat) else (mt, i) in
    let j := if Nat.leb klen j then 0%nat else j in
    iba_loop1 f mt key klen i j
  end.
Fixpoint iba_loop2 (fuel : nat) (mt : list Z) (i : nat) : list Z :=
  match fuel with
  | O => mt
  | S f =>
    let p := get mt (i - 1) in
    let v := w32 (Z.lxor (get mt i) ((Z.lxor p (Z.shiftr p 30)) * 1566083941) - Z.of_nat i) in
    let mt := upd mt i v in
    let i := S i in
    let '(mt, i) := if Nat.leb 624 i then (upd mt 0 (get mt 623), 1%nat) else (mt, i) in
    iba_loop2 f mt i
  end.
Definition init_by_array (key : list Z) : list Z :=
  let klen := length key in
  let '(mt, i) := iba_loop1 (Nat.max 624 klen) (init_genrand 19650218) key klen 1 0 in
  upd (iba_loop2 623 mt i) 0 2147483648.

(** little-endian 32-bit words of a non-negative integer; [0] for 0 (CPython random_seed) *)
Fixpoint words_pos (fuel : nat) (a : Z) : list Z :=
  match fuel with
  | O => []
  | S f => if a =? 0 then [] else w32 a :: words_pos f (Z.shiftr a 32)
  end.
Definition key_of_int (s : Z) : list Z :=
  let a := Z.abs s in
  if a =? 0 then [0] else words_pos (S (Z.to_nat (Z.log2 a / 32 + 1))) a.

Record st := mk { key : list Z; pos : nat }.
Definition st_eqb (a b : st) : bool := zl_eqb (key a) (key b) && Nat.eqb (pos a) (pos b).

(** the twist: regenerate all 624 words in place *)
Definition mag (y : Z) : Z := if Z.testbit y 0 then 2567483615 else 0.
Definition mixw (a b : Z) : Z := Z.lor (Z.land a 2147483648) (Z.land b 2147483647).
Fixpoint twist_loop (n : nat) (kk : nat) (mt : list Z) : list Z :=
  match n with
  | O => mt
  | S n' =>
    let y := mixw (get mt kk) (get mt (if Nat.eqb kk 623 then 0 else S kk)%nat) in
    let src := if Nat.ltb kk 227 then (kk + 397)%nat else (kk - 227)%nat in
    let v := Z.lxor (Z.lxor (get mt src) (Z.shiftr y 1)) (mag y) in
    twist_loop n' (S kk) (upd mt kk v)
  end.
Definition twist (mt : list Z) : list Z := twist_loop 624 0 mt.
Definition temper (y : Z) : Z :=
  let y := Z.lxor y (Z.shiftr y 11) in
  let y := Z.lxor y (Z.land (Z.shiftl y 7) 2636928640) in
  let y := Z.lxor y (Z.land (Z.shiftl y 15) 4022730752) in
  Z.lxor y (Z.shiftr y 18).
Definition genrand (s : st) : Z * st :=
  let '(k, p) := if Nat.leb 624 (pos s) then (twist (key s), 0%nat) else (key s, pos s) in
  (temper (get k p), mk k (S p)).

(** CPython getrandbits(k): 32-bit words, least significant first, the last one shifted down *)
Fixpoint getrandbits_words (nw : nat) (k : Z) (shift : Z) (s : st) : Z * st :=
  match nw with
  | O => (0, s)
  | S n =>
    let '(r, s1) := genrand s in
    let r := if k <? 32 then Z.shiftr r (32 - k) else r in
    let '(rest, s2) := getrandbits_words n (k - 32) (shift + 32) s1 in
    (Z.shiftl r shift + rest, s2)
  end.
Definition getrandbits (k : Z) (s : st) : Z * st := getrandbits_words (Z.to_nat ((k - 1) / 32 + 1)) k 0 s.

(** Random._randbelow_with_getrandbits(n) *)
Definition bit_length (n : Z) : Z := if n =? 0 then 0 else Z.log2 n + 1.
Fixpoint randbelow_loop (fuel : nat) (n k : Z) (s : st) : option (Z * st) :=
  match fuel with
  | O => None
  | S f => let '(r, s1) := getrandbits k s in if r <? n then Some (r, s1) else randbelow_loop f n k s1
  end.
Definition randbelow (n : Z) (s : st) : option (Z * st) := randbelow_loop 200 n (bit_length n) s.
(** random.randint(a, b) = a + _randbelow(b - a + 1) *)
Definition randint (a b : Z) (s : st) : option (Z * st) :=
  match randbelow (b - a + 1) s with Some (r, s1) => Some (a + r, s1) | None => None end.

(** random.seed(int) and numpy.random.seed(x) *)
Definition py_seed (s : Z) : st := mk (init_by_array (key_of_int s)) 624.
Definition np_seed (x : Z) : st := mk (init_genrand x) 624.

(** pybrops.core.random.prng.seed(s):  random.seed(s); numpy.random.seed(random.randint(0, 2**32-1)) *)
Definition prng_seed (s : Z) : option (st * st) :=
  match randint 0 (2 ^ 32 - 1) (py_seed s) with
  | Some (x, py) => Some (py, np_seed x)
  | None => None
  end.

(** pybrops.core.random.prng.spawn(n, sbits): the integers handed to the bit-generator constructor *)
Fixpoint spawn_ints (n : nat) (sbits : Z) (py : st) : option (list Z * st) :=
  match n with
  | O => Some ([], py)
  | S n' =>
    match randint 0 (2 ^ sbits - 1) py with
    | Some (x, py1) => match spawn_ints n' sbits py1 with Some (l, py2) => Some (x :: l, py2) | None => None end
    | None => None
    end
  end.

(** a whole scenario: seed, then a list of spawn requests; observable = python state, numpy state, entropies *)
Fixpoint spawn_all (reqs : list nat) (sbits : Z) (py : st) : option (list (list Z) * st) :=
  match reqs with
  | [] => Some ([], py)
  | n :: t => match spawn_ints n sbits py with
              | Some (l, py1) => match spawn_all t sbits py1 with Some (ls, py2) => Some (l :: ls, py2) | None => None end
              | None => None
              end
  end.

Definition seed_scenario_agree (s : Z) (reqs : list nat) (sbits : Z)
    (py_key : list Z) (py_pos : nat) (np_key : list Z) (np_pos : nat) (ents : list (list Z)) (py_key2 : list Z) (py_pos2 : nat) : bool :=
  match prng_seed s with
  | None => false
  | Some (py, np) =>
    st_eqb py (mk py_key py_pos) && st_eqb np (mk np_key np_pos) &&
    match spawn_all reqs sbits py with
    | None => false
    | Some (ls, py2) => zll_eqb ls ents && st_eqb py2 (mk py_key2 py_pos2)
    end
  end.
End MT.

(* ================================================================================================ *)
(** * 2. Footprints over the regenerated reference graph *)
Module FP.
Local Open Scope N_scope.

(** source bits of the table *)
Definition PARAM := 1. Definition SELF := 2. Definition DEFAULT := 4. Definition NP := 8.
Definition PY := 16. Definition OS := 32. Definition DROPS := 64. Definition IGNORED := 128.
(** the sources a component may reach when it is handed its own generator *)
Definition EXPLICIT_OK := 7.

Definition sub (a b : N) : bool := N.lor a b =? b.
Definition has (bit : N) (m : N) : bool := negb (N.land m bit =? 0).

Definition table := PositiveMap.t (N * list positive).
Definition build (l : list node) : table :=
  fold_left (fun t '(n, d, s) => PositiveMap.add n (d, s) t) l (PositiveMap.empty _).
Definition direct (t : table) (n : positive) : N := match PositiveMap.find n t with Some (d, _) => d | None => 0 end.
Definition succs (t : table) (n : positive) : list positive := match PositiveMap.find n t with Some (_, s) => s | None => [] end.

Definition fpmap := PositiveMap.t N.
Definition fget (fp : fpmap) (n : positive) : N := match PositiveMap.find n fp with Some x => x | None => 0 end.

(** [dir n d]: the direct mask that counts for node n (used to blank out the named root causes) *)
Definition step1 (dir : positive -> N -> N) (t : table) (acc : fpmap * bool) (e : positive * (N * list positive)) : fpmap * bool :=
  let '(fp, ch) := acc in
  let '(n, (d, s)) := e in
  let old := fget fp n in
  let new := fold_left (fun a m => N.lor a (fget fp m)) s (N.lor old (dir n d)) in
  if new =? old then (fp, ch) else (PositiveMap.add n new fp, true).
Fixpoint iterate (fuel : nat) (dir : positive -> N -> N) (t : table) (els : list (positive * (N * list positive))) (fp : fpmap) : fpmap :=
  match fuel with
  | O => fp
  | S f => let '(fp', ch) := fold_left (step1 dir t) els (fp, false) in if ch then iterate f dir t els fp' else fp'
  end.
Definition compute (dir : positive -> N -> N) (t : table) : fpmap :=
  iterate 200 dir t (PositiveMap.elements t) (PositiveMap.empty _).

(** certificate: fp is a post-fixed point of the reference graph *)
Definition postfix (dir : positive -> N -> N) (t : table) (fp : fpmap) : bool :=
  forallb (fun '(n, (d, s)) => sub (dir n d) (fget fp n) && forallb (fun m => sub (fget fp m) (fget fp n)) s) (PositiveMap.elements t).

Inductive reach (t : table) : positive -> positive -> Prop :=
| reach_refl : forall n, reach t n n
| reach_step : forall n m k, In m (succs t n) -> reach t m k -> reach t n k.

Definition pmem (x : positive) (l : list positive) : bool := existsb (Pos.eqb x) l.

(** names *)
Fixpoint lookup (nm : String.string) (l : list (String.string * positive)) : option positive :=
  match l with [] => None | (s, p) :: t => if String.eqb s nm then Some p else lookup nm t end.
Definition id_of (nm : String.string) : option positive := lookup nm names.
Fixpoint ids_of (l : list String.string) : option (list positive) :=
  match l with
  | [] => Some []
  | s :: t => match id_of s, ids_of t with Some p, Some r => Some (p :: r) | _, _ => None end
  end.

(** ** the table of this source tree *)
Definition tbl : table := Eval vm_compute in build nodes.

(** hand-written lists, matched BY NAME against the regenerated table (relative to the package root) *)
Local Open Scope string_scope.
(** root causes of the known findings: the nodes whose own body brings in a forbidden source *)
(** Repaired in the source, hence NOT listed any more (a stale entry breaks [roots_real]):
    - C08-ga-os-entropy: every pymoo minimize() call passes seed = f(self.rng); the translator reports OS at any call site without;
    - C08-ga-ignores-rng: SubsetRandomSampling / ReducedExchangeCrossover / ReducedExchangeMutation draw from the random_state
      pymoo hands them;
    - C08-selcfg-global-rng: the 8 selection protocols pass rng = self.rng to the configuration and to their default optimisers;
    - C08-helpers-global-rng: Random*SelectionProblem.from_object accepts rng, Random*Selection.problem passes self.rng;
    - C08-g1norm-global-shuffle: Generalized1NormGenomicSelection.select shuffles with self.rng;
    - C08-setga-python-random: UnconstrainedSetGeneticAlgorithm.sel*Replacement draw from self.rng;
    - C08-memetic-ignores-rng: the memetic mutation operators (hill-climber mutations, MutatorA/B/F, tiled_choice) draw from the
      random_state pymoo hands them and pass it on to their helper methods;
    - C08-selprot-rng-setter-stale-optimiser (and the legacy protocols): the rng setter re-points the default optimisers the protocol built.
    The formerly failing sites are listed in [repaired] below and proved explicit-only without exception. *)
Definition roots_global_helpers : list String.string := [   (* C08-helpers-no-rng-param : helpers WITHOUT an rng parameter, reachable from rng-taking protocols, draw from the global stream *)
  "breed.prot.sel.prob.RealLookAheadGeneralizedWeightedGenomicSelectionProblem.RealLookAheadGeneralizedWeightedGenomicSelectionProblem.latentfn";
  "model.embvmat.DenseExpectedMaximumBreedingValueMatrix.DenseExpectedMaximumBreedingValueMatrix.from_gmod";
  "popgen.cmat.DenseCoancestryMatrix.DenseCoancestryMatrix.apply_jitter" ].
Definition roots_py : list String.string := [   (* C08-deap-python-random : deap.tools.selTournamentDCD draws from python's global stream *)
  "opt.algo.UnconstrainedNSGA2SetGeneticAlgorithm.UnconstrainedNSGA2SetGeneticAlgorithm.optimize" ].
(** the seeding interface itself: by design it writes both global streams *)
Definition roots_prng : list String.string := [ "core.random.prng.seed"; "core.random.prng.spawn" ].
Definition root_names : list String.string :=
  roots_global_helpers ++ roots_py ++ roots_prng.

(** the formerly failing sites of the repaired findings (the former root causes): explicit-only, no exception, not a root *)
Definition repaired : list String.string := [
  (* C08-ga-ignores-rng *)
  "opt.algo.pymoo_addon.SubsetRandomSampling._do";
  "opt.algo.pymoo_addon.ReducedExchangeCrossover._do";
  "opt.algo.pymoo_addon.ReducedExchangeMutation._do";
  (* C08-selcfg-global-rng *)
  "breed.prot.sel.BinaryMateSelectionProtocol.BinaryMateSelectionProtocol.select";
  "breed.prot.sel.BinarySelectionProtocol.BinarySelectionProtocol.select";
  "breed.prot.sel.IntegerMateSelectionProtocol.IntegerMateSelectionProtocol.select";
  "breed.prot.sel.IntegerSelectionProtocol.IntegerSelectionProtocol.select";
  "breed.prot.sel.RealMateSelectionProtocol.RealMateSelectionProtocol.select";
  "breed.prot.sel.RealSelectionProtocol.RealSelectionProtocol.select";
  "breed.prot.sel.SubsetMateSelectionProtocol.SubsetMateSelectionProtocol.select";
  "breed.prot.sel.SubsetSelectionProtocol.SubsetSelectionProtocol.select";
  "breed.prot.sel.BinarySelectionProtocol.BinarySelectionProtocol.soalgo.setter";
  "breed.prot.sel.BinarySelectionProtocol.BinarySelectionProtocol.moalgo.setter";
  "breed.prot.sel.IntegerSelectionProtocol.IntegerSelectionProtocol.soalgo.setter";
  "breed.prot.sel.IntegerSelectionProtocol.IntegerSelectionProtocol.moalgo.setter";
  "breed.prot.sel.RealSelectionProtocol.RealSelectionProtocol.soalgo.setter";
  "breed.prot.sel.RealSelectionProtocol.RealSelectionProtocol.moalgo.setter";
  "breed.prot.sel.SubsetSelectionProtocol.SubsetSelectionProtocol.soalgo.setter";
  "breed.prot.sel.SubsetSelectionProtocol.SubsetSelectionProtocol.moalgo.setter";
  (* C08-helpers-global-rng *)
  "breed.prot.sel.prob.RandomSelectionProblem.RandomBinarySelectionProblem.from_object";
  "breed.prot.sel.prob.RandomSelectionProblem.RandomIntegerSelectionProblem.from_object";
  "breed.prot.sel.prob.RandomSelectionProblem.RandomRealSelectionProblem.from_object";
  "breed.prot.sel.prob.RandomSelectionProblem.RandomSubsetSelectionProblem.from_object";
  (* C08-g1norm-global-shuffle *)
  "breed.prot.sel.UnconstrainedGeneralized1NormGenomicSelection.Generalized1NormGenomicSelection.select";
  (* C08-setga-python-random *)
  "opt.algo.UnconstrainedSetGeneticAlgorithm.UnconstrainedSetGeneticAlgorithm.selRandomReplacement";
  "opt.algo.UnconstrainedSetGeneticAlgorithm.UnconstrainedSetGeneticAlgorithm.selTournamentReplacement";
  (* C08-memetic-ignores-rng *)
  "opt.algo.pymoo_addon.tiled_choice";
  "opt.algo.pymoo_addon.MultiObjectiveStochasticHillClimberMutation.hillclimb";
  "opt.algo.pymoo_addon.MultiObjectiveStochasticHillClimberMutation._do";
  "opt.algo.pymoo_addon.MultiObjectiveSteepestDescentHillClimberMutation.hillclimb";
  "opt.algo.pymoo_addon.MultiObjectiveSteepestDescentHillClimberMutation.do";
  "opt.algo.pymoo_addon.MultiObjectiveSteepestDescentHillClimberMutation._do";
  "opt.algo.pymoo_addon.MultiObjectiveStochasticDescentHillClimberMutation.hillclimb";
  "opt.algo.pymoo_addon.MultiObjectiveStochasticDescentHillClimberMutation.do";
  "opt.algo.pymoo_addon.MultiObjectiveStochasticDescentHillClimberMutation._do";
  "opt.algo.pymoo_addon.StochasticHillClimberMutation.reduced_exchange";
  "opt.algo.pymoo_addon.StochasticHillClimberMutation.hillclimb";
  "opt.algo.pymoo_addon.StochasticHillClimberMutation._do";
  "opt.algo.pymoo_addon.MutatorA.reduced_exchange";
  "opt.algo.pymoo_addon.MutatorA.hillclimb";
  "opt.algo.pymoo_addon.MutatorA._do";
  "opt.algo.pymoo_addon.MutatorB.reduced_exchange";
  "opt.algo.pymoo_addon.MutatorB.hillclimb";
  "opt.algo.pymoo_addon.MutatorB._do";
  "opt.algo.pymoo_addon.MutatorF.reduced_exchange";
  "opt.algo.pymoo_addon.MutatorF.hillclimb";
  "opt.algo.pymoo_addon.MutatorF._do";
  (* C08-selprot-rng-setter-stale-optimiser, C08-legacy-selprot-rng-setter-stale-optimiser: the setter names the protocol's generator only
     (and the attribute rng of the optimisers it re-points) *)
  "breed.prot.sel.SelectionProtocol.SelectionProtocol.rng.setter";
  "breed.prot.sel.UnconstrainedGeneralized1NormGenomicSelection.Generalized1NormGenomicSelection.rng.setter";
  "breed.prot.sel.UnconstrainedMultiObjectiveGenomicMating.MultiObjectiveGenomicMating.rng.setter" ].

(** the deep-copy routes of the stochastic classes (C08-default-deepcopy-snapshots-rng repaired: every class that accepts rng inherits one of
    the six base-class methods — audited by introspection on every run — or is G_E_Phenotyping): they must exist in the source, take no
    snapshot of a generator, and reach explicit sources only *)
Definition deepcopy_routes : list String.string := [
  "breed.prot.mate.MatingProtocol.MatingProtocol.__deepcopy__";
  "breed.prot.sel.SelectionProtocol.SelectionProtocol.__deepcopy__";
  "breed.prot.sel.UnconstrainedSelectionProtocol.UnconstrainedSelectionProtocol.__deepcopy__";
  "breed.prot.sel.cfg.SampledSelectionConfigurationMixin.SampledSelectionConfigurationMixin.__deepcopy__";
  "opt.algo.OptimizationAlgorithm.OptimizationAlgorithm.__deepcopy__";
  "opt.algo.UnconstrainedOptimizationAlgorithm.UnconstrainedOptimizationAlgorithm.__deepcopy__";
  "breed.prot.pt.G_E_Phenotyping.G_E_Phenotyping.__deepcopy__" ].

(** components that the property anchors: they MUST be explicit-only (no exception applies to them) *)
Definition must_be_explicit : list String.string := [
  "breed.prot.mate.TwoWayCross.TwoWayCross.mate"; "breed.prot.mate.TwoWayDHCross.TwoWayDHCross.mate";
  "breed.prot.mate.ThreeWayCross.ThreeWayCross.mate"; "breed.prot.mate.ThreeWayDHCross.ThreeWayDHCross.mate";
  "breed.prot.mate.FourWayCross.FourWayCross.mate"; "breed.prot.mate.FourWayDHCross.FourWayDHCross.mate";
  "breed.prot.mate.SelfCross.SelfCross.mate";
  "breed.prot.mate.TwoWayCross.TwoWayCross.__init__"; "breed.prot.mate.TwoWayDHCross.TwoWayDHCross.__init__";
  "breed.prot.mate.ThreeWayCross.ThreeWayCross.__init__"; "breed.prot.mate.ThreeWayDHCross.ThreeWayDHCross.__init__";
  "breed.prot.mate.FourWayCross.FourWayCross.__init__"; "breed.prot.mate.FourWayDHCross.FourWayDHCross.__init__";
  "breed.prot.mate.SelfCross.SelfCross.__init__";
  "breed.prot.mate.util.mat_meiosis"; "breed.prot.mate.util.mat_dh"; "breed.prot.mate.util.mat_mate";
  "core.util.mate.dense_meiosis"; "core.util.mate.dense_dh"; "core.util.mate.dense_cross";
  "breed.prot.pt.G_E_Phenotyping.G_E_Phenotyping.phenotype"; "breed.prot.pt.G_E_Phenotyping.G_E_Phenotyping.__init__";
  (* the copy routes the class defines: the copy holds the SAME generator (rng = self.rng, "should not be copied") *)
  "breed.prot.pt.G_E_Phenotyping.G_E_Phenotyping.__copy__"; "breed.prot.pt.G_E_Phenotyping.G_E_Phenotyping.__deepcopy__";
  "core.random.sampling.stochastic_universal_sampling"; "core.random.sampling.tiled_choice";
  "core.random.sampling.axis_shuffle"; "core.random.sampling.outcross_shuffle";
  "breed.prot.sel.cfg.SubsetSelectionConfiguration.SubsetSelectionConfiguration.sample_xconfig";
  "breed.prot.sel.cfg.BinarySelectionConfiguration.BinarySelectionConfiguration.sample_xconfig";
  "breed.prot.sel.cfg.IntegerSelectionConfiguration.IntegerSelectionConfiguration.sample_xconfig";
  "breed.prot.sel.cfg.RealSelectionConfiguration.RealSelectionConfiguration.sample_xconfig";
  "breed.prot.sel.cfg.SubsetMateSelectionConfiguration.SubsetMateSelectionConfiguration.sample_xconfig";
  "breed.prot.sel.cfg.BinaryMateSelectionConfiguration.BinaryMateSelectionConfiguration.sample_xconfig";
  "breed.prot.sel.cfg.IntegerMateSelectionConfiguration.IntegerMateSelectionConfiguration.sample_xconfig";
  "breed.prot.sel.cfg.RealMateSelectionConfiguration.RealMateSelectionConfiguration.sample_xconfig";
  "breed.prot.sel.cfg.SubsetSelectionConfiguration.SubsetSelectionConfiguration.__init__";
  "breed.prot.sel.cfg.BinarySelectionConfiguration.BinarySelectionConfiguration.__init__";
  "breed.prot.sel.cfg.IntegerSelectionConfiguration.IntegerSelectionConfiguration.__init__";
  "breed.prot.sel.cfg.RealSelectionConfiguration.RealSelectionConfiguration.__init__";
  "breed.prot.sel.cfg.SubsetMateSelectionConfiguration.SubsetMateSelectionConfiguration.__init__";
  "breed.prot.sel.cfg.BinaryMateSelectionConfiguration.BinaryMateSelectionConfiguration.__init__";
  "breed.prot.sel.cfg.IntegerMateSelectionConfiguration.IntegerMateSelectionConfiguration.__init__";
  "breed.prot.sel.cfg.RealMateSelectionConfiguration.RealMateSelectionConfiguration.__init__";
  "opt.algo.SteepestDescentSubsetHillClimber.SteepestDescentSubsetHillClimber.minimize";
  "opt.algo.SteepestDescentSubsetHillClimber.SteepestDescentSubsetHillClimber.__init__";
  "opt.algo.UnconstrainedSteepestAscentSetHillClimber.UnconstrainedSteepestAscentSetHillClimber.optimize";
  (* pymoo-based optimisers whose operators are pymoo's own: pymoo's generator is seeded from self.rng *)
  "opt.algo.BinaryGeneticAlgorithm.BinaryGeneticAlgorithm.minimize"; "opt.algo.BinaryGeneticAlgorithm.BinaryGeneticAlgorithm.__init__";
  "opt.algo.IntegerGeneticAlgorithm.IntegerGeneticAlgorithm.minimize"; "opt.algo.IntegerGeneticAlgorithm.IntegerGeneticAlgorithm.__init__";
  "opt.algo.RealGeneticAlgorithm.RealGeneticAlgorithm.minimize"; "opt.algo.RealGeneticAlgorithm.RealGeneticAlgorithm.__init__";
  "opt.algo.NSGA2BinaryGeneticAlgorithm.NSGA2BinaryGeneticAlgorithm.minimize"; "opt.algo.NSGA2BinaryGeneticAlgorithm.NSGA2BinaryGeneticAlgorithm.__init__";
  "opt.algo.NSGA2IntegerGeneticAlgorithm.NSGA2IntegerGeneticAlgorithm.minimize"; "opt.algo.NSGA2IntegerGeneticAlgorithm.NSGA2IntegerGeneticAlgorithm.__init__";
  "opt.algo.NSGA2RealGeneticAlgorithm.NSGA2RealGeneticAlgorithm.minimize"; "opt.algo.NSGA2RealGeneticAlgorithm.NSGA2RealGeneticAlgorithm.__init__";
  (* pymoo-based subset optimisers: since the repair of C08-ga-ignores-rng their operators draw from pymoo's generator too *)
  "opt.algo.SubsetGeneticAlgorithm.SubsetGeneticAlgorithm.minimize"; "opt.algo.SubsetGeneticAlgorithm.SubsetGeneticAlgorithm.__init__";
  "opt.algo.NSGA2SubsetGeneticAlgorithm.NSGA2SubsetGeneticAlgorithm.minimize"; "opt.algo.NSGA2SubsetGeneticAlgorithm.NSGA2SubsetGeneticAlgorithm.__init__";
  "opt.algo.NSGA3SubsetGeneticAlgorithm.NSGA3SubsetGeneticAlgorithm.minimize"; "opt.algo.NSGA3SubsetGeneticAlgorithm.NSGA3SubsetGeneticAlgorithm.__init__";
  (* the memetic NSGA-II optimisers: since the repair of C08-memetic-ignores-rng *)
  "opt.algo.NSGA2MemeticSubsetGeneticAlgorithm.NSGA2MutatorASubsetGeneticAlgorithm.minimize"; "opt.algo.NSGA2MemeticSubsetGeneticAlgorithm.NSGA2MutatorASubsetGeneticAlgorithm.__init__";
  "opt.algo.NSGA2MemeticSubsetGeneticAlgorithm.NSGA2MutatorBSubsetGeneticAlgorithm.minimize"; "opt.algo.NSGA2MemeticSubsetGeneticAlgorithm.NSGA2MutatorBSubsetGeneticAlgorithm.__init__";
  "opt.algo.NSGA2MemeticSubsetGeneticAlgorithm.NSGA2SteepestDescentSubsetGeneticAlgorithm.minimize"; "opt.algo.NSGA2MemeticSubsetGeneticAlgorithm.NSGA2SteepestDescentSubsetGeneticAlgorithm.__init__";
  "opt.algo.NSGA2MemeticSubsetGeneticAlgorithm.NSGA2StochasticDescentSubsetGeneticAlgorithm.minimize"; "opt.algo.NSGA2MemeticSubsetGeneticAlgorithm.NSGA2StochasticDescentSubsetGeneticAlgorithm.__init__";
  (* legacy set GA: since the repair of C08-setga-python-random *)
  "opt.algo.UnconstrainedSetGeneticAlgorithm.UnconstrainedSetGeneticAlgorithm.optimize";
  "opt.algo.UnconstrainedSetGeneticAlgorithm.UnconstrainedSetGeneticAlgorithm.__init__";
  (* random selection: problem construction draws the random breeding values from the protocol's generator *)
  "breed.prot.sel.RandomSelection.RandomBinarySelection.problem"; "breed.prot.sel.RandomSelection.RandomIntegerSelection.problem";
  "breed.prot.sel.RandomSelection.RandomRealSelection.problem"; "breed.prot.sel.RandomSelection.RandomSubsetSelection.problem" ]
  ++ repaired.
(** components that use the global stream by design (no rng argument): reproducible after seeding *)
Definition global_by_design : list String.string := [
  "popgen.cmat.DenseCoancestryMatrix.DenseCoancestryMatrix.apply_jitter";
  "model.embvmat.DenseExpectedMaximumBreedingValueMatrix.DenseExpectedMaximumBreedingValueMatrix.from_gmod";
  "core.random.prng.seed"; "core.random.prng.spawn" ].
Local Close Scope string_scope.

Definition opt_list {A} (o : option (list A)) : list A := match o with Some l => l | None => [] end.
Definition root_ids : list positive := Eval vm_compute in opt_list (ids_of root_names).
Definition must_ids : list positive := Eval vm_compute in opt_list (ids_of must_be_explicit).
Definition global_ids : list positive := Eval vm_compute in opt_list (ids_of global_by_design).
Definition repaired_ids : list positive := Eval vm_compute in opt_list (ids_of repaired).
Definition deepcopy_ids : list positive := Eval vm_compute in opt_list (ids_of deepcopy_routes).

(** masks the FORMER code had at the repaired sites (regression witnesses, see [Proofs]): a selection protocol's [select] passed
    the literal rng = None on (DROPS); the subset operators, the memetic mutation operators and the random-selection helpers drew from
    numpy's global stream (NP);
    the legacy set GA drew from python's global stream (PY) *)
Definition old_selcfg_mask : N := DROPS.
Definition old_global_draw_mask : N := NP.
Definition old_setga_mask : N := N.lor SELF PY.

(** direct masks: as they are / with the named root causes blanked out *)
Definition dir_full (n : positive) (d : N) : N := d.
Definition dir_excl (n : positive) (d : N) : N := if pmem n root_ids then 0 else d.

Definition fp_full : fpmap := Eval vm_compute in compute dir_full tbl.
Definition fp_excl : fpmap := Eval vm_compute in compute dir_excl tbl.

(** ** lookups used by the correspondence shards *)
(** the footprint a dynamic experiment is compared with: the full closure; for a program made of anchored components only,
    the closure with the named root causes blanked (the experiments hand them plain, deterministic problem objects) *)
Definition smem (s : String.string) (l : list String.string) : bool := existsb (String.eqb s) l.
Definition fp_of_name (anchored : bool) (nm : String.string) : option N :=
  match id_of nm with Some p => Some (fget (if anchored then fp_excl else fp_full) p) | None => None end.
Fixpoint fp_of_names_in (anchored : bool) (l : list String.string) : option N :=
  match l with
  | [] => Some 0
  | s :: t => match fp_of_name anchored s, fp_of_names_in anchored t with Some a, Some b => Some (N.lor a b) | _, _ => None end
  end.
Definition fp_of_names (l : list String.string) : option N :=
  fp_of_names_in (forallb (fun s => smem s must_be_explicit) l) l.

(** what a run may touch, derived from the static footprint.  mode: true = the caller supplied a generator *)
Definition may_touch_np (explicit : bool) (m : N) : bool :=
  has NP m || has DROPS m || (negb explicit && (has PARAM m || has SELF m || has DEFAULT m)).
Definition may_touch_py (m : N) : bool := has PY m.
Definition may_touch_ex (explicit : bool) (m : N) : bool := explicit && (has PARAM m || has SELF m).
Definition may_touch_os (m : N) : bool := has OS m.

(** observation of one dynamic experiment:  which streams changed, was the outcome reproducible / isolated *)
Record obs := mkobs { o_py : bool; o_np : bool; o_ex : bool; o_repro : bool }.
(** dynamic observation against static footprint:
    - every stream that was seen to change must be in the footprint;
    - reproducibility is promised after seeding when the footprint avoids the OS, and with an explicit generator when the
      footprint is explicit-only: it must then have been observed;
    - an explicit-only footprint promises isolation: neither global stream may have changed. *)
Definition promise_repro (explicit : bool) (m : N) : bool := if explicit then sub m EXPLICIT_OK else negb (has OS m).
Definition obs_agree (explicit : bool) (names : list String.string) (o : obs) : bool :=
  match fp_of_names names with
  | None => false
  | Some m =>
    implb (o_py o) (may_touch_py m) && implb (o_np o) (may_touch_np explicit m) && implb (o_ex o) (may_touch_ex explicit m)
    && implb (promise_repro explicit m) (o_repro o)
    && implb (explicit && sub m EXPLICIT_OK) (negb (o_py o) && negb (o_np o))
  end.
End FP.

(* ================================================================================================ *)
(** * 3. Worlds, calls, programs *)
Module W.
Inductive loc := LPy | LNp | LOs | LEx (i : nat).
Definition loc_eqb (a b : loc) : bool :=
  match a, b with LPy, LPy | LNp, LNp | LOs, LOs => true | LEx i, LEx j => Nat.eqb i j | _, _ => false end.

Section World.
  Variable G : Type.      (* generator states *)
  Variable O : Type.      (* observable outputs *)
  Definition world := loc -> G.
  Definition upd (w : world) (l : loc) (g : G) : world := fun l' => if loc_eqb l l' then g else w l'.

  Record call := mkcall { reads : list loc; writes : list loc; run : world -> O * world }.

  Definition agree (A : list loc) (w1 w2 : world) : Prop := forall l, In l A -> w1 l = w2 l.

  (** a call respects its footprint: locations outside [writes] are untouched, and output and written
      locations are functions of the locations in [reads] *)
  Definition respects (c : call) : Prop :=
    (forall w l, ~ In l (writes c) -> snd (run c w) l = w l) /\
    (forall w1 w2, agree (reads c) w1 w2 ->
       fst (run c w1) = fst (run c w2) /\ agree (writes c) (snd (run c w1)) (snd (run c w2))).

  Fixpoint run_prog (p : list call) (w : world) : list O * world :=
    match p with
    | [] => ([], w)
    | c :: t => let '(o, w1) := run c w in let '(os, w2) := run_prog t w1 in (o :: os, w2)
    end.

  (** a program is scoped by A when every call reads only locations that are known (A), never touches the
      OS location; locations it writes become known *)
  Fixpoint scoped (A : list loc) (p : list call) : Prop :=
    match p with
    | [] => True
    | c :: t => incl (reads c) A /\ ~ In LOs (reads c) /\ ~ In LOs (writes c) /\ scoped (A ++ writes c) t
    end.
  Fixpoint known_after (A : list loc) (p : list call) : list loc :=
    match p with [] => A | c :: t => known_after (A ++ writes c) t end.

  (** seeding: both global streams become functions of the seed *)
  Variable py_of_seed np_of_seed : Z -> G.
  Variable out_unit : O.
  Definition seed_call (s : Z) : call :=
    mkcall [] [LPy; LNp] (fun w => (out_unit, upd (upd w LPy (py_of_seed s)) LNp (np_of_seed s))).

  (** isolation of a call that was handed generator i *)
  Definition isolated (c : call) (i : nat) : Prop :=
    forall w, snd (run c w) LPy = w LPy /\ snd (run c w) LNp = w LNp /\
      forall w', w' (LEx i) = w (LEx i) ->
        fst (run c w') = fst (run c w) /\ snd (run c w') (LEx i) = snd (run c w) (LEx i).
  (** the FORMER behaviour of the repaired components: handed generator i, they ALSO read and advance numpy's global stream
      (output = both states; both are stepped by [next]) *)
  Variable next : G -> G.
  Variable pairO : G -> G -> O.
  Definition old_global_draw_call (i : nat) : call :=
    mkcall [LEx i; LNp] [LEx i; LNp]
      (fun w => (pairO (w (LEx i)) (w LNp), upd (upd w (LEx i) (next (w (LEx i)))) LNp (next (w LNp)))).
End World.
Arguments upd {G} w l g _.
Arguments mkcall {G O} reads writes run.
Arguments reads {G O} c. Arguments writes {G O} c. Arguments run {G O} c w.
Arguments agree {G} A w1 w2.
Arguments respects {G O} c.
Arguments run_prog {G O} p w.
Arguments scoped {G O} A p.
Arguments known_after {G O} A p.
Arguments seed_call {G O} py_of_seed np_of_seed out_unit s.
Arguments isolated {G O} c i.
Arguments old_global_draw_call {G O} next pairO i.

(** locations of a static footprint mask; [ex] = Some i when the caller supplied generator i *)
Definition locs_of (ex : option nat) (m : N) : list loc :=
  (if FP.has FP.PY m then [LPy] else []) ++
  (if FP.may_touch_np (match ex with Some _ => true | None => false end) m then [LNp] else []) ++
  (if FP.has FP.OS m then [LOs] else []) ++
  (match ex with Some i => if FP.may_touch_ex true m then [LEx i] else [] | None => [] end).
End W.
