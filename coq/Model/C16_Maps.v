(** C16 — genetic maps beyond the explicit-units table codec of Model/C16_Codec.v:
      (1) what the constructors make of [spline_kind] / [spline_fill_value] (both classes hand them to build_spline; the former
          ExtendedGeneticMap called build_spline with only its own keyword dictionary, i.e. with the defaults of build_spline:
          [old_egmap_ctor_kind], kept as a regression witness),
      (2) the table codec called with DEFAULT arguments on both sides (the writers default to centiMorgans, the readers to
          Morgans; ExtendedGeneticMap.from_pandas reads no name / function-code column by default),
      (3) the egmap file pair (to_egmap = tab-separated to_csv in Morgans with the optional columns under the documented names;
          from_egmap reads columns by position and each of the two optional ones only when the header has its name and the column
          is not entirely empty, an absent array being written as an empty column; the former pair - other names on the writer's
          side, no emptiness test - is kept as [old_egmap_to] / [old_egmap_from], a regression witness).
    Which arguments / defaults / column names the source uses comes from Gen/C16_Kernel.v (regenerated on every run).
    Definitions only. *)
From Coq Require Import String PrimFloat.
From PV Require Import Lib.Common Lib.FloatK Lib.C16_Spec Model.C16_Store Model.C16_Codec Gen.C16_Kernel Model.C16_Kernel.
Local Open Scope Z_scope.

(** ** (1) constructor:  self.spline_kind = spline_kind;  if auto_build_spline: self.build_spline(<args>) *)
Definition ctor_setting (passed : bool) (default given : str) (auto_build : bool) : str :=
  if auto_build then (if passed then given else default) else given.
Definition ctor_kind (ext : bool) : str -> bool -> str :=
  ctor_setting (if ext then k_egmap_ctor_passes_kind else k_gmap_ctor_passes_kind) (zs (if ext then k_egmap_build_default_kind else k_gmap_build_default_kind)).
Definition ctor_fill (ext : bool) : str -> bool -> str :=
  ctor_setting (if ext then k_egmap_ctor_passes_fill else k_gmap_ctor_passes_fill) (zs (if ext then k_egmap_build_default_fill else k_gmap_build_default_fill)).
(** the former ExtendedGeneticMap constructor: self.build_spline( **kwargs), nothing handed over *)
Definition old_egmap_ctor_kind : str -> bool -> str := ctor_setting false (zs "linear").
Definition old_egmap_ctor_fill : str -> bool -> str := ctor_setting false (zs "extrapolate").
Definition agree_kind (ext : bool) (kind fill : str) (auto_build : bool) (obs_kind obs_fill : str) : bool :=
  str_eqb (ctor_kind ext kind auto_build) obs_kind && str_eqb (ctor_fill ext fill auto_build) obs_fill.

(** ** (2) the table codec with separate options on the two sides *)
Definition some_b {A} (o : option A) : bool := match o with Some _ => true | None => false end.
Definition agree_gmap2 (ext : bool) (u_to u_from : units) (with_name with_fn : bool) (auto_group spline : bool) (g : gmap) (df dfr : tbl)
           (back : option (gmap * option (list Z * list Z * list Z * list Z) * option (list (Z * list float)))) : bool :=
  tbl_eqb (gmap_to_pandas ext u_to g) df
  && match gmap_from_pandas ext u_from with_name with_fn auto_group dfr, back with
     | Some (g', m), Some (gb, mb, sb) => gmap_eqb g' gb && meta_eqb m mb && opt_eqb spl_eqb (if spline then Some (spline_y g') else None) sb
     | None, None => true
     | _, _ => false
     end.
(** default arguments: units and optional columns as the signatures of the current source say *)
Definition default_units_to (ext : bool) : option units := units_of_k (if ext then k_egmap_default_units_to else k_gmap_default_units_to).
Definition default_units_from (ext : bool) : option units := units_of_k (if ext then k_egmap_default_units_from else k_gmap_default_units_from).
Definition default_reads_names (ext : bool) : bool := ext && some_b k_egmap_default_name_col_from.
Definition agree_gmap_default (ext : bool) (g : gmap) (df dfr : tbl)
           (back : option (gmap * option (list Z * list Z * list Z * list Z) * option (list (Z * list float)))) : bool :=
  match default_units_to ext, default_units_from ext with
  | Some ut, Some uf => agree_gmap2 ext ut uf (default_reads_names ext && some_b (g_name g)) (default_reads_names ext && some_b (g_fn g)) true true g df dfr back
  | _, _ => false
  end.

(** ** (3) egmap files *)
Definition egmap_header : list cell := map (fun s => CS (zs s)) k_egmap_file_header.
(** the table to_egmap hands to the CSV writer: the Morgan frame of the extended map under the file's column names *)
Definition egmap_to_with (header : list cell) (g : gmap) : tbl := combine header (map snd (gmap_to_pandas true UM g)).
Definition egmap_to (g : gmap) : tbl := egmap_to_with egmap_header g.
Definition has_col (nm : String.string) (t : tbl) : bool := some_b (col_loc (CS (zs nm)) t 0).
(** df[nm].notna().any() *)
Definition col_has_value (nm : String.string) (t : tbl) : bool :=
  match col_of (CS (zs nm)) t with Some c => existsb (fun x => negb (is_na x)) c | None => false end.
(** [rd in_header has_value]: is the optional column read? *)
Definition egmap_from_with (rd : bool -> bool -> bool) (auto_group : bool) (t : tbl) : option (gmap * option (list Z * list Z * list Z * list Z)) :=
  match nth_error t 0, nth_error t 1, nth_error t 2, nth_error t 3 with
  | Some c, Some p, Some s, Some g =>
    match opt_all (map as_int (snd c)), opt_all (map as_int (snd p)), opt_all (map as_int (snd s)), opt_all (map as_float (snd g)) with
    | Some c', Some p', Some s', Some g' =>
      let opt_col (i : nat) (nm : String.string) : option (option (list str)) :=
          if rd (has_col nm t) (col_has_value nm t)
          then match nth_error t i with Some x => option_map Some (opt_all (map as_str (snd x))) | None => None end else Some None in
      match opt_col 4%nat (nth 0 k_egmap_file_optional ""%string), opt_col 5%nat (nth 1 k_egmap_file_optional ""%string) with
      | Some nm, Some fn => Some (gmap_construct auto_group (mkG c' p' (Some s') g' nm fn))
      | _, _ => None
      end
    | _, _, _, _ => None
    end
  | _, _, _, _ => None
  end.
Definition egmap_from : bool -> tbl -> option (gmap * option (list Z * list Z * list Z * list Z)) := egmap_from_with k_egmap_optional_read.
(** the former pair: to_egmap left the optional columns under to_csv's default names; from_egmap read an optional column whenever the
    header had the documented name *)
Definition old_egmap_header : list cell := map (fun s => CS (zs s)) ["chr"; "pos"; "stop"; "M"; "name"; "fncode"]%string.
Definition old_egmap_to (g : gmap) : tbl := egmap_to_with old_egmap_header g.
Definition old_egmap_from : bool -> tbl -> option (gmap * option (list Z * list Z * list Z * list Z)) := egmap_from_with (fun in_header _ => in_header).
Definition agree_egmap (auto_group spline : bool) (header_written : bool) (dfr : tbl)
           (back : option (gmap * option (list Z * list Z * list Z * list Z) * option (list (Z * list float)))) : bool :=
  (negb header_written || list_eqb cell_eqb (map fst dfr) egmap_header)
  && match egmap_from auto_group dfr, back with
     | Some (g', m), Some (gb, mb, sb) => gmap_eqb g' gb && meta_eqb m mb && opt_eqb spl_eqb (if spline then Some (spline_y g') else None) sb
     | None, None => true
     | _, _ => false
     end.

(** ** column selection of the table readers: in every conditional the column addressed by name, the variable whose type is
    tested and the column addressed by position are one and the same argument; in the genetic-map readers the variable
    assigned is the field the argument is named after *)
Definition col_row_ok (r : String.string * String.string * String.string * String.string * String.string * bool) : bool :=
  let '(_, tgt, by_name, tested, by_pos, named) := r in
  String.eqb by_name tested && String.eqb tested by_pos && (negb named || String.eqb by_name (tgt ++ "_col")%string).
