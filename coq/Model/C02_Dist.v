(** C02 — distribution of the source-copy indicator of the C01 gamete.
    The meiosis model is Model/C01_Meiosis.v (imported unchanged):
      xo_row rnd xoprob   = [ rnd_j < xoprob_j ]_j            (pybrops/breed/prot/mate/util.py l.52, core/util/mate.py)
      phases false xo     = running parity of the crossover indicators, the copy in force at every marker
      gamete geno s rnd xoprob = pick copy0 copy1 (phases false (xo_row rnd xoprob)).
    This file adds the probability vocabulary used by the theorems (definitions only):
      [E ps f]     expectation of f over independent Bernoulli(p_k) crossover indicators,
      [EU N p f]   expectation of f over p independent draws, each uniform on the grid {k/N : 0 <= k < N}
                   (numpy's double generator: N = 2^53),
      [cntZ N p]   number of grid points below p, [bern N p] = cntZ N p / N the probability that a grid draw is < p,
      [ER]         the same expectation over the reals (for the Haldane composition law). *)
From Coq Require Import Reals.
From PV Require Import Lib.Common Model.C01_Meiosis.
Local Open Scope Q_scope.

(** ** independent Bernoulli coordinates *)
Fixpoint E (ps : list Q) (f : list bool -> Q) : Q :=
  match ps with
  | [] => f []
  | p :: ps' => p * E ps' (fun l => f (true :: l)) + (1 - p) * E ps' (fun l => f (false :: l))
  end.
Definition ind (b : bool) : Q := if b then 1 else 0.
Definition Pr (ps : list Q) (ev : list bool -> bool) : Q := E ps (fun xo => ind (ev xo)).

(** ** observables of one gamete, as functions of its crossover indicators *)
(** source copy at every marker (false = copy 0, true = copy 1) *)
Definition src (xo : list bool) : list bool := phases false xo.
Definition src_at (j : nat) (xo : list bool) : bool := nth j (src xo) false.
Definition xo_at (j : nat) (xo : list bool) : bool := nth j xo false.
(** markers i and j come from different parental copies *)
Definition recomb (i j : nat) (xo : list bool) : bool := xorb (src_at i xo) (src_at j xo).

(** prod_k (1 - 2 p_k) *)
Definition prod12 (l : list Q) : Q := fold_right (fun p acc => (1 - 2 * p) * acc) 1 l.
(** entries i < k <= j *)
Definition between {A} (i j : nat) (l : list A) : list A := firstn (j - i) (skipn (S i) l).
(** probability of one complete crossover pattern *)
Fixpoint pat_prob (ps : list Q) (pat : list bool) : Q :=
  match ps, pat with
  | p :: tp, b :: tb => (if b then p else 1 - p) * pat_prob tp tb
  | _, _ => 1
  end.

(** ** sign (Fourier) form: product of the signs of the coordinates selected by a mask *)
Definition sgn (b : bool) : Q := if b then -1 else 1.
Fixpoint psign (mask xo : list bool) : Q :=
  match mask, xo with
  | m :: ms, x :: xs => (if m then sgn x else 1) * psign ms xs
  | _, _ => 1
  end.
Fixpoint pexp (mask : list bool) (ps : list Q) : Q :=
  match mask, ps with
  | m :: ms, p :: ps' => (if m then 1 - 2 * p else 1) * pexp ms ps'
  | _, _ => 1
  end.

(** ** uniform draws on a grid *)
Fixpoint sumN (N : nat) (g : nat -> Q) : Q := match N with O => 0 | S n => sumN n g + g n end.
Definition grid (N k : nat) : Q := Z.of_nat k # Pos.of_nat N.
Fixpoint EU (N : nat) (p : nat) (f : list Q -> Q) : Q :=
  match p with
  | O => f []
  | S p' => (1 # Pos.of_nat N) * sumN N (fun k => EU N p' (fun l => f (grid N k :: l)))
  end.
(** an (n x p) matrix of draws, row by row *)
Fixpoint EUM (N : nat) (n p : nat) (f : list (list Q) -> Q) : Q :=
  match n with
  | O => f []
  | S n' => EU N p (fun r => EUM N n' p (fun m => f (r :: m)))
  end.

(** number of integers k in [0, N) with k/N < p :  clip (ceil (p N)) to [0, N] *)
Definition cntZ (N : Z) (p : Q) : Z :=
  Z.max 0 (Z.min N (- ((- (Qnum p * N)) / QDen p)))%Z.
Definition bern (N : nat) (p : Q) : Q := cntZ (Z.of_nat N) p # Pos.of_nat N.

(** numpy: 53-bit doubles *)
Definition two53 : Z := (2 ^ 53)%Z.
(** the integer k with u = k / 2^53, if there is one in [0, 2^53) *)
Definition on_grid53 (u : Q) : option Z :=
  let k := ((Qnum u * two53) / QDen u)%Z in
  if ((k * QDen u =? Qnum u * two53) && (0 <=? k) && (k <? two53))%Z then Some k else None.

(** ** reals (Haldane composition) *)
Local Open Scope R_scope.
Fixpoint ER (ps : list R) (f : list bool -> R) : R :=
  match ps with
  | [] => f []
  | p :: ps' => p * ER ps' (fun l => f (true :: l)) + (1 - p) * ER ps' (fun l => f (false :: l))
  end.
Definition indR (b : bool) : R := if b then 1 else 0.
Definition prod12R (l : list R) : R := fold_right (fun p acc => (1 - 2 * p) * acc) 1 l.
Definition sumR (l : list R) : R := fold_right Rplus 0 l.
