(** C14 — sessions: several calls on ONE phenotyping protocol object (G_E_Phenotyping or TruePhenotyping), interleaved
    with in-place updates of the population object (genotypes, taxa, groups), of the genomic model held by the protocol
    (u_a, beta), with a different population object, with changes of the protocol parameters through their setters
    (nenv, nrep, var_env / var_rep / var_err, set_h2 / set_H2) and with copies of the protocol.

    The model is a state machine over (protocol parameters, genomic model, population).  The code keeps no other
    state: [phenotype] computes the genotypic values from the genomic model and the population it is handed at that
    call, reads the labels from that population and the design from the protocol attributes.  Accordingly the
    [OPheno] step below reads the current state only (and leaves it unchanged).  Definitions only. *)
From Coq Require Import String.
From PV Require Import Lib.Common Model.C14_Pheno.
Local Open Scope Q_scope.

Inductive pclass := GE | TrueP.

Record state := mkState {
  s_cls : pclass;
  (* protocol parameters (G_E_Phenotyping attributes; unused by TruePhenotyping) *)
  s_nenv : nat;  s_nrep : list nat;                       (* nenv, the stored nrep array *)
  s_sde : list Q;  s_sdr : list Q;  s_sdx : list Q;       (* standard deviations; the stored variances are their squares *)
  (* genomic model *)
  s_t : nat;  s_beta : list (list Q);  s_u : list (list Q);  s_trait : option (list str);
  (* population *)
  s_n : nat;  s_p : nat;  s_geno : list (list (list Z));  s_taxa : option (list str);  s_grp : option (list Z)
}.

Definition st_dos (s : state) : list (list Z) := dosage (s_n s) (s_p s) (s_geno s).
(** true genotypic values of the population in force under the model in force *)
Definition st_gvm (s : state) : list (list Q) := gv (s_t s) (st_dos s) (s_u s) (s_beta s).
Definition st_tnames (s : state) : list str := labels_or_auto "Trait"%string (s_t s) (s_trait s).
Definition st_vars (s : state) : list (list Q) := map (map (fun x => x * x)) [s_sde s; s_sdr s; s_sdx s].

(** the estimation step after a call: group column used?, trait columns, aligned to the population in force? *)
Definition estcfg : Type := (bool * list str * bool).

Inductive varname := VEnv | VRep | VErr.

Inductive op :=
| OPheno (flat : list (list Q)) (e : estcfg)              (* pt.phenotype(pg); then MeanPhenotypicBreedingValue.estimate *)
| OSetGeno (g : list (list (list Z)))                     (* pg.mat = g  (same shape, same object) *)
| OSetTaxa (x : option (list str))                        (* pg.taxa = x *)
| OSetGrp (x : option (list Z))                           (* pg.taxa_grp = x *)
| ONewPop (n p : nat) (g : list (list (list Z))) (x : option (list str)) (y : option (list Z))   (* a different object *)
| OSetU (u : list (list Q))                               (* pt.gpmod.u_a = u *)
| OSetBeta (b : list (list Q))                            (* pt.gpmod.beta = b *)
| OSetNenv (k : nat)                                      (* pt.nenv = k *)
| OSetNrep (a : nreparg)                                  (* pt.nrep = a *)
| OSetVar (w : varname) (sd : vararg)                     (* pt.var_xxx = sd^2 *)
| OSetH2 (h : h2arg) (sd_hint : list Q)                   (* pt.set_h2(h, pg) / pt.set_H2(h, pg) *)
| OCopy.                                                  (* pt = copy.copy(pt) / copy.deepcopy(pt) *)

Inductive obs :=
| OTable (tab : option (list prow)) (est : option est_out) (nrep : list nat) (vars : list (list Q))
| OTrue (tab : list trow) (est : option est_out)
| ODone                                                   (* accepted *)
| ORaised                                                 (* refused, the state is unchanged *)
| OH2 (var_err : list Q).

Definition prow_trow (r : prow) : trow := (p_taxa r, p_grp r, p_val r).

Definition est_of (s : state) (e : estcfg) (has_grp_col : bool) (rows : list trow) : option est_out :=
  let '(ug, tcols, with_gt) := e in
  estimate ug has_grp_col tcols (st_tnames s) rows (if with_gt then Some (s_taxa s, s_grp s) else None).

(** what a call returns: a function of the state in force and of the draws *)
Definition pheno_obs (s : state) (flat : list (list Q)) (e : estcfg) : obs :=
  match s_cls s with
  | GE =>
    let tab := phenotype (s_n s) (s_t s) (s_taxa s) (s_grp s) (st_gvm s) (s_nenv s) (s_nrep s) (s_sde s) (s_sdr s) (s_sdx s) flat in
    OTable tab (match tab with Some recs => est_of s e true (map prow_trow recs) | None => None end) (s_nrep s) (st_vars s)
  | TrueP =>
    let tab := true_rows (s_n s) (s_taxa s) (s_grp s) (st_gvm s) in
    OTrue tab (est_of s e (match s_grp s with Some _ => true | None => false end) tab)
  end.

(** record updates *)
Definition upd_pop (s : state) (n p : nat) (g : list (list (list Z))) (x : option (list str)) (y : option (list Z)) : state :=
  mkState (s_cls s) (s_nenv s) (s_nrep s) (s_sde s) (s_sdr s) (s_sdx s) (s_t s) (s_beta s) (s_u s) (s_trait s) n p g x y.
Definition upd_model (s : state) (b u : list (list Q)) : state :=
  mkState (s_cls s) (s_nenv s) (s_nrep s) (s_sde s) (s_sdr s) (s_sdx s) (s_t s) b u (s_trait s) (s_n s) (s_p s) (s_geno s) (s_taxa s) (s_grp s).
Definition upd_design (s : state) (nenv : nat) (nrep : list nat) : state :=
  mkState (s_cls s) nenv nrep (s_sde s) (s_sdr s) (s_sdx s) (s_t s) (s_beta s) (s_u s) (s_trait s) (s_n s) (s_p s) (s_geno s) (s_taxa s) (s_grp s).
Definition upd_sd (s : state) (w : varname) (sd : list Q) : state :=
  mkState (s_cls s) (s_nenv s) (s_nrep s)
          (match w with VEnv => sd | _ => s_sde s end) (match w with VRep => sd | _ => s_sdr s end) (match w with VErr => sd | _ => s_sdx s end)
          (s_t s) (s_beta s) (s_u s) (s_trait s) (s_n s) (s_p s) (s_geno s) (s_taxa s) (s_grp s).

Definition pos_all (l : list nat) : bool := forallb (fun k => (0 <? k)%nat) l.

Definition step (s : state) (o : op) : state * obs :=
  match o with
  | OPheno flat e => (s, pheno_obs s flat e)
  | OSetGeno g => (upd_pop s (s_n s) (s_p s) g (s_taxa s) (s_grp s), ODone)
  | OSetTaxa x => (upd_pop s (s_n s) (s_p s) (s_geno s) x (s_grp s), ODone)
  | OSetGrp y => (upd_pop s (s_n s) (s_p s) (s_geno s) (s_taxa s) y, ODone)
  | ONewPop n p g x y => (upd_pop s n p g x y, ODone)
  | OSetU u => (upd_model s (s_beta s) u, ODone)
  | OSetBeta b => (upd_model s b (s_u s), ODone)
  | OSetNenv k =>
      if (k =? 0)%nat then (s, ORaised)                                         (* check_is_gt(value, "nenv", 0) *)
      else (upd_design s k (set_nenv k (s_nrep s)), ODone)
  | OSetNrep (NScalar k) =>
      if (k =? 0)%nat then (s, ORaised) else (upd_design s (s_nenv s) (repeat k (s_nenv s)), ODone)
  | OSetNrep (NArr l) =>
      if (length l =? s_nenv s)%nat && pos_all l then (upd_design s (s_nenv s) l, ODone) else (s, ORaised)
  | OSetVar w sd =>
      let v := var_vec (s_t s) sd in
      if (length v =? s_t s)%nat then (upd_sd s w v, ODone) else (s, ORaised)       (* check_ndarray_size *)
  | OSetH2 h hint =>
      match s_cls s with
      | TrueP => (s, ORaised)                                                    (* unsupported operation *)
      | GE =>
        match set_h2 (s_t s) h (gebv_raw (s_t s) (st_dos s) (s_u s)) with
        | Some ve =>
            (* the generator takes sqrt(var_err) (trusted, see LEVEL_NOTE): [hint] is that root, checked here *)
            if forallb (Qle_bool 0) hint && qclose_l (map (fun x => x * x) hint) ve then (upd_sd s VErr hint, OH2 ve) else (s, ORaised)
        | None => (s, ORaised)
        end
      end
  | OCopy =>
      (* __copy__ / __deepcopy__ go through the constructor: its nrep setter demands an array of nenv entries (a non-uniform
         array kept after nenv was reassigned is refused); the protocol in use stays the old one *)
      match s_cls s with
      | GE => if (length (s_nrep s) =? s_nenv s)%nat then (s, ODone) else (s, ORaised)
      | TrueP => (s, ODone)
      end
  end.

Fixpoint run (s : state) (ops : list op) : list obs :=
  match ops with [] => [] | o :: r => snd (step s o) :: run (fst (step s o)) r end.
Fixpoint exec (s : state) (ops : list op) : state :=
  match ops with [] => s | o :: r => exec (fst (step s o)) r end.

(** ** the former behaviour targeted by this part of the check (a regression that was seeded, never in the library):
    the genotypic values and labels cached by identity of the population object and reset only by the gpmod setter —
    modelled by a machine that remembers the values of the first call; kept only to state that it differs *)
Definition pheno_obs_cached (cache s : state) (flat : list (list Q)) (e : estcfg) : obs :=
  pheno_obs (mkState (s_cls s) (s_nenv s) (s_nrep s) (s_sde s) (s_sdr s) (s_sdx s) (s_t cache) (s_beta cache) (s_u cache) (s_trait cache)
                     (s_n cache) (s_p cache) (s_geno cache) (s_taxa cache) (s_grp cache)) flat e.

(** ** comparison helpers for the correspondence shards (implementation first) *)
Definition impl_est : Type := option (list str * option (list Z) * list str * list (list (option Q))).
(** [impl = None] : phenotype() raised *)
Definition table_agree (impl : option (list prow)) (iest : impl_est) (inrep : list nat) (ivars : list (list Q)) (o : obs) : bool :=
  match o with
  | OTable tab est nrep vars =>
      natl_eqb inrep nrep && list_eqb qclose_l ivars vars &&
      match impl with
      | Some rows => pheno_agree rows tab && est_agree iest est
      | None => pheno_refused tab
      end
  | _ => false
  end.
Definition true_table_agree (impl : list trow) (iest : impl_est) (o : obs) : bool :=
  match o with OTrue tab est => true_agree impl tab && est_agree iest est | _ => false end.
Definition done_agree (raised : bool) (o : obs) : bool :=
  match o with ODone => negb raised | ORaised => raised | _ => false end.
Definition h2obs_agree (impl : option (list Q)) (o : obs) : bool :=
  match impl, o with
  | Some v, OH2 ve => qclose_l v ve
  | None, ORaised => true
  | _, _ => false
  end.
