(** C03 — executable model of the labelled dense matrices of pybrops (core/mat/Dense*Matrix.py, popgen/gmat, popgen/bvmat,
    popgen/cmat) and of the three genotyping protocols (breed/prot/gt).

    One per-axis model, written once, instantiated by class descriptors:
      - a matrix is an n-dimensional array of cells (nested lists, explicit shape) plus one [axst] record per labelled
        axis kind (taxa / variant / trait / phase): optional label arrays + the four optional group-metadata arrays;
      - every numpy primitive used by the code (take, delete, insert, append/concatenate, fancy indexing, lexsort,
        unique) is "compute an index plan from the axis length and the argument, then gather": [plan_*] + [pick];
        each array of the object is transformed by its own call, as in the source;
      - insert_<axis>/incorp_<axis> turn a *scalar* index into a one-element list before calling numpy.insert, so the
        inserted block goes in as it is on every array axis ([np_insert_t]); the former code passed the scalar on and
        numpy.insert then moved axis 0 of the block to the insertion axis ([moveaxis0], [old_np_insert_t]: kept only as
        the regression witness of a repaired finding);
      - the square classes act on both taxa axes for select/delete/reorder/adjoin/append and on axis 0 only for
        insert/incorp/concat, as the source does;
      - DenseSquareTaxaTraitMatrix inherits the non-mutating taxa/trait operations of its two parents, which rebuild the
        object without the other axis' labels ([drop_other]).
    Errors (IndexError/ValueError/TypeError) are the single outcome [Err].  Definitions only. *)
From PV Require Import Lib.Common.
Local Open Scope Z_scope.

(** * basic types *)
Definition lab := option Z.                  (* a label: name code / group / position / flag ; None = Python None *)
Definition larr := list lab.
Inductive tensor := Leaf (c : Z) | Node (l : list tensor).
Definition FILLZ : Z := - 9223372036854775808.       (* DenseSquareMatrix._fill_value for int64; NaN is mapped to it *)

Inductive res (A : Type) := OK (a : A) | Err.
Arguments OK {A} a. Arguments Err {A}.
Definition bind {A B} (r : res A) (f : A -> res B) : res B := match r with OK a => f a | Err => Err end.
Definition of_opt {A} (o : option A) : res A := match o with Some a => OK a | None => Err end.

Fixpoint mapM {A B} (f : A -> option B) (l : list A) : option (list B) :=
  match l with [] => Some [] | x :: t => match f x, mapM f t with Some y, Some ys => Some (y :: ys) | _, _ => None end end.

(** * index plans *)
(** -n <= i < n  (numpy index on an axis of length n) *)
Definition norm (n : nat) (i : Z) : option nat :=
  if (i <? - Z.of_nat n) || (Z.of_nat n <=? i) then None else Some (Z.to_nat (if i <? 0 then i + Z.of_nat n else i)).
(** -n <= i <= n  (numpy.insert position) *)
Definition norm_ins (n : nat) (i : Z) : option nat :=
  if (i <? - Z.of_nat n) || (Z.of_nat n <? i) then None else Some (Z.to_nat (if i <? 0 then i + Z.of_nat n else i)).

(** gather: the elements of [l] at positions [ps] (positions outside [l] contribute nothing) *)
Definition pick {A} (ps : list nat) (l : list A) : list A :=
  flat_map (fun p => match nth_error l p with Some x => [x] | None => [] end) ps.

(** Python slice.indices(n) and range(start, stop, step) as a list of positions *)
Definition zclamp (lo hi x : Z) : Z := if x <? lo then lo else if hi <? x then hi else x.
Fixpoint zrange (fuel : nat) (a b s : Z) : list nat :=
  match fuel with O => [] | S f =>
    if (if 0 <? s then a <? b else b <? a) then Z.to_nat a :: zrange f (a + s) b s else [] end.
Definition slice_positions (n : nat) (a b c : option Z) : option (list nat) :=
  let N := Z.of_nat n in
  let s := match c with Some s => s | None => 1 end in
  if s =? 0 then None else
  let adj (x : Z) (lo hi : Z) := zclamp lo hi (if x <? 0 then x + N else x) in
  let '(st, sp) :=
    if 0 <? s then (match a with Some x => adj x 0 N | None => 0 end, match b with Some x => adj x 0 N | None => N end)
    else (match a with Some x => adj x (-1) (N - 1) | None => N - 1 end, match b with Some x => adj x (-1) (N - 1) | None => -1 end) in
  Some (zrange (S n) st sp s).

Inductive objarg :=
| OInt (i : Z)                                   (* a Python int *)
| OSlice (a b c : option Z)                      (* slice(a, b, c) *)
| OList (l : list Z)                             (* list / integer ndarray *)
| OMask (m : list bool).                         (* boolean ndarray (or list of bools for delete) *)

Definition mask_positions (m : list bool) : list nat :=
  map fst (filter snd (combine (seq 0 (length m)) m)).

(** numpy.delete: positions removed *)
Definition del_positions (n : nat) (o : objarg) : option (list nat) :=
  match o with
  | OInt i => option_map (fun p => [p]) (norm n i)
  | OSlice a b c => slice_positions n a b c
  | OList l => mapM (norm n) l
  | OMask m => if Nat.eqb (length m) n then Some (mask_positions m) else None
  end.
Definition plan_delete (n : nat) (o : objarg) : option (list nat) :=
  option_map (fun ds => filter (fun p => negb (existsb (Nat.eqb p) ds)) (seq 0 n)) (del_positions n o).
(** numpy.take / fancy indexing with an integer list *)
Definition plan_take (n : nat) (idx : list Z) : option (list nat) := mapM (norm n) idx.

(** numpy.insert: positions before which items are inserted, and whether the index was a true scalar *)
Definition ins_positions (n : nat) (o : objarg) : option (list nat) :=
  match o with
  | OInt i => option_map (fun p => [p]) (norm_ins n i)
  | OSlice a b c => slice_positions n a b c
  | OList l => mapM (norm_ins n) l
  | OMask m => let ps := mask_positions m in if forallb (fun p => Nat.leb p n) ps then Some ps else None
  end.
(** source positions in (old ++ inserted) of the result of inserting k items *)
Definition plan_insert (n k : nat) (o : objarg) : option (list nat) :=
  match ins_positions n o with
  | None => None
  | Some [p] => Some (seq 0 p ++ seq n k ++ seq p (n - p))                 (* one position: the whole block goes there *)
  | Some ps =>
      let m := length ps in
      if Nat.eqb k m || Nat.eqb k 1 then
        Some (flat_map (fun p => map (fun jq => if Nat.eqb k 1 then n else (n + fst jq)%nat)
                                   (filter (fun jq => Nat.eqb (snd jq) p) (combine (seq 0 m) ps))
                               ++ (if Nat.ltb p n then [p] else [])) (seq 0 (S n)))
      else None
  end.
Definition np_take {A} (idx : list Z) (l : list A) : option (list A) := option_map (fun ps => pick ps l) (plan_take (length l) idx).
Definition np_delete {A} (o : objarg) (l : list A) : option (list A) := option_map (fun ps => pick ps l) (plan_delete (length l) o).
Definition np_insert {A} (o : objarg) (vals l : list A) : option (list A) :=
  option_map (fun ps => pick ps (l ++ vals)) (plan_insert (length l) (length vals) o).

(** * tensors *)
Fixpoint t_map (d : nat) (f : list tensor -> list tensor) (t : tensor) : tensor :=
  match t with Leaf c => Leaf c | Node l => match d with O => Node (f l) | S d' => Node (map (t_map d' f) l) end end.
Definition t_pick (d : nat) (ps : list nat) (t : tensor) : tensor := t_map d (pick ps) t.
(** concatenate along axis d (outer axes are zipped) *)
Fixpoint t_cat (d : nat) (t v : tensor) : tensor :=
  match t, v with
  | Node l, Node m => match d with O => Node (l ++ m) | S d' => Node (map2 (t_cat d') l m) end
  | _, _ => t
  end.
Definition upd {A} (d : nat) (x : A) (l : list A) : list A := firstn d l ++ match skipn d l with [] => [] | _ :: r => x :: r end.
Fixpoint full (sh : list nat) (c : Z) : tensor := match sh with [] => Leaf c | n :: r => Node (repeat (full r c) n) end.
Definition kids (t : tensor) : list tensor := match t with Node l => l | Leaf _ => [] end.

(** numpy.moveaxis(values, 0, d) on a tensor of shape sh *)
Definition transpose01 (b : nat) (rows : list tensor) : list tensor :=
  map (fun j => Node (map (fun r => nth j (kids r) (Leaf 0)) rows)) (seq 0 b).
Fixpoint moveaxis0 (d : nat) (sh : list nat) (t : tensor) : tensor :=
  match d, sh with
  | S d', a :: b :: rest => Node (map (moveaxis0 d' (a :: rest)) (transpose01 b (kids t)))
  | _, _ => t
  end.
Definition moveaxis0_shape (d : nat) (sh : list nat) : list nat :=
  match sh with [] => [] | a :: r => firstn d r ++ a :: skipn d r end.
(** numpy broadcasting of a tensor of shape sh to shape tsh (same number of axes) *)
Fixpoint bcast (tsh sh : list nat) (t : tensor) : option tensor :=
  match tsh, sh with
  | [], [] => Some t
  | n :: tsh', m :: sh' =>
      if Nat.eqb m n then option_map Node (mapM (bcast tsh' sh') (kids t))
      else if Nat.eqb m 1 then match kids t with [x] => option_map (fun y => Node (repeat y n)) (bcast tsh' sh' x) | _ => None end
      else None
  | _, _ => None
  end.

(** the mat update of insert_<axis>/incorp_<axis>: a scalar index is first replaced by the one-element list [obj]
    (which has the same insertion plan: the whole block goes before that position), then
    numpy.insert(arr, obj, values, axis = d) with a non-scalar index: new[..., positions, ...] = values, broadcast off
    the axis.  New tensor and new shape. *)
Definition np_insert_t (d : nat) (o : objarg) (sh : list nat) (t : tensor) (vsh : list nat) (v : tensor) : option (tensor * list nat) :=
  let n := nth d sh O in
  let k := nth d vsh O in
  match plan_insert n k o, bcast (upd d k sh) vsh v with
  | Some ps, Some v' => Some (t_pick d ps (t_cat d t v'), upd d (length ps) sh)
  | _, _ => None end.
(** FORMER code (before the repair of C03-scalar-insert-moveaxis): the scalar went to numpy.insert unchanged *)
Definition old_np_insert_t (d : nat) (o : objarg) (sh : list nat) (t : tensor) (vsh : list nat) (v : tensor) : option (tensor * list nat) :=
  let n := nth d sh O in
  match o, d with
  | OInt i, S _ =>                                       (* scalar index on an inner axis: values = moveaxis(values, 0, d) *)
      match norm_ins n i with None => None | Some p =>
        let v' := moveaxis0 d vsh v in
        let vsh' := moveaxis0_shape d vsh in
        let numnew := nth d vsh' O in
        match bcast (upd d numnew sh) vsh' v' with None => None | Some b =>
          Some (t_pick d (seq 0 p ++ seq n numnew ++ seq p (n - p)) (t_cat d t b), upd d (n + numnew)%nat sh) end end
  | _, _ =>
      let k := nth d vsh O in                              (* new[..., positions, ...] = values : broadcast off the axis *)
      match plan_insert n k o, bcast (upd d k sh) vsh v with
      | Some ps, Some v' => Some (t_pick d ps (t_cat d t v'), upd d (length ps) sh)
      | _, _ => None end
  end.

(** * per-axis state and schemas *)
Record axst := { labs : list (option larr); m_name : option (list Z); m_stix : option (list Z);
                 m_spix : option (list Z); m_len : option (list Z) }.
Definition ungrouped (a : axst) : axst := {| labs := labs a; m_name := None; m_stix := None; m_spix := None; m_len := None |}.
Definition with_labs (a : axst) (l : list (option larr)) : axst :=
  {| labs := l; m_name := m_name a; m_stix := m_stix a; m_spix := m_spix a; m_len := m_len a |}.
Definition is_grouped (a : axst) : bool :=
  match m_name a, m_stix a, m_spix a, m_len a with Some _, Some _, Some _, Some _ => true | _, _, _, _ => false end.

(** what an operation does when the matrix carries a label array and the caller supplies none *)
Inductive pol := PFill | PReq | PPass.
Inductive akind := KTaxa | KVrnt | KTrait | KPhase.
Record schema := { nfields : nat; pol_adj : list pol; pol_ins : list pol; cat_fill : list bool;
                   skeys : list nat; grp : option nat; sortable : bool }.
Definition schema_of (k : akind) : schema :=
  match k with
  | KTaxa  => {| nfields := 2; pol_adj := [PFill; PReq]; pol_ins := [PFill; PReq]; cat_fill := [true; false];
                 skeys := [0; 1]%nat; grp := Some 1%nat; sortable := true |}
  | KVrnt  => {| nfields := 9; pol_adj := [PReq; PReq; PFill; PReq; PReq; PReq; PReq; PReq; PReq];
                 pol_ins := [PReq; PReq; PFill; PReq; PReq; PReq; PPass; PPass; PReq];
                 cat_fill := [false; false; true; false; false; false; false; false; false];
                 skeys := [1; 0]%nat; grp := Some 0%nat; sortable := true |}
  | KTrait => {| nfields := 1; pol_adj := [PReq]; pol_ins := [PReq]; cat_fill := [false]; skeys := [0]%nat; grp := None; sortable := true |}
  | KPhase => {| nfields := 0; pol_adj := []; pol_ins := []; cat_fill := []; skeys := []; grp := None; sortable := false |}
  end.

(** class descriptor: labelled axis kinds with the tensor axes they act on (square classes: two axes, one label set) *)
Record cls := { ndim : nat; axs : list (akind * list nat); drop_other : bool; must_square : bool; has_group : bool }.
Record st := { shape : list nat; data : tensor; axes : list axst }.

Definition taxis (c : cls) (k : nat) : nat := match nth_error (axs c) k with Some (_, a :: _) => a | _ => O end.
Definition taxes (c : cls) (k : nat) : list nat := match nth_error (axs c) k with Some (_, l) => l | None => [] end.
Definition kind_of (c : cls) (k : nat) : akind := match nth_error (axs c) k with Some (kd, _) => kd | None => KPhase end.
Definition sch (c : cls) (k : nat) : schema := schema_of (kind_of c k).
Definition is_square (c : cls) (k : nat) : bool := Nat.ltb 1 (length (taxes c k)).
Definition ax_of (s : st) (k : nat) : axst :=
  nth k (axes s) {| labs := []; m_name := None; m_stix := None; m_spix := None; m_len := None |}.

(** the constructor's checks: every label array has the length of its axis; DenseCoancestryMatrix wants a square array *)
Definition all_eq (l : list nat) : bool := match l with [] => true | x :: r => forallb (Nat.eqb x) r end.
Definition construct (c : cls) (sh : list nat) (d : tensor) (ax : list axst) : res st :=
  if negb (must_square c) || all_eq sh then
    if forallb (fun ka => let n := nth (taxis c (fst ka)) sh O in
                          forallb (fun o => match o with Some l => Nat.eqb (length l) n | None => true end) (labs (snd ka)))
               (combine (seq 0 (length ax)) ax)
    then OK {| shape := sh; data := d; axes := ax |} else Err
  else Err.

(** result axes of a non-mutating operation on axis k: own metadata gone, other axes carried (or dropped) *)
Definition cleared (a : axst) : axst :=
  {| labs := map (fun _ => None) (labs a); m_name := None; m_stix := None; m_spix := None; m_len := None |}.
Definition new_axes (c : cls) (s : st) (k : nat) (l : list (option larr)) : list axst :=
  map (fun ja => if Nat.eqb (fst ja) k then {| labs := l; m_name := None; m_stix := None; m_spix := None; m_len := None |}
                 else if drop_other c then cleared (snd ja) else snd ja) (combine (seq 0 (length (axes s))) (axes s)).
(** result axes of an in-place operation on axis k: own labels replaced, own metadata reset, nothing else touched *)
Definition set_axes (s : st) (k : nat) (l : list (option larr)) : list axst :=
  map (fun ja => if Nat.eqb (fst ja) k then {| labs := l; m_name := None; m_stix := None; m_spix := None; m_len := None |} else snd ja)
      (combine (seq 0 (length (axes s))) (axes s)).

Definition omap {A B} (f : A -> option B) (o : option A) : option (option B) :=
  match o with None => Some None | Some x => option_map Some (f x) end.

(** ** unary layout operations: select / delete / fancy reorder, on every tensor axis of the kind *)
Definition un_data (c : cls) (s : st) (k : nat) (plan : nat -> option (list nat)) : option (tensor * list nat) :=
  fold_left (fun acc a => match acc with None => None | Some (t, sh) =>
                 match plan (nth a sh O) with None => None | Some ps => Some (t_pick a ps t, upd a (length ps) sh) end end)
            (taxes c k) (Some (data s, shape s)).
Definition un_labs (s : st) (k : nat) (f : larr -> option larr) : option (list (option larr)) := mapM (omap f) (labs (ax_of s k)).

Definition op_select (c : cls) (s : st) (k : nat) (idx : list Z) : res st :=
  match un_data c s k (fun n => plan_take n idx), un_labs s k (np_take idx) with
  | Some (t, sh), Some l => construct c sh t (new_axes c s k l) | _, _ => Err end.
Definition op_delete (c : cls) (s : st) (k : nat) (o : objarg) : res st :=
  match un_data c s k (fun n => plan_delete n o), un_labs s k (np_delete o) with
  | Some (t, sh), Some l => construct c sh t (new_axes c s k l) | _, _ => Err end.
Definition op_remove (c : cls) (s : st) (k : nat) (o : objarg) : res st :=
  match un_data c s k (fun n => plan_delete n o), un_labs s k (np_delete o) with
  | Some (t, sh), Some l => OK {| shape := sh; data := t; axes := set_axes s k l |} | _, _ => Err end.
Definition op_reorder (c : cls) (s : st) (k : nat) (idx : list Z) : res st :=
  if sortable (sch c k) then
    match un_data c s k (fun n => plan_take n idx), un_labs s k (np_take idx) with
    | Some (t, sh), Some l => OK {| shape := sh; data := t; axes := set_axes s k l |} | _, _ => Err end
  else Err.

(** ** operands of adjoin / insert / append / incorp / concat *)
Record operand := { o_shape : list nat; o_data : tensor; o_axes : list axst;        (* the values (a matrix or a bare array) *)
                    o_ismat : bool;                                             (* passed as a matrix of the same class *)
                    o_kw : list (option larr) }.                                (* label arrays passed as keyword arguments *)
(** the label array the code ends up with for field j: keyword argument, else the matrix' own array *)
Definition eff_lab (c : cls) (k : nat) (v : operand) (j : nat) : option larr :=
  match nth j (o_kw v) None with
  | Some l => Some l
  | None => if o_ismat v then nth j (labs (nth k (o_axes v) {| labs := []; m_name := None; m_stix := None; m_spix := None; m_len := None |})) None else None
  end.
(** shapes must agree on every axis that is not operated on *)
Definition shapes_compat (skip : list nat) (sh vsh : list nat) : bool :=
  Nat.eqb (length sh) (length vsh) &&
  forallb (fun i => existsb (Nat.eqb i) skip || Nat.eqb (nth i sh O) (nth i vsh O)) (seq 0 (length sh)).
(** resolve one label field for a binary operation; k0 = number of items in the operand along the axis *)
Definition resolve (p : pol) (own given : option larr) (k0 : nat) : res (option larr) :=
  match own, given with
  | Some _, None => match p with PFill => OK (Some (repeat None k0)) | PReq => Err | PPass => OK (Some [None]) end
  | _, g => OK g
  end.
Fixpoint resolve_all (ps : list pol) (owns : list (option larr)) (c : cls) (k : nat) (v : operand) (j : nat) (k0 : nat)
  : res (list (option larr)) :=
  match ps, owns with
  | p :: ps', o :: os' => bind (resolve p o (eff_lab c k v j) k0) (fun g => bind (resolve_all ps' os' c k v (S j) k0) (fun r => OK (g :: r)))
  | _, _ => OK []
  end.
(** combine own and given arrays: if the matrix carries the array the numpy call is made, otherwise the given one is passed on *)
Definition join_labs (f : larr -> larr -> option larr) (owns givens : list (option larr)) : option (list (option larr)) :=
  mapM (fun og => match fst og, snd og with
                  | Some l, Some g => option_map Some (f g l)
                  | Some l, None => None
                  | None, g => Some g end) (combine owns givens).
(** in-place variant: arrays the matrix does not carry are left alone *)
Definition join_labs_inplace (f : larr -> larr -> option larr) (owns givens : list (option larr)) : option (list (option larr)) :=
  mapM (fun og => match fst og, snd og with
                  | Some l, Some g => option_map Some (f g l)
                  | Some l, None => None
                  | None, _ => Some None end) (combine owns givens).

(** data of adjoin/append: plain concatenation, or the block-diagonal layout of the square classes *)
Definition blockdiag (sh : list nat) (t : tensor) (vsh : list nat) (v : tensor) : tensor * list nat :=
  match sh, vsh with
  | n0 :: n1 :: rest, k0 :: k1 :: _ =>
      let fillv := full rest FILLZ in
      (Node (map (fun r => Node (kids r ++ repeat fillv k1)) (kids t) ++ map (fun r => Node (repeat fillv n1 ++ kids r)) (kids v)),
       (n0 + k0)%nat :: (n1 + k1)%nat :: rest)
  | _, _ => (t, sh)
  end.
Definition cat_data (c : cls) (s : st) (k : nat) (v : operand) : tensor * list nat :=
  if is_square c k then blockdiag (shape s) (data s) (o_shape v) (o_data v)
  else let a := taxis c k in (t_cat a (data s) (o_data v), upd a (nth a (shape s) O + nth a (o_shape v) O)%nat (shape s)).

Definition pre_binary (c : cls) (s : st) (k : nat) (v : operand) (ps : list pol) : res (list (option larr)) :=
  if shapes_compat (taxes c k) (shape s) (o_shape v) then
    resolve_all ps (labs (ax_of s k)) c k v O (nth (taxis c k) (o_shape v) O)
  else Err.

Definition op_adjoin (c : cls) (s : st) (k : nat) (v : operand) : res st :=
  bind (pre_binary c s k v (pol_adj (sch c k))) (fun g =>
  match join_labs (fun gl l => Some (l ++ gl)) (labs (ax_of s k)) g with None => Err | Some l =>
    let '(t, sh) := cat_data c s k v in construct c sh t (new_axes c s k l) end).
Definition op_append (c : cls) (s : st) (k : nat) (v : operand) : res st :=
  bind (pre_binary c s k v (pol_adj (sch c k))) (fun g =>
  match join_labs_inplace (fun gl l => Some (l ++ gl)) (labs (ax_of s k)) g with None => Err | Some l =>
    let '(t, sh) := cat_data c s k v in OK {| shape := sh; data := t; axes := set_axes s k l |} end).
(** insert / incorp act on the first tensor axis of the kind only (also for the square classes) *)
Definition op_insert (c : cls) (s : st) (k : nat) (o : objarg) (v : operand) : res st :=
  bind (pre_binary c s k v (pol_ins (sch c k))) (fun g =>
  match np_insert_t (taxis c k) o (shape s) (data s) (o_shape v) (o_data v),
        join_labs (fun gl l => np_insert o gl l) (labs (ax_of s k)) g with
  | Some (t, sh), Some l => construct c sh t (new_axes c s k l) | _, _ => Err end).
Definition old_op_insert (c : cls) (s : st) (k : nat) (o : objarg) (v : operand) : res st :=
  bind (pre_binary c s k v (pol_ins (sch c k))) (fun g =>
  match old_np_insert_t (taxis c k) o (shape s) (data s) (o_shape v) (o_data v),
        join_labs (fun gl l => np_insert o gl l) (labs (ax_of s k)) g with
  | Some (t, sh), Some l => construct c sh t (new_axes c s k l) | _, _ => Err end).
Definition op_incorp (c : cls) (s : st) (k : nat) (o : objarg) (v : operand) : res st :=
  bind (pre_binary c s k v (pol_adj (sch c k))) (fun g =>
  match np_insert_t (taxis c k) o (shape s) (data s) (o_shape v) (o_data v),
        join_labs_inplace (fun gl l => np_insert o gl l) (labs (ax_of s k)) g with
  | Some (t, sh), Some l => OK {| shape := sh; data := t; axes := set_axes s k l |} | _, _ => Err end).

(** concat: all matrices (self first); shapes agree off the first tensor axis of the kind; label arrays all-or-none,
    missing name arrays are filled with None *)
Definition cat_field (fill : bool) (arrs : list (option larr)) (lens : list nat) : res (option larr) :=
  if forallb (fun o => match o with None => true | Some _ => false end) arrs then OK None
  else if fill then OK (Some (concat (map (fun al => match fst al with Some l => l | None => repeat None (snd al) end) (combine arrs lens))))
  else if existsb (fun o => match o with None => true | Some _ => false end) arrs then Err
  else OK (Some (concat (map (fun o => match o with Some l => l | None => [] end) arrs))).
Fixpoint cat_fields (fills : list bool) (j : nat) (mats : list (list (option larr))) (lens : list nat) : res (list (option larr)) :=
  match fills with
  | [] => OK []
  | f :: fs => bind (cat_field f (map (fun m => nth j m None) mats) lens) (fun x => bind (cat_fields fs (S j) mats lens) (fun r => OK (x :: r)))
  end.
Definition op_concat (c : cls) (s : st) (k : nat) (vs : list operand) : res st :=
  let a := taxis c k in
  if forallb (fun v => shapes_compat [a] (shape s) (o_shape v)) vs then
    let mats := labs (ax_of s k) :: map (fun v => labs (nth k (o_axes v) (ax_of s k))) vs in
    let lens := nth a (shape s) O :: map (fun v => nth a (o_shape v) O) vs in
    bind (cat_fields (cat_fill (sch c k)) O mats lens) (fun l =>
      let t := fold_left (fun t v => t_cat a t (o_data v)) vs (data s) in
      construct c (upd a (fold_left Nat.add lens O) (shape s)) t (new_axes c s k l))
  else Err.

(** ** sorting and grouping *)
(** stable insertion sort of positions by a "less-or-equal" on positions *)
Fixpoint ins_sorted (leb : nat -> nat -> bool) (x : nat) (l : list nat) : list nat :=
  match l with [] => [x] | y :: t => if leb x y then x :: l else y :: ins_sorted leb x t end.
Definition isort (leb : nat -> nat -> bool) (l : list nat) : list nat := fold_right (ins_sorted leb) [] l.
(** lexicographic comparison; keys are given primary first *)
Fixpoint lex_leb (keys : list (list Z)) (i j : nat) : bool :=
  match keys with
  | [] => true
  | k :: r => let x := nth i k 0 in let y := nth j k 0 in if x <? y then true else if y <? x then false else lex_leb r i j
  end.
Definition key_values (n : nat) (l : larr) : option (list Z) :=
  if Nat.eqb (length l) n then
    if Nat.leb n 1 then Some (map (fun o => match o with Some z => z | None => 0 end) l)     (* no comparison is made *)
    else mapM (fun o => o) l                                                                (* None is not orderable *)
  else None.
(** numpy.lexsort(keys): the last key is the primary one; stable *)
Definition lexsort (n : nat) (keys : list larr) : res (list Z) :=
  match keys with [] => Err | _ =>
    match mapM (key_values n) keys with None => Err | Some ks =>
      OK (map Z.of_nat (isort (lex_leb (rev ks)) (seq 0 n))) end end.
(** keys = None: the default keys of the axis; otherwise the caller's tuple of arrays (None entries are skipped) *)
Definition sort_keys (c : cls) (s : st) (k : nat) (keys : option (list (option larr))) : list larr :=
  flat_map (fun o => match o with Some l => [l] | None => [] end)
           (match keys with Some ks => ks | None => map (fun j => nth j (labs (ax_of s k)) None) (skeys (sch c k)) end).
Definition op_lexsort (c : cls) (s : st) (k : nat) (keys : option (list (option larr))) : res (list Z) :=
  if sortable (sch c k) then lexsort (nth (taxis c k) (shape s) O) (sort_keys c s k keys) else Err.
Definition op_sort (c : cls) (s : st) (k : nat) (keys : option (list (option larr))) : res st :=
  bind (op_lexsort c s k keys) (fun idx => op_reorder c s k idx).

(** numpy.unique(l, return_index, return_counts) *)
Fixpoint zins (x : Z) (l : list Z) : list Z := match l with [] => [x] | y :: t => if x <? y then x :: l else if x =? y then l else y :: zins x t end.
Definition distinct_sorted (l : list Z) : list Z := fold_right zins [] l.
Fixpoint first_ix (x : Z) (l : list Z) (i : Z) : Z := match l with [] => i | y :: t => if x =? y then i else first_ix x t (i + 1) end.
Definition np_unique (l : list Z) : list Z * list Z * list Z :=
  let names := distinct_sorted l in
  (names, map (fun x => first_ix x l 0) names, map (fun x => count_if (Z.eqb x) l) names).
Definition group_meta (a : axst) (g : nat) : axst :=
  match nth g (labs a) None with
  | None => a
  | Some l => let '(nm, ix, ln) := np_unique (map (fun o => match o with Some z => z | None => 0 end) l) in
      {| labs := labs a; m_name := Some nm; m_stix := Some ix; m_spix := Some (map2 Z.add ix ln); m_len := Some ln |}
  end.
Definition upd_ax (s : st) (k : nat) (f : axst -> axst) : st :=
  {| shape := shape s; data := data s;
     axes := map (fun ja => if Nat.eqb (fst ja) k then f (snd ja) else snd ja) (combine (seq 0 (length (axes s))) (axes s)) |}.
Definition op_group (c : cls) (s : st) (k : nat) : res st :=
  match grp (sch c k) with None => Err | Some g =>
    bind (op_sort c s k None) (fun s' => OK (upd_ax s' k (fun a => group_meta a g))) end.
Definition op_ungroup (c : cls) (s : st) (k : nat) : res st :=
  match grp (sch c k) with None => Err | Some _ => OK (upd_ax s k ungrouped) end.

(** * public operations, both forms *)
Inductive opk :=
| Select (idx : list Z) | Delete (o : objarg) | Insert (o : objarg) (v : operand) | Adjoin (v : operand) | Concat (vs : list operand)
| Append (v : operand) | Remove (o : objarg) | Incorp (o : objarg) (v : operand)
| Reorder (idx : list Z) | Sort (keys : option (list (option larr))) | Group | Ungroup.
Inductive form := Specific (k : nat) | Generic (axis : Z).

(** get_axis + the if/elif chain of the generic methods: which labelled axis a generic call reaches *)
Definition get_axis (axis : Z) (nd : nat) : option nat :=
  if (Z.of_nat nd <=? axis) || (axis <? - Z.of_nat nd) then None else Some (Z.to_nat (axis mod Z.of_nat nd)).
Fixpoint find_kind (l : list (akind * list nat)) (a : nat) (k : nat) : option nat :=
  match l with [] => None | (_, axl) :: r => if existsb (Nat.eqb a) axl then Some k else find_kind r a (S k) end.
Definition dispatch (c : cls) (f : form) : option nat :=
  match f with
  | Specific k => if Nat.ltb k (length (axs c)) then Some k else None
  | Generic axis => match get_axis axis (ndim c) with None => None | Some a => find_kind (axs c) a O end
  end.

Definition step_k (c : cls) (s : st) (k : nat) (o : opk) : res st :=
  match o with
  | Select idx => op_select c s k idx
  | Delete ob => op_delete c s k ob
  | Insert ob v => op_insert c s k ob v
  | Adjoin v => op_adjoin c s k v
  | Concat vs => op_concat c s k vs
  | Append v => op_append c s k v
  | Remove ob => op_remove c s k ob
  | Incorp ob v => op_incorp c s k ob v
  | Reorder idx => op_reorder c s k idx
  | Sort keys => if sortable (sch c k) then op_sort c s k keys else Err
  | Group => op_group c s k
  | Ungroup => op_ungroup c s k
  end.
Definition step (c : cls) (s : st) (f : form) (o : opk) : res st :=
  match dispatch c f with None => Err | Some k => step_k c s k o end.
Definition lexsort_op (c : cls) (s : st) (f : form) (keys : option (list (option larr))) : res (list Z) :=
  match dispatch c f with None => Err | Some k => op_lexsort c s k keys end.
(** generic is_grouped(axis): Some b, or None when it raises *)
Definition is_grouped_gen (c : cls) (s : st) (axis : Z) : option bool :=
  if has_group c then
    match dispatch c (Generic axis) with None => None | Some k =>
      match kind_of c k with
      | KTaxa | KVrnt => Some (is_grouped (ax_of s k))
      | KPhase => Some false
      | KTrait => None end end
  else None.

(** * the class table *)
Definition mkcls nd ax dr ms hg := {| ndim := nd; axs := ax; drop_other := dr; must_square := ms; has_group := hg |}.
Definition cDenseTaxaMatrix := mkcls 2 [(KTaxa, [0])]%nat false false true.
Definition cDenseVariantMatrix := mkcls 2 [(KVrnt, [0])]%nat false false true.
Definition cDenseTraitMatrix := mkcls 2 [(KTrait, [0])]%nat false false false.
Definition cDensePhasedMatrix := mkcls 3 [(KPhase, [0])]%nat false false false.
Definition cDenseTaxaVariantMatrix := mkcls 2 [(KTaxa, [0]); (KVrnt, [1])]%nat false false true.
Definition cDensePhasedTaxaVariantMatrix := mkcls 3 [(KPhase, [0]); (KTaxa, [1]); (KVrnt, [2])]%nat false false true.
Definition cDenseTaxaTraitMatrix := mkcls 2 [(KTaxa, [0]); (KTrait, [1])]%nat false false true.
Definition cDenseSquareTaxaMatrix := mkcls 2 [(KTaxa, [0; 1])]%nat false false true.
Definition cDenseSquareTaxaTraitMatrix := mkcls 3 [(KTaxa, [0; 1]); (KTrait, [2])]%nat true false true.
Definition cDenseGenotypeMatrix := cDenseTaxaVariantMatrix.
Definition cDensePhasedGenotypeMatrix := cDensePhasedTaxaVariantMatrix.
Definition cDenseBreedingValueMatrix := cDenseTaxaTraitMatrix.
Definition cDenseCoancestryMatrix := mkcls 2 [(KTaxa, [0; 1])]%nat false true true.

(** * genotyping protocols (DensePhasedGenotypeMatrix -> DenseGenotypeMatrix / DensePhasedGenotypeMatrix) *)
Fixpoint t_add (a b : tensor) {struct a} : tensor :=
  match a, b with
  | Leaf x, Leaf y => Leaf (x + y)
  | Node l, Node m =>
      Node ((fix go (l m : list tensor) {struct l} : list tensor :=
               match l, m with x :: l', y :: m' => t_add x y :: go l' m' | _, _ => [] end) l m)
  | _, _ => a
  end.
(** mat.sum(0) *)
Definition sum_phase (sh : list nat) (t : tensor) : tensor :=
  match kids t with [] => full (tl sh) 0 | x :: r => fold_left t_add r x end.
Definition lab_true (o : lab) : bool := match o with Some z => negb (z =? 0) | None => false end.
(** group metadata after masking: per group the number of kept positions in [stix, spix), empty groups dropped *)
Definition cumsum (l : list Z) : list Z := snd (fold_left (fun acc x => (fst acc + x, snd acc ++ [fst acc + x])) l (0, [])).
Definition mask_meta (a : axst) (kept : list nat) : axst :=
  match m_name a, m_stix a, m_spix a, m_len a with
  | Some nm, Some st0, Some sp0, Some _ =>
      let ln := map2 (fun a0 b0 => count_if (fun p => (a0 <=? Z.of_nat p) && (Z.of_nat p <? b0)) kept) st0 sp0 in
      let nm' := map snd (filter (fun q => 0 <? fst q) (combine ln nm)) in
      let ln' := filter (fun x => 0 <? x) ln in
      let sp' := cumsum ln' in
      {| labs := labs a; m_name := Some nm'; m_stix := Some (map2 Z.sub sp' ln'); m_spix := Some sp'; m_len := Some ln' |}
  | _, _, _, _ => ungrouped a
  end.
Inductive gprot := GUnphased | GMaskedPhased (invert : bool) | GMaskedUnphased (invert : bool).
(** s is the state of a DensePhasedGenotypeMatrix (axes phase, taxa, variant); the result belongs to
    cDenseGenotypeMatrix (unphased protocols) or cDensePhasedGenotypeMatrix (masked phased) *)
Definition result_cls (p : gprot) : cls := match p with GMaskedPhased _ => cDensePhasedGenotypeMatrix | _ => cDenseGenotypeMatrix end.
Definition op_genotype (p : gprot) (s : st) : res st :=
  let tx := ax_of s 1 in let vr := ax_of s 2 in
  let nv := nth 2 (shape s) O in
  match p with
  | GUnphased =>
      construct cDenseGenotypeMatrix (tl (shape s)) (sum_phase (shape s) (data s)) [tx; vr]
  | GMaskedPhased inv | GMaskedUnphased inv =>
      let phased := match p with GMaskedPhased _ => true | _ => false end in
      let mask := nth 8 (labs vr) None in
      let kept := match mask with
                  | Some m => mask_positions (map (fun o => if inv then negb (lab_true o) else lab_true o) m)
                  | None => seq 0 nv end in
      let vlabs := match mask with
                   | Some m => map (fun o => match o with Some l => if Nat.eqb (length l) (length m) then Some (Some (pick kept l)) else None
                                                    | None => Some None end) (labs vr)
                   | None => map Some (labs vr) end in
      match mapM (fun x => x) vlabs with None => Err | Some vl =>
        if match mask with Some m => Nat.eqb (length m) nv | None => true end then
          let vr' := if is_grouped vr then mask_meta (with_labs vr vl) kept else ungrouped (with_labs vr vl) in
          if phased then
            let t := match mask with Some _ => t_pick 2 kept (data s) | None => data s end in
            construct cDensePhasedGenotypeMatrix (upd 2 (length kept) (shape s)) t [ax_of s 0; tx; vr']
          else
            let t0 := sum_phase (shape s) (data s) in
            let t := match mask with Some _ => t_pick 1 kept t0 | None => t0 end in
            construct cDenseGenotypeMatrix (upd 1 (length kept) (tl (shape s))) t [tx; vr']
        else Err end
  end.

(** * histories *)
Inductive hop := HOp (f : form) (o : opk) | HLex (f : form) (keys : option (list (option larr))) | HGeno (p : gprot).
(** run a history; the class may change at a genotyping step; stops at the first error.
    Result: the list of states after each successful step, and whether an error ended the history. *)
Fixpoint run (c : cls) (s : st) (h : list hop) : list (cls * st * option (list Z)) * bool :=
  match h with
  | [] => ([], false)
  | HOp f o :: r => match step c s f o with
                    | OK s' => let '(l, e) := run c s' r in ((c, s', None) :: l, e)
                    | Err => ([], true) end
  | HLex f keys :: r => match lexsort_op c s f keys with
                        | OK ix => let '(l, e) := run c s r in ((c, s, Some ix) :: l, e)
                        | Err => ([], true) end
  | HGeno p :: r => match op_genotype p s with
                    | OK s' => let c' := result_cls p in let '(l, e) := run c' s' r in ((c', s', None) :: l, e)
                    | Err => ([], true) end
  end.

(** * comparison with the implementation's snapshots *)
Fixpoint tensor_eqb (a b : tensor) {struct a} : bool :=
  match a, b with
  | Leaf x, Leaf y => x =? y
  | Node l, Node m =>
      (fix go (l m : list tensor) {struct l} : bool :=
         match l, m with [] , [] => true | x :: l', y :: m' => tensor_eqb x y && go l' m' | _, _ => false end) l m
  | _, _ => false
  end.
Definition lab_eqb : lab -> lab -> bool := opt_eqb Z.eqb.
Definition larr_eqb : larr -> larr -> bool := list_eqb lab_eqb.
Definition axst_eqb (a b : axst) : bool :=
  list_eqb (opt_eqb larr_eqb) (labs a) (labs b) && opt_eqb zl_eqb (m_name a) (m_name b) && opt_eqb zl_eqb (m_stix a) (m_stix b)
  && opt_eqb zl_eqb (m_spix a) (m_spix b) && opt_eqb zl_eqb (m_len a) (m_len b).
Definition st_eqb (a b : st) : bool :=
  natl_eqb (shape a) (shape b) && tensor_eqb (data a) (data b) && list_eqb axst_eqb (axes a) (axes b).
(** one observed step of the implementation: the state, the value returned by lexsort (if any), the answers of the
    generic is_grouped(axis) for every axis (None = raised) *)
Definition obs := (st * option (list Z) * list (option bool))%type.
Definition obs_ok (x : cls * st * option (list Z)) (o : obs) : bool :=
  let '(c, s, r) := x in let '(s', r', g) := o in
  st_eqb s s' && opt_eqb zl_eqb r r'
  && list_eqb (opt_eqb Bool.eqb) (map (fun a => is_grouped_gen c s (Z.of_nat a)) (seq 0 (ndim c))) g.
(** the implementation ran [length o] steps successfully and then raised iff [raised] *)
Definition agree (c : cls) (s : st) (h : list hop) (o : list obs) (raised : bool) : bool :=
  let '(l, e) := run c s h in
  Nat.eqb (length l) (length o) && forallb (fun xo => obs_ok (fst xo) (snd xo)) (combine l o) && Bool.eqb e raised.

(** * literal helpers for the correspondence shards *)
Definition T1 (l : list Z) : tensor := Node (map Leaf l).
Definition T2 (l : list (list Z)) : tensor := Node (map T1 l).
Definition T3 (l : list (list (list Z))) : tensor := Node (map T2 l).
(** label arrays are shipped as Z lists, -1 standing for None (all genuine codes are >= 0) *)
Definition L (l : list Z) : larr := map (fun z => if z =? -1 then None else Some z) l.
Definition mkax := Build_axst.
Definition mkst := Build_st.
Definition mkopd := Build_operand.
