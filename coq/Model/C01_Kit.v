(** C01 — vocabulary used by the definitions that harness/translate/c01_kernel.py regenerates from the source
    (Gen/C01_Kernel.v): the numpy/python constructs of the anchored functions that are not already named in
    Model/C01_Meiosis.v / Model/C01_Mating.v.  Definitions only. *)
From PV Require Import Lib.Common Model.C01_Meiosis Model.C01_Mating.
Local Open Scope Z_scope.

(** [for _ in range(n): state = body(state)] *)
Fixpoint loop_n {S : Type} (n : nat) (body : S -> S) (s : S) : S :=
  match n with O => s | S n' => loop_n n' body (body s) end.

(** range(a, b) / numpy.arange(a, b) on integers *)
Definition rangeZ (a b : Z) : list Z := arangeZ a (Z.to_nat (b - a)).

(** [prefix + str(i).zfill(w)] *)
Definition name_of (pfx : list Z) (w : nat) (i : Z) : list Z := pfx ++ zfill w (str_Z i).

(** crossover indicator row [test rnd[i] xoprob] for a regenerated comparison *)
Fixpoint xo_row_with (test : Q -> Q -> bool) (rnd xoprob : list Q) : list bool :=
  match xoprob with
  | [] => []
  | p :: tp => test (hd 0%Q rnd) p :: xo_row_with test (tl rnd) tp
  end.

(** a phase number of the source (0 / 1) read as the model's boolean copy selector; [None] for any other integer *)
Definition phase_bool (z : Z) : option bool := if z =? 0 then Some false else if z =? 1 then Some true else None.

(** the segment-copy loop of mat_meiosis / dense_meiosis, written over the regenerated pieces:
      phase0, stix0                       the initialisations before the inner loop
      seg_src phase s stix spix           (phase index, (taxon index, (slice start, slice stop))) read from geno
      seg_dst i stix spix                 (row, (slice start, slice stop)) written in gamete
      stix_next, phase_next               the two updates at the end of the inner loop body
      tail_src phase s stix / tail_dst i stix    the copy after the loop (open-ended slices)
    A gamete row is assembled from the pieces the writes cover, in the order they are made; a write whose destination
    slice is not the source slice, or whose source row is not the selected taxon, yields no alleles (the comparison with
    the hand model then fails). *)
Section SegLoop.
  Variables (seg_src : Z -> Z -> Z -> Z -> Z * (Z * (Z * Z))) (seg_dst : Z -> Z -> Z -> Z * (Z * Z))
            (stix_next : Z -> Z -> Z) (phase_next : Z -> Z)
            (tail_src : Z -> Z -> Z -> Z * (Z * Z)) (tail_dst : Z -> Z -> Z * Z).
  Definition copy_of (g0 g1 : list Z) (ph : Z) : list Z :=
    match phase_bool ph with Some false => g0 | Some true => g1 | None => [] end.
  Definition seg_piece (g0 g1 : list Z) (i s phase stix spix : Z) : list Z :=
    let '(ph, (s', (a, b))) := seg_src phase s stix spix in
    let '(i', (a', b')) := seg_dst i stix spix in
    if (s' =? s) && (i' =? i) && (a' =? a) && (b' =? b) && (a =? stix)
    then slice (Z.to_nat a) (Z.to_nat b) (copy_of g0 g1 ph) else [].
  Definition tail_piece (p : nat) (g0 g1 : list Z) (i s phase stix : Z) : list Z :=
    let '(ph, (s', a)) := tail_src phase s stix in
    let '(i', a') := tail_dst i stix in
    if (s' =? s) && (i' =? i) && (a' =? a) && (a =? stix)
    then slice (Z.to_nat a) p (copy_of g0 g1 ph) else [].
  Fixpoint seg_loop (p : nat) (g0 g1 : list Z) (i s : Z) (xoix : list nat) (phase stix : Z) : list Z :=
    match xoix with
    | [] => tail_piece p g0 g1 i s phase stix
    | spix :: t => seg_piece g0 g1 i s phase stix (Z.of_nat spix)
                   ++ seg_loop p g0 g1 i s t (phase_next phase) (stix_next stix (Z.of_nat spix))
    end.
End SegLoop.
