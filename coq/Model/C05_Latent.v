(** C05 — executable model of the latent functions ([latentfn]) and of [evalfn] of the selection problems in
    pybrops/breed/prot/sel/prob/*SelectionProblem.py, at the level of criterion families:

    - linear        : EBV, GEBV, wGEBV, gwGEBV, EMBV, random (with the |sum x| < 1e-10 guard), UC, OHV (without)
    - quadratic     : OCS (norm ++ gain), MGR, MEH (guarded), L2 (one norm per trait, unguarded)
    - L1            : sum_j |V_j . c| per trait (unguarded)
    - family        : mean EBV ++ family contributions (bincount), unguarded; the subset class assigns, not accumulates
    - allele freq.  : PAFD, PAU, MOGS (subset only); the frequency is the binary64 quotient count / (ploidy*k)
                      (the former code multiplied by the rounded reciprocal: [old_pfreq_of_count], kept as a regression witness)
    - max type      : OPV, genotype builder (subset only)

    Candidates' data are rationals (the generated data lie on dyadic grids, so the floats are these rationals);
    a norm is represented by its square.  Definitions only. *)
From Coq Require Import PrimFloat.
From PV Require Import Lib.Common Lib.FloatK.
Local Open Scope Q_scope.

(** * basics *)
Definition nq (k : nat) : Q := inject_Z (Z.of_nat k).
Definition mget (M : list (list Q)) (i j : nat) : Q := nth j (nth i M []) 0.
(** sums are kept in lowest terms ([Qred]) so that evaluation inside Coq stays fast; [qsum l == sumQ l] *)
Definition qsum (l : list Q) : Q := fold_right (fun a b => Qred (a + b)) 0 l.
Definition sumf (f : nat -> Q) (l : list nat) : Q := qsum (map f l).
Fixpoint cnt (i : nat) (s : list nat) : nat :=
  match s with [] => O | a :: r => ((if Nat.eqb a i then 1 else 0) + cnt i r)%nat end.
Definition mem (i : nat) (s : list nat) : bool := existsb (Nat.eqb i) s.

(** * decision encodings of one multiset [s] of members out of [n] candidates *)
Definition counts (n : nat) (s : list nat) : list Q := map (fun i => nq (cnt i s)) (seq 0 n).
Definition indicator (n : nat) (s : list nat) : list Q := map (fun i => if mem i s then 1 else 0) (seq 0 n).
(** the contribution vector a subset stands for: multiplicity / k *)
Definition contrib_subset (n : nat) (s : list nat) : list Q :=
  map (fun i => (1 / nq (length s)) * nq (cnt i s)) (seq 0 n).

(** the source's normalisation of a real / integer / binary vector:
      xsum = x.sum(); xsum = xsum if abs(xsum) >= 1e-10 else 1.0; contrib = (1.0 / xsum) * x
    [guard_eps] is the binary64 value of the literal 1e-10 *)
Definition guard_eps : Q := 7737125245533627 # 77371252455336267181195264.
Definition guard_sum (t : Q) : Q := if Qle_bool guard_eps (Qabs' t) then t else 1.
Definition contrib_guard (x : list Q) : list Q := map (Qmult (1 / guard_sum (qsum x))) x.
(** classes without the guard:  contrib = (1.0 / x.sum()) * x   (a zero sum gives inf * 0 = nan: no value) *)
Definition contrib_raw (x : list Q) : list Q := map (Qmult (1 / qsum x)) x.

(** * linear family *)
(** subset:  -(1.0 / len(x)) * M[x,:].sum(0) *)
Definition lin_subset (t : nat) (M : list (list Q)) (s : list nat) : list Q :=
  map (fun j => (- (1 / nq (length s))) * sumf (fun i => mget M i j) s) (seq 0 t).
(** vector:  -contrib.dot(M) *)
Definition lin_vec (n t : nat) (M : list (list Q)) (c : list Q) : list Q :=
  map (fun j => - sumf (fun i => nth i c 0 * mget M i j) (seq 0 n)) (seq 0 t).

(** * quadratic family: squared 2-norm of C c, C given by rows *)
(** subset:  Cx = (1.0 / len(x)) * C[:,x].sum(1) *)
Definition cx_subset (C : list (list Q)) (s : list nat) : list Q :=
  map (fun r => (1 / nq (length s)) * sumf (fun i => nth i r 0) s) C.
Definition cx_vec (n : nat) (C : list (list Q)) (c : list Q) : list Q :=
  map (fun r => sumf (fun i => nth i r 0 * nth i c 0) (seq 0 n)) C.
Definition normsq (v : list Q) : Q := qsum (map (fun x => x * x) v).
Definition normsq_subset (C : list (list Q)) (s : list nat) : Q := normsq (cx_subset C s).
Definition normsq_vec (n : nat) (C : list (list Q)) (c : list Q) : Q := normsq (cx_vec n C c).
(** Gram matrix C'C (the kinship matrix the factor was taken from) and the quadratic form c'Kc *)
Definition gram (n : nat) (C : list (list Q)) (i j : nat) : Q := qsum (map (fun r => nth i r 0 * nth j r 0) C).
Definition qform (n : nat) (K : nat -> nat -> Q) (c : list Q) : Q :=
  sumf (fun i => sumf (fun j => nth i c 0 * (K i j * nth j c 0)) (seq 0 n)) (seq 0 n).

(** * L1 family:  numpy.absolute(V.dot(contrib)).sum(1)  for one trait, V given by rows (markers) *)
Definition l1 (v : list Q) : Q := qsum (map Qabs' v).
Definition l1_subset (V : list (list Q)) (s : list nat) : Q := l1 (cx_subset V s).
Definition l1_vec (n : nat) (V : list (list Q)) (c : list Q) : Q := l1 (cx_vec n V c).

(** * family criterion *)
Fixpoint nodupZ (l : list Z) : list Z :=
  match l with [] => [] | x :: r => if existsb (Z.eqb x) r then nodupZ r else x :: nodupZ r end.
(** numpy.unique(familyid, return_inverse = True): index of every label among the sorted distinct labels *)
Definition famix (ids : list Z) : list nat := map (fun v => length (nodupZ (filter (fun w => (w <? v)%Z) ids))) ids.
Definition nfam (ids : list Z) : nat := length (nodupZ ids).
(** numpy.bincount(ix, weights) with nf bins *)
Definition bincount (nf : nat) (ix : list nat) (w : list Q) : list Q :=
  map (fun f => qsum (map2 (fun i wi => if Nat.eqb i f then wi else 0) ix w)) (seq 0 nf).
(** subset class:  familywt = zeros(n); familywt[x] = 1/k   — an assignment: a repeated member counts once *)
Definition famwt_subset (n : nat) (s : list nat) : list Q :=
  map (fun i => if mem i s then 1 / nq (length s) else 0) (seq 0 n).
Definition fam_subset (n t : nat) (M : list (list Q)) (ids : list Z) (s : list nat) : list Q :=
  lin_subset t M s ++ map Qopp (bincount (nfam ids) (famix ids) (famwt_subset n s)).
Definition fam_vec (n t : nat) (M : list (list Q)) (ids : list Z) (c : list Q) : list Q :=
  lin_vec n t M c ++ map Qopp (bincount (nfam ids) (famix ids) c).

(** * allele-frequency families (subset classes only) *)
Definition zget (G : list (list Z)) (i j : nat) : Z := nth j (nth i G []) 0%Z.
(** geno[x,:,None].sum(0) at locus j *)
Definition acount (G : list (list Z)) (s : list nat) (j : nat) : Z := sumZ (map (fun i => zget G i j) s).
Definition popsize (ploidy : Z) (s : list nat) : Z := (ploidy * Z.of_nat (length s))%Z.
(** pfreq = count / (ploidy * len(x))      — one correctly rounded binary64 division of two integers *)
Definition pfreq_of_count (c N : Z) : float := fdivZ c N.
Definition pfreq_f (ploidy : Z) (G : list (list Z)) (s : list nat) (j : nat) : float := pfreq_of_count (acount G s j) (popsize ploidy s).
(** the FORMER code (before the repair):  pfreq = (1.0 / (ploidy * len(x))) * count  — rounded reciprocal.
    Not used by [latent]; kept so that the refutation of the former behaviour stays a checked statement. *)
Definition old_pfreq_of_count (c N : Z) : float := frecipZ c N.
(** the exact frequency *)
Definition pfreq_q (ploidy : Z) (G : list (list Z)) (s : list nat) (j : nat) : Q := inject_Z (acount G s j) / inject_Z (popsize ploidy s).

(** PAFD:  (mkrwt * |tfreq - pfreq|).sum(0)  (value compared within tolerance: the exact frequency is used) *)
Definition pafd (ploidy : Z) (G : list (list Z)) (w tf : list (list Q)) (p t : nat) (s : list nat) : list Q :=
  map (fun q => sumf (fun j => mget w j q * Qabs' (mget tf j q - pfreq_q ploidy G s j)) (seq 0 p)) (seq 0 t).

(** PAU as coded.  The flag properties compute, on every access, from the target array the problem holds:
    tminor = (tfreq == 0), thet = (0 < tfreq < 1), tmajor = (tfreq == 1). *)
Definition t_minor (x : Q) : bool := Qeq_bool x 0.
Definition t_major (x : Q) : bool := Qeq_bool x 1.
Definition t_het (x : Q) : bool := negb (Qle_bool x 0) && negb (Qle_bool 1 x).
Definition pau_unavail_gen (tmajor : Q -> bool) (pf : float) (tfv : Q) : bool :=
  let p_ltmajor := PrimFloat.ltb pf 1%float in
  let p_gtminor := PrimFloat.ltb 0%float pf in
  let p_het := p_ltmajor && p_gtminor in
  negb ((p_ltmajor && t_minor tfv) || ((p_het && t_het tfv) || (p_gtminor && tmajor tfv))).
Definition pau_unavail_code : float -> Q -> bool := pau_unavail_gen t_major.
(** the FORMER code (before the repair): the setter computed  _tmajor = _calc_tminor(tfreq).  Not used by [latent]. *)
Definition old_pau_unavail_code : float -> Q -> bool := pau_unavail_gen t_minor.
(** MOGS as coded: the properties tfreq_fix_minor = tfreq <= 0, tfreq_fix_major = tfreq >= 1, heter = neither (computed on access) *)
Definition mogs_unavail_code (pf : float) (tfv : Q) : bool :=
  let major_lost := PrimFloat.leb pf 0%float in
  let minor_lost := PrimFloat.leb 1%float pf in
  let fix_minor := Qle_bool tfv 0 in
  let fix_major := Qle_bool 1 tfv in
  (fix_minor && minor_lost) || (fix_major && major_lost) || (negb (fix_minor || fix_major) && (major_lost || minor_lost)).
(** the definition on the integer allele count c out of N copies: the allele a target frequency needs is absent *)
Definition unavail_def (c N : Z) (tfv : Q) : bool :=
  if Qle_bool tfv 0 then (c =? N)%Z else if Qle_bool 1 tfv then (c =? 0)%Z else ((c =? 0) || (c =? N))%Z.
Definition wsum_flags (w : list (list Q)) (p t : nat) (flag : nat -> nat -> bool) : list Q :=
  map (fun q => sumf (fun j => if flag j q then mget w j q else 0) (seq 0 p)) (seq 0 t).
Definition pau_code (ploidy : Z) (G : list (list Z)) (w tf : list (list Q)) (p t : nat) (s : list nat) : list Q :=
  wsum_flags w p t (fun j q => pau_unavail_code (pfreq_f ploidy G s j) (mget tf j q)).
Definition mogs_pau_code (ploidy : Z) (G : list (list Z)) (w tf : list (list Q)) (p t : nat) (s : list nat) : list Q :=
  wsum_flags w p t (fun j q => mogs_unavail_code (pfreq_f ploidy G s j) (mget tf j q)).
Definition pau_def (ploidy : Z) (G : list (list Z)) (w tf : list (list Q)) (p t : nat) (s : list nat) : list Q :=
  wsum_flags w p t (fun j q => unavail_def (acount G s j) (popsize ploidy s) (mget tf j q)).

(** * max-type criteria; haplotype values H[phase][taxon][block][trait] *)
Definition hget (Hp : list (list (list Q))) (i b q : nat) : Q := nth q (nth b (nth i Hp []) []) 0.
Definition maxl (l : list Q) : Q := match l with [] => 0 | x :: r => fold_left Qmax' r x end.
(** OPV:  -ploidy * haplomat[:,x,:,:].max((0,1)).sum(0) *)
Definition opv_subset (H : list (list (list (list Q)))) (nb nt : nat) (s : list nat) : list Q :=
  map (fun q => (- nq (length H)) * sumf (fun b => maxl (flat_map (fun Hp => map (fun i => hget Hp i b q) s) H)) (seq 0 nb)) (seq 0 nt).
(** genotype builder: best phase per member, sort the members, keep the nbest largest, sum over members and blocks *)
Fixpoint insQ (x : Q) (l : list Q) : list Q :=
  match l with [] => [x] | y :: r => if Qle_bool x y then x :: l else y :: insQ x r end.
Definition sortQ (l : list Q) : list Q := fold_right insQ [] l.
Definition lastn {A} (k : nat) (l : list A) : list A := skipn (length l - k) l.
Definition gb_subset (H : list (list (list (list Q)))) (nb nt nbest : nat) (s : list nat) : list Q :=
  map (fun q => (- (nq (length H) / nq nbest)) *
                sumf (fun b => qsum (lastn nbest (sortQ (map (fun i => maxl (map (fun Hp => hget Hp i b q) H)) s)))) (seq 0 nb)) (seq 0 nt).

(** * evalfn:  obj = obj_wt * obj_trans(x, latent), ineqcv = ..., eqcv = ... *)
Definition evalfn (To Ti Te : list Q -> list Q -> list Q) (wo wi we : list Q) (x latent : list Q) : list Q * list Q * list Q :=
  (map2 Qmult wo (To x latent), map2 Qmult wi (Ti x latent), map2 Qmult we (Te x latent)).
(** the transformations of sel/prob/trans.py (+ one defined by the harness that uses both arguments) *)
Inductive trans := TId | TEmpty | TSum | TDot (w : list Q) | TDecnSum (d : Q) | TMix (c : Q).
Definition apply_trans (tr : trans) (x latent : list Q) : list Q :=
  match tr with
  | TId => latent
  | TEmpty => []
  | TSum => [qsum latent]
  | TDot w => [qsum (map2 Qmult w latent)]
  | TDecnSum d => [Qabs' (qsum x - d)]
  | TMix c => map (fun v => v * c + qsum x) latent
  end.
Definition evalfn_enum (to ti te : trans) := evalfn (apply_trans to) (apply_trans ti) (apply_trans te).

(** * one entry point per family for the correspondence shards *)
Inductive dec := DSub (s : list nat) | DVec (x : list Q).
(** a latent value: exact, or a non-negative number whose square is given, or v with (1+v) such a number *)
Inductive lv := Ex (q : Q) | Sq (q : Q) | OneMinus (q : Q).
Inductive fdata :=
| FLin (guarded : bool) (t : nat) (M : list (list Q))
| FOcs (t : nat) (M C : list (list Q))
| FMgr (C : list (list Q))
| FMeh (C : list (list Q))
| FL2 (Cs : list (list (list Q)))
| FL1 (Vs : list (list (list Q)))
| FFam (t : nat) (M : list (list Q)) (ids : list Z)
| FPafd (ploidy : Z) (G : list (list Z)) (w tf : list (list Q)) (p t : nat)
| FPau (ploidy : Z) (G : list (list Z)) (w tf : list (list Q)) (p t : nat)
| FMogs (ploidy : Z) (G : list (list Z)) (w tf : list (list Q)) (p t : nat)
| FOpv (H : list (list (list (list Q)))) (nb nt : nat)
| FGb (H : list (list (list (list Q)))) (nb nt nbest : nat).

(** the declared number of latent values (the [nlatent] property of the classes) *)
Definition nlatent_of (fd : fdata) : nat :=
  match fd with
  | FLin _ t _ => t
  | FOcs t _ _ => S t
  | FMgr _ | FMeh _ => 1
  | FL2 Cs => length Cs
  | FL1 Vs => length Vs
  | FFam t _ ids => t + nfam ids
  | FPafd _ _ _ _ _ t | FPau _ _ _ _ _ t => t
  | FMogs _ _ _ _ _ t => t + t
  | FOpv _ _ nt | FGb _ _ nt _ => nt
  end.

Definition is_nil {A} (l : list A) : bool := match l with [] => true | _ => false end.
(** contribution vector of a real/integer/binary decision vector; None = no value (nan) *)
Definition contrib_of (guarded : bool) (x : list Q) : option (list Q) :=
  if guarded then Some (contrib_guard x) else if Qeq_bool (qsum x) 0 then None else Some (contrib_raw x).
Definition omap {A B} (f : A -> B) (o : option A) : option B := match o with Some a => Some (f a) | None => None end.

(** (an empty selection is outside every decision space — ndecn >= 1 — and has no value here) *)
Definition latent (n : nat) (fd : fdata) (d : dec) : option (list lv) :=
  match d with
  | DSub s =>
      if is_nil s then None else
      Some match fd with
      | FLin _ t M => map Ex (lin_subset t M s)
      | FOcs t M C => Sq (normsq_subset C s) :: map Ex (lin_subset t M s)
      | FMgr C => [Sq (normsq_subset C s)]
      | FMeh C => [OneMinus (normsq_subset C s)]
      | FL2 Cs => map (fun C => Sq (normsq_subset C s)) Cs
      | FL1 Vs => map (fun V => Ex (l1_subset V s)) Vs
      | FFam t M ids => map Ex (fam_subset n t M ids s)
      | FPafd pl G w tf p t => map Ex (pafd pl G w tf p t s)
      | FPau pl G w tf p t => map Ex (pau_code pl G w tf p t s)
      | FMogs pl G w tf p t => map Ex (mogs_pau_code pl G w tf p t s ++ pafd pl G w tf p t s)
      | FOpv H nb nt => map Ex (opv_subset H nb nt s)
      | FGb H nb nt nbest => map Ex (gb_subset H nb nt nbest s)
      end
  | DVec x =>
      match fd with
      | FLin g t M => omap (fun c => map Ex (lin_vec n t M c)) (contrib_of g x)
      | FOcs t M C => omap (fun c => Sq (normsq_vec n C c) :: map Ex (lin_vec n t M c)) (contrib_of true x)
      | FMgr C => omap (fun c => [Sq (normsq_vec n C c)]) (contrib_of true x)
      | FMeh C => omap (fun c => [OneMinus (normsq_vec n C c)]) (contrib_of true x)
      | FL2 Cs => omap (fun c => map (fun C => Sq (normsq_vec n C c)) Cs) (contrib_of false x)
      | FL1 Vs => omap (fun c => map (fun V => Ex (l1_vec n V c)) Vs) (contrib_of false x)
      | FFam t M ids => omap (fun c => map Ex (fam_vec n t M ids c)) (contrib_of false x)
      | _ => None
      end
  end.

(** * comparison of implementation outputs with model values *)
Definition tol30 : Q := 1 # 1073741824.
Definition lv_ok (exact : bool) (impl : Q) (m : lv) : bool :=
  match m with
  | Ex q => if exact then Qeq_bool impl q else Qclose impl q
  | Sq q => Qle_bool (- tol30) impl && Qclose (impl * impl) q
  | OneMinus q => Qle_bool (- tol30) (1 + impl) && Qclose ((1 + impl) * (1 + impl)) q
  end.
Fixpoint all2 {A B} (f : A -> B -> bool) (l1 : list A) (l2 : list B) : bool :=
  match l1, l2 with
  | [], [] => true
  | x :: t1, y :: t2 => f x y && all2 f t1 t2
  | _, _ => false
  end.
Definition agree (exact : bool) (impl : option (list Q)) (model : option (list lv)) : bool :=
  match impl, model with
  | Some a, Some b => all2 (lv_ok exact) a b
  | None, None => true
  | _, _ => false
  end.
Definition ev_close (impl model : list Q * list Q * list Q) : bool :=
  let '(a, b, c) := impl in let '(x, y, z) := model in qclose_l a x && qclose_l b y && qclose_l c z.

(** * in-place update of the target array after the tfreq setter ran (finding C05-tfreq-inplace-stale-flags, repaired)
    As coded NOW: the tfreq setter stores the target array only; the flag properties (tminor, thet, tmajor; tfreq_fix_minor /
    major / heter) compute their value from the array the problem holds each time latentfn reads them.  A problem whose targets
    were [tf_set] at the setter and are [tf_now] at the call therefore answers [latent] of its CURRENT data — the session model
    ([OUpd] of Proofs/C05_Session.v) needs no state beside the data.
    The FORMER code derived the flags inside the setter and stored them; latentfn read the stored flags for the availability
    term and the current array for the distance term.  Not used by [latent]; kept as regression witnesses: *)
Definition old_pau_stale (pl : Z) (G : list (list Z)) (w tf_set tf_now : list (list Q)) (p t : nat) (s : list nat) : list Q :=
  pau_code pl G w tf_set p t s.
Definition old_mogs_stale (pl : Z) (G : list (list Z)) (w tf_set tf_now : list (list Q)) (p t : nat) (s : list nat) : list Q :=
  mogs_pau_code pl G w tf_set p t s ++ pafd pl G w tf_now p t s.
(** the data of a problem after the targets were written IN PLACE into the array it holds ([prob.tfreq[...] = tf']) *)
Definition set_targets (tf' : list (list Q)) (fd : fdata) : fdata :=
  match fd with
  | FPafd pl G w _ p t => FPafd pl G w tf' p t
  | FPau pl G w _ p t => FPau pl G w tf' p t
  | FMogs pl G w _ p t => FMogs pl G w tf' p t
  | _ => fd
  end.
