(** C09 — executable model of the genotype summary statistics of
    pybrops/popgen/gmat/DenseGenotypeMatrix.py (unphased, (n,p) dosage matrix) and
    pybrops/popgen/gmat/DensePhasedGenotypeMatrix.py (phased, (m,n,p) allele matrix).
    Counts are exact integers; the allele frequency is modelled twice: exactly in Q and bit-exactly in
    binary64 ([PrimFloat]) with the operation order of the source.  Definitions only. *)
From Coq Require Import PrimFloat Uint63.
From PV Require Import Lib.Common Lib.FloatK.
Local Open Scope Z_scope.

(** ** unphased matrix: list of n rows (taxa), each of p dosages *)
Definition tacount (mat : list (list Z)) : list (list Z) := mat.
Definition acount (p : nat) (mat : list (list Z)) : list Z := colsumsZ p mat.
Definition ntaxa (mat : list (list Z)) : Z := Z.of_nat (length mat).

(** allele frequency: source (after the fix) is  mat.sum(taxa_axis) / (ploidy * ntaxa)  *)
Definition afreq_q1 (c N : Z) : Q := Qmake c 1 / Qmake N 1.
Definition afreq_f1 (c N : Z) : float := fdivZ c N.
(** the formula the code used before the fix: (1.0 / N) * c — kept to state the refutation *)
Definition afreq_recip_f1 (c N : Z) : float := frecipZ c N.

Definition afreq_q (ploidy : Z) (p : nat) (mat : list (list Z)) : list Q :=
  map (fun c => afreq_q1 c (ploidy * ntaxa mat)) (acount p mat).
Definition afreq_f (ploidy : Z) (p : nat) (mat : list (list Z)) : list float :=
  map (fun c => afreq_f1 c (ploidy * ntaxa mat)) (acount p mat).

(** fixation / polymorphism flags exactly as coded: float comparisons on the frequency *)
Definition afixed_f1 (x : float) : bool := PrimFloat.eqb x 0%float || PrimFloat.eqb x 1%float.
Definition apoly_f1 (x : float) : bool := PrimFloat.ltb 0%float x && PrimFloat.ltb x 1%float.
Definition afixed (ploidy : Z) (p : nat) (mat : list (list Z)) : list bool := map afixed_f1 (afreq_f ploidy p mat).
Definition apoly (ploidy : Z) (p : nat) (mat : list (list Z)) : list bool := map apoly_f1 (afreq_f ploidy p mat).

(** textbook flags on the integer counts *)
Definition afixed_z (c N : Z) : bool := (c =? 0) || (c =? N).
Definition apoly_z (c N : Z) : bool := (0 <? c) && (c <? N).

(** minor allele frequency:  out[out > 0.5] = 1.0 - out[...]  *)
Definition maf_f1 (x : float) : float := if PrimFloat.ltb 0.5%float x then PrimFloat.sub 1%float x else x.
Definition maf_f (ploidy : Z) (p : nat) (mat : list (list Z)) : list float := map maf_f1 (afreq_f ploidy p mat).
Definition maf_q1 (x : Q) : Q := Qmin' x (1 - x).

(** mean expected heterozygosity  (ploidy / p) * sum_j p_j (1 - p_j)   — exact value *)
Definition meh_q (ploidy : Z) (p : nat) (mat : list (list Z)) : Q :=
  let fr := afreq_q ploidy p mat in
  (Qmake ploidy 1 / Qmake (Z.of_nat p) 1) * sumQ (map (fun x => x * (1 - x))%Q fr).

(** per-taxon frequency:  (1.0 / ploidy) * mat  *)
Definition tafreq_f (ploidy : Z) (mat : list (list Z)) : list (list float) :=
  map (map (fun x => PrimFloat.mul (PrimFloat.div 1%float (f_of_Z ploidy)) (f_of_Z x))) mat.
Definition tafreq_q (ploidy : Z) (mat : list (list Z)) : list (list Q) :=
  map (map (fun x => Qmake x 1 / Qmake ploidy 1)%Q) mat.

(** genotype-class counts: classes 0..ploidy, for every locus the number of taxa with that dosage *)
Definition gtcount (ploidy : nat) (p : nat) (mat : list (list Z)) : list (list Z) :=
  map (fun i => map (fun j => count_if (Z.eqb (Z.of_nat i)) (col 0 j mat)) (seq 0 p)) (seq 0 (S ploidy)).
(** genotype-class frequencies: (1.0 / ntaxa) * gtcount *)
Definition gtfreq_f (ploidy : nat) (p : nat) (mat : list (list Z)) : list (list float) :=
  map (map (fun c => PrimFloat.mul (PrimFloat.div 1%float (f_of_Z (ntaxa mat))) (f_of_Z c))) (gtcount ploidy p mat).
Definition gtfreq_q (ploidy : nat) (p : nat) (mat : list (list Z)) : list (list Q) :=
  map (map (fun c => Qmake c 1 / Qmake (ntaxa mat) 1)%Q) (gtcount ploidy p mat).

(** alternative codings *)
Definition fmt_012 (mat : list (list Z)) : list (list Z) := mat.
Definition fmt_m101 (mat : list (list Z)) : list (list Z) := map (map (fun x => x - 1)) mat.
(** {-1,m,1}: subtract 1, then replace the zeros of every column by the column mean (of the shifted column) *)
Definition fmt_m1m1 (p : nat) (mat : list (list Z)) : list (list Q) :=
  let sh := fmt_m101 mat in
  let means := map (fun c => Qmake c 1 / Qmake (ntaxa mat) 1)%Q (colsumsZ p sh) in
  map (fun row => map2 (fun x m => if x =? 0 then m else Qmake x 1) row means) sh.

(** ** phased matrix: list of m phases, each an (n x p) allele matrix *)
Definition madd (a b : list (list Z)) : list (list Z) := map2 (map2 Z.add) a b.
Definition zeros (n p : nat) : list (list Z) := repeat (repeat 0 p) n.
(** mat.sum(phase_axis) *)
Definition tacount_ph (n p : nat) (ph : list (list (list Z))) : list (list Z) := fold_right madd (zeros n p) ph.
(** mat.sum((phase_axis, taxa_axis)) : every row of every phase is added up *)
Definition acount_ph (p : nat) (ph : list (list (list Z))) : list Z := colsumsZ p (concat ph).
Definition nphase (ph : list (list (list Z))) : Z := Z.of_nat (length ph).
Definition afreq_ph_f (n p : nat) (ph : list (list (list Z))) : list float :=
  map (fun c => afreq_f1 c (nphase ph * Z.of_nat n)) (acount_ph p ph).
Definition afreq_ph_q (n p : nat) (ph : list (list (list Z))) : list Q :=
  map (fun c => afreq_q1 c (nphase ph * Z.of_nat n)) (acount_ph p ph).
(** phased apoly: not (all alleles == 0 or all alleles == 1), tested on the alleles themselves *)
Definition apoly_ph (p : nat) (ph : list (list (list Z))) : list bool :=
  map (fun j => let c := col 0 j (concat ph) in negb (forallb (Z.eqb 0) c || forallb (Z.eqb 1) c)) (seq 0 p).
(** phased afixed is inherited from the unphased class: float equality on afreq *)
Definition afixed_ph (n p : nat) (ph : list (list (list Z))) : list bool := map afixed_f1 (afreq_ph_f n p ph).

(** ** comparison helpers for the correspondence shards *)
Definition fl_eqb (a b : list float) : bool := list_eqb PrimFloat.eqb a b.
Definition fll_eqb := list_eqb fl_eqb.
