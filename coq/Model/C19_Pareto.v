(** C19 — executable model of
      pybrops/core/util/pareto.py            is_pareto_efficient  (pivot filter with index bookkeeping)
      pybrops/opt/algo/pymoo_addon.py         dominates            (feasibility-first dominance)
      pybrops/core/util/trans.py              trans_ndpt_pseudo_dist
      pybrops/breed/prot/sel/prob/trans.py    trans_ndpt_to_vec_dist   (default ndset_trans of SelectionProtocol)
      pybrops/breed/prot/sel/transfn.py       trans_ndpt_to_vec_dist
    Numbers are exact rationals (the harness generates dyadic inputs; comparisons are exact, the distances are
    modelled up to the final norm, i.e. the model returns the SQUARED distance).  Every division of the source is a
    partial operation here ([inv_opt]): a division by zero (numpy: inf, then inf*0 = NaN) is the result
    [TNonFinite].  Definitions only. *)
From PV Require Import Lib.Common.
Local Open Scope Q_scope.

Definition Qlt_bool (x y : Q) : bool := negb (Qle_bool y x).

(** * is_pareto_efficient *)

(** fmat * wt.flatten()[None,:] *)
Definition wrow (wt r : list Q) : list Q := map2 Qmult r wt.
Definition weighted (wt : list Q) (fmat : list (list Q)) : list (list Q) := map (wrow wt) fmat.

(** numpy.any(q > p) for one row q against the pivot row p *)
Definition gt_any (q p : list Q) : bool := existsb (fun b : bool => b) (map2 (fun x y => Qlt_bool y x) q p).

(** ndpt_mask[pt_ix] = True *)
Fixpoint set_true (k : nat) (m : list bool) : list bool :=
  match m with
  | [] => []
  | b :: t => match k with O => true :: t | S k' => b :: set_true k' t end
  end.

(** a[mask] *)
Fixpoint compress {A} (m : list bool) (l : list A) : list A :=
  match m, l with
  | b :: m', x :: l' => if b then x :: compress m' l' else compress m' l'
  | _, _ => []
  end.

(** numpy.sum(mask) *)
Definition count_true (m : list bool) : nat := length (filter (fun b : bool => b) m).

(** the state of the while loop: the two parallel arrays [is_efficient] (indices) and [fmat] (rows), zipped,
    and [pt_ix].  One iteration = one unfolding; [None] = the fuel ran out with the loop condition still true
    (proved impossible for fuel = number of points). *)
Definition entry : Type := (nat * list Q)%type.

Fixpoint pareto_loop (fuel : nat) (st : list entry) (ix : nat) : option (list entry) :=
  if (ix <? length st)%nat then
    match fuel with
    | O => None
    | S f =>
        let pv := snd (nth ix st (O, [])) in
        let mask := set_true ix (map (fun e : entry => gt_any (snd e) pv) st) in
        pareto_loop f (compress mask st) (count_true (firstn ix mask) + 1)%nat
    end
  else Some st.

Definition init_state (pts : list (list Q)) : list entry := combine (seq 0 (length pts)) pts.

(** return_mask = False : the surviving indices *)
Definition pareto_idx (wt : list Q) (fmat : list (list Q)) : option (list nat) :=
  match pareto_loop (length fmat) (init_state (weighted wt fmat)) 0 with
  | Some st => Some (map fst st)
  | None => None
  end.

(** return_mask = True :  mask = zeros(npt); mask[is_efficient] = True *)
Definition mask_of (npt : nat) (idx : list nat) : list bool := map (fun i => existsb (Nat.eqb i) idx) (seq 0 npt).
Definition pareto_mask (wt : list Q) (fmat : list (list Q)) : option (list bool) :=
  match pareto_idx wt fmat with Some idx => Some (mask_of (length fmat) idx) | None => None end.

(** * dominates(obj1, cv1, obj2, cv2) *)
Definition all_le (a b : list Q) : bool := forallb (fun x : bool => x) (map2 Qle_bool a b).
Definition any_lt (a b : list Q) : bool := existsb (fun x : bool => x) (map2 Qlt_bool a b).
Definition dominates_m (o1 : list Q) (c1 : Q) (o2 : list Q) (c2 : Q) : bool :=
  if Qle_bool c1 0 && Qle_bool c2 0 then all_le o1 o2 && any_lt o1 o2 else Qlt_bool c1 c2.

(** * distance-to-vector transformations *)
Inductive tres := TRaised | TNonFinite | TFinite (d2 : list Q).

(** 1.0 / x : defined only for x <> 0 *)
Definition inv_opt (x : Q) : option Q := if Qeq_bool x 0 then None else Some (/ x).

Fixpoint sequence {A} (l : list (option A)) : option (list A) :=
  match l with
  | [] => Some []
  | None :: _ => None
  | Some x :: t => match sequence t with Some t' => Some (x :: t') | None => None end
  end.

(** mat.min(0), mat.max(0) of a non-empty matrix r0 :: rest *)
Definition colmin (r0 : list Q) (rest : list (list Q)) : list Q := fold_left (map2 Qmin') rest r0.
Definition colmax (r0 : list Q) (rest : list (list Q)) : list Q := fold_left (map2 Qmax') rest r0.

(**  mask = (maximum == 0.0); maximum[mask] = 1.0; scale = 1.0 / maximum; scale[mask] = 0.0  *)
Definition scale_guarded1 (m : Q) : option Q :=
  let mask := Qeq_bool m 0 in
  let m' := if mask then 1 else m in
  match inv_opt m' with None => None | Some s => Some (if mask then 0 else s) end.
(**  scale = 1.0 / mat.max(0)   (the selection copies before commit 47ce3c75)  *)
Definition scale_unguarded1 (m : Q) : option Q := inv_opt m.

Definition sq (x : Q) : Q := x * x.
(** squared norm of  p - ((p.L) * linv) L  *)
Definition residual2 (L : list Q) (linv : Q) (p : list Q) : Q :=
  let a := linv * dotQ p L in
  sumQ (map sq (map2 Qminus p (map (fun l => a * l) L))).

(** common body; [mulv] multiplies the columns, [lin] spans the line *)
Definition trans_body (guard : bool) (mat : list (list Q)) (mulv lin : list Q) : tres :=
  match map (fun r => map2 Qmult r mulv) mat with
  | [] => TRaised                                   (* min of a zero-size array raises ValueError *)
  | r0 :: rest =>
      let mn := colmin r0 rest in
      match map (fun r => map2 Qminus r mn) (r0 :: rest) with
      | [] => TRaised
      | s0 :: srest =>
          let mx := colmax s0 srest in
          match sequence (map (if guard then scale_guarded1 else scale_unguarded1) mx) with
          | None => TNonFinite                      (* 1/0 = inf, inf * 0 = NaN in that column *)
          | Some sc =>
              let m3 := map (fun r => map2 Qmult sc r) (s0 :: srest) in
              match inv_opt (dotQ lin lin) with
              | None => TNonFinite                  (* 1/(L.L) = inf, inf * 0 = NaN *)
              | Some linv => TFinite (map (residual2 lin linv) m3)
              end
          end
      end
  end.

(** core/util/trans.py : three assertions on the pseudoweights, then the body *)
Definition trans_core (mat : list (list Q)) (minmax pw : list Q) : tres :=
  if negb (forallb (Qle_bool 0) pw) then TRaised
  else if negb (existsb (Qlt_bool 0) pw) then TRaised
  else if negb (Qlt_bool 0 (dotQ pw pw)) then TRaised
  else trans_body true mat minmax pw.

(** sel/prob/trans.py (mat, obj_wt, vec_wt):  mat * obj_wt,  projection on vec_wt   (since commit 9b993ed9) *)
Definition trans_sel_prob (mat : list (list Q)) (obj_wt vec_wt : list Q) : tres := trans_body true mat obj_wt vec_wt.
(** sel/transfn.py (mat, objfn_wt, wt):  mat * objfn_wt,  projection on wt   (since commit 9b993ed9) *)
Definition trans_sel_fn (mat : list (list Q)) (objfn_wt wt : list Q) : tres := trans_body true mat objfn_wt wt.
(** the FORMER code of both selection copies (before commit 9b993ed9): mat * vec_wt, projection on obj_wt — the two
    vectors used with exchanged roles.  Kept only as a regression witness. *)
Definition old_trans_sel (mat : list (list Q)) (obj_wt vec_wt : list Q) : tres := trans_body true mat vec_wt obj_wt.
(** the selection copies as they were before the guard was copied in (before commit 47ce3c75; roles still exchanged) *)
Definition trans_sel_unguarded (mat : list (list Q)) (obj_wt vec_wt : list Q) : tres := trans_body false mat vec_wt obj_wt.

(** * comparison helpers for the correspondence shards *)
Inductive tobs := ORaised | ONonFinite | OVals (d : list Q).
(** the implementation's distance x against the model's squared distance y: x*x within 2^-30 (1+|y|) *)
Definition sq_close (x y : Q) : bool := Qle_bool 0 x && Qclose (x * x) y.
Definition tres_agree (m : tres) (o : tobs) : bool :=
  match m, o with
  | TRaised, ORaised => true
  | TNonFinite, ONonFinite => true
  | TFinite d2, OVals d => list_eqb sq_close d d2
  | _, _ => false
  end.
Definition obl_eqb := opt_eqb bl_eqb.
Definition onl_eqb := opt_eqb natl_eqb.
