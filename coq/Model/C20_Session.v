(** C20 — sessions: ONE programme object driven by a sequence of public calls — evolve / advance / reset / initialize /
    is_initialized, the property setters (start_*, the working containers, t_cur, t_max, the four operators, the
    initialisation operator), a new logbook, copy.copy / copy.deepcopy of the programme object — each command continuing on
    whatever state the previous one left, INCLUDING the state left behind by a command that raised.  The model has no
    memory besides [pstate] and the current operator programmes, so the result of a call is a function of the state at that
    call by construction; the correspondence checks that the implementation agrees.  Definitions only. *)
From PV Require Import Lib.Common Model.C20_Loop.
Local Open Scope nat_scope.

(** value handed to a setter: None, a dict object, something of the wrong type *)
Inductive setv := VNone | VLoc (l : loc) | VBad.

Inductive cmd :=
| CEvolve (nrep ngen : Z) (li : bool)          (* prog.evolve(nrep, ngen, lbook, loginit) *)
| CAdvance (ngen : Z)                          (* prog.advance(ngen, lbook) *)
| CReset                                       (* prog.reset() *)
| CInitialize                                  (* prog.initialize() *)
| CIsInit                                      (* prog.is_initialized() *)
| CSetStart (j : nat) (v : setv)               (* prog.start_X = v *)
| CSetWork (j : nat) (v : setv)                (* prog.X = v  (genome .. gmod) *)
| CSetT (z : option Z)                         (* prog.t_cur = z   (None: not an int) *)
| CSetTmax (z : option Z)                      (* prog.t_max = z *)
| CSetOp (k : nat) (p : list action)           (* prog.pselop / mateop / evalop / sselop = a new operator (k = 0..3) *)
| CSetInit (strict : bool) (res : list (option loc))   (* prog.initop = a new initialisation operator *)
| CBook (rep0 : Z) (li lp lm le ls : list action)      (* later calls use a new logbook *)
| CCopy                                        (* prog = copy.copy(prog): same containers, same operators *)
| CDeepCopy.                                   (* prog = copy.deepcopy(prog): ONE memo for all attributes; operators are shared *)

Definition T_ISINIT := 30%Z.
Definition T_MARK := 31%Z.

Record sstate := mkSS { s_st : pstate; s_g : progs; s_strict : bool; s_initres : list (option loc) }.

Definition upd_st (ss : sstate) (st : pstate) : sstate := mkSS st (s_g ss) (s_strict ss) (s_initres ss).
Definition st_with_start (st : pstate) (s : list (option loc)) : pstate :=
  mkSt (p_heap st) (p_stash st) s (p_work st) (p_t st) (p_tmax st) (p_rep st) (p_mcfg st) (p_misc st).
Definition st_with_work (st : pstate) (w : list (option loc)) : pstate :=
  mkSt (p_heap st) (p_stash st) (p_start st) w (p_t st) (p_tmax st) (p_rep st) (p_mcfg st) (p_misc st).
Definition st_with_t (st : pstate) (t : Z) : pstate :=
  mkSt (p_heap st) (p_stash st) (p_start st) (p_work st) t (p_tmax st) (p_rep st) (p_mcfg st) (p_misc st).
Definition st_with_tmax (st : pstate) (tm : Z) : pstate :=
  mkSt (p_heap st) (p_stash st) (p_start st) (p_work st) (p_t st) tm (p_rep st) (p_mcfg st) (p_misc st).
Definition st_with_rep (st : pstate) (r : Z) : pstate :=
  mkSt (p_heap st) (p_stash st) (p_start st) (p_work st) (p_t st) (p_tmax st) r (p_mcfg st) (p_misc st).

Definition set_op (g : progs) (k : nat) (p : list action) : progs :=
  match k with
  | 0 => mkProgs p (g_mate g) (g_eval g) (g_ssel g) (gl_init g) (gl_psel g) (gl_mate g) (gl_eval g) (gl_ssel g)
  | 1 => mkProgs (g_psel g) p (g_eval g) (g_ssel g) (gl_init g) (gl_psel g) (gl_mate g) (gl_eval g) (gl_ssel g)
  | 2 => mkProgs (g_psel g) (g_mate g) p (g_ssel g) (gl_init g) (gl_psel g) (gl_mate g) (gl_eval g) (gl_ssel g)
  | _ => mkProgs (g_psel g) (g_mate g) (g_eval g) p (gl_init g) (gl_psel g) (gl_mate g) (gl_eval g) (gl_ssel g)
  end.
Definition set_logs (g : progs) (li lp lm le ls : list action) : progs :=
  mkProgs (g_psel g) (g_mate g) (g_eval g) (g_ssel g) li lp lm le ls.

(** copy.deepcopy(prog): the attribute dictionary is copied with ONE memo, in attribute order (the five start containers,
    then the five working containers where they exist): a dict or leaf met twice - in two slots, or in a start and a
    working slot - is copied once.  Operators define __deepcopy__ = identity in the harness (they hold the recorder), so
    their private memory is shared and keeps referring to the ORIGINAL's containers. *)
Fixpoint copy_kvs_m (h : heap) (m : list (loc * loc)) (kvs : list (Z * loc)) : option (heap * list (loc * loc) * list (Z * loc)) :=
  match kvs with
  | [] => Some (h, m, [])
  | (k, l) :: t =>
      match memo_get l m with
      | Some l' => match copy_kvs_m h m t with Some (h', m', t') => Some (h', m', (k, l') :: t') | None => None end
      | None =>
          match hget h l with
          | Some (OLeaf xs) =>
              match copy_kvs_m (h ++ [OLeaf xs]) ((l, length h) :: m) t with
              | Some (h', m', t') => Some (h', m', (k, length h) :: t') | None => None end
          | _ => None
          end
      end
  end.
(** Python memoises the dict BEFORE copying its values (y = {}; memo[id(x)] = y; then the items); the dict object itself is
    allocated first in the model as well so that identities are numbered in creation order - irrelevant after
    canonicalisation, but kept faithful: a placeholder is allocated and overwritten *)
Definition deepcopy_m (h : heap) (m : list (loc * loc)) (d : loc) : option (heap * list (loc * loc) * loc) :=
  match memo_get d m with
  | Some d' => Some (h, m, d')
  | None =>
      match hget h d with
      | Some (ODict kvs) =>
          let d' := length h in
          match copy_kvs_m (h ++ [ODict []]) ((d, d') :: m) kvs with
          | Some (h', m', kvs') => Some (hset h' d' (ODict kvs'), m', d')
          | None => None
          end
      | _ => None
      end
  end.
Fixpoint deepcopy_slots (h : heap) (m : list (loc * loc)) (w : list (option loc)) : option (heap * list (loc * loc) * list (option loc)) :=
  match w with
  | [] => Some (h, m, [])
  | None :: t => match deepcopy_slots h m t with Some (h', m', t') => Some (h', m', None :: t') | None => None end
  | Some d :: t =>
      match deepcopy_m h m d with
      | Some (h1, m1, d') => match deepcopy_slots h1 m1 t with Some (h', m', t') => Some (h', m', Some d' :: t') | None => None end
      | None => None
      end
  end.
Definition deepcopy_prog (st : pstate) : pstate * bool :=
  match deepcopy_slots (p_heap st) [] (p_start st) with
  | Some (h1, m1, s') =>
      match deepcopy_slots h1 m1 (p_work st) with
      | Some (h2, _, w') => (mkSt h2 (p_stash st) s' w' (p_t st) (p_tmax st) (p_rep st) (p_mcfg st) (p_misc st), true)
      | None => (st, false)
      end
  | None => (st, false)
  end.

Definition mark (st : pstate) (ok : bool) : event :=
  mkEv T_MARK (if ok then 1 else 0)%Z (p_t st) (p_rep st) [] [] [] [] 0 [] (p_heap st) (p_heap st).

Definition run_cmd (c : cmd) (ss : sstate) : sstate * list event * bool :=
  let st := s_st ss in
  let via (r : pstate * list event * bool) := let '(st', evs, ok) := r in (upd_st ss st', evs, ok) in
  match c with
  | CEvolve nrep ngen li => via (evolve (interp (s_g ss)) (s_strict ss) (s_initres ss) nrep ngen li st)
  | CAdvance ngen => via (advance (interp (s_g ss)) ngen st)
  | CReset => via (reset st)
  | CInitialize => via (initialize (s_strict ss) (s_initres ss) st)
  | CIsInit => (ss, [mkEv T_ISINIT (if is_initialized st then 1 else 0)%Z 0 0 [] [] [] [] 0 [] (p_heap st) (p_heap st)], true)
  | CSetStart j v =>
      match v with
      | VNone => (upd_st ss (st_with_start st (set_nth j None (p_start st))), [], true)
      | VLoc l => (upd_st ss (st_with_start st (set_nth j (Some l) (p_start st))), [], true)
      | VBad => (ss, [], false)
      end
  | CSetWork j v =>
      match v with
      | VLoc l => (upd_st ss (st_with_work st (set_nth j (Some l) (p_work st))), [], true)
      | _ => (ss, [], false)
      end
  | CSetT z => match z with Some t => (upd_st ss (st_with_t st t), [], true) | None => (ss, [], false) end
  | CSetTmax z => match z with Some t => (upd_st ss (st_with_tmax st t), [], true) | None => (ss, [], false) end
  | CSetOp k p => (mkSS st (set_op (s_g ss) k p) (s_strict ss) (s_initres ss), [], true)
  | CSetInit strict res => (mkSS st (s_g ss) strict res, [], true)
  | CBook rep0 li lp lm le ls => (mkSS (st_with_rep st rep0) (set_logs (s_g ss) li lp lm le ls) (s_strict ss) (s_initres ss), [], true)
  | CCopy => (ss, [], true)
  | CDeepCopy => let (st', ok) := deepcopy_prog st in (upd_st ss st', [], ok)
  end.

(** every command is followed by a marker carrying (succeeded?, t_cur, logbook rep); a failed command does not stop the session *)
Fixpoint run_cmds (cs : list cmd) (ss : sstate) : sstate * list event * bool :=
  match cs with
  | [] => (ss, [], true)
  | c :: t =>
      let '(ss1, ev1, ok1) := run_cmd c ss in
      let '(ss2, ev2, ok2) := run_cmds t ss1 in
      (ss2, ev1 ++ mark (s_st ss1) ok1 :: ev2, ok1 && ok2)
  end.

Definition run_session (leaves : list (list Z)) (dicts : list (list (Z * nat))) (start initres : list (option nat))
           (strict : bool) (tmax rep0 : Z) (cs : list cmd) (g : progs) : pstate * list event * bool :=
  let '(ss, evs, ok) := run_cmds cs (mkSS (init_state leaves dicts start tmax rep0) g strict
                                          (map (dict_loc (length leaves)) initres)) in
  (s_st ss, evs, ok).
