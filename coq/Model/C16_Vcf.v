(** C16 — VCF import from the TEXT of the file: a data line (CHROM POS ID REF ALT ... GT calls), the attributes cyvcf2 0.34 derives from
    it (CHROM, POS, start, end, ID) and the record each importer builds from those attributes, written with the kernel expressions that
    harness/translate/c16_kernel.py regenerates from DensePhasedGenotypeMatrix.from_vcf / DenseGenotypeMatrix.from_vcf on every run
    (Gen/C16_Kernel.v: k_vcf_<c>_chrom / _phypos / _name / _allele_lo / _allele_hi / _transpose / _ctor, k_vcf_gm_sum_axis).
    The rest of the import (matrix layout, grouping) is Model/C16_Codec.v : vcf_import.  Definitions only. *)
From Coq Require Import String PrimFloat.
From PV Require Import Lib.Common Lib.FloatK Model.C16_Store Model.C16_Codec Gen.C16_Kernel.
Local Open Scope Z_scope.

(** one data line; [l_id = None] is the missing identifier '.'; REF / ALT are kept as text (ALT possibly a comma-separated list) *)
Record vline := mkL { l_chrom : Z; l_pos : Z; l_id : option str; l_ref : str; l_alt : str; l_gt : list (Z * Z) }.

(** cyvcf2 0.34: [Variant.POS] is a 32-bit field (the coordinate reduced modulo 2^32 into [-2^31, 2^31)), [Variant.start] and
    [Variant.end] are 64-bit: start = coordinate - 1 (0-based), end = start + len(REF) (no INFO/END in the files considered).
    Both importers now take the position from [variant.start + 1] (the generated k_vcf_<c>_phypos says so); [a_POS] stays an input of
    the selectors, so an importer that went back to [variant.POS] would be described with the wrap again *)
Definition wrap32 (z : Z) : Z := (z + 2147483648) mod 4294967296 - 2147483648.
Definition a_POS (l : vline) : Z := wrap32 (l_pos l).
Definition a_start (l : vline) : Z := l_pos l - 1.
Definition a_end (l : vline) : Z := l_pos l - 1 + Z.of_nat (length (l_ref l)).

(** the record an importer accumulates for one line: which attribute each field is read from is the generated kernel *)
Definition rec_of_line (phased : bool) (l : vline) : vrec :=
  if phased
  then mkV (k_vcf_pgm_chrom (l_chrom l) (a_POS l) (a_start l) (a_end l)) (k_vcf_pgm_phypos (l_chrom l) (a_POS l) (a_start l) (a_end l))
           (Some (k_vcf_pgm_name (l_id l))) (l_gt l)
  else mkV (k_vcf_gm_chrom (l_chrom l) (a_POS l) (a_start l) (a_end l)) (k_vcf_gm_phypos (l_chrom l) (a_POS l) (a_start l) (a_end l))
           (Some (k_vcf_gm_name (l_id l))) (l_gt l).

Definition vcf_text_import (phased : bool) (n : nat) (lines : list vline) (auto_group : bool) : vcf_out :=
  vcf_import phased n (map (rec_of_line phased) lines) auto_group.

(** the FORMER importers (before the repair of C16-vcf-pos-int32-wrap): vrnt_phypos.append(variant.POS), the 32-bit attribute.
    Written by hand, kept only as the regression witness of Proofs/C16_Vcf.v : old_vcf_text_pos_refuted *)
Definition old_rec_of_line (l : vline) : vrec :=
  mkV (l_chrom l) (a_POS l) (Some (match l_id l with Some s => s | None => none_str end)) (l_gt l).
Definition old_vcf_text_import (phased : bool) (n : nat) (lines : list vline) (auto_group : bool) : vcf_out :=
  vcf_import phased n (map old_rec_of_line lines) auto_group.

(** the array plumbing [vcf_import] stands for: allele columns 0 and 1 of [variant.genotypes], axes (variant, taxon, allele) turned into
    (allele, taxon, variant), the unphased importer sums over axis 0, every constructor field is filled from the local of its name *)
Definition ctor_ok (t : list (String.string * String.string)) (fields : list String.string) : bool :=
  forallb (fun kv => String.eqb (fst kv) (snd kv)) t && list_eqb String.eqb (map fst t) fields.
Definition layout_ok (phased : bool) : bool :=
  if phased
  then Nat.eqb k_vcf_pgm_allele_lo 0 && Nat.eqb k_vcf_pgm_allele_hi 2 && list_eqb Nat.eqb k_vcf_pgm_transpose [2; 1; 0]%nat
       && ctor_ok k_vcf_pgm_ctor ["mat"; "taxa"; "vrnt_chrgrp"; "vrnt_name"; "vrnt_phypos"]%string
  else Nat.eqb k_vcf_gm_allele_lo 0 && Nat.eqb k_vcf_gm_allele_hi 2 && list_eqb Nat.eqb k_vcf_gm_transpose [2; 1; 0]%nat
       && Nat.eqb k_vcf_gm_sum_axis 0
       && ctor_ok k_vcf_gm_ctor ["mat"; "ploidy"; "taxa"; "vrnt_chrgrp"; "vrnt_name"; "vrnt_phypos"]%string.

(** correspondence: the observed object against the import of the file text ([hap_none]: vrnt_hapref / vrnt_hapalt are left unset) *)
Definition agree_vcf_text (phased : bool) (samples : list str) (lines : list vline) (auto_group : bool)
           (mat : list (list (list Z))) (taxa : list str) (chr pos : list Z) (names : list str)
           (meta : option (list Z * list Z * list Z * list Z)) (ploidy : Z) (hap_none : bool) : bool :=
  layout_ok phased && hap_none
  && agree_vcf phased samples (map (rec_of_line phased) lines) auto_group mat taxa chr pos names meta ploidy.
