(** C06 — the climbers' loop assembled from the pieces regenerated from the source (Gen/C06_Kernel.v): loop-head
    initialisation [kinit], the if/elif statement of the inner loop [kstep], the break test [kstop], the update of the
    global best [kcommit] and the element exchange [kswap].  The machine keeps the state the way the SOURCE does
    (stored best_score / best_cv), so "a branch forgets to refresh best_score" is a different machine.
    Proofs/C06_Kernel.v shows that the machines of both climbers refine Model.C06_Opt.climb.  Definitions only. *)
From PV Require Import Lib.Common Model.C06_Opt Gen.C06_Kernel.
Local Open Scope Z_scope.

Section Machine.
  Variable ev : list Z -> evalT.
  Variable kinit : gst -> hcst.
  Variable kstep : nat -> nat -> list Z -> list Z -> list Z -> hcst -> hcst.
  Variable kstop : hcst -> bool.
  Variable kcommit : hcst -> gst -> gst.
  Variable kswap : list Z -> list Z -> nat -> nat -> list Z * list Z.

  (** one proposal: exchange, evaluate gbest_soln, run the if/elif statement (the exchange back restores s, w) *)
  Definition kprop (s w : list Z) (b : hcst) (ij : nat * nat) : hcst :=
    let r := ev (fst (kswap s w (fst ij) (snd ij))) in kstep (fst ij) (snd ij) (e_obj r) (e_ineq r) (e_eq r) b.
  Definition kscan (s w : list Z) (g : gst) : hcst := fold_left (kprop s w) (pairs s w) (kinit g).
  Fixpoint kclimb (fuel : nat) (s w : list Z) (g : gst) : option (list Z * list Z * gst) :=
    match fuel with
    | O => None
    | S f =>
        let b := kscan s w g in
        if kstop b then Some (s, w, g)
        else match h_i b, h_j b with
             | Some i, Some j => let sw := kswap s w i j in kclimb f (fst sw) (snd sw) (kcommit b g)
             | _, _ => None        (* unreachable: the stop test is exactly "one of them is None" *)
             end
    end.
End Machine.

(** the two climbers of the source *)
Definition sd_machine (ev : list Z -> evalT) (fuel : nat) (cand start : list Z) :=
  kclimb ev k_sd_init k_sd_step k_sd_stop k_sd_commit k_sd_swap fuel start (k_sd_wrkss cand start) (k_sd_g0 (ev start)).
Definition ssd_machine (ev : list Z -> evalT) (fuel : nat) (cand start : list Z) :=
  kclimb ev k_ssd_init k_ssd_step k_ssd_stop k_ssd_commit k_ssd_swap fuel start (k_ssd_wrkss cand start) (k_ssd_g0 (ev start)).

(** the start of the sorting optimiser / sorting climber as the source computes it: rank the candidates by the key
    expression, take the slice [lo, hi) of the ranking *)
Definition kslice {A} (lo hi : Z) (l : list A) : list A := firstn (Z.to_nat hi - Z.to_nat lo) (skipn (Z.to_nat lo) l).
Definition ksort_select (key : Z -> Z -> Z) (lo hi : Z -> Z) (ev : list Z -> evalT) (wt : Z) (cand : list Z) (k : nat) : list Z :=
  kslice (lo (Z.of_nat k)) (hi (Z.of_nat k)) (map snd (isort (map (fun e => (key (single_key ev e) wt, e)) cand))).

(** expected provenance of the Solution constructor's keywords (Gen: k_soln_fields) *)
From Coq Require Import String.
Definition soln_copy_fields : list string :=
  ["ndecn"; "decn_space"; "decn_space_lower"; "decn_space_upper"; "nobj"; "obj_wt"; "nineqcv"; "ineqcv_wt"; "neqcv"; "eqcv_wt"]%string.
Definition soln_all_fields : list string := (soln_copy_fields ++ ["nsoln"; "soln_decn"; "soln_obj"; "soln_ineqcv"; "soln_eqcv"])%list%string.
Definition exact_classes : list string :=
  ["SortingSubsetOptimizationAlgorithm"; "SteepestDescentSubsetHillClimber"; "SortingSteepestDescentSubsetHillClimber"]%string.
Definition ga_classes : list string :=
  ["SubsetGeneticAlgorithm"; "RealGeneticAlgorithm"; "IntegerGeneticAlgorithm"; "BinaryGeneticAlgorithm"; "NSGA2SubsetGeneticAlgorithm";
   "NSGA2RealGeneticAlgorithm"; "NSGA2IntegerGeneticAlgorithm"; "NSGA2BinaryGeneticAlgorithm"; "NSGA3SubsetGeneticAlgorithm";
   "NSGA2SteepestDescentSubsetGeneticAlgorithm"; "NSGA2StochasticDescentSubsetGeneticAlgorithm"; "NSGA2MutatorASubsetGeneticAlgorithm";
   "NSGA2MutatorBSubsetGeneticAlgorithm"]%string.
Definition mems (x : string) (l : list string) : bool := existsb (String.eqb x) l.
Definition soln_expected (cls kw : string) : string :=
  if mems kw soln_copy_fields then ("prob." ++ kw)%string
  else if mems cls ga_classes then
    (if String.eqb kw "nsoln" then "1|len(res.X)" else if String.eqb kw "soln_decn" then "res.X" else if String.eqb kw "soln_obj" then "res.F"
     else if String.eqb kw "soln_ineqcv" then "res.G" else if String.eqb kw "soln_eqcv" then "res.H" else "?")%string
  else if String.eqb kw "nsoln" then "1"%string
  else if String.eqb cls "SortingSubsetOptimizationAlgorithm" then
    (if String.eqb kw "soln_decn" then "prob.decn_space[gbest_ix]" else if String.eqb kw "soln_obj" then "prob.evalfn(gbest_soln)#0"
     else if String.eqb kw "soln_ineqcv" then "prob.evalfn(gbest_soln)#1" else if String.eqb kw "soln_eqcv" then "prob.evalfn(gbest_soln)#2" else "?")%string
  else (* the climbers report the loop's global best *)
    (if String.eqb kw "soln_decn" then "gbest_soln" else if String.eqb kw "soln_obj" then "gbest_obj"
     else if String.eqb kw "soln_ineqcv" then "gbest_ineqcv" else if String.eqb kw "soln_eqcv" then "gbest_eqcv" else "?")%string.
Definition soln_row_ok (row : string * string * string) : bool :=
  let '(cls, kw, v) := row in mems cls (exact_classes ++ ga_classes) && mems kw soln_all_fields && String.eqb v (soln_expected cls kw).
Definition soln_table_complete (tab : list (string * string * string)) : bool :=
  forallb (fun cls => forallb (fun kw => Nat.eqb 1 (List.length (filter (fun r => String.eqb (fst (fst r)) cls && String.eqb (snd (fst r)) kw) tab)))
                              soln_all_fields) (exact_classes ++ ga_classes).

(** where the random draws of pymoo_addon come from (Gen: k_draw_sites, k_draw_fallbacks): every draw site - a method of a generator, or a
    helper / sibling method that is handed one - names the generator the operator was handed ([random_state]); every function that draws fixes
    that generator before its first draw, falling back to the process-wide stream only when none was handed; the functions the model
    follows draw exactly as often per visit as the correspondence expects (request log of the scripted generator) *)
Definition draw_row_ok (r : string * string * string) : bool := String.eqb (snd r) "random_state".
Definition draw_fallback_ok (r : string * string * string) : bool :=
  String.eqb (snd r) "global_prng" && mems (snd (fst r)) ["parameter"; "kwargs.get"]%string.
Definition draw_has_fallback (fb : list (string * string * string)) (r : string * string * string) : bool :=
  Nat.eqb 1 (List.length (filter (fun f => String.eqb (fst (fst f)) (fst (fst r))) fb)).
Definition draw_count (tab : list (string * string * string)) (fn meth : string) : nat :=
  List.length (filter (fun r => String.eqb (fst (fst r)) fn && String.eqb (snd (fst r)) meth) tab).
Definition draw_sites_of (tab : list (string * string * string)) (fn : string) : list string :=
  map (fun r => snd (fst r)) (filter (fun r => String.eqb (fst (fst r)) fn) tab).
Definition draw_modelled_expected : list (string * list string) :=
  [("tiled_choice", ["choice"; "choice"]); ("SubsetRandomSampling._do", ["choice"]); ("ReducedExchangeCrossover._do", ["randint"; "choice"]);
   ("ReducedExchangeMutation._do", ["random"; "choice"]); ("MutatorA.hillclimb", ["tiled_choice"; "tiled_choice"; "choice"]);
   ("MutatorB.hillclimb", ["tiled_choice"; "tiled_choice"; "choice"])]%string.
Definition draw_modelled_ok (tab : list (string * string * string)) : bool :=
  forallb (fun e => list_eqb String.eqb (draw_sites_of tab (fst e)) (snd e)) draw_modelled_expected.
