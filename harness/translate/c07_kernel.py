"""C07 kernel translator (protocol: tools/PHASE2_BRIEF.md section B; exemplar: c09_kernel.py).

Regenerates `coq/Gen/C07_Kernel.v` from the current source on every run: one Gallina `Definition` per *kernel expression*
of the selection configurations, the protocols' select() and setters, the cross-map index generators and the sorting
optimiser, i.e. the expressions on which the C07 theorems turn:

  error_value_python / error_value_numpy (the checks the setters are made of)
    k_check_is_gt_raises / k_check_is_gteq_raises        v <= value  /  v < value
    k_check_all_gt_raises / k_check_all_gteq_raises      numpy.any(v <= vmin)  /  numpy.any(v < vmin)       (per element)
    k_check_len_eq_raises                                len(v) != vlen
  SelectionProtocol / cfg.SelectionConfiguration setters (prefix k_proto_ / k_cfg_)
    k_*_ncross_ok, k_*_nparent_ok                         check_is_gt(value, name, 0)
    k_*_nmating_scalar_ok, k_*_nprogeny_scalar_ok         the checks inside `if isinstance(value, Integral)`
    k_*_nmating_array_ok,  k_*_nprogeny_array_ok          check_ndarray_len_eq(value, name, self.ncross), check_ndarray_all_gt(value, name, 0)
  IntegerSelectionConfiguration.sample_xconfig
    k_int_nsample        self.ncross * self.nparent
    k_int_ptr            (start + noption * numpy.arange(nsample)) // nsample          (one element; arange bound as j)
    k_int_shape          out.reshape(self.ncross, self.nparent)                         (argument order)
    k_int_axis           axis_shuffle(out, 0, rng = self.rng)
  IntegerMateSelectionConfiguration.sample_xconfig
    k_imate_ptr          (start + noption * numpy.arange(self.ncross)) // self.ncross
    k_imate_lookup       self.xconfig_xmap[out, :]                                      (rows, not columns)
  Subset / Binary / SubsetMate SelectionConfiguration.sample_xconfig (prefix k_subset_ / k_binary_ / k_mate_)
    k_*_size             size = (self.ncross, self.nparent)  /  (self.ncross,)
    k_*_replace          replace = False
    k_*_axis             axis_shuffle(out, 0, ...)                                       (not for the mate configuration)
    k_mate_lookup        self.xconfig_xmap[out, :]
  RealSelectionConfiguration.sample_xconfig
    k_real_args          stochastic_universal_sampling(numpy.arange(len(decn)), decn, ...)   (labels first, weights second)
    k_real_size, k_real_axis
  BinaryMate / RealMate SelectionConfiguration.sample_xconfig (prefix k_bmate_ / k_rmate_): size, replace / args, lookup as above
  <Enc>SelectionProtocol.select for Enc in Subset, Real, Integer, Binary, SubsetMate, IntegerMate, BinaryMate, RealMate (prefix k_sel_<enc>_)
    k_sel_*_is_so / _is_mo     self.nobj == 1  /  self.nobj > 1
    k_sel_*_score              self.ndset_wt * self.ndset_trans(mosoln.soln_obj, **self.ndset_trans_kwargs)   (one front point)
    k_sel_*_pick               score.argmax()
    k_sel_*_so_row / _mo_row   sosoln.soln_decn[0]  /  mosoln.soln_decn[ix]
    k_sel_*_so_args / _mo_args (ncross, nparent, nmating, nprogeny) handed to the configuration (which attribute goes where)
  core/util/array.py
    k_triudix_st / k_triuix_st     st = l[-1]+1 if len(l) else 0   /   st = l[-1] if len(l) else 0
    k_triudix_leaf / k_triuix_leaf len(l) == k-1
    k_tri*_lo / k_tri*_hi          range(st, n)      (both loops of each generator)
    k_xmapix                       triudix(ntaxa, nparent) if unique_parents else triuix(ntaxa, nparent)
  SortingSubsetOptimizationAlgorithm.minimize
    k_sort_lo / k_sort_hi          gbest_ix = ix[0:ndecn, 0]
  UsefulnessCriterionIntegerSelection.problem
    k_uc_int_lower / k_uc_int_upper   decn_space_lower = numpy.repeat(0, len(xmap)) / decn_space_upper = numpy.repeat(<number>, len(xmap))
                                      (the repeated number; the per-cross nmating array may enter through its sum only)

  OptimalHaploidValue{Subset,Integer,Binary,Real}Selection.problem / UsefulnessCriterion{...}Selection.problem
  (prefix k_<fam>_<enc>_, fam in ohv, uc; enc in mate (subset), imate, bmate, rmate) - the decision space over the cross map
    k_<fam>_calc_xmap                 <ProblemMixin>._calc_xmap: triudix if unique_parents else triuix
    k_*_xmap                          xmap = <Problem>._calc_xmap(pgmat.ntaxa, self.nparent, self.unique_parents)   (the three arguments)
    k_*_space_n                       decn_space = numpy.arange(len(xmap))                       (subset encoding; len(xmap) bound as nxmap)
    k_*_lower_v / _lower_n            decn_space_lower = numpy.repeat(<value>, <count>)
    k_*_upper_v / _upper_n            decn_space_upper = numpy.repeat(<value>, <count>)          (sums of per-cross arrays bound as one number)
    k_*_ndecn                         ndecn = self.ncross / len(xmap)
    pinned: decn_space = numpy.stack([lower, upper]) for the vector encodings; the problem is built with these three objects and over
    the same map (OHV: from_pgmat_gpmod(nparent = self.nparent, unique_parents = self.unique_parents, pgmat = pgmat) recomputes
    cls._calc_xmap(pgmat.ntaxa, nparent, unique_parents) and stores it as decn_space_xmap; UC: from_pgmat_gpmod_xmap(xmap = xmap)
    stores the map handed in)

Besides the expressions, the translator pins the *glue* around them: the statement sequence of every sample_xconfig (so that
e.g. an outcross_shuffle moved under a condition is refused), the keyword arguments of the sampling calls, the class of the
configuration a protocol builds, `options = numpy.repeat(numpy.arange(len(decn)), decn)`, `start = self.rng.choice(noption)`,
both bounds of the UC integer decision space repeated len(xmap) times and stacked, ndecn = len(xmap).
`Model/C07_KernelProg.v` assembles the configurations from these definitions, `Proofs/C07_Kernel.v` proves the assembled
programs equal to the hand model, `Props/C07.v` states the property theorems about the assembled programs.
Fail closed: every selector demands exactly one match, every name must be bound by the environment given here, anything
else raises `pyexpr.Untranslatable`.
"""
import ast, os, hashlib
from translate import pyexpr as P
from translate.kernelkit import bind

CFGDIR = "pybrops/breed/prot/sel/cfg/"
SELDIR = "pybrops/breed/prot/sel/"
ARRAY = "pybrops/core/util/array.py"
ERRPY = "pybrops/core/error/error_value_python.py"
ERRNP = "pybrops/core/error/error_value_numpy.py"
SORTING = "pybrops/opt/algo/SortingSubsetOptimizationAlgorithm.py"
UCSEL = "pybrops/breed/prot/sel/UsefulnessCriterionSelection.py"
OHVSEL = "pybrops/breed/prot/sel/OptimalHaploidValueSelection.py"
OHVPROB = "pybrops/breed/prot/sel/prob/OptimalHaploidValueSelectionProblem.py"
UCPROB = "pybrops/breed/prot/sel/prob/UsefulnessCriterionSelectionProblem.py"


def _src(e):
    return ast.unparse(e)


def _need(cond, msg):
    if not cond:
        raise P.Untranslatable(msg)


def _the(nodes, what):
    _need(len(nodes) == 1, "expected exactly one %s, found %d" % (what, len(nodes)))
    return nodes[0]


def _body(fn):
    """statements of fn without the docstring"""
    b = list(fn.body)
    if b and isinstance(b[0], ast.Expr) and isinstance(b[0].value, ast.Constant) and isinstance(b[0].value.value, str):
        b = b[1:]
    return b


def _match_body(fn, spec, where):
    """the statements of fn must be exactly `spec` (in order).  An entry `=target` matches an assignment to that target and
    captures its value; `!func` matches an expression statement calling func and captures the call; any other entry is the
    exact source text of the statement.  -> {entry: captured node}"""
    body = _body(fn)
    got = [_src(s) for s in body]
    _need(len(body) == len(spec), "%s: expected %d statements %r, found %d: %r" % (where, len(spec), spec, len(body), got))
    cap = {}
    for s, want in zip(body, spec):
        if want.startswith("="):
            _need(isinstance(s, ast.Assign) and len(s.targets) == 1 and _src(s.targets[0]) == want[1:],
                  "%s: expected an assignment to %s, found `%s`" % (where, want[1:], _src(s)))
            cap.setdefault(want, []).append(s.value)
        elif want.startswith("!"):
            _need(isinstance(s, ast.Expr) and isinstance(s.value, ast.Call) and _src(s.value.func) == want[1:],
                  "%s: expected a call of %s, found `%s`" % (where, want[1:], _src(s)))
            cap.setdefault(want, []).append(s.value)
        else:
            _need(_src(s) == want, "%s: expected `%s`, found `%s`" % (where, want, _src(s)))
    return cap


def _kw(call, where, names, npos):
    """keyword arguments of a call as a dict; exactly the names given, exactly npos positional arguments"""
    _need(len(call.args) == npos, "%s: expected %d positional argument(s) in `%s`" % (where, npos, _src(call)))
    _need(all(k.arg is not None for k in call.keywords), "%s: ** argument in `%s`" % (where, _src(call)))
    d = {k.arg: k.value for k in call.keywords}
    _need(sorted(d) == sorted(names) and len(d) == len(call.keywords),
          "%s: expected keyword arguments %r in `%s`" % (where, sorted(names), _src(call)))
    return d


def _find_setter(repo, rel, cls, name):
    tree = P.parse_file(repo, rel)
    c = _the([n for n in tree.body if isinstance(n, ast.ClassDef) and n.name == cls], "class %s in %s" % (cls, rel))
    fs = [n for n in c.body if isinstance(n, ast.FunctionDef) and n.name == name
          and any(_src(d) == name + ".setter" for d in n.decorator_list)]
    return _the(fs, "setter %s.%s" % (cls, name))


# names of checks that constrain only the type / dimension of the value (the model's parameter types carry them)
TYPE_CHECKS = {"check_is_Integral": 2, "check_is_ndarray": 2, "check_ndarray_dtype_is_integer": 2}
SCALAR_CHECKS = {"check_is_gt": "k_check_is_gt_raises", "check_is_gteq": "k_check_is_gteq_raises"}
ELEM_CHECKS = {"check_ndarray_all_gt": "k_check_all_gt_raises", "check_ndarray_all_gteq": "k_check_all_gteq_raises"}


def _check_calls(stmts, where):
    """the `check_*(value, "name", ...)` statements among stmts (every expression statement must be one)"""
    out = []
    for s in stmts:
        if isinstance(s, ast.Expr):
            c = s.value
            _need(isinstance(c, ast.Call) and isinstance(c.func, ast.Name) and c.func.id.startswith("check_") and not c.keywords
                  and len(c.args) >= 2 and _src(c.args[0]) == "value", "%s: unexpected statement `%s`" % (where, _src(s)))
            out.append(c)
    return out


def _scalar_term(calls, name, where):
    zc = P.Ctx("Z", {"self.ncross": "ncross"})
    parts = []
    for c in calls:
        f = c.func.id
        _need(isinstance(c.args[1], ast.Constant) and c.args[1].value == name, "%s: `%s` names another variable" % (where, _src(c)))
        if f in TYPE_CHECKS:
            _need(len(c.args) == TYPE_CHECKS[f], "%s: `%s`" % (where, _src(c)))
        elif f in SCALAR_CHECKS:
            _need(len(c.args) == 3, "%s: `%s`" % (where, _src(c)))
            parts.append("(negb (%s value %s))" % (SCALAR_CHECKS[f], P.to_coq(c.args[2], zc)))
        else:
            raise P.Untranslatable("%s: check `%s` is not in the translator's table" % (where, _src(c)))
    _need(parts, "%s: no value check on the scalar path" % where)
    out = "true"
    for p in reversed(parts):
        out = "(andb %s %s)" % (p, out)
    return out


def _array_term(calls, name, where):
    zc = P.Ctx("Z", {"self.ncross": "ncross"})
    parts = []
    seen_ndim = False
    for c in calls:
        f = c.func.id
        _need(isinstance(c.args[1], ast.Constant) and c.args[1].value == name, "%s: `%s` names another variable" % (where, _src(c)))
        if f in TYPE_CHECKS:
            _need(len(c.args) == TYPE_CHECKS[f], "%s: `%s`" % (where, _src(c)))
        elif f == "check_ndarray_ndim":
            _need(len(c.args) == 3 and isinstance(c.args[2], ast.Constant) and c.args[2].value == 1, "%s: `%s` (the model's arrays are 1-d)" % (where, _src(c)))
            seen_ndim = True
        elif f == "check_ndarray_len_eq":
            _need(len(c.args) == 3, "%s: `%s`" % (where, _src(c)))
            parts.append("(negb (k_check_len_eq_raises (Z.of_nat (length value)) %s))" % P.to_coq(c.args[2], zc))
        elif f in ELEM_CHECKS:
            _need(len(c.args) == 3, "%s: `%s`" % (where, _src(c)))
            parts.append("(forallb (fun v => negb (%s v %s)) value)" % (ELEM_CHECKS[f], P.to_coq(c.args[2], zc)))
        else:
            raise P.Untranslatable("%s: check `%s` is not in the translator's table" % (where, _src(c)))
    _need(seen_ndim, "%s: no check_ndarray_ndim(value, name, 1)" % where)
    _need(len(parts) >= 1, "%s: no value check on the array path" % where)
    out = "true"
    for p in reversed(parts):
        out = "(andb %s %s)" % (p, out)
    return out


def _tuple_term(elts, ctx):
    ts = [P.to_coq(e, ctx) for e in elts]
    return ts[0] if len(ts) == 1 else "(" + ", ".join(ts) + ")"


def _lookup_term(e, where):
    """self.xconfig_xmap[out, :] -> take_rows xmap out ; self.xconfig_xmap[:, out] -> take_cols xmap out"""
    _need(isinstance(e, ast.Subscript) and _src(e.value) == "self.xconfig_xmap" and isinstance(e.slice, ast.Tuple) and len(e.slice.elts) == 2,
          "%s: the cross map lookup is not self.xconfig_xmap[a, b]: %s" % (where, _src(e)))
    a, b = e.slice.elts
    full = lambda s: isinstance(s, ast.Slice) and s.lower is None and s.upper is None and s.step is None
    if _src(a) == "out" and full(b):
        return "(take_rows xmap out)"
    if full(a) and _src(b) == "out":
        return "(take_cols xmap out)"
    raise P.Untranslatable("%s: the cross map lookup is neither [out, :] nor [:, out]: %s" % (where, _src(e)))


TAIL = ["!outcross_shuffle", "!axis_shuffle", "self.xconfig = out", "if return_xconfig:\n    return out"]
MATE_TAIL = ["!self.rng.shuffle", "=out", "self.xconfig = out", "if return_xconfig:\n    return out"]
OPTIONS = "numpy.repeat(numpy.arange(len(self.xconfig_decn)), self.xconfig_decn)"


def translate(repo, gen_dir):
    defs = []
    D = lambda *a: defs.append(P.definition(*a))
    Zc = lambda env: P.Ctx("Z", env)
    Qc = lambda env: P.Ctx("Q", env)
    shape_env = {"self.ncross": "ncross", "self.nparent": "nparent"}
    ZZ = [("ncross", "Z"), ("nparent", "Z")]

    # ================================================================== the checks the setters are made of
    for name, rel, var, bound in (("check_is_gt", ERRPY, "v", "value"), ("check_is_gteq", ERRPY, "v", "value")):
        fn = P.find_function(repo, rel, name)
        e = _the(P.if_tests(fn), "`if` in " + name)
        _need(len(_body(fn)) == 1 and isinstance(_body(fn)[0].body[0], ast.Raise), name + ": not `if <test>: raise`")
        D("k_%s_raises" % name, [("v", "Z"), ("value", "Z")], "bool", P.to_coq(e, Zc({"v": "v", "value": "value"}), "bool"),
          "%s: if %s: raise ValueError" % (name, _src(e)))
    for name, short in (("check_ndarray_all_gt", "all_gt"), ("check_ndarray_all_gteq", "all_gteq")):
        fn = P.find_function(repo, ERRNP, name)
        e = _the(P.if_tests(fn), "`if` in " + name)
        _need(len(_body(fn)) == 1 and isinstance(_body(fn)[0].body[0], ast.Raise), name + ": not `if <test>: raise`")
        _need(isinstance(e, ast.Call) and _src(e.func) == "numpy.any" and len(e.args) == 1 and not e.keywords, name + ": the test is not numpy.any(<comparison>)")
        D("k_check_%s_raises" % short, [("v", "Z"), ("vmin", "Z")], "bool", P.to_coq(e.args[0], Zc({"v": "v", "vmin": "vmin"}), "bool"),
          "%s: if %s: raise ValueError   (per element)" % (name, _src(e)))
    fn = P.find_function(repo, ERRNP, "check_ndarray_len_eq")
    e = _the(P.if_tests(fn), "`if` in check_ndarray_len_eq")
    _need(len(_body(fn)) == 1 and isinstance(_body(fn)[0].body[0], ast.Raise), "check_ndarray_len_eq: not `if <test>: raise`")
    D("k_check_len_eq_raises", [("len_v", "Z"), ("vlen", "Z")], "bool", P.to_coq(bind(e, {"len(v)": "len_v"}), Zc({"len_v": "len_v", "vlen": "vlen"}), "bool"),
      "check_ndarray_len_eq: if %s: raise ValueError" % _src(e))

    # ================================================================== setters of the protocol and of the configuration
    for tag, rel, cls in (("proto", SELDIR + "SelectionProtocol.py", "SelectionProtocol"),
                          ("cfg", CFGDIR + "SelectionConfiguration.py", "SelectionConfiguration")):
        for name in ("ncross", "nparent"):
            fn = _find_setter(repo, rel, cls, name)
            where = "%s.%s setter" % (cls, name)
            b = _body(fn)
            _need(_src(b[-1]) == "self._%s = value" % name and all(isinstance(s, ast.Expr) for s in b[:-1]), where + ": not a list of checks followed by the store")
            calls = _check_calls(b[:-1], where)
            D("k_%s_%s_ok" % (tag, name), [("value", "Z")], "bool", _scalar_term(calls, name, where), "%s: %s" % (where, "; ".join(_src(c) for c in calls)))
        for name in ("nmating", "nprogeny"):
            fn = _find_setter(repo, rel, cls, name)
            where = "%s.%s setter" % (cls, name)
            b = _body(fn)
            _need(isinstance(b[0], ast.If) and _src(b[0].test) == "isinstance(value, Integral)", where + ": does not start with `if isinstance(value, Integral)`")
            sc = b[0].body
            _need(_src(sc[-1]) == "value = numpy.repeat(value, self.ncross)" and all(isinstance(s, ast.Expr) for s in sc[:-1]),
                  where + ": the scalar path is not checks followed by `value = numpy.repeat(value, self.ncross)`")
            # the other branches may only pass an ndarray through or raise a TypeError
            oe = b[0].orelse
            if oe:
                _need(len(oe) == 1 and isinstance(oe[0], ast.If) and _src(oe[0].test) == "isinstance(value, numpy.ndarray)"
                      and [_src(x) for x in oe[0].body] == ["pass"] and len(oe[0].orelse) == 1 and isinstance(oe[0].orelse[0], ast.Raise),
                      where + ": unexpected branch after the scalar path")
            _need(_src(b[-1]) == "self._%s = value" % name and all(isinstance(s, ast.Expr) for s in b[1:-1]), where + ": not checks followed by the store")
            scal, arr = _check_calls(sc[:-1], where), _check_calls(b[1:-1], where)
            D("k_%s_%s_scalar_ok" % (tag, name), [("value", "Z")], "bool", _scalar_term(scal, name, where),
              "%s, Integral: %s" % (where, "; ".join(_src(c) for c in scal)))
            D("k_%s_%s_array_ok" % (tag, name), [("ncross", "Z"), ("value", "list Z")], "bool", _array_term(arr, name, where),
              "%s, array (also the broadcast scalar): %s" % (where, "; ".join(_src(c) for c in arr)))

    # ================================================================== IntegerSelectionConfiguration.sample_xconfig
    cls = "IntegerSelectionConfiguration"
    fn = P.find_function(repo, CFGDIR + cls + ".py", cls + ".sample_xconfig")
    cap = _match_body(fn, ["=options", "=noption", "=nsample", "=start", "=out", "!self.rng.shuffle", "=out"] + TAIL, cls)
    _need(_src(cap["=options"][0]) == OPTIONS, cls + ": options is no longer " + OPTIONS)
    _need(_src(cap["=noption"][0]) == "len(options)", cls + ": noption is no longer len(options)")
    _need(_src(cap["=start"][0]) == "self.rng.choice(noption)", cls + ": start is no longer self.rng.choice(noption)")
    _need(_src(cap["!self.rng.shuffle"][0]) == "self.rng.shuffle(out)", cls + ": the shuffle is no longer self.rng.shuffle(out)")
    e = cap["=nsample"][0]
    D("k_int_nsample", ZZ, "Z", P.to_coq(e, Zc(shape_env)), "%s: nsample = %s" % (cls, _src(e)))
    e = cap["=out"][0]
    _need(isinstance(e, ast.Subscript) and _src(e.value) == "options", cls + ": the sample is not options[<index>]")
    ptr_env = {"start": "start", "noption": "noption", "j": "j", "nsample": "nsample"}
    D("k_int_ptr", [("start", "Z"), ("noption", "Z"), ("j", "Z"), ("nsample", "Z")], "Z",
      P.to_coq(bind(e.slice, {"numpy.arange(nsample)": "j"}), Zc(ptr_env)), "%s: out = %s   (element j of the index)" % (cls, _src(e)))
    e = cap["=out"][1]
    _need(isinstance(e, ast.Call) and _src(e.func) == "out.reshape" and len(e.args) == 2 and not e.keywords, cls + ": not out.reshape(a, b)")
    D("k_int_shape", ZZ, "(Z * Z)", _tuple_term(e.args, Zc(shape_env)), "%s: out = %s" % (cls, _src(e)))

    def tail(cap, cls, tag):
        c = cap["!outcross_shuffle"][0]
        _need(_src(c) == "outcross_shuffle(out, rng=self.rng)", cls + ": the descent is no longer outcross_shuffle(out, rng = self.rng)")
        c = cap["!axis_shuffle"][0]
        kw = _kw(c, cls, ["rng"], 2)
        _need(_src(c.args[0]) == "out" and _src(kw["rng"]) == "self.rng", cls + ": not axis_shuffle(out, <axis>, rng = self.rng)")
        D("k_%s_axis" % tag, [], "Z", P.to_coq(c.args[1], Zc({})), "%s: %s" % (cls, _src(c)))
    tail(cap, cls, "int")

    # ================================================================== IntegerMateSelectionConfiguration.sample_xconfig
    cls = "IntegerMateSelectionConfiguration"
    fn = P.find_function(repo, CFGDIR + cls + ".py", cls + ".sample_xconfig")
    cap = _match_body(fn, ["=options", "=noption", "=start", "=out"] + MATE_TAIL, cls)
    _need(_src(cap["=options"][0]) == OPTIONS, cls + ": options is no longer " + OPTIONS)
    _need(_src(cap["=noption"][0]) == "len(options)", cls + ": noption is no longer len(options)")
    _need(_src(cap["=start"][0]) == "self.rng.choice(noption)", cls + ": start is no longer self.rng.choice(noption)")
    _need(_src(cap["!self.rng.shuffle"][0]) == "self.rng.shuffle(out)", cls + ": the shuffle is no longer self.rng.shuffle(out)")
    e = cap["=out"][0]
    _need(isinstance(e, ast.Subscript) and _src(e.value) == "options", cls + ": the sample is not options[<index>]")
    D("k_imate_ptr", [("start", "Z"), ("noption", "Z"), ("j", "Z"), ("ncross", "Z")], "Z",
      P.to_coq(bind(e.slice, {"numpy.arange(self.ncross)": "j"}), Zc({"start": "start", "noption": "noption", "j": "j", "self.ncross": "ncross"})),
      "%s: out = %s   (element j of the index)" % (cls, _src(e)))
    LK = [("take_rows", "M -> I -> R"), ("take_cols", "M -> I -> R"), ("xmap", "M"), ("out", "I")]
    e = cap["=out"][1]
    D("k_imate_lookup {M I R : Type}", LK, "R", _lookup_term(e, cls), "%s: out = %s" % (cls, _src(e)))

    # ================================================================== Subset / Binary / SubsetMate: tiled_choice
    for tag, cls, first, mate in (("subset", "SubsetSelectionConfiguration", "self.xconfig_decn", False),
                                  ("binary", "BinarySelectionConfiguration", "options", False),
                                  ("mate", "SubsetMateSelectionConfiguration", "self.xconfig_decn", True),
                                  ("bmate", "BinaryMateSelectionConfiguration", "options", True)):
        fn = P.find_function(repo, CFGDIR + cls + ".py", cls + ".sample_xconfig")
        cap = _match_body(fn, (["=options"] if first == "options" else []) + ["=out"] + (MATE_TAIL if mate else TAIL), cls)
        if first == "options":
            _need(_src(cap["=options"][0]) == OPTIONS, cls + ": options is no longer " + OPTIONS)
        c = cap["=out"][0]
        _need(isinstance(c, ast.Call) and _src(c.func) == "tiled_choice", cls + ": the sample is not drawn by tiled_choice")
        kw = _kw(c, cls, ["size", "replace", "rng"], 1)
        _need(_src(c.args[0]) == first and _src(kw["rng"]) == "self.rng", cls + ": not tiled_choice(%s, ..., rng = self.rng)" % first)
        _need(isinstance(kw["size"], ast.Tuple), cls + ": size is not a tuple")
        D("k_%s_size" % tag, [("ncross", "Z")] if mate else ZZ, "Z" if len(kw["size"].elts) == 1 else "(%s)" % " * ".join(["Z"] * len(kw["size"].elts)),
          _tuple_term(kw["size"].elts, Zc(shape_env if not mate else {"self.ncross": "ncross"})), "%s: tiled_choice(..., size = %s, ...)" % (cls, _src(kw["size"])))
        renv = {"noption": "noption", "self.ncross": "ncross", "self.nparent": "nparent"}
        rexp = bind(kw["replace"], {"len(%s)" % first: "noption"}) if ("len(%s)" % first) in _src(kw["replace"]) else kw["replace"]
        D("k_%s_replace" % tag, [("noption", "Z")] + ZZ, "bool", P.to_coq(rexp, Zc(renv), "bool"), "%s: tiled_choice(..., replace = %s, ...)" % (cls, _src(kw["replace"])))
        if mate:
            _need(_src(cap["!self.rng.shuffle"][0]) == "self.rng.shuffle(out)", cls + ": the shuffle is no longer self.rng.shuffle(out)")
            e = cap["=out"][1]
            D("k_%s_lookup {M I R : Type}" % tag, LK, "R", _lookup_term(e, cls), "%s: out = %s" % (cls, _src(e)))
        else:
            tail(cap, cls, tag)

    # ================================================================== RealSelectionConfiguration: stochastic universal sampling
    cls = "RealSelectionConfiguration"
    fn = P.find_function(repo, CFGDIR + cls + ".py", cls + ".sample_xconfig")
    cap = _match_body(fn, ["=out"] + TAIL, cls)
    c = cap["=out"][0]
    _need(isinstance(c, ast.Call) and _src(c.func) == "stochastic_universal_sampling", cls + ": the sample is not drawn by stochastic_universal_sampling")
    kw = _kw(c, cls, ["size", "rng"], 2)
    _need(_src(kw["rng"]) == "self.rng" and isinstance(kw["size"], ast.Tuple), cls + ": not stochastic_universal_sampling(a, p, size = (..), rng = self.rng)")
    aenv = {"numpy.arange(len(self.xconfig_decn))": "labels", "self.xconfig_decn": "weights"}
    for a in c.args:
        _need(_src(a) in aenv, cls + ": argument `%s` of stochastic_universal_sampling is neither the labels nor the weights" % _src(a))
    D("k_real_args {A B : Type}", [("labels", "A"), ("weights", "B")], "(%s * %s)" % tuple("A" if aenv[_src(a)] == "labels" else "B" for a in c.args),
      "(%s, %s)" % tuple(aenv[_src(a)] for a in c.args), "%s: %s(%s, %s, ...)" % (cls, _src(c.func), _src(c.args[0]), _src(c.args[1])))
    D("k_real_size", ZZ, "(%s)" % " * ".join(["Z"] * len(kw["size"].elts)), _tuple_term(kw["size"].elts, Zc(shape_env)), "%s: size = %s" % (cls, _src(kw["size"])))
    tail(cap, cls, "real")
    cls = "RealMateSelectionConfiguration"
    fn = P.find_function(repo, CFGDIR + cls + ".py", cls + ".sample_xconfig")
    cap = _match_body(fn, ["=out"] + MATE_TAIL, cls)
    c = cap["=out"][0]
    _need(isinstance(c, ast.Call) and _src(c.func) == "stochastic_universal_sampling", cls + ": the sample is not drawn by stochastic_universal_sampling")
    kw = _kw(c, cls, ["size", "rng"], 2)
    _need(_src(kw["rng"]) == "self.rng" and isinstance(kw["size"], ast.Tuple) and len(kw["size"].elts) == 1, cls + ": not stochastic_universal_sampling(a, p, size = (n,), rng = self.rng)")
    for a in c.args:
        _need(_src(a) in aenv, cls + ": argument `%s` of stochastic_universal_sampling is neither the labels nor the weights" % _src(a))
    D("k_rmate_args {A B : Type}", [("labels", "A"), ("weights", "B")], "(%s * %s)" % tuple("A" if aenv[_src(a)] == "labels" else "B" for a in c.args),
      "(%s, %s)" % tuple(aenv[_src(a)] for a in c.args), "%s: %s(%s, %s, ...)" % (cls, _src(c.func), _src(c.args[0]), _src(c.args[1])))
    D("k_rmate_size", [("ncross", "Z")], "Z", _tuple_term(kw["size"].elts, Zc({"self.ncross": "ncross"})), "%s: size = %s" % (cls, _src(kw["size"])))
    _need(_src(cap["!self.rng.shuffle"][0]) == "self.rng.shuffle(out)", cls + ": the shuffle is no longer self.rng.shuffle(out)")
    e = cap["=out"][1]
    D("k_rmate_lookup {M I R : Type}", LK, "R", _lookup_term(e, cls), "%s: out = %s" % (cls, _src(e)))

    # ================================================================== <Enc>SelectionProtocol.select
    for enc, tag, has_xmap in (("Subset", "subset", False), ("Real", "real", False), ("Integer", "integer", False), ("Binary", "binary", False),
                               ("SubsetMate", "mate", True), ("IntegerMate", "imate", True), ("BinaryMate", "bmate", True), ("RealMate", "rmate", True)):
        cls = enc + "SelectionProtocol"
        ccls = enc + "SelectionConfiguration"
        fn = P.find_function(repo, SELDIR + cls + ".py", cls + ".select")
        b = _body(fn)
        top = _the([s for s in b if isinstance(s, ast.If)], "`if` at the top level of %s.select" % cls)
        _need(all(isinstance(s, ast.Expr) for s in b if s is not top), cls + ".select: statements besides checks and the objective-count dispatch")
        _need(len(top.orelse) == 1 and isinstance(top.orelse[0], ast.If) and len(top.orelse[0].orelse) == 1 and isinstance(top.orelse[0].orelse[0], ast.Raise),
              cls + ".select: not `if ...: elif ...: else: raise`")
        so, mo = top, top.orelse[0]
        D("k_sel_%s_is_so" % tag, [("nobj", "Z")], "bool", P.to_coq(so.test, Zc({"self.nobj": "nobj"}), "bool"), "%s.select: if %s" % (cls, _src(so.test)))
        D("k_sel_%s_is_mo" % tag, [("nobj", "Z")], "bool", P.to_coq(mo.test, Zc({"self.nobj": "nobj"}), "bool"), "%s.select: elif %s" % (cls, _src(mo.test)))
        misc = lambda v: "if miscout is not None:\n    miscout['%s'] = %s" % (v, v)
        capso = _match_body(ast.Module(body=so.body, type_ignores=[]), ["=sosoln", misc("sosoln"), "=selcfg", "return selcfg"], cls + ".select (one objective)")
        capmo = _match_body(ast.Module(body=mo.body, type_ignores=[]), ["=mosoln", "=score", "=ix", misc("mosoln"), "=selcfg", "return selcfg"], cls + ".select (several objectives)")
        for which, cp, meth in (("sosoln", capso, "self.sosolve"), ("mosoln", capmo, "self.mosolve")):
            c = cp["=" + which][0]
            _need(isinstance(c, ast.Call) and _src(c.func) == meth, "%s.select: %s is not %s(...)" % (cls, which, meth))
        e = capmo["=score"][0]
        tcall = "self.ndset_trans(mosoln.soln_obj, **self.ndset_trans_kwargs)"
        D("k_sel_%s_score" % tag, [("wt", "Q"), ("t", "Q")], "Q", P.to_coq(bind(e, {tcall: "t"}), Qc({"self.ndset_wt": "wt", "t": "t"})),
          "%s.select: score = %s   (one point of the front)" % (cls, _src(e)))
        e = capmo["=ix"][0]
        _need(isinstance(e, ast.Call) and not e.args and not e.keywords and isinstance(e.func, ast.Attribute) and _src(e.func.value) == "score"
              and e.func.attr in ("argmax", "argmin"), "%s.select: ix is not score.argmax() / score.argmin(): %s" % (cls, _src(e)))
        D("k_sel_%s_pick {R : Type}" % tag, [("argmax", "list Q -> R"), ("argmin", "list Q -> R"), ("score", "list Q")], "R",
          "(%s score)" % e.func.attr, "%s.select: ix = %s" % (cls, _src(e)))
        for which, cp, pre in (("sosoln", capso, "so"), ("mosoln", capmo, "mo")):
            c = cp["=selcfg"][0]
            where = "%s.select (%s)" % (cls, which)
            _need(isinstance(c, ast.Call) and _src(c.func) == ccls, "%s: the configuration is not a %s" % (where, ccls))
            kw = _kw(c, where, ["ncross", "nparent", "nmating", "nprogeny", "pgmat", "xconfig_decn", "rng"] + (["xconfig_xmap"] if has_xmap else []), 0)
            _need(_src(kw["pgmat"]) == "pgmat" and _src(kw["rng"]) == "self.rng", where + ": pgmat / rng are not handed on")
            if has_xmap:
                _need(_src(kw["xconfig_xmap"]) == which + ".decn_space_xmap", where + ": the cross map is not the solution's decn_space_xmap")
            d = kw["xconfig_decn"]
            _need(isinstance(d, ast.Subscript) and _src(d.value) == which + ".soln_decn", where + ": the decision is not a row of %s.soln_decn" % which)
            D("k_sel_%s_%s_row" % (tag, pre), [("ix", "Z")] if pre == "mo" else [], "Z", P.to_coq(d.slice, Zc({"ix": "ix"} if pre == "mo" else {})),
              "%s: xconfig_decn = %s" % (where, _src(d)))
            tyenv = {"self.ncross": ("ncross", "nat"), "self.nparent": ("nparent", "nat"), "self.nmating": ("nmating", "list Z"), "self.nprogeny": ("nprogeny", "list Z")}
            vals = []
            for k in ("ncross", "nparent", "nmating", "nprogeny"):
                _need(_src(kw[k]) in tyenv, "%s: %s = %s is not one of the protocol's cross-design attributes" % (where, k, _src(kw[k])))
                vals.append(tyenv[_src(kw[k])])
            D("k_sel_%s_%s_args" % (tag, pre), [("ncross", "nat"), ("nparent", "nat"), ("nmating", "list Z"), ("nprogeny", "list Z")],
              "(%s)" % " * ".join(t for _, t in vals), "(%s)" % ", ".join(n for n, _ in vals),
              "%s: %s(%s)" % (where, ccls, ", ".join("%s = %s" % (k, _src(kw[k])) for k in ("ncross", "nparent", "nmating", "nprogeny"))))

    # ================================================================== cross-map index generators
    for name in ("triudix", "triuix"):
        rec = P.find_function(repo, ARRAY, name + ".recurse")
        outer = P.find_function(repo, ARRAY, name)
        _need([_src(s) for s in _body(outer)[1:]] == ["yield from recurse([], n, k)"], name + ": does not start the recursion with recurse([], n, k)")
        e = P.the_assignment(rec, "st")
        D("k_%s_st" % name, [("l_nonempty", "bool"), ("last", "Z")], "Z",
          P.to_coq(bind(e, {"len(l)": "l_nonempty"}), P.Ctx("Z", {"l[-1]": "last"}, bool_env={"l_nonempty": "l_nonempty"})), "%s.recurse: st = %s" % (name, _src(e)))
        b = _body(rec)
        _need(len(b) == 2 and isinstance(b[1], ast.If) and len(b[1].body) == 1 and len(b[1].orelse) == 1, name + ".recurse: not `st = ...; if leaf: for ... else: for ...`")
        e = b[1].test
        D("k_%s_leaf" % name, [("len_l", "Z"), ("k", "Z")], "bool", P.to_coq(bind(e, {"len(l)": "len_l"}), Zc({"len_l": "len_l", "k": "k"}), "bool"),
          "%s.recurse: if %s   (the last position)" % (name, _src(e)))
        leaf, inner = b[1].body[0], b[1].orelse[0]
        for lp, mid in ((leaf, "yield list(l)"), (inner, "yield from recurse(l, n, k)")):
            _need(isinstance(lp, ast.For) and _src(lp.target) == "i" and [_src(s) for s in lp.body] == ["l.append(i)", mid, "l.pop()"],
                  "%s.recurse: loop body is not l.append(i); %s; l.pop()" % (name, mid))
        _need(_src(leaf.iter) == _src(inner.iter), name + ".recurse: the two loops run over different ranges")
        r = leaf.iter
        _need(isinstance(r, ast.Call) and _src(r.func) == "range" and len(r.args) == 2 and not r.keywords, name + ".recurse: the loops do not run over range(a, b)")
        D("k_%s_lo" % name, [("st", "Z"), ("n", "Z")], "Z", P.to_coq(r.args[0], Zc({"st": "st", "n": "n"})), "%s.recurse: for i in %s   (from)" % (name, _src(r)))
        D("k_%s_hi" % name, [("st", "Z"), ("n", "Z")], "Z", P.to_coq(r.args[1], Zc({"st": "st", "n": "n"})), "%s.recurse: for i in %s   (below)" % (name, _src(r)))
    fn = P.find_function(repo, ARRAY, "xmapix")
    b = _body(fn)
    _need(len(b) == 1 and isinstance(b[0], ast.If) and _src(b[0].test) == "unique_parents" and len(b[0].body) == 1 and len(b[0].orelse) == 1, "xmapix: not `if unique_parents: ... else: ...`")
    br = []
    for s in (b[0].body[0], b[0].orelse[0]):
        _need(isinstance(s, ast.Expr) and isinstance(s.value, ast.YieldFrom) and isinstance(s.value.value, ast.Call), "xmapix: branch is not `yield from f(a, b)`")
        c = s.value.value
        _need(_src(c.func) in ("triudix", "triuix") and len(c.args) == 2 and not c.keywords and all(_src(a) in ("ntaxa", "nparent") for a in c.args), "xmapix: branch `%s`" % _src(c))
        br.append("(%s %s %s)" % (_src(c.func), _src(c.args[0]), _src(c.args[1])))
    D("k_xmapix {R : Type}", [("triudix", "nat -> nat -> R"), ("triuix", "nat -> nat -> R"), ("ntaxa", "nat"), ("nparent", "nat"), ("unique_parents", "bool")], "R",
      "(if unique_parents then %s else %s)" % (br[0], br[1]), "xmapix: %s" % _src(b[0]).replace("\n", " "))

    # ================================================================== the sorting optimiser
    fn = P.find_function(repo, SORTING, "SortingSubsetOptimizationAlgorithm.minimize")
    _need(_src(P.the_assignment(fn, "ix")) == "obj.argsort(0)", "SortingSubsetOptimizationAlgorithm.minimize: ix is no longer obj.argsort(0)")
    _need(_src(P.the_assignment(fn, "ndecn")) == "prob.ndecn", "SortingSubsetOptimizationAlgorithm.minimize: ndecn is no longer prob.ndecn")
    _need(_src(P.the_assignment(fn, "gbest_soln")) == "prob.decn_space[gbest_ix]", "SortingSubsetOptimizationAlgorithm.minimize: gbest_soln is no longer prob.decn_space[gbest_ix]")
    e = P.the_assignment(fn, "gbest_ix")
    _need(isinstance(e, ast.Subscript) and _src(e.value) == "ix" and isinstance(e.slice, ast.Tuple) and len(e.slice.elts) == 2
          and isinstance(e.slice.elts[0], ast.Slice) and e.slice.elts[0].step is None and e.slice.elts[0].lower is not None and e.slice.elts[0].upper is not None
          and _src(e.slice.elts[1]) == "0", "SortingSubsetOptimizationAlgorithm.minimize: gbest_ix is not ix[a:b, 0]")
    sl = e.slice.elts[0]
    D("k_sort_lo", [("ndecn", "Z")], "Z", P.to_coq(sl.lower, Zc({"ndecn": "ndecn"})), "SortingSubsetOptimizationAlgorithm.minimize: gbest_ix = %s   (from)" % _src(e))
    D("k_sort_hi", [("ndecn", "Z")], "Z", P.to_coq(sl.upper, Zc({"ndecn": "ndecn"})), "SortingSubsetOptimizationAlgorithm.minimize: gbest_ix = %s   (below)" % _src(e))

    # ================================================================== UsefulnessCriterionIntegerSelection.problem: decision-space bounds
    cls = "UsefulnessCriterionIntegerSelection"
    fn = P.find_function(repo, UCSEL, cls + ".problem")
    where = cls + ".problem"
    lo, up, st = P.the_assignment(fn, "decn_space_lower"), P.the_assignment(fn, "decn_space_upper"), P.the_assignment(fn, "decn_space")
    _need(_src(st) == "numpy.stack([decn_space_lower, decn_space_upper])", where + ": decn_space is no longer numpy.stack([decn_space_lower, decn_space_upper])")
    for e, what in ((lo, "decn_space_lower"), (up, "decn_space_upper")):
        # ONE number repeated once per candidate cross (an array as first argument would be repeated element by element)
        _need(isinstance(e, ast.Call) and _src(e.func) == "numpy.repeat" and len(e.args) == 2 and not e.keywords and _src(e.args[1]) == "len(xmap)",
              "%s: %s is not numpy.repeat(<number>, len(xmap)): %s" % (where, what, _src(e)))
    D("k_uc_int_lower", [], "Z", P.to_coq(lo.args[0], Zc({})), "%s: decn_space_lower = %s" % (where, _src(lo)))
    tot = [t for t in ("numpy.sum(self.nmating)", "self.nmating.sum()") if t in _src(up.args[0])]
    _need(len(tot) == 1, "%s: the upper bound `%s` does not reduce the per-cross nmating array to one number by its sum" % (where, _src(up.args[0])))
    D("k_uc_int_upper", [("ncross", "Z"), ("nparent", "Z"), ("sum_nmating", "Z")], "Z",
      P.to_coq(bind(up.args[0], {tot[0]: "sum_nmating"}), Zc({"self.ncross": "ncross", "self.nparent": "nparent", "sum_nmating": "sum_nmating"})),
      "%s: decn_space_upper = %s   (the repeated number; sum_nmating = %s)" % (where, _src(up), tot[0]))
    c = P.the_assignment(fn, "prob")
    _need(isinstance(c, ast.Call) and not c.args and all(k.arg is not None for k in c.keywords), where + ": the problem is not built by one call with keyword arguments")
    kw = {k.arg: _src(k.value) for k in c.keywords}
    for k, v in (("ndecn", "len(xmap)"), ("decn_space", "decn_space"), ("decn_space_lower", "decn_space_lower"), ("decn_space_upper", "decn_space_upper"), ("xmap", "xmap")):
        _need(kw.get(k) == v, "%s: the problem is not built with %s = %s" % (where, k, v))

    # ================================================================== the decision space of the protocols over a cross map
    # (OptimalHaploidValue* / UsefulnessCriterion* Selection .problem(), all four encodings): which map is built, how the space is
    # sized from it.  One row of definitions per protocol.
    for fam, rel, probrel, probmix in (("ohv", OHVSEL, OHVPROB, "OptimalHaploidValueSelectionProblemMixin"),
                                       ("uc", UCSEL, UCPROB, "UsefulnessCriterionSelectionProblemMixin")):
        # <ProblemMixin>._calc_xmap: triudix / triuix by unique_parents (the same dispatch as xmapix)
        fn = P.find_function(repo, probrel, probmix + "._calc_xmap")
        b = _body(fn)
        _need(len(b) == 1 and isinstance(b[0], ast.If) and _src(b[0].test) == "unique_parents" and len(b[0].body) == 1 and len(b[0].orelse) == 1,
              probmix + "._calc_xmap: not `if unique_parents: ... else: ...`")
        br = []
        for st_ in (b[0].body[0], b[0].orelse[0]):
            _need(isinstance(st_, ast.Return) and isinstance(st_.value, ast.Call) and _src(st_.value.func) == "numpy.array" and len(st_.value.args) == 1 and not st_.value.keywords
                  and isinstance(st_.value.args[0], ast.Call) and _src(st_.value.args[0].func) == "list" and len(st_.value.args[0].args) == 1
                  and isinstance(st_.value.args[0].args[0], ast.Call), probmix + "._calc_xmap: branch is not `return numpy.array(list(f(a, b)))`")
            c = st_.value.args[0].args[0]
            _need(_src(c.func) in ("triudix", "triuix") and len(c.args) == 2 and not c.keywords and all(_src(a) in ("ntaxa", "nparent") for a in c.args),
                  probmix + "._calc_xmap: branch `%s`" % _src(c))
            br.append("(%s %s %s)" % (_src(c.func), _src(c.args[0]), _src(c.args[1])))
        D("k_%s_calc_xmap {R : Type}" % fam, [("triudix", "nat -> nat -> R"), ("triuix", "nat -> nat -> R"), ("ntaxa", "nat"), ("nparent", "nat"), ("unique_parents", "bool")], "R",
          "(if unique_parents then %s else %s)" % (br[0], br[1]), "%s._calc_xmap: %s" % (probmix, _src(b[0]).replace("\n", " ")))
        for enc, tag in (("Subset", "mate"), ("Integer", "imate"), ("Binary", "bmate"), ("Real", "rmate")):
            cls = {"ohv": "OptimalHaploidValue", "uc": "UsefulnessCriterion"}[fam] + enc + "Selection"
            pcls = {"ohv": "OptimalHaploidValue%sSelectionProblem", "uc": "UsefulnessCriterion%sMateSelectionProblem"}[fam] % enc
            fn = P.find_function(repo, rel, cls + ".problem")
            where = cls + ".problem"
            pre = "k_%s_%s" % (fam, tag)
            # --- the map
            xm = P.the_assignment(fn, "xmap")
            _need(isinstance(xm, ast.Call) and _src(xm.func) == pcls + "._calc_xmap" and len(xm.args) == 3 and not xm.keywords,
                  "%s: xmap is not %s._calc_xmap(a, b, c): %s" % (where, pcls, _src(xm)))
            zenv = {"pgmat.ntaxa": "ntaxa", "self.nparent": "nparent", "self.ncross": "ncross"}
            D(pre + "_xmap {R : Type}", [("calc", "Z -> Z -> bool -> R"), ("ntaxa", "Z"), ("nparent", "Z"), ("ncross", "Z"), ("unique_parents", "bool")], "R",
              "(calc %s %s %s)" % (P.to_coq(xm.args[0], Zc(zenv)), P.to_coq(xm.args[1], Zc(zenv)),
                                   P.to_coq(xm.args[2], P.Ctx("Z", {}, bool_env={"self.unique_parents": "unique_parents"}), "bool")),
              "%s: xmap = %s" % (where, _src(xm)))
            # --- the problem is built over the same map
            c = P.the_assignment(fn, "prob")
            _need(isinstance(c, ast.Call) and not c.args and all(k.arg is not None for k in c.keywords), where + ": the problem is not built by one call with keyword arguments")
            kw = {k.arg: k.value for k in c.keywords}
            if fam == "ohv":
                _need(_src(c.func) == pcls + ".from_pgmat_gpmod", "%s: the problem is not built by %s.from_pgmat_gpmod" % (where, pcls))
                for k_, v_ in (("nparent", "self.nparent"), ("unique_parents", "self.unique_parents"), ("pgmat", "pgmat")):
                    _need(k_ in kw and _src(kw[k_]) == v_, "%s: the problem is not built with %s = %s" % (where, k_, v_))
                pf = P.find_function(repo, probrel, pcls + ".from_pgmat_gpmod")
                _need(_src(P.the_assignment(pf, "xmap")) == "cls._calc_xmap(pgmat.ntaxa, nparent, unique_parents)",
                      pcls + ".from_pgmat_gpmod: xmap is no longer cls._calc_xmap(pgmat.ntaxa, nparent, unique_parents)")
                oc = P.the_assignment(pf, "out")
                _need(isinstance(oc, ast.Call) and {k.arg: _src(k.value) for k in oc.keywords if k.arg}.get("decn_space_xmap") == "xmap",
                      pcls + ".from_pgmat_gpmod: decn_space_xmap is no longer the map computed there")
            else:
                _need(_src(c.func) == pcls + ".from_pgmat_gpmod_xmap", "%s: the problem is not built by %s.from_pgmat_gpmod_xmap" % (where, pcls))
                for k_, v_ in (("nparent", "self.nparent"), ("unique_parents", "self.unique_parents"), ("pgmat", "pgmat"), ("xmap", "xmap")):
                    _need(k_ in kw and _src(kw[k_]) == v_, "%s: the problem is not built with %s = %s" % (where, k_, v_))
                pf = P.find_function(repo, probrel, pcls + ".from_pgmat_gpmod_xmap")
                oc = P.the_assignment(pf, "out")
                _need(isinstance(oc, ast.Call) and {k.arg: _src(k.value) for k in oc.keywords if k.arg}.get("decn_space_xmap") == "xmap"
                      and not [n for n in ast.walk(pf) if isinstance(n, ast.Assign) and any(_src(t) == "xmap" for t in n.targets)],
                      pcls + ".from_pgmat_gpmod_xmap: decn_space_xmap is no longer the map handed in")
            for k_ in ("decn_space", "decn_space_lower", "decn_space_upper"):
                _need(k_ in kw and _src(kw[k_]) == k_, "%s: the problem is not built with %s = %s" % (where, k_, k_))
            # --- the space
            senv = {"nxmap": "nxmap", "self.ncross": "ncross", "self.nparent": "nparent", "sum_nmating": "sum_nmating", "sum_nmating_nprogeny": "sum_nmating_nprogeny"}
            sums = {"numpy.sum(self.nmating * self.nprogeny)": "sum_nmating_nprogeny", "numpy.sum(self.nmating)": "sum_nmating", "len(xmap)": "nxmap"}
            sargs = [("ncross", "Z"), ("nparent", "Z"), ("nxmap", "Z"), ("sum_nmating", "Z"), ("sum_nmating_nprogeny", "Z")]
            sort = "Q" if tag == "rmate" else "Z"
            def num(e, srt="Z"):
                src = _src(e)
                bound = {k: v for k, v in sums.items() if k in src}
                if "numpy.sum(self.nmating * self.nprogeny)" in bound: bound.pop("numpy.sum(self.nmating)", None)
                return P.to_coq(bind(e, bound) if bound else e, P.Ctx(srt, senv if srt == "Z" else {}))
            lo, up, sp = P.the_assignment(fn, "decn_space_lower"), P.the_assignment(fn, "decn_space_upper"), P.the_assignment(fn, "decn_space")
            for e, what in ((lo, "decn_space_lower"), (up, "decn_space_upper")):
                _need(isinstance(e, ast.Call) and _src(e.func) == "numpy.repeat" and len(e.args) == 2 and not e.keywords,
                      "%s: %s is not numpy.repeat(<number>, <count>): %s" % (where, what, _src(e)))
            _need("self.nmating" not in _src(lo.args[0]).replace("numpy.sum(self.nmating * self.nprogeny)", "").replace("numpy.sum(self.nmating)", "")
                  and "self.nmating" not in _src(up.args[0]).replace("numpy.sum(self.nmating * self.nprogeny)", "").replace("numpy.sum(self.nmating)", ""),
                  where + ": a bound uses the per-cross nmating array otherwise than through a sum (ONE number must be repeated)")
            D(pre + "_lower_v", [] if sort == "Q" else sargs, sort, num(lo.args[0], sort), "%s: decn_space_lower = %s   (the repeated number)" % (where, _src(lo)))
            D(pre + "_lower_n", sargs, "Z", num(lo.args[1]), "%s: decn_space_lower = %s   (how many times)" % (where, _src(lo)))
            D(pre + "_upper_v", [] if sort == "Q" else sargs, sort, num(up.args[0], sort), "%s: decn_space_upper = %s   (the repeated number)" % (where, _src(up)))
            D(pre + "_upper_n", sargs, "Z", num(up.args[1]), "%s: decn_space_upper = %s   (how many times)" % (where, _src(up)))
            _need("ndecn" in kw, where + ": the problem is built without ndecn")
            D(pre + "_ndecn", sargs, "Z", num(kw["ndecn"]), "%s: ndecn = %s" % (where, _src(kw["ndecn"])))
            if tag == "mate":
                _need(isinstance(sp, ast.Call) and _src(sp.func) == "numpy.arange" and len(sp.args) == 1 and not sp.keywords,
                      "%s: decn_space is not numpy.arange(<number of rows>): %s" % (where, _src(sp)))
                D(pre + "_space_n", sargs, "Z", num(sp.args[0]), "%s: decn_space = %s   (members 0 .. n-1)" % (where, _src(sp)))
            else:
                _need(_src(sp) == "numpy.stack([decn_space_lower, decn_space_upper])", where + ": decn_space is no longer numpy.stack([decn_space_lower, decn_space_upper])")

    text = (P.HEADER % "harness/translate/c07_kernel.py") + \
        "From Coq Require Import ZArith QArith Bool List.\nImport ListNotations.\nLocal Open Scope Z_scope.\n\n" + "\n".join(defs)
    path = os.path.join(gen_dir, "C07_Kernel.v")
    P.write_if_changed(path, text)
    return {"file": "Gen/C07_Kernel.v", "definitions": len(defs), "sha256": hashlib.sha256(text.encode()).hexdigest()[:16]}
