"""C05 kernel translator: regenerates `coq/Gen/C05_Kernel.v` from the current source on every run (protocol: tools/PHASE2_BRIEF.md
section B, exemplar c09_kernel.py).  One Gallina `Definition` per *kernel expression* of the selection problems, i.e. the
expressions on which the C05 theorems turn:

  k_guard__<Class>       xsum if abs(xsum) >= 1e-10 else 1.0            (every guarded Real/Integer/Binary latentfn, 24 classes)
  k_contrib__<Class>     1.0 / xsum * x                                  (every Real/Integer/Binary latentfn, 39 classes)
  k_linsub__<Class>      -(1.0 / len(x)) * <table>[x, :].sum(0)          (subset classes of the linear families, OCS gain, family mean)
  k_linvec__<Class>      -contrib.dot(<table>)                           (vector classes of the same)
  k_cx__<Class>          1.0 / len(x) * <C>[:, x].sum(1)                 (quadratic subset classes; L1 with its absolute value)
  k_meh_*                -(1.0 - dist)
  k_cat__<Class>         numpy.concatenate([a, b])  (order of the latent blocks: OCS, family, MOGS)
  k_pfreq__<Class> / k_pfreq_den__<Class>   count / (ploidy * len(x))    (PAFD, PAU, MOGS; a quotient, not a rounded reciprocal)
  k_pau_lt / k_pau_gt / k_pau_het / k_pau_unavail,  k_mogs_*             (the binary64 threshold tests and the flag algebra)
  k_<fam>_calc_tminor/thet/tmajor, k_<fam>_flag_* and k_mogs_fix_*       (what the flag properties compute ON ACCESS from the target array held;
                                                                          the tfreq setter stores the array and nothing derived from it)
  k_pafd_term__<Class>   mkrwt * |tfreq - pfreq|
  k_opv / k_gb_coef / k_gb_st / k_gb_sp                                  (max-type criteria)
  k_evalfn               (obj_wt * obj_trans(x, latent), ineqcv..., eqcv...) with the order of the returned triple
  k_evaluate_is_vec / k_evaluate_vec_table / k_evaluate_vec_keep / k_evaluate_mat_table / k_evaluate_mat_keep
                         SelectionProblem._evaluate (the reporting path of pymoo and the hill climbers): the branch test, which
                         element of the evalfn triple is stored under which key of `out` in the vector and in the matrix branch,
                         and the filter that decides whether a key is stored (no class may override _evaluate / evalfn)
  k_trans_*              bodies of sel/prob/trans.py
  k_uc / k_uc_pmean      pmean + selection_intensity * sqrt(pvar);  epgc.dot(bvmat[cconfig, :])
  k_embv_acc / k_embv_avg                      avg + tmax ; avg / nrep                (selection problems' _calc_embv)
  k_ohv                  ploidy * haplomat[:, xconfig, :, :].max((0, 2)).sum(1) with xconfig = xmap[rst:rsp, :] (all columns of the cross
                         map; _calc_ohvmat's chunk loop, the factories' calls of it and _calc_xmap are checked structurally, fail closed)
  k_embvmat_rows / k_embvmat_loop / k_embvmat_nprog   rows of the replicate buffer, replicate loop count, progeny per replicate
                                               (DenseExpectedMaximumBreedingValueMatrix.from_gmod)

`Proofs/C05_Kernel.v` proves `generated = hand model` (by `reflexivity` wherever the model is syntactically the expression) and
`Props/C05.v` restates the availability / scale / evalfn theorems about the *generated* definitions, so a changed expression
makes `Props/C05.vo` fail to build whatever the random cases exercise.  Fail closed: every selector demands exactly one match,
every name must be bound by the environment given here; anything else raises `pyexpr.Untranslatable`.
"""
import ast, copy, os, hashlib
from fractions import Fraction
from translate import pyexpr as P
from translate.kernelkit import bind, elementwise_bool

D = "pybrops/breed/prot/sel/prob/"
EMBVMAT = "pybrops/model/embvmat/DenseExpectedMaximumBreedingValueMatrix.py"
ENCV = ("Real", "Integer", "Binary")

# family -> (file, class pattern, data attribute read by latentfn, guarded?)
LIN = {
    "ebv":    ("EstimatedBreedingValueSelectionProblem.py", "EstimatedBreedingValue%sSelectionProblem", "self._ebv", True),
    "gebv":   ("GenomicEstimatedBreedingValueSelectionProblem.py", "GenomicEstimatedBreedingValue%sSelectionProblem", "self._gebv", True),
    "gwgebv": ("GeneralizedWeightedGenomicEstimatedBreedingValueSelectionProblem.py", "GeneralizedWeightedGenomicEstimatedBreedingValue%sSelectionProblem", "self._gwgebv", True),
    "embv":   ("ExpectedMaximumBreedingValueSelectionProblem.py", "ExpectedMaximumBreedingValue%sSelectionProblem", "self._embv", True),
    "rand":   ("RandomSelectionProblem.py", "Random%sSelectionProblem", "self._rbv", True),
    "uc":     ("UsefulnessCriterionSelectionProblem.py", "UsefulnessCriterion%sMateSelectionProblem", "self._ucmat", False),
    "ohv":    ("OptimalHaploidValueSelectionProblem.py", "OptimalHaploidValue%sSelectionProblem", "self._ohvmat", False),
}
QUAD = {
    "ocs": ("OptimalContributionSelectionProblem.py", "OptimalContribution%sSelectionProblem", True),
    "mgr": ("MeanGenomicRelationshipSelectionProblem.py", "MeanGenomicRelationship%sSelectionProblem", True),
    "meh": ("MeanExpectedHeterozygositySelectionProblem.py", "MeanExpectedHeterozygosity%sSelectionProblem", True),
    "l2":  ("L2NormGenomicSelectionProblem.py", "L2NormGenomic%sSelectionProblem", False),
    "l1":  ("L1NormGenomicSelectionProblem.py", "L1NormGenomic%sSelectionProblem", False),
    "fam": ("FamilyEstimatedBreedingValueSelectionProblem.py", "FamilyEstimatedBreedingValue%sSelectionProblem", False),
}
AF = {
    "pafd": ("PopulationAlleleFrequencyDistanceSelectionProblem.py", "PopulationAlleleFrequencyDistance"),
    "pau":  ("PopulationAlleleUnavailabilitySelectionProblem.py", "PopulationAlleleUnavailability"),
    "mogs": ("MultiObjectiveGenomicSelectionProblem.py", "MultiObjectiveGenomic"),
}
# the weighted-genomic classes must keep inheriting latentfn from the generalised ones (else this table no longer describes them)
INHERIT = ("WeightedGenomicSelectionProblem.py", "WeightedGenomic%sSelectionProblem", "GeneralizedWeightedGenomicEstimatedBreedingValue%sSelectionProblem")


# ---------------------------------------------------------------------------------------------- helpers (own; pyexpr stays untouched)
def src(e):
    return ast.unparse(e)


def exact_floats(expr, env):
    """float literals that are not short dyadic numbers (1e-10) are bound to the exact rational of the binary64 value the
    interpreter computes with (pyexpr would emit the decimal fraction the programmer wrote)"""
    n = [0]

    class T(ast.NodeTransformer):
        def visit_Constant(self, node):
            v = node.value
            if isinstance(v, float) and Fraction(repr(v)) != Fraction(v):
                nm = "__flt%d" % n[0]; n[0] += 1
                fr = Fraction(v)
                env[nm] = "(%d # %d)%%Q" % (fr.numerator, fr.denominator)
                return ast.copy_location(ast.Name(id=nm, ctx=ast.Load()), node)
            return node
    return T().visit(copy.deepcopy(expr))


def ew_bool(expr):
    """numpy's element-wise | & ~ on boolean arrays (comparisons or flag arrays bound in bool_env) -> or / and / not"""
    if isinstance(expr, ast.BinOp) and isinstance(expr.op, (ast.BitOr, ast.BitAnd)):
        return ast.BoolOp(op=ast.Or() if isinstance(expr.op, ast.BitOr) else ast.And(), values=[ew_bool(expr.left), ew_bool(expr.right)])
    if isinstance(expr, ast.UnaryOp) and isinstance(expr.op, ast.Invert):
        return ast.UnaryOp(op=ast.Not(), operand=ew_bool(expr.operand))
    if isinstance(expr, (ast.Compare, ast.Name, ast.Attribute)):
        return expr
    raise P.Untranslatable("element-wise boolean expression " + ast.unparse(expr))


def np_logical(expr):
    """numpy.logical_and / logical_or / logical_not on boolean arrays -> and / or / not (element-wise)"""
    class T(ast.NodeTransformer):
        def visit_Call(self, node):
            self.generic_visit(node)
            f = ast.unparse(node.func)
            if f in ("numpy.logical_and", "numpy.logical_or") and len(node.args) == 2 and not node.keywords:
                return ast.BoolOp(op=ast.And() if f.endswith("and") else ast.Or(), values=list(node.args))
            if f == "numpy.logical_not" and len(node.args) == 1 and not node.keywords:
                return ast.UnaryOp(op=ast.Not(), operand=node.args[0])
            return node
    return ast.fix_missing_locations(T().visit(copy.deepcopy(expr)))


def class_node(repo, rel, cls):
    for node in P.parse_file(repo, rel).body:
        if isinstance(node, ast.ClassDef) and node.name == cls:
            return node
    raise P.Untranslatable("%s: no class %s" % (rel, cls))


def own_methods(repo, rel, cls):
    return {n.name for n in class_node(repo, rel, cls).body if isinstance(n, ast.FunctionDef)}


def find_setter(repo, rel, cls, prop):
    out = [n for n in class_node(repo, rel, cls).body if isinstance(n, ast.FunctionDef) and n.name == prop
           and any(ast.unparse(d) == prop + ".setter" for d in n.decorator_list)]
    if len(out) != 1:
        raise P.Untranslatable("%s: expected exactly one setter of %s.%s, found %d" % (rel, cls, prop, len(out)))
    return out[0]


def find_getter(repo, rel, cls, prop):
    out = [n for n in class_node(repo, rel, cls).body if isinstance(n, ast.FunctionDef) and n.name == prop
           and [ast.unparse(d) for d in n.decorator_list] == ["property"]]
    if len(out) != 1:
        raise P.Untranslatable("%s: expected exactly one @property %s.%s, found %d" % (rel, cls, prop, len(out)))
    return out[0]


def tfreq_uncached(repo, rel, cls, derived):
    """the tfreq property of a mixin: the getter hands out self._tfreq, the setter stores the array and NOTHING derived from it
    (the only attribute it assigns is self._tfreq = value), and no method of the class assigns one of the private attributes
    `derived` (a flag cached anywhere would not follow an in-place update of the array)"""
    g = find_getter(repo, rel, cls, "tfreq")
    if src(P.the_return(g)) != "self._tfreq":
        raise P.Untranslatable("%s.tfreq no longer returns self._tfreq" % cls)
    st = find_setter(repo, rel, cls, "tfreq")
    stores = [(src(t), src(n.value) if getattr(n, "value", None) is not None else None) for n in ast.walk(st) if isinstance(n, (ast.Assign, ast.AugAssign, ast.AnnAssign))
              for t in (n.targets if isinstance(n, ast.Assign) else [n.target])]
    if stores != [("self._tfreq", "value")]:
        raise P.Untranslatable("%s.tfreq setter: expected the single store self._tfreq = value, found %s" % (cls, stores))
    for n in ast.walk(class_node(repo, rel, cls)):
        if isinstance(n, (ast.Assign, ast.AugAssign, ast.AnnAssign)):
            for t in (n.targets if isinstance(n, ast.Assign) else [n.target]):
                for a in ast.walk(t):
                    if isinstance(a, ast.Attribute) and src(a) in derived:
                        raise P.Untranslatable("%s caches %s (line %d): the flag would not follow the target array" % (cls, src(a), n.lineno))
        if isinstance(n, ast.Call) and src(n.func) in ("setattr", "object.__setattr__"):
            raise P.Untranslatable("%s uses setattr (line %d): cannot tell which attribute is stored" % (cls, n.lineno))


def body_statements(fn):
    """statements of a function without its docstring"""
    return [s for s in fn.body if not (isinstance(s, ast.Expr) and isinstance(s.value, ast.Constant) and isinstance(s.value.value, str))]


def concat_pair(e, what):
    """numpy.concatenate([a, b]) -> (a, b) as plain names"""
    if not (isinstance(e, ast.Call) and ast.unparse(e.func) == "numpy.concatenate" and len(e.args) == 1 and not e.keywords
            and isinstance(e.args[0], ast.List) and len(e.args[0].elts) == 2 and all(isinstance(v, ast.Name) for v in e.args[0].elts)):
        raise P.Untranslatable("%s: expected numpy.concatenate([a, b]), found %s" % (what, src(e)))
    return e.args[0].elts[0].id, e.args[0].elts[1].id


def the_for(fn, depth_of=None):
    loops = [n for n in ast.walk(fn) if isinstance(n, ast.For)]
    loops.sort(key=lambda n: (n.lineno, n.col_offset))
    return loops


# ---------------------------------------------------------------------------------------------- translation
def translate(repo, gen_dir):
    defs, lists = [], {}
    Q = lambda env, calls=None, bool_env=None: P.Ctx("Q", env, calls=calls, bool_env=bool_env)
    Z = lambda env: P.Ctx("Z", env)
    F = lambda env, bool_env=None: P.Ctx("F", env, bool_env=bool_env)

    def add(name, params, rtype, term, comment, lst=None):
        defs.append(P.definition(name, params, rtype, term, comment))
        if lst: lists.setdefault(lst[0], (lst[1], []))[1].append(name)

    def vec_kernels(rel, cls, guarded, fam):
        """the normalisation of a Real / Integer / Binary latentfn"""
        fn = P.find_function(repo, rel, cls + ".latentfn")
        if guarded:
            e0 = P.the_assignment(fn, "xsum", index=0, count=2)
            if src(e0) != "x.sum()":
                raise P.Untranslatable("%s.latentfn: xsum is not x.sum() but %s" % (cls, src(e0)))
            e = P.the_assignment(fn, "xsum", index=1, count=2)
            env = {"xsum": "xsum"}
            e2 = exact_floats(e, env)
            add("k_guard__" + cls, [("xsum", "Q")], "Q", P.to_coq(e2, Q(env, calls={"abs": ("Qabs'", 1)})),
                "%s.latentfn: xsum = %s" % (cls, src(e)), ("k_guard_all", "Q -> Q"))
            e = P.the_assignment(fn, "contrib")
            add("k_contrib__" + cls, [("xsum", "Q"), ("xi", "Q")], "Q", P.to_coq(e, Q({"xsum": "xsum", "x": "xi"})),
                "%s.latentfn: contrib = %s" % (cls, src(e)), ("k_contrib_all", "Q -> Q -> Q"))
        else:
            if P.assignments_to(fn, "xsum"):
                raise P.Untranslatable("%s.latentfn now has an xsum guard: move the class to the guarded table" % cls)
            e = P.the_assignment(fn, "contrib")
            add("k_contrib__" + cls, [("xsum", "Q"), ("xi", "Q")], "Q", P.to_coq(bind(e, {"x.sum()": "xsum"}), Q({"xsum": "xsum", "x": "xi"})),
                "%s.latentfn: contrib = %s" % (cls, src(e)), ("k_contrib_all", "Q -> Q -> Q"))
        return fn

    def linvec(fn, cls, target, attr):
        e = P.the_assignment(fn, target)
        add("k_linvec__" + cls, [("d", "Q")], "Q", P.to_coq(bind(e, {"contrib.dot(%s)" % attr: "d"}), Q({"d": "d"})),
            "%s.latentfn: %s = %s" % (cls, target, src(e)), ("k_linvec_all", "Q -> Q"))

    def linsub(fn, cls, target, attr, env=None):
        e = P.the_assignment(fn, target)
        env2 = {"k": "k", "colsum": "colsum"}; env2.update(env or {})
        add("k_linsub__" + cls, [("k", "Q"), ("colsum", "Q")], "Q",
            P.to_coq(bind(e, {"%s[x, :].sum(0)" % attr: "colsum"}), Q(env2)),
            "%s.latentfn: %s = %s" % (cls, target, src(e)), ("k_linsub_all", "Q -> Q -> Q"))

    def indcontrib_env(fn):
        e = P.the_assignment(fn, "indcontrib")
        return {"indcontrib": P.to_coq(bind(e, {"len(x)": "k"}), Q({"k": "k"}))}

    # ------------------------------------------------------------------ linear families
    for fam, (f, pat, attr, guarded) in LIN.items():
        cls = pat % "Subset"
        fn = P.find_function(repo, D + f, cls + ".latentfn")
        e = P.the_assignment(fn, "out")
        add("k_linsub__" + cls, [("k", "Q"), ("colsum", "Q")], "Q",
            P.to_coq(bind(e, {"len(x)": "k", "%s[x, :].sum(0)" % attr: "colsum"}), Q({"k": "k", "colsum": "colsum"})),
            "%s.latentfn: out = %s" % (cls, src(e)), ("k_linsub_all", "Q -> Q -> Q"))
        for enc in ENCV:
            cls = pat % enc
            fn = vec_kernels(D + f, cls, guarded, fam)
            linvec(fn, cls, "out", attr)
    f, pat, parent = INHERIT
    for enc in ("Subset",) + ENCV:
        if "latentfn" in own_methods(repo, D + f, pat % enc):
            raise P.Untranslatable("%s now defines its own latentfn: extend the kernel table" % (pat % enc))
        bases = [ast.unparse(b) for b in class_node(repo, D + f, pat % enc).bases]
        if parent % enc not in bases:
            raise P.Untranslatable("%s no longer derives from %s" % (pat % enc, parent % enc))

    # ------------------------------------------------------------------ quadratic / L1 / family
    for fam, (f, pat, guarded) in QUAD.items():
        cls = pat % "Subset"
        fn = P.find_function(repo, D + f, cls + ".latentfn")
        if fam == "ocs":
            ienv = indcontrib_env(fn)
            e = P.the_assignment(fn, "Cx")
            add("k_cx__" + cls, [("k", "Q"), ("rowsum", "Q")], "Q", P.to_coq(bind(e, {"self.C[:, x].sum(1)": "rowsum"}), Q(dict(ienv, rowsum="rowsum"))),
                "%s.latentfn: Cx = %s (indcontrib = %s)" % (cls, src(e), src(P.the_assignment(fn, "indcontrib"))), ("k_cx_all", "Q -> Q -> Q"))
            if src(P.the_assignment(fn, "mgr")) != "numpy.linalg.norm(Cx, ord=2, keepdims=True)":
                raise P.Untranslatable("%s.latentfn: mgr is no longer the 2-norm of Cx" % cls)
            linsub(fn, cls, "gain", "self.ebv", ienv)
            a, b = concat_pair(P.the_assignment(fn, "out"), cls)
            add("k_cat__" + cls, [("A", "Type"), ("mgr", "list A"), ("gain", "list A")], "list A", "(app %s %s)" % (a, b),
                "%s.latentfn: out = %s" % (cls, src(P.the_assignment(fn, "out"))))
        elif fam in ("mgr", "meh", "l2"):
            C = "self._C[:, :, x].sum(2)" if fam == "l2" else "self._C[:, x].sum(1)"
            e = P.the_assignment(fn, "Cx")
            add("k_cx__" + cls, [("k", "Q"), ("rowsum", "Q")], "Q", P.to_coq(bind(e, {"len(x)": "k", C: "rowsum"}), Q({"k": "k", "rowsum": "rowsum"})),
                "%s.latentfn: Cx = %s" % (cls, src(e)), ("k_cx_all", "Q -> Q -> Q"))
            nrm = {"mgr": ("out", "numpy.linalg.norm(Cx, ord=2, keepdims=True)"), "meh": ("dist", "numpy.linalg.norm(Cx, ord=2, keepdims=True)"),
                   "l2": ("out", "numpy.linalg.norm(Cx, ord=2, axis=1)")}[fam]
            if src(P.the_assignment(fn, nrm[0])) != nrm[1]:
                raise P.Untranslatable("%s.latentfn: %s is no longer the 2-norm of Cx" % (cls, nrm[0]))
            if fam == "meh":
                e = P.the_assignment(fn, "out")
                add("k_meh__" + cls, [("dist", "Q")], "Q", P.to_coq(e, Q({"dist": "dist"})), "%s.latentfn: out = %s" % (cls, src(e)), ("k_meh_all", "Q -> Q"))
        elif fam == "l1":
            e = P.the_assignment(fn, "out")
            if not (isinstance(e, ast.Call) and isinstance(e.func, ast.Attribute) and e.func.attr == "sum" and [src(a) for a in e.args] == ["1"]):
                raise P.Untranslatable("%s.latentfn: out is not <...>.sum(1)" % cls)
            inner = e.func.value
            add("k_l1abs__" + cls, [("k", "Q"), ("rowsum", "Q")], "Q",
                P.to_coq(bind(inner, {"len(x)": "k", "self._V[:, :, x].sum(2)": "rowsum"}), Q({"k": "k", "rowsum": "rowsum"}, calls={"numpy.absolute": ("Qabs'", 1)})),
                "%s.latentfn: out = %s" % (cls, src(e)))
        elif fam == "fam":
            ienv = indcontrib_env(fn)
            linsub(fn, cls, "mebv", "self._ebv", ienv)
            # familywt[x] = indcontrib is an ASSIGNMENT (a repeated member counts once); the model's famwt_subset says the same
            st = [s for s in ast.walk(fn) if isinstance(s, (ast.Assign, ast.AugAssign)) and any(src(t) == "familywt[x]" for t in (s.targets if isinstance(s, ast.Assign) else [s.target]))]
            if len(st) != 1 or not isinstance(st[0], ast.Assign) or src(st[0].value) != "indcontrib":
                raise P.Untranslatable("%s.latentfn: expected exactly `familywt[x] = indcontrib`" % cls)
            e = P.the_assignment(fn, "famcontrib")
            add("k_famneg__" + cls, [("b", "Q")], "Q", P.to_coq(bind(e, {"numpy.bincount(self._familyix, familywt)": "b"}), Q({"b": "b"})),
                "%s.latentfn: famcontrib = %s" % (cls, src(e)), ("k_famneg_all", "Q -> Q"))
            a, b = concat_pair(P.the_assignment(fn, "out"), cls)
            add("k_cat__" + cls, [("A", "Type"), ("mebv", "list A"), ("famcontrib", "list A")], "list A", "(app %s %s)" % (a, b),
                "%s.latentfn: out = %s" % (cls, src(P.the_assignment(fn, "out"))))
        for enc in ENCV:
            cls = pat % enc
            fn = vec_kernels(D + f, cls, guarded, fam)
            if fam == "ocs":
                linvec(fn, cls, "gain", "self._ebv")
                if src(P.the_assignment(fn, "mgc")) != "numpy.linalg.norm(self.C.dot(contrib), ord=2, keepdims=True)":
                    raise P.Untranslatable("%s.latentfn: mgc is no longer the 2-norm of C contrib" % cls)
                a, b = concat_pair(P.the_assignment(fn, "out"), cls)
                add("k_cat__" + cls, [("A", "Type"), ("mgc", "list A"), ("gain", "list A")], "list A", "(app %s %s)" % (a, b),
                    "%s.latentfn: out = %s" % (cls, src(P.the_assignment(fn, "out"))))
            elif fam == "mgr":
                if src(P.the_assignment(fn, "out")) != "numpy.linalg.norm(self._C.dot(contrib), ord=2, keepdims=True)":
                    raise P.Untranslatable("%s.latentfn: out is no longer the 2-norm of C contrib" % cls)
            elif fam == "meh":
                e = P.the_assignment(fn, "out")
                add("k_meh__" + cls, [("dist", "Q")], "Q", P.to_coq(bind(e, {"numpy.linalg.norm(self._C.dot(contrib), ord=2, keepdims=True)": "dist"}), Q({"dist": "dist"})),
                    "%s.latentfn: out = %s" % (cls, src(e)), ("k_meh_all", "Q -> Q"))
            elif fam == "l2":
                if src(P.the_assignment(fn, "out")) != "numpy.linalg.norm(self.C.dot(contrib), ord=2, axis=1)":
                    raise P.Untranslatable("%s.latentfn: out is no longer the 2-norm of C contrib" % cls)
            elif fam == "l1":
                if src(P.the_assignment(fn, "out")) != "numpy.absolute(self._V.dot(contrib)).sum(1)":
                    raise P.Untranslatable("%s.latentfn: out is no longer sum |V contrib|" % cls)
            elif fam == "fam":
                linvec(fn, cls, "mebv", "self._ebv")
                e = P.the_assignment(fn, "famcontrib")
                add("k_famneg__" + cls, [("b", "Q")], "Q", P.to_coq(bind(e, {"numpy.bincount(self._familyix, contrib)": "b"}), Q({"b": "b"})),
                    "%s.latentfn: famcontrib = %s" % (cls, src(e)), ("k_famneg_all", "Q -> Q"))
                a, b = concat_pair(P.the_assignment(fn, "out"), cls)
                add("k_cat__" + cls, [("A", "Type"), ("mebv", "list A"), ("famcontrib", "list A")], "list A", "(app %s %s)" % (a, b),
                    "%s.latentfn: out = %s" % (cls, src(P.the_assignment(fn, "out"))))

    # ------------------------------------------------------------------ allele-frequency families
    for fam, (f, stem) in AF.items():
        cls = stem + "SubsetSelectionProblem"
        fn = P.find_function(repo, D + f, cls + ".latentfn")
        e = P.the_assignment(fn, "pfreq")
        if not (isinstance(e, ast.BinOp) and isinstance(e.op, ast.Div)):
            raise P.Untranslatable("%s.latentfn: pfreq is not a single quotient: %s" % (cls, src(e)))
        add("k_pfreq_den__" + fam, [("ploidy", "Z"), ("k", "Z")], "Z", P.to_coq(bind(e.right, {"len(x)": "k"}), Z({"self.ploidy": "ploidy", "k": "k"})),
            "%s.latentfn: denominator of pfreq = %s" % (cls, src(e.right)))
        add("k_pfreq__" + fam, [("count", "float"), ("denom", "float")], "float",
            P.to_coq(bind(e, {"self.geno[x, :, None].sum(0)": "count", src(e.right): "denom"}), F({"count": "count", "denom": "denom"})),
            "%s.latentfn: pfreq = %s" % (cls, src(e)))
        if fam in ("pafd", "mogs"):
            e = P.the_assignment(fn, "pafd")
            if not (isinstance(e, ast.Call) and isinstance(e.func, ast.Attribute) and e.func.attr == "sum" and [src(a) for a in e.args] == ["0"]):
                raise P.Untranslatable("%s.latentfn: pafd is not <...>.sum(0)" % cls)
            add("k_pafd_term__" + fam, [("w", "Q"), ("tf", "Q"), ("pf", "Q")], "Q",
                P.to_coq(e.func.value, Q({"self.mkrwt": "w", "self.tfreq": "tf", "pfreq": "pf"}, calls={"numpy.absolute": ("Qabs'", 1)})),
                "%s.latentfn: pafd = %s" % (cls, src(e)))
        if fam in ("pau", "mogs"):
            e = P.the_assignment(fn, "pau")
            if src(e) != "(self.mkrwt * allele_unavail).sum(0)":
                raise P.Untranslatable("%s.latentfn: pau is no longer (self.mkrwt * allele_unavail).sum(0)" % cls)
        if fam in ("pafd", "pau"):
            mix = stem + "SelectionProblemMixin"
            for nm in ("tminor", "thet", "tmajor"):
                g = P.find_function(repo, D + f, mix + "._calc_" + nm)
                e = elementwise_bool(P.the_return(g))
                add("k_%s_calc_%s" % (fam, nm), [("tfreq", "Q")], "bool", P.to_coq(e, Q({"tfreq": "tfreq"}), "bool"),
                    "%s._calc_%s: return %s" % (mix, nm, src(P.the_return(g))))
            tfreq_uncached(repo, D + f, mix, {"self._tminor", "self._thet", "self._tmajor"})
            for nm in ("tminor", "thet", "tmajor"):
                e = P.the_return(find_getter(repo, D + f, mix, nm))
                if not (isinstance(e, ast.Call) and isinstance(e.func, ast.Attribute) and src(e.func.value) == "self"
                        and e.func.attr in ("_calc_tminor", "_calc_thet", "_calc_tmajor") and [src(a) for a in e.args] == ["self._tfreq"] and not e.keywords):
                    raise P.Untranslatable("%s.%s (property): return %s" % (mix, nm, src(e)))
                add("k_%s_flag_%s" % (fam, nm), [("tfreq", "Q")], "bool", "(k_%s_calc_%s tfreq)" % (fam, e.func.attr[len("_calc_"):]),
                    "%s.%s (property, computed on access): return %s" % (mix, nm, src(e)))
        if fam == "pau":
            for nm, par in (("p_ltmajor", "lt"), ("p_gtminor", "gt")):
                e = P.the_assignment(fn, nm)
                add("k_pau_" + par, [("pfreq", "float")], "bool", P.to_coq(e, F({"pfreq": "pfreq"}), "bool"), "%s.latentfn: %s = %s" % (cls, nm, src(e)))
            e = np_logical(P.the_assignment(fn, "p_het"))
            benv = {"p_ltmajor": "p_ltmajor", "p_gtminor": "p_gtminor", "p_het": "p_het", "self.tminor": "tminor", "self.thet": "thet", "self.tmajor": "tmajor"}
            add("k_pau_het", [("p_ltmajor", "bool"), ("p_gtminor", "bool")], "bool", P.to_coq(e, F({}, bool_env=benv), "bool"),
                "%s.latentfn: p_het = %s" % (cls, src(P.the_assignment(fn, "p_het"))))
            e = np_logical(P.the_assignment(fn, "allele_unavail"))
            add("k_pau_unavail", [(v, "bool") for v in ("p_ltmajor", "p_gtminor", "p_het", "tminor", "thet", "tmajor")], "bool", P.to_coq(e, F({}, bool_env=benv), "bool"),
                "%s.latentfn: allele_unavail = %s" % (cls, src(P.the_assignment(fn, "allele_unavail"))))
        if fam == "mogs":
            for nm, par in (("pfreq_major_islost", "major_lost"), ("pfreq_minor_islost", "minor_lost")):
                e = P.the_assignment(fn, nm)
                add("k_mogs_" + par, [("pfreq", "float")], "bool", P.to_coq(e, F({"pfreq": "pfreq"}), "bool"), "%s.latentfn: %s = %s" % (cls, nm, src(e)))
            benv = {"pfreq_major_islost": "major_lost", "pfreq_minor_islost": "minor_lost", "pfreq_heter_islost": "heter_lost",
                    "self.tfreq_fix_minor": "fix_minor", "self.tfreq_fix_major": "fix_major", "self.tfreq_fix_heter": "fix_heter",
                    "minor_penalty": "minor_penalty", "major_penalty": "major_penalty", "heter_penalty": "heter_penalty"}
            B = lambda e: P.to_coq(ew_bool(e), F({}, bool_env=benv), "bool")
            e = P.the_assignment(fn, "pfreq_heter_islost")
            add("k_mogs_heter_lost", [("major_lost", "bool"), ("minor_lost", "bool")], "bool", B(e), "%s.latentfn: pfreq_heter_islost = %s" % (cls, src(e)))
            for nm in ("minor_penalty", "major_penalty", "heter_penalty"):
                e = P.the_assignment(fn, nm)
                add("k_mogs_" + nm, [(v, "bool") for v in ("fix_minor", "fix_major", "fix_heter", "major_lost", "minor_lost", "heter_lost")], "bool", B(e),
                    "%s.latentfn: %s = %s" % (cls, nm, src(e)))
            e = P.the_assignment(fn, "allele_unavail")
            add("k_mogs_unavail", [(v, "bool") for v in ("minor_penalty", "major_penalty", "heter_penalty")], "bool", B(e), "%s.latentfn: allele_unavail = %s" % (cls, src(e)))
            mix = stem + "SelectionProblemMixin"
            tfreq_uncached(repo, D + f, mix, {"self._tfreq_fix_minor", "self._tfreq_fix_major", "self._tfreq_fix_heter"})
            for nm in ("minor", "major"):
                e = P.the_return(find_getter(repo, D + f, mix, "tfreq_fix_" + nm))
                add("k_mogs_fix_" + nm, [("tfreq", "Q")], "bool", P.to_coq(e, Q({"self._tfreq": "tfreq"}), "bool"),
                    "%s.tfreq_fix_%s (property, computed on access): return %s" % (mix, nm, src(e)))
            e = P.the_return(find_getter(repo, D + f, mix, "tfreq_fix_heter"))
            add("k_mogs_fix_heter", [("fix_minor", "bool"), ("fix_major", "bool")], "bool", B(e),
                "%s.tfreq_fix_heter (property, computed on access): return %s" % (mix, src(e)))
            a, b = concat_pair(P.the_assignment(fn, "out"), cls)
            add("k_cat__" + cls, [("A", "Type"), ("pau", "list A"), ("pafd", "list A")], "list A", "(app %s %s)" % (a, b),
                "%s.latentfn: out = %s" % (cls, src(P.the_assignment(fn, "out"))))
        if fam == "pafd":
            if src(P.the_return(fn)) != "pafd": raise P.Untranslatable("%s.latentfn no longer returns pafd" % cls)
        if fam == "pau":
            if src(P.the_return(fn)) != "pau": raise P.Untranslatable("%s.latentfn no longer returns pau" % cls)

    # ------------------------------------------------------------------ max-type criteria
    cls = "OptimalPopulationValueSubsetSelectionProblem"
    fn = P.find_function(repo, D + "OptimalPopulationValueSelectionProblem.py", cls + ".latentfn")
    e = P.the_assignment(fn, "out")
    add("k_opv", [("ploidy", "Q"), ("m", "Q")], "Q", P.to_coq(bind(e, {"self._haplomat[:, x, :, :].max((0, 1)).sum(0)": "m"}), Q({"self.ploidy": "ploidy", "m": "m"})),
        "%s.latentfn: out = %s" % (cls, src(e)))
    cls = "GenotypeBuilderSubsetSelectionProblem"
    fn = P.find_function(repo, D + "GenotypeBuilderSelectionProblem.py", cls + ".latentfn")
    if src(P.the_assignment(fn, "bestphase")) != "self._haplomat[:, x, :, :].max(0)" or "bestphase.sort(0)" not in [src(s.value) for s in body_statements(fn) if isinstance(s, ast.Expr)]:
        raise P.Untranslatable("%s.latentfn: bestphase is no longer the per-member maximum over phases, sorted along the members" % cls)
    if src(P.the_assignment(fn, "k")) != "len(x)": raise P.Untranslatable("%s.latentfn: k is no longer len(x)" % cls)
    for nm in ("st", "sp"):
        e = P.the_assignment(fn, nm)
        add("k_gb_" + nm, [("k", "Z"), ("nbestfndr", "Z")], "Z", P.to_coq(e, Z({"k": "k", "self.nbestfndr": "nbestfndr"})), "%s.latentfn: %s = %s" % (cls, nm, src(e)))
    e = P.the_assignment(fn, "out")
    add("k_gb", [("ploidy", "Q"), ("nbestfndr", "Q"), ("m", "Q")], "Q",
        P.to_coq(bind(e, {"bestphase[st:sp, :, :].sum((0, 1))": "m"}), Q({"self.ploidy": "ploidy", "self.nbestfndr": "nbestfndr", "m": "m"})),
        "%s.latentfn: out = %s" % (cls, src(e)))

    # ------------------------------------------------------------------ evalfn: which weight multiplies which transformation of (x, latent)
    fn = P.find_function(repo, D + "SelectionProblem.py", "SelectionProblem.evalfn")
    if src(P.the_assignment(fn, "latent")) != "self.latentfn(x, *args, **kwargs)":
        raise P.Untranslatable("SelectionProblem.evalfn: latent is no longer self.latentfn(x, *args, **kwargs)")
    WT = {"self.obj_wt": "wo", "self.ineqcv_wt": "wi", "self.eqcv_wt": "we"}
    TR = {"self.obj_trans": ("To", "self.obj_trans_kwargs"), "self.ineqcv_trans": ("Ti", "self.ineqcv_trans_kwargs"), "self.eqcv_trans": ("Te", "self.eqcv_trans_kwargs")}
    AR = {"x": "x", "latent": "latent"}
    comp = {}
    for nm in ("obj", "ineqcv", "eqcv"):
        e = P.the_assignment(fn, nm)
        ok = (isinstance(e, ast.BinOp) and isinstance(e.op, ast.Mult) and src(e.left) in WT and isinstance(e.right, ast.Call) and src(e.right.func) in TR
              and len(e.right.args) == 2 and all(src(a) in AR for a in e.right.args) and len(e.right.keywords) == 1 and e.right.keywords[0].arg is None
              and src(e.right.keywords[0].value) == TR[src(e.right.func)][1])
        if not ok: raise P.Untranslatable("SelectionProblem.evalfn: %s = %s is not <weights> * <transformation>(a, b, **<its own kwargs>)" % (nm, src(e)))
        comp[nm] = "(map2 Qmult %s (%s %s %s))" % (WT[src(e.left)], TR[src(e.right.func)][0], AR[src(e.right.args[0])], AR[src(e.right.args[1])])
    r = P.the_return(fn)
    if not (isinstance(r, ast.Tuple) and len(r.elts) == 3 and all(isinstance(v, ast.Name) and v.id in comp for v in r.elts)):
        raise P.Untranslatable("SelectionProblem.evalfn: return %s" % src(r))
    add("k_evalfn", [("To Ti Te", "list Q -> list Q -> list Q"), ("wo wi we x latent", "list Q")], "list Q * list Q * list Q",
        "(%s, %s, %s)" % tuple(comp[v.id] for v in r.elts),
        "SelectionProblem.evalfn: " + "; ".join("%s = %s" % (nm, src(P.the_assignment(fn, nm))) for nm in ("obj", "ineqcv", "eqcv")) + "; return " + src(r))

    # ------------------------------------------------------------------ _evaluate: the reporting path (pymoo interface, hill climbers)
    # which element of the evalfn triple is stored under which key of `out`, in the vector branch and in the matrix branch, the
    # test that chooses the branch and the filter that decides whether a key is stored at all
    for f in sorted(os.listdir(os.path.join(repo, D))):
        if not f.endswith(".py"): continue
        for node in ast.walk(P.parse_file(repo, D + f)):
            if isinstance(node, ast.ClassDef):
                for m in node.body:
                    if isinstance(m, ast.FunctionDef) and m.name in ("_evaluate", "evalfn") and (f, node.name) != ("SelectionProblem.py", "SelectionProblem"):
                        raise P.Untranslatable("%s: class %s now defines its own %s: the reporting table no longer describes it" % (f, node.name, m.name))
    fn = P.find_function(repo, D + "SelectionProblem.py", "SelectionProblem._evaluate")
    if [a.arg for a in fn.args.args] != ["self", "x", "out"] or fn.args.vararg is None or fn.args.kwarg is None:
        raise P.Untranslatable("SelectionProblem._evaluate: signature is no longer (self, x, out, *args, **kwargs)")
    va, kwa = fn.args.vararg.arg, fn.args.kwarg.arg
    body = body_statements(fn)
    if len(body) != 1 or not isinstance(body[0], ast.If) or not body[0].orelse:
        raise P.Untranslatable("SelectionProblem._evaluate: expected a single if / else over the dimension of x")
    top = body[0]
    add("k_evaluate_is_vec", [("ndim", "Z")], "bool", P.to_coq(top.test, Z({"x.ndim": "ndim"}), "bool"),
        "SelectionProblem._evaluate: if %s (vector branch; else: matrix branch)" % src(top.test))

    def report_update(stmts, what):
        """the single `out.update({key: val for key, val in zip([<keys>], <values>) if <test>})` of a branch -> (keys, values expr, test, val name)"""
        ups = [s for s in stmts if isinstance(s, ast.Expr)]
        if len(ups) != 1 or any(not isinstance(s, (ast.Expr, ast.Assign)) for s in stmts):
            raise P.Untranslatable("SelectionProblem._evaluate (%s): expected assignments and exactly one out.update(...)" % what)
        c = ups[0].value
        if not (isinstance(c, ast.Call) and src(c.func) == "out.update" and len(c.args) == 1 and not c.keywords and isinstance(c.args[0], ast.DictComp)):
            raise P.Untranslatable("SelectionProblem._evaluate (%s): %s is not out.update({... for ...})" % (what, src(c)))
        if stmts[-1] is not ups[0]:
            raise P.Untranslatable("SelectionProblem._evaluate (%s): statements after out.update(...)" % what)
        dc = c.args[0]
        if len(dc.generators) != 1: raise P.Untranslatable("SelectionProblem._evaluate (%s): %s" % (what, src(dc)))
        g = dc.generators[0]
        ok = (isinstance(dc.key, ast.Name) and isinstance(dc.value, ast.Name) and isinstance(g.target, ast.Tuple) and [src(e) for e in g.target.elts] == [dc.key.id, dc.value.id]
              and dc.key.id != dc.value.id and not g.is_async and len(g.ifs) == 1 and isinstance(g.iter, ast.Call) and src(g.iter.func) == "zip" and len(g.iter.args) == 2
              and not g.iter.keywords and isinstance(g.iter.args[0], ast.List)
              and all(isinstance(e, ast.Constant) and isinstance(e.value, str) and e.value.isalnum() for e in g.iter.args[0].elts))
        if not ok: raise P.Untranslatable("SelectionProblem._evaluate (%s): %s is not {key: val for key, val in zip([<strings>], <values>) if <test>}" % (what, src(dc)))
        return [e.value for e in g.iter.args[0].elts], g.iter.args[1], g.ifs[0], dc.value.id

    def assigned_in(stmts, name, what):
        a = [s for s in stmts if isinstance(s, ast.Assign) and len(s.targets) == 1 and src(s.targets[0]) == name]
        if len(a) != 1: raise P.Untranslatable("SelectionProblem._evaluate (%s): expected exactly one assignment to %s, found %d" % (what, name, len(a)))
        return a[0].value

    def table(pairs):
        return "[" + "; ".join('("%s"%%string, %d%%nat)' % (k, i) for k, i in pairs) + "]"

    # vector branch
    keys, vals, test, vname = report_update(top.body, "vector branch")
    if not isinstance(vals, ast.Name) or src(assigned_in(top.body, vals.id, "vector branch")) != "self.evalfn(x, *%s, **%s)" % (va, kwa):
        raise P.Untranslatable("SelectionProblem._evaluate (vector branch): the values reported are not self.evalfn(x, *%s, **%s)" % (va, kwa))
    if len([s for s in top.body if isinstance(s, ast.Assign)]) != 1:
        raise P.Untranslatable("SelectionProblem._evaluate (vector branch): more than one assignment")
    add("k_evaluate_vec_table", [], "list (string * nat)", table([(k, i) for i, k in enumerate(keys)]),
        "SelectionProblem._evaluate (x.ndim == 1): %s = %s; %s  [key, index into the evalfn triple]" % (vals.id, src(assigned_in(top.body, vals.id, "vector branch")), src(top.body[-1])))
    add("k_evaluate_vec_keep", [("n", "Z")], "bool", P.to_coq(bind(test, {"len(%s)" % vname: "n"}), Z({"n": "n"}), "bool"),
        "SelectionProblem._evaluate (x.ndim == 1): ... if %s  [n = len(%s)]" % (src(test), vname))
    # matrix branch
    keys, vals, test, vname = report_update(top.orelse, "matrix branch")
    if not (isinstance(vals, ast.List) and all(isinstance(e, ast.Name) for e in vals.elts) and len(vals.elts) == len(keys)):
        raise P.Untranslatable("SelectionProblem._evaluate (matrix branch): zip([keys], %s): expected a list of as many plain names" % src(vals))
    rows = [s for s in top.orelse if isinstance(s, ast.Assign) and src(s.value) == "[self.evalfn(v, *%s, **%s) for v in x]" % (va, kwa)]
    if len(rows) != 1 or len(rows[0].targets) != 1 or not isinstance(rows[0].targets[0], ast.Name) or rows[0] is not top.orelse[0]:
        raise P.Untranslatable("SelectionProblem._evaluate (matrix branch): expected first `<rows> = [self.evalfn(v, *%s, **%s) for v in x]`" % (va, kwa))
    rname = rows[0].targets[0].id
    if len([s for s in top.orelse if isinstance(s, ast.Assign)]) != 1 + len(keys):
        raise P.Untranslatable("SelectionProblem._evaluate (matrix branch): unexpected number of assignments")
    pairs, quotes = [], []
    for k, e in zip(keys, vals.elts):
        a = assigned_in(top.orelse, e.id, "matrix branch")
        ok = (isinstance(a, ast.Call) and src(a.func) == "numpy.stack" and len(a.args) == 1 and not a.keywords and isinstance(a.args[0], ast.ListComp)
              and len(a.args[0].generators) == 1 and not a.args[0].generators[0].ifs and src(a.args[0].generators[0].iter) == rname
              and isinstance(a.args[0].generators[0].target, ast.Name) and isinstance(a.args[0].elt, ast.Subscript)
              and src(a.args[0].elt.value) == a.args[0].generators[0].target.id and isinstance(a.args[0].elt.slice, ast.Constant)
              and isinstance(a.args[0].elt.slice.value, int) and not isinstance(a.args[0].elt.slice.value, bool) and 0 <= a.args[0].elt.slice.value <= 2)
        if not ok: raise P.Untranslatable("SelectionProblem._evaluate (matrix branch): %s = %s is not numpy.stack([e[<0|1|2>] for e in %s])" % (e.id, src(a), rname))
        pairs.append((k, a.args[0].elt.slice.value)); quotes.append("%s = %s" % (e.id, src(a)))
    add("k_evaluate_mat_table", [], "list (string * nat)", table(pairs),
        "SelectionProblem._evaluate (else): %s = %s; %s; %s  [key, index into the evalfn triple of each row]" % (rname, src(rows[0].value), "; ".join(quotes), src(top.orelse[-1])))
    add("k_evaluate_mat_keep", [("nrow", "Z"), ("ncol", "Z")], "bool",
        P.to_coq(bind_opt(test, {"%s.shape[0]" % vname: "nrow", "%s.shape[1]" % vname: "ncol", "len(%s)" % vname: "nrow"}), Z({"nrow": "nrow", "ncol": "ncol"}), "bool"),
        "SelectionProblem._evaluate (else): ... if %s  [nrow, ncol = %s.shape]" % (src(test), vname))

    # ------------------------------------------------------------------ transformations of sel/prob/trans.py
    T = D + "trans.py"
    LV = {"latentvec": "latentvec", "decnvec": "decnvec", "latentvec_wt": "latentvec_wt"}
    def vexpr(e):
        """tiny list-level fragment: names, v.sum(0, keepdims=True) -> [qsum v], a * b -> map2 Qmult, numpy.absolute(v - c) -> map |. - c|"""
        if isinstance(e, ast.Name) and e.id in LV: return LV[e.id]
        if isinstance(e, ast.Call) and isinstance(e.func, ast.Attribute) and e.func.attr == "sum" and src(e).endswith(".sum(0, keepdims=True)"):
            return "[sumQ %s]" % vexpr(e.func.value)
        if isinstance(e, ast.BinOp) and isinstance(e.op, ast.Mult): return "(map2 Qmult %s %s)" % (vexpr(e.left), vexpr(e.right))
        if isinstance(e, ast.Call) and src(e.func) == "numpy.absolute" and len(e.args) == 1 and isinstance(e.args[0], ast.BinOp) and isinstance(e.args[0].op, ast.Sub) \
                and isinstance(e.args[0].right, ast.Name) and e.args[0].right.id == "decnvec_sum":
            return "(map (fun v => Qabs' (Qminus v decnvec_sum)) %s)" % vexpr(e.args[0].left)
        raise P.Untranslatable("trans.py: expression %s" % src(e))
    def inline(fn):
        """return expression with the single-assignment local names substituted"""
        r = P.the_return(fn); envl = {}
        for s in body_statements(fn):
            if isinstance(s, ast.Assign) and len(s.targets) == 1 and isinstance(s.targets[0], ast.Name): envl[s.targets[0].id] = s.value
        class S(ast.NodeTransformer):
            def visit_Name(self, node):
                return S().visit(copy.deepcopy(envl[node.id])) if node.id in envl else node
        return S().visit(copy.deepcopy(r))
    fn = P.find_function(repo, T, "trans_identity")
    add("k_trans_identity", [("decnvec latentvec", "list Q")], "list Q", vexpr(inline(fn)), "trans_identity: return " + src(P.the_return(fn)))
    fn = P.find_function(repo, T, "trans_sum")
    add("k_trans_sum", [("decnvec latentvec", "list Q")], "list Q", vexpr(inline(fn)), "trans_sum: out = " + src(P.the_assignment(fn, "out")))
    fn = P.find_function(repo, T, "trans_dot")
    add("k_trans_dot", [("decnvec latentvec latentvec_wt", "list Q")], "list Q", vexpr(inline(fn)),
        "trans_dot: prod = %s; out = %s" % (src(P.the_assignment(fn, "prod")), src(P.the_assignment(fn, "out"))))
    fn = P.find_function(repo, T, "trans_decnvec_sum_eq")
    add("k_trans_decnvec_sum_eq", [("decnvec latentvec", "list Q"), ("decnvec_sum", "Q")], "list Q", vexpr(inline(fn)), "trans_decnvec_sum_eq: return " + src(P.the_return(fn)))
    fn = P.find_function(repo, T, "trans_empty")
    e = P.the_assignment(fn, "out")
    if not (isinstance(e, ast.Call) and src(e.func) == "numpy.empty" and src(e.args[0]) == "(0,)"):
        raise P.Untranslatable("trans_empty: out = %s is not an empty vector" % src(e))
    add("k_trans_empty", [("decnvec latentvec", "list Q")], "list Q", "(@nil Q)", "trans_empty: out = " + src(e))

    # ------------------------------------------------------------------ usefulness criterion
    cls = "UsefulnessCriterionSelectionProblemMixin"
    fn = P.find_function(repo, D + "UsefulnessCriterionSelectionProblem.py", cls + "._calc_uc")
    e = P.the_assignment(fn, "uc[i, :]")
    add("k_uc", [("pmean", "Q"), ("selection_intensity", "Q"), ("sigma", "Q")], "Q",
        P.to_coq(bind(e, {"numpy.sqrt(pvar)": "sigma"}), Q({"pmean": "pmean", "selection_intensity": "selection_intensity", "sigma": "sigma"})),
        "%s._calc_uc: uc[i, :] = %s" % (cls, src(e)))
    e = P.the_assignment(fn, "pmean")
    if not (isinstance(e, ast.Call) and isinstance(e.func, ast.Attribute) and e.func.attr == "dot" and len(e.args) == 1 and not e.keywords):
        raise P.Untranslatable("%s._calc_uc: pmean = %s is not a dot product" % (cls, src(e)))
    VN = {"epgc": "epgc", "bvmat[cconfig, :]": "bvrows"}
    if src(e.func.value) not in VN or src(e.args[0]) not in VN:
        raise P.Untranslatable("%s._calc_uc: pmean = %s is not a product of epgc and bvmat[cconfig, :]" % (cls, src(e)))
    add("k_uc_pmean", [("epgc bvrows", "list Q")], "Q", "(dotQ %s %s)" % (VN[src(e.func.value)], VN[src(e.args[0])]), "%s._calc_uc: pmean = %s" % (cls, src(e)))
    for nm, want in (("epgc", "numpy.array(vmat_obj.epgc)"), ("bvmat", "bvmat_obj.unscale()"), ("vmat", "vmat_obj.mat"), ("pvar", "vmat[tuple(cconfig) + (slice(None),)]"),
                     ("bvmat_obj", "gmod.gebv(pgmat)")):
        if src(P.the_assignment(fn, nm)) != want:
            raise P.Untranslatable("%s._calc_uc: %s = %s (expected %s)" % (cls, nm, src(P.the_assignment(fn, nm)), want))
    loops = the_for(fn)
    if len(loops) != 1 or src(loops[0].target) != "(i, cconfig)" or src(loops[0].iter) != "enumerate(xmap)":
        raise P.Untranslatable("%s._calc_uc: expected exactly one loop `for i, cconfig in enumerate(xmap)`" % cls)

    # ------------------------------------------------------------------ expected maximum breeding value
    cls = "ExpectedMaximumBreedingValueSelectionProblemMixin"
    fn = P.find_function(repo, D + "ExpectedMaximumBreedingValueSelectionProblem.py", cls + "._calc_embv")
    a = P.assignments_to(fn, "avg")
    if len(a) != 3 or src(a[0].value) != "0":
        raise P.Untranslatable("%s._calc_embv: expected avg = 0; avg = avg + ...; avg = avg / nrep" % cls)
    add("k_embv_acc", [("avg", "Q"), ("tmax", "Q")], "Q", P.to_coq(bind(a[1].value, {"bvmat.tmax(True)": "tmax"}), Q({"avg": "avg", "tmax": "tmax"})),
        "%s._calc_embv: avg = %s" % (cls, src(a[1].value)))
    add("k_embv_avg", [("avg", "Q"), ("nrep", "Q")], "Q", P.to_coq(a[2].value, Q({"avg": "avg", "nrep": "nrep"})), "%s._calc_embv: avg = %s" % (cls, src(a[2].value)))
    loops = the_for(fn)
    if [src(l.iter) for l in loops] != ["enumerate(xmap)", "range(nrep)"] or src(loops[0].target) != "(i, xconfig)" or loops[1] not in list(ast.walk(loops[0])):
        raise P.Untranslatable("%s._calc_embv: expected `for i, xconfig in enumerate(xmap)` around `for _ in range(nrep)`" % cls)
    if src(loops[1].target) == "i":
        raise P.Untranslatable("%s._calc_embv: the replicate loop reuses the cross index" % cls)
    if src(P.the_assignment(fn, "embv[i, :]")) != "avg" or a[2] in list(ast.walk(loops[1])) or a[0] not in list(ast.walk(loops[0])) or a[1] not in list(ast.walk(loops[1])):
        raise P.Untranslatable("%s._calc_embv: the accumulator is not reset per cross / divided after the replicate loop / stored in row i" % cls)
    mate = P.the_assignment(fn, "progeny")
    kw = {k.arg: src(k.value) for k in mate.keywords} if isinstance(mate, ast.Call) else {}
    if not (isinstance(mate, ast.Call) and src(mate.func) == "mateprot.mate" and not mate.args
            and kw == {"pgmat": "pgmat", "xconfig": "xconfig[None, :]", "nmating": "nmating", "nprogeny": "nprogeny", "miscout": "None"}):
        raise P.Untranslatable("%s._calc_embv: progeny = %s" % (cls, src(mate)))
    if src(P.the_assignment(fn, "bvmat")) != "gpmod.gebv(progeny)":
        raise P.Untranslatable("%s._calc_embv: bvmat is no longer gpmod.gebv(progeny)" % cls)

    cls = "DenseExpectedMaximumBreedingValueMatrix"
    fn = P.find_function(repo, EMBVMAT, cls + ".from_gmod")
    ZE = Z({"nrep_i": "nrep_i", "nrep_max": "nrep_max", "nprogeny_i": "nprogeny_i", "nprogeny_max": "nprogeny_max", "i": "i", "ntaxa": "ntaxa"})
    BZ = lambda e: P.to_coq(bind_opt(e, {"nrep[i]": "nrep_i", "nrep.max()": "nrep_max", "nprogeny[i]": "nprogeny_i", "nprogeny.max()": "nprogeny_max", "pgmat.ntaxa": "ntaxa"}), ZE)
    call = P.the_assignment(fn, "mbv")
    if not (isinstance(call, ast.Call) and src(call.func) == "numpy.empty" and call.args and isinstance(call.args[0], ast.Tuple) and len(call.args[0].elts) == 2):
        raise P.Untranslatable("%s.from_gmod: mbv is not allocated by numpy.empty((rows, ntrait))" % cls)
    PZ = [("nrep_i", "Z"), ("nrep_max", "Z"), ("nprogeny_i", "Z"), ("nprogeny_max", "Z"), ("i", "Z"), ("ntaxa", "Z")]
    add("k_embvmat_rows", PZ, "Z", BZ(call.args[0].elts[0]), "%s.from_gmod: mbv = %s" % (cls, src(call)))
    loops = the_for(fn)
    if len(loops) != 2 or src(loops[0].iter) != "range(pgmat.ntaxa)" or src(loops[0].target) != "i" or src(loops[1].target) != "j" or loops[1] not in list(ast.walk(loops[0])):
        raise P.Untranslatable("%s.from_gmod: expected `for i in range(pgmat.ntaxa)` around `for j in range(...)`" % cls)
    it = loops[1].iter
    if not (isinstance(it, ast.Call) and src(it.func) == "range" and len(it.args) == 1):
        raise P.Untranslatable("%s.from_gmod: replicate loop over %s" % (cls, src(it)))
    add("k_embvmat_loop", PZ, "Z", BZ(it.args[0]), "%s.from_gmod: for j in %s" % (cls, src(it)))
    dh = P.the_assignment(fn, "mat")
    if not (isinstance(dh, ast.Call) and src(dh.func) == "dense_dh" and len(dh.args) == 4 and [src(v) for v in (dh.args[0], dh.args[2], dh.args[3])] == ["geno", "vrnt_xoprob", "global_prng"]
            and isinstance(dh.args[1], ast.Call) and src(dh.args[1].func) == "numpy.repeat" and len(dh.args[1].args) == 2):
        raise P.Untranslatable("%s.from_gmod: mat = %s" % (cls, src(dh)))
    add("k_embvmat_parent", PZ, "Z", BZ(dh.args[1].args[0]), "%s.from_gmod: mat = %s (the parent every progeny of the replicate is drawn from)" % (cls, src(dh)))
    add("k_embvmat_nprog", PZ, "Z", BZ(dh.args[1].args[1]), "%s.from_gmod: mat = %s (progeny per replicate)" % (cls, src(dh)))
    for tgt, want in (("mbv[j, :]", "bvmat.tmax(unscale=True)"), ("embv[i, :]", "mbv.mean(axis=0)"), ("bvmat", "gmod.gebv(progeny)"), ("geno", "pgmat.mat"), ("vrnt_xoprob", "pgmat.vrnt_xoprob")):
        if src(P.the_assignment(fn, tgt)) != want:
            raise P.Untranslatable("%s.from_gmod: %s = %s (expected %s)" % (cls, tgt, src(P.the_assignment(fn, tgt)), want))
    if P.assignments_to(fn, "mbv")[0] not in list(ast.walk(loops[0])):
        # the buffer may only live outside the taxon loop if exactly the rows written are averaged; the row count then is not
        # a function of i alone and k_embvmat_rows = k_embvmat_loop (Proofs/C05_Kernel.v) fails
        pass

    # ------------------------------------------------------------------ optimal haploid value table (_calc_ohvmat, all factories)
    cls = "OptimalHaploidValueSelectionProblemMixin"
    OHV = D + "OptimalHaploidValueSelectionProblem.py"
    fn = P.find_function(repo, OHV, cls + "._calc_ohvmat")
    e = P.the_assignment(fn, "out[rst:rsp, :]")
    def ohv_expr(e):
        """list-level fragment for the table row of one cross and one trait:  ploidy * G.max((0, 2)).sum(1)  with
        G = haplomat[:, xconfig, :, :]  (m,k,d,h,t): the maximum runs over ALL phases (axis 0) and ALL columns of the cross-map
        rows (axis 2), the sum over the blocks (axis 1 of what is left).  `gathered` = per block, the values of every
        (phase, parent of the row)."""
        if isinstance(e, ast.BinOp) and isinstance(e.op, ast.Mult) and isinstance(e.left, ast.Name) and e.left.id == "ploidy":
            return "(Qmult ploidy %s)" % ohv_expr(e.right)
        if isinstance(e, ast.Call) and isinstance(e.func, ast.Attribute) and e.func.attr == "sum" and [src(a) for a in e.args] == ["1"] and not e.keywords:
            inner = e.func.value
            if isinstance(inner, ast.Call) and isinstance(inner.func, ast.Attribute) and inner.func.attr == "max" and [src(a) for a in inner.args] == ["(0, 2)"] \
                    and not inner.keywords and src(inner.func.value) == "haplomat[:, xconfig, :, :]":
                return "(sum_blocks (map max_phases_parents gathered))"
        raise P.Untranslatable("%s._calc_ohvmat: table expression %s (expected ploidy * haplomat[:, xconfig, :, :].max((0, 2)).sum(1))" % (cls, src(e)))
    add("k_ohv", [("max_phases_parents sum_blocks", "list Q -> Q"), ("ploidy", "Q"), ("gathered", "list (list Q)")], "Q", ohv_expr(e),
        "%s._calc_ohvmat: out[rst:rsp, :] = %s   [xconfig = %s: every column of the cross map]" % (cls, src(e), src(P.the_assignment(fn, "xconfig"))))
    for nm, want in (("xconfig", "xmap[rst:rsp, :]"), ("nconfig", "xmap.shape[0]"), ("step", "nconfig if mem is None else mem"),
                     ("out", "numpy.empty((nconfig, haplomat.shape[3]), dtype=haplomat.dtype)")):
        if src(P.the_assignment(fn, nm)) != want:
            raise P.Untranslatable("%s._calc_ohvmat: %s = %s (expected %s)" % (cls, nm, src(P.the_assignment(fn, nm)), want))
    assigned = sorted({P._target_text(t) for n in ast.walk(fn) if isinstance(n, (ast.Assign, ast.AugAssign, ast.AnnAssign))
                       for t in (n.targets if isinstance(n, ast.Assign) else [n.target])})
    if assigned != sorted(["xconfig", "nconfig", "step", "out", "out[rst:rsp, :]"]):
        raise P.Untranslatable("%s._calc_ohvmat: assignments to %s (expected only nconfig, out, step, xconfig, out[rst:rsp, :])" % (cls, assigned))
    loops = the_for(fn)
    if len(loops) != 1 or src(loops[0].target) != "(rst, rsp)" or src(loops[0].iter) != "zip(range(0, nconfig, step), srange(step, nconfig, step))":
        raise P.Untranslatable("%s._calc_ohvmat: expected exactly one loop `for rst, rsp in zip(range(0, nconfig, step), srange(step, nconfig, step))`" % cls)
    if src(P.the_return(fn)) != "out":
        raise P.Untranslatable("%s._calc_ohvmat: returns %s" % (cls, src(P.the_return(fn))))
    # every factory hands the whole cross map of the requested number of parents, and all phases (ploidy = haplomat.shape[0]), to it
    for enc in ("Subset", "Real", "Integer", "Binary"):
        c2 = "OptimalHaploidValue%sSelectionProblem" % enc
        f2 = P.find_function(repo, OHV, c2 + ".from_pgmat_gpmod")
        call = P.the_assignment(f2, "ohvmat")
        kw = {k.arg: src(k.value) for k in call.keywords} if isinstance(call, ast.Call) else {}
        if not (isinstance(call, ast.Call) and src(call.func) == "cls._calc_ohvmat" and not call.args
                and {k: kw.get(k) for k in ("ploidy", "haplomat", "xmap")} == {"ploidy": "haplomat.shape[0]", "haplomat": "haplomat", "xmap": "xmap"} and set(kw) <= {"ploidy", "haplomat", "xmap", "mem"}):
            raise P.Untranslatable("%s.from_pgmat_gpmod: ohvmat = %s" % (c2, src(call)))
        for nm, want in (("xmap", "cls._calc_xmap(pgmat.ntaxa, nparent, unique_parents)"), ("haplomat", "cls._calc_haplomat(pgmat, gpmod, nhaploblk)")):
            if src(P.the_assignment(f2, nm)) != want:
                raise P.Untranslatable("%s.from_pgmat_gpmod: %s = %s (expected %s)" % (c2, nm, src(P.the_assignment(f2, nm)), want))
    f2 = P.find_function(repo, OHV, cls + "._calc_xmap")
    rets = [src(n.value) for n in ast.walk(f2) if isinstance(n, ast.Return)]
    tests = [src(n.test) for n in ast.walk(f2) if isinstance(n, ast.If)]
    if rets != ["numpy.array(list(triudix(ntaxa, nparent)))", "numpy.array(list(triuix(ntaxa, nparent)))"] or tests != ["unique_parents"]:
        raise P.Untranslatable("%s._calc_xmap: returns %s under %s" % (cls, rets, tests))

    # ------------------------------------------------------------------ output
    tail = []
    for nm, (ty, members) in lists.items():
        tail.append("Definition %s : list (%s) :=\n  [%s].\n" % (nm, ty, ";\n   ".join(members)))
    text = (P.HEADER % "harness/translate/c05_kernel.py") + \
        "From Coq Require Import String.\nFrom Coq Require Import ZArith QArith Bool List PrimFloat.\nFrom PV Require Import Lib.Common Lib.FloatK.\nImport ListNotations.\n\n" + "\n".join(defs + tail)
    path = os.path.join(gen_dir, "C05_Kernel.v")
    P.write_if_changed(path, text)
    return {"file": "Gen/C05_Kernel.v", "definitions": len(defs), "sha256": hashlib.sha256(text.encode()).hexdigest()[:16]}


def bind_opt(expr, table):
    """like kernelkit.bind, but keys need not occur (the expression decides which of the candidate sub-expressions it uses)"""
    class T(ast.NodeTransformer):
        def visit(self, node):
            if isinstance(node, ast.expr):
                txt = ast.unparse(node)
                if txt in table:
                    return ast.copy_location(ast.Name(id=table[txt], ctx=ast.Load()), node)
            return self.generic_visit(node)
    return T().visit(copy.deepcopy(expr))
