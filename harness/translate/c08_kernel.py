"""C08 kernel translator (protocol: tools/PHASE2_BRIEF.md section B; exemplar: c09_kernel.py).

Regenerates `coq/Gen/C08_Kernel.v` from the current source on every run: one Gallina `Definition` per *kernel expression*
of the seeding interface, i.e. the numeric/boolean expressions on which the bit-exact seed model and its theorems turn
(the reference-graph table Gen/C08_Entropy.v does not look at them):

  k_seed_py_arg            s                        prng.seed:  the argument handed to `py_random.seed(...)`
  k_seed_np_lo/_hi         0, 2**32-1               prng.seed:  bounds of `py_random.randint(...)` whose value seeds numpy's stream
  k_spawn_default_sbits    64                       prng.spawn: default of `sbits`
  k_spawn_one_lo/_hi       0, 2**sbits-1            prng.spawn: bounds of the draw seeding the single stream (n is None)
  k_spawn_many_lo/_hi      0, 2**sbits-1            prng.spawn: bounds of the draws seeding the n streams
  k_spawn_many_count       n                        prng.spawn: `range(n)` of the comprehension
  k_spawn_reject           n < 0                    prng.spawn: the guard that raises ValueError
  k_minimize_u_lo/_hi      0.0, 1.0                 <pymoo optimiser>.minimize: `self.rng.uniform(lo, hi)`
  k_minimize_seed          int(u * 4294967296)      <pymoo optimiser>.minimize: the `seed=` handed to pymoo (13 call sites, all
                                                    must carry the same expression; SubsetGeneticAlgorithm.py is the anchored one)

The *shape* of the statements around the expressions is checked here, fail closed (`pyexpr.Untranslatable`):
  seed():  exactly two statements after the docstring: `py_random.seed(<e>)` then `numpy.random.seed(py_random.randint(<lo>, <hi>))`
  spawn(): `if n is None: out = Generator(BitGenerator(py_random.randint(..)))  elif isinstance(n, int): if <guard>: raise ValueError..;
            out = [Generator(BitGenerator(py_random.randint(..))) for _ in range(<count>)]  else: raise TypeError`; `return out`
  minimize(): exactly one call `minimize(..., seed = int(self.rng.uniform(lo, hi) * c), ...)` per method.
`Proofs/C08_Kernel.v` links every definition to the hand model (`MT.prng_seed`, `MT.spawn_ints`, ...) by `reflexivity`
and `Props/C08.v` states range/acceptance theorems about the generated definitions.
"""
import ast, os, glob, hashlib
from translate import pyexpr as P
from translate.kernelkit import bind

PRNG = "pybrops/core/random/prng.py"
ALGO_DIR = "pybrops/opt/algo"
ANCHOR_ALGO = "SubsetGeneticAlgorithm.py"

PRELUDE = """From Coq Require Import ZArith QArith Qround Bool.
Local Open Scope Z_scope.

(* python's int(x) on a rational: truncation toward zero (fixed text of the translator, not taken from the source) *)
Definition py_int (q : Q) : Z := if Qle_bool 0 q then Qfloor q else Qceiling q.

"""


def _fold_pow(expr):
    """2**<int literal> is folded to the literal (pyexpr only expands tiny exponents); <int>**<name> becomes a call `zpow(b, e)`"""
    class T(ast.NodeTransformer):
        def visit_BinOp(self, node):
            node = self.generic_visit(node)
            if isinstance(node.op, ast.Pow) and isinstance(node.left, ast.Constant) and type(node.left.value) is int:
                if isinstance(node.right, ast.Constant) and type(node.right.value) is int and 0 <= node.right.value <= 4096:
                    return ast.copy_location(ast.Constant(value=node.left.value ** node.right.value), node)
                return ast.copy_location(ast.Call(func=ast.Name(id="zpow", ctx=ast.Load()), args=[node.left, node.right], keywords=[]), node)
            return node
    import copy
    return ast.fix_missing_locations(T().visit(copy.deepcopy(expr)))


ZCALLS = {"zpow": ("Z.pow", 2)}


def _z(expr, env):
    return P.to_coq(_fold_pow(expr), P.Ctx("Z", env, calls=ZCALLS))


def _is_call(node, name, nargs=None, nkw=0):
    return (isinstance(node, ast.Call) and ast.unparse(node.func) == name and (nargs is None or len(node.args) == nargs)
            and len(node.keywords) == nkw)


def _need(cond, msg):
    if not cond:
        raise P.Untranslatable(msg)


def _body_without_doc(fn):
    body = list(fn.body)
    if body and isinstance(body[0], ast.Expr) and isinstance(body[0].value, ast.Constant) and isinstance(body[0].value.value, str):
        body = body[1:]
    return body


def _stream_ctor_randint(node, where):
    """`Generator(BitGenerator(py_random.randint(lo, hi)))` -> (lo, hi)"""
    _need(_is_call(node, "Generator", 1), "%s: expected Generator(<one argument>), found %s" % (where, ast.unparse(node)))
    inner = node.args[0]
    _need(_is_call(inner, "BitGenerator", 1), "%s: expected BitGenerator(<one argument>), found %s" % (where, ast.unparse(inner)))
    draw = inner.args[0]
    _need(_is_call(draw, "py_random.randint", 2), "%s: the stream seed is not py_random.randint(lo, hi): %s" % (where, ast.unparse(draw)))
    return draw.args[0], draw.args[1]


def _prng_imports_ok(repo):
    """`py_random` must be the python module random, `Generator` numpy's (names the kernel relies on)"""
    tree = P.parse_file(repo, PRNG)
    ok_py = ok_gen = False
    for node in tree.body:
        if isinstance(node, ast.Import):
            for a in node.names:
                if a.name == "random" and a.asname == "py_random": ok_py = True
        if isinstance(node, ast.ImportFrom) and node.module == "numpy.random":
            for a in node.names:
                if a.name == "Generator" and a.asname in (None, "Generator"): ok_gen = True
        if isinstance(node, (ast.Assign, ast.AugAssign, ast.AnnAssign, ast.FunctionDef, ast.ClassDef)):
            tgt = []
            if isinstance(node, ast.Assign): tgt = [ast.unparse(t) for t in node.targets]
            elif isinstance(node, (ast.AugAssign, ast.AnnAssign)): tgt = [ast.unparse(node.target)]
            else: tgt = [node.name]
            _need(not ({"py_random", "Generator", "numpy"} & set(tgt)), "prng.py rebinds one of py_random/Generator/numpy at module level")
    _need(ok_py, "prng.py: `import random as py_random` not found")
    _need(ok_gen, "prng.py: `from numpy.random import Generator` not found")


def _kernel_seed(repo, defs):
    fn = P.find_function(repo, PRNG, "seed")
    _need([a.arg for a in fn.args.args] == ["s"] and not fn.args.vararg and not fn.args.kwarg and not fn.args.kwonlyargs,
          "prng.seed: signature is not seed(s)")
    body = _body_without_doc(fn)
    _need(len(body) == 2 and all(isinstance(b, ast.Expr) for b in body),
          "prng.seed: expected exactly two expression statements (py_random.seed(..); numpy.random.seed(..)), found %d statements" % len(body))
    c1, c2 = body[0].value, body[1].value
    _need(_is_call(c1, "py_random.seed", 1), "prng.seed: first statement is not py_random.seed(<one argument>): %s" % ast.unparse(c1))
    _need(_is_call(c2, "numpy.random.seed", 1), "prng.seed: second statement is not numpy.random.seed(<one argument>): %s" % ast.unparse(c2))
    draw = c2.args[0]
    _need(_is_call(draw, "py_random.randint", 2), "prng.seed: numpy's seed is not py_random.randint(lo, hi): %s" % ast.unparse(draw))
    defs.append(P.definition("k_seed_py_arg", [("s", "Z")], "Z", _z(c1.args[0], {"s": "s"}),
                             "prng.seed: py_random.seed(%s)" % ast.unparse(c1.args[0])))
    defs.append(P.definition("k_seed_np_lo", [], "Z", _z(draw.args[0], {}), "prng.seed: numpy.random.seed(%s), lower bound" % ast.unparse(draw)))
    defs.append(P.definition("k_seed_np_hi", [], "Z", _z(draw.args[1], {}), "prng.seed: numpy.random.seed(%s), upper bound" % ast.unparse(draw)))


def _kernel_spawn(repo, defs):
    fn = P.find_function(repo, PRNG, "spawn")
    names = [a.arg for a in fn.args.args]
    _need(names == ["n", "BitGenerator", "sbits"] and len(fn.args.defaults) == 3, "prng.spawn: signature is not spawn(n=.., BitGenerator=.., sbits=..)")
    d_n, d_bg, d_sb = fn.args.defaults
    _need(isinstance(d_n, ast.Constant) and d_n.value is None, "prng.spawn: default of n is not None")
    _need(ast.unparse(d_bg) == "PCG64", "prng.spawn: default BitGenerator is not PCG64")
    defs.append(P.definition("k_spawn_default_sbits", [], "Z", _z(d_sb, {}), "prng.spawn: sbits = %s" % ast.unparse(d_sb)))
    body = _body_without_doc(fn)
    _need(len(body) == 2 and isinstance(body[0], ast.If) and isinstance(body[1], ast.Return) and ast.unparse(body[1].value) == "out",
          "prng.spawn: expected `if ...: ... ; return out`")
    top = body[0]
    _need(ast.unparse(top.test) == "n is None", "prng.spawn: first test is not `n is None`: %s" % ast.unparse(top.test))
    _need(len(top.body) == 1 and isinstance(top.body[0], ast.Assign) and ast.unparse(top.body[0].targets[0]) == "out",
          "prng.spawn: the `n is None` branch is not a single assignment to out")
    lo, hi = _stream_ctor_randint(top.body[0].value, "prng.spawn (n is None)")
    env = {"sbits": "sbits"}
    defs.append(P.definition("k_spawn_one_lo", [("sbits", "Z")], "Z", _z(lo, env), "prng.spawn (n is None): randint lower bound %s" % ast.unparse(lo)))
    defs.append(P.definition("k_spawn_one_hi", [("sbits", "Z")], "Z", _z(hi, env), "prng.spawn (n is None): randint upper bound %s" % ast.unparse(hi)))
    _need(len(top.orelse) == 1 and isinstance(top.orelse[0], ast.If), "prng.spawn: expected `elif isinstance(n, int)`")
    mid = top.orelse[0]
    _need(ast.unparse(mid.test) == "isinstance(n, int)", "prng.spawn: second test is not isinstance(n, int): %s" % ast.unparse(mid.test))
    _need(len(mid.body) == 2 and isinstance(mid.body[0], ast.If) and not mid.body[0].orelse and len(mid.body[0].body) == 1
          and isinstance(mid.body[0].body[0], ast.Raise) and isinstance(mid.body[1], ast.Assign) and ast.unparse(mid.body[1].targets[0]) == "out",
          "prng.spawn: the integer branch is not `if <guard>: raise ...; out = [...]`")
    _need(ast.unparse(mid.body[0].body[0].exc).startswith("ValueError("), "prng.spawn: the guard does not raise ValueError")
    guard = mid.body[0].test
    defs.append(P.definition("k_spawn_reject", [("n", "Z")], "bool", P.to_coq(guard, P.Ctx("Z", {"n": "n"}), "bool"),
                             "prng.spawn: if %s: raise ValueError" % ast.unparse(guard)))
    comp = mid.body[1].value
    _need(isinstance(comp, ast.ListComp) and len(comp.generators) == 1 and not comp.generators[0].ifs
          and isinstance(comp.generators[0].target, ast.Name) and _is_call(comp.generators[0].iter, "range", 1),
          "prng.spawn: the streams are not built by `[... for _ in range(<count>)]`")
    loopvar = comp.generators[0].target.id
    lo, hi = _stream_ctor_randint(comp.elt, "prng.spawn (list)")
    for e in (lo, hi):
        _need(loopvar not in P.names_in(e), "prng.spawn: the bounds depend on the loop variable")
    defs.append(P.definition("k_spawn_many_lo", [("sbits", "Z")], "Z", _z(lo, env), "prng.spawn (list): randint lower bound %s" % ast.unparse(lo)))
    defs.append(P.definition("k_spawn_many_hi", [("sbits", "Z")], "Z", _z(hi, env), "prng.spawn (list): randint upper bound %s" % ast.unparse(hi)))
    cnt = comp.generators[0].iter.args[0]
    defs.append(P.definition("k_spawn_many_count", [("n", "Z")], "Z", _z(cnt, {"n": "n"}), "prng.spawn (list): for _ in range(%s)" % ast.unparse(cnt)))
    _need(len(mid.orelse) == 1 and isinstance(mid.orelse[0], ast.Raise) and ast.unparse(mid.orelse[0].exc).startswith("TypeError("),
          "prng.spawn: the final else does not raise TypeError")


def _minimize_seed_sites(repo):
    """every `minimize(..., seed=<expr>, ...)` call inside a method named minimize of pybrops/opt/algo/*.py -> [(file, class, expr)]"""
    out = []
    for path in sorted(glob.glob(os.path.join(repo, ALGO_DIR, "*.py"))):
        rel = os.path.relpath(path, repo)
        tree = P.parse_file(repo, rel)
        for cls in tree.body:
            if not isinstance(cls, ast.ClassDef): continue
            for fn in cls.body:
                if not (isinstance(fn, ast.FunctionDef) and fn.name == "minimize"): continue
                calls = [n for n in ast.walk(fn) if isinstance(n, ast.Call) and ast.unparse(n.func) in ("minimize", "pymoo.optimize.minimize")]
                for c in calls:
                    kws = [k for k in c.keywords if k.arg == "seed"]
                    _need(len(kws) == 1, "%s %s.minimize: a pymoo minimize() call without exactly one seed= keyword" % (rel, cls.name))
                    out.append((rel, cls.name, kws[0].value))
    return out


def _kernel_minimize(repo, defs):
    sites = _minimize_seed_sites(repo)
    _need(any(os.path.basename(r) == ANCHOR_ALGO for r, _, _ in sites), "no pymoo minimize(seed=...) call found in " + ANCHOR_ALGO)
    terms = {}
    for rel, cls, e in sites:
        where = "%s %s.minimize" % (rel, cls)
        _need(_is_call(e, "int", 1), "%s: seed is not int(<expr>): %s" % (where, ast.unparse(e)))
        inner = e.args[0]
        draws = [n for n in ast.walk(inner) if isinstance(n, ast.Call)]
        _need(len(draws) == 1 and _is_call(draws[0], "self.rng.uniform", 2),
              "%s: the seed expression does not contain exactly one draw self.rng.uniform(lo, hi): %s" % (where, ast.unparse(e)))
        utxt = ast.unparse(draws[0])
        Q = P.Ctx("Q", {"u": "u"})
        term = "(py_int %s)" % P.to_coq(bind(_fold_pow(inner), {utxt: "u"}), Q)
        lo = P.to_coq(draws[0].args[0], P.Ctx("Q", {})); hi = P.to_coq(draws[0].args[1], P.Ctx("Q", {}))
        terms.setdefault((term, lo, hi), []).append((where, ast.unparse(e)))
    _need(len(terms) == 1, "the pymoo optimisers derive their seeds by different expressions: %s" %
          "; ".join("%s -> %s" % (w[0][0], w[0][1]) for w in terms.values()))
    (term, lo, hi), where = next(iter(terms.items()))
    src = "%d call sites, e.g. %s: seed = %s" % (len(where), where[0][0], where[0][1])
    defs.append(P.definition("k_minimize_u_lo", [], "Q", lo, src + " (lower bound of the draw)"))
    defs.append(P.definition("k_minimize_u_hi", [], "Q", hi, src + " (upper bound of the draw)"))
    defs.append(P.definition("k_minimize_seed", [("u", "Q")], "Z", term, src))
    return len(where)


def translate(repo, gen_dir):
    defs = []
    _prng_imports_ok(repo)
    _kernel_seed(repo, defs)
    _kernel_spawn(repo, defs)
    nsites = _kernel_minimize(repo, defs)
    text = (P.HEADER % "harness/translate/c08_kernel.py") + PRELUDE + "\n".join(defs)
    P.write_if_changed(os.path.join(gen_dir, "C08_Kernel.v"), text)
    return {"file": "Gen/C08_Kernel.v", "definitions": len(defs), "minimize_seed_sites": nsites,
            "sha256": hashlib.sha256(text.encode()).hexdigest()[:16]}
