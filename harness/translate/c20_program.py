"""C20 program translator: the BODIES of RecurrentSelectionBreedingProgram.reset / advance / evolve / initialize /
is_initialized are translated statement by statement into Gallina terms over the combinators of Model/C20_Loop.v and
written to coq/Gen/C20_Program.v on every run.  Proofs/C20_Program.v proves `generated = hand model` by reflexivity and
Props/C20.v restates the trace theorem about the GENERATED programme, so the order of the operator and logbook calls, which
containers and which time index each call receives, what each result is assigned to, where t_cur is incremented and what
reset copies are re-checked against the source as it is now - independently of the generated test cases.

Fail closed: every statement of the four methods must be one of the recognised forms (anything else raises
`Untranslatable`); `print`/verbose blocks and docstrings are the only statements skipped.

Recognised statements (S = the five attribute names genome, geno, pheno, bval, gmod in this order)
  misc = {}                                               -> folded into the next operator call (must precede each one)
  [mcfg,] self.S... = self._XXXop.meth(kw...)             -> call_op TAG (o_xxx ops) pass_mcfg takes_mcfg
        kw must be exactly  [mcfg = mcfg,] S_i = self._S_i ..., t_cur = self._t_cur, t_max = self._t_max, miscout = misc
  lbook.log_xxx(kw..., **misc)                            -> call_log TAG (l_xxx ops) pass_mcfg
  self._t_cur += 1  |  self.t_cur += 1                    -> tick
  lbook.rep += 1                                          -> bump_rep
  self.reset()                                            -> reset      (body translated separately, see gen_reset_plan)
  self.advance(ngen = ngen, lbook = lbook, verbose = verbose, **kwargs)  -> gen_advance ops ngen
  for _ in range(N): body                                 -> iter (Z.to_nat N) (body)
  if loginit: body                                        -> if loginit then body else ret_ok
  if not self.is_initialized(): self.initialize()         -> the initialisation step of evolve
  if verbose: print(...)                                  -> skipped
"""
import ast, os, hashlib
from translate import pyexpr as P

REL = "pybrops/breed/arch/RecurrentSelectionBreedingProgram.py"
CLS = "RecurrentSelectionBreedingProgram"
S = ["genome", "geno", "pheno", "bval", "gmod"]
OPS = {("_pselop", "pselect"): ("T_PSEL", "o_psel"), ("_mateop", "mate"): ("T_MATE", "o_mate"),
       ("_evalop", "evaluate"): ("T_EVAL", "o_eval"), ("_sselop", "sselect"): ("T_SSEL", "o_ssel")}
LOGS = {"log_initialize": ("L_INIT", "l_init"), "log_pselect": ("L_PSEL", "l_psel"), "log_mate": ("L_MATE", "l_mate"),
        "log_evaluate": ("L_EVAL", "l_eval"), "log_sselect": ("L_SSEL", "l_ssel")}


def U(msg, node=None):
    where = "" if node is None else " (line %d: %s)" % (getattr(node, "lineno", 0), ast.unparse(node)[:90].replace("\n", " "))
    return P.Untranslatable("c20_program: " + msg + where)


def _is_docstring(st):
    return isinstance(st, ast.Expr) and isinstance(st.value, ast.Constant) and isinstance(st.value.value, str)


def _is_verbose_print(st):
    if not (isinstance(st, ast.If) and ast.unparse(st.test) == "verbose" and not st.orelse):
        return False
    return all(isinstance(b, ast.Expr) and isinstance(b.value, ast.Call) and ast.unparse(b.value.func) == "print" for b in st.body)


def _kwargs(call, with_star):
    """keyword arguments of an operator/logbook call as an ordered list (name, source text); ** argument checked"""
    if call.args:
        raise U("positional arguments in a call", call)
    named = [(k.arg, ast.unparse(k.value)) for k in call.keywords if k.arg is not None]
    star = [ast.unparse(k.value) for k in call.keywords if k.arg is None]
    if star != ([with_star] if with_star else []):
        raise U("expected %s as the only ** argument" % with_star, call)
    return named


def _check_containers(named, call, tail):
    """named must be [mcfg = mcfg,] S_i = self._S_i ..., then `tail`; returns pass_mcfg"""
    pass_mcfg = bool(named) and named[0] == ("mcfg", "mcfg")
    rest = named[1:] if pass_mcfg else named
    want = [(s, "self._" + s) for s in S] + tail
    if rest != want:
        raise U("keyword arguments are %r, expected %r" % (rest, want), call)
    return pass_mcfg


def _b(x):
    return "true" if x else "false"


def block(stmts, ctx):
    """-> Gallina term of type `step` for a statement list"""
    terms = []
    pending_misc = False
    for st in stmts:
        if _is_docstring(st) or _is_verbose_print(st):
            continue
        # misc = {}
        if isinstance(st, ast.Assign) and ast.unparse(st.targets[0]) == "misc" and ast.unparse(st.value) == "{}":
            pending_misc = True
            continue
        # operator call with tuple assignment
        if isinstance(st, ast.Assign) and isinstance(st.value, ast.Call) and isinstance(st.value.func, ast.Attribute) \
                and isinstance(st.value.func.value, ast.Attribute) and ast.unparse(st.value.func.value.value) == "self" \
                and (st.value.func.value.attr, st.value.func.attr) in OPS:
            tag, fld = OPS[(st.value.func.value.attr, st.value.func.attr)]
            if not pending_misc:
                raise U("operator call not preceded by `misc = {}` (the operator would receive a used miscout)", st)
            pending_misc = False
            if len(st.targets) != 1 or not isinstance(st.targets[0], ast.Tuple):
                raise U("operator result is not unpacked into a tuple of attributes", st)
            tg = [ast.unparse(t) for t in st.targets[0].elts]
            takes_mcfg = bool(tg) and tg[0] == "mcfg"
            if (tg[1:] if takes_mcfg else tg) != ["self." + s for s in S]:
                raise U("operator result is assigned to %r" % tg, st)
            pass_mcfg = _check_containers(_kwargs(st.value, None), st.value,
                                          [("t_cur", "self._t_cur"), ("t_max", "self._t_max"), ("miscout", "misc")])
            terms.append("(call_op %s (%s ops) %s %s)" % (tag, fld, _b(pass_mcfg), _b(takes_mcfg)))
            continue
        if pending_misc:
            raise U("`misc = {}` is not followed by an operator call", st)
        # logbook call
        if isinstance(st, ast.Expr) and isinstance(st.value, ast.Call) and isinstance(st.value.func, ast.Attribute) \
                and ast.unparse(st.value.func.value) == "lbook" and st.value.func.attr in LOGS:
            tag, fld = LOGS[st.value.func.attr]
            pass_mcfg = _check_containers(_kwargs(st.value, "misc"), st.value, [("t_cur", "self._t_cur"), ("t_max", "self._t_max")])
            terms.append("(call_log %s (%s ops) %s)" % (tag, fld, _b(pass_mcfg)))
            continue
        # counters
        if isinstance(st, ast.AugAssign) and isinstance(st.op, ast.Add) and ast.unparse(st.value) == "1":
            t = ast.unparse(st.target)
            if t in ("self._t_cur", "self.t_cur"):
                terms.append("tick"); continue
            if t == "lbook.rep":
                terms.append("bump_rep"); continue
            raise U("increment of an unknown counter", st)
        # self.reset() / self.advance(...)
        if isinstance(st, ast.Expr) and isinstance(st.value, ast.Call):
            f = ast.unparse(st.value.func)
            if f == "self.reset" and not st.value.args and not st.value.keywords:
                terms.append("reset"); continue
            if f == "self.advance":
                named = _kwargs(st.value, "kwargs")
                if named != [("ngen", "ngen"), ("lbook", "lbook"), ("verbose", "verbose")]:
                    raise U("arguments of self.advance are %r" % named, st.value)
                if "advance" not in ctx:
                    raise U("self.advance called inside advance", st)
                terms.append("(gen_advance ops ngen)"); continue
        # loops and conditionals
        if isinstance(st, ast.For) and not st.orelse and isinstance(st.iter, ast.Call) and ast.unparse(st.iter.func) == "range" \
                and len(st.iter.args) == 1 and isinstance(st.iter.args[0], ast.Name) and isinstance(st.target, ast.Name):
            n = st.iter.args[0].id
            if n not in ctx.get("counts", ()):
                raise U("loop bound %s is not a parameter of the method" % n, st)
            used = {x.id for b in st.body for x in ast.walk(b) if isinstance(x, ast.Name)} - {"print"}
            body_nonprint = [b for b in st.body if not _is_verbose_print(b)]
            if st.target.id in {x.id for b in body_nonprint for x in ast.walk(b) if isinstance(x, ast.Name)}:
                raise U("the loop variable is used by the loop body", st)
            terms.append("(iter (Z.to_nat %s) %s)" % (n, block(st.body, ctx))); continue
        if isinstance(st, ast.If) and not st.orelse and ast.unparse(st.test) == "loginit" and "loginit" in ctx.get("flags", ()):
            terms.append("(if loginit then %s else ret_ok)" % block(st.body, ctx)); continue
        if isinstance(st, ast.If) and not st.orelse and ast.unparse(st.test) == "not self.is_initialized()" \
                and len(st.body) == 1 and ast.unparse(st.body[0]) == "self.initialize()" and ctx.get("init"):
            terms.append("(fun st => if gen_is_initialized st then ret_ok st else gen_initialize strict initres st)"); continue
        raise U("statement outside the recognised fragment", st)
    if pending_misc:
        raise U("trailing `misc = {}`")
    if not terms:
        return "ret_ok"
    out = terms[-1]
    for t in reversed(terms[:-1]):
        out = "(andthen %s\n   %s)" % (t, out)
    return out


def translate(repo, gen_dir):
    fn = lambda name: P.find_function(repo, REL, CLS + "." + name)
    # ---- reset: self.S_i = copy.deepcopy(self.start_S_j) in order, then self.t_cur = <int>
    plan, tval = [], None
    for st in fn("reset").body:
        if _is_docstring(st):
            continue
        if not (isinstance(st, ast.Assign) and len(st.targets) == 1):
            raise U("reset: statement outside the recognised fragment", st)
        t = ast.unparse(st.targets[0])
        if t in ("self.t_cur", "self._t_cur"):
            if tval is not None or not (isinstance(st.value, ast.Constant) and isinstance(st.value.value, int)):
                raise U("reset: time index is not set once to an integer literal", st)
            tval = st.value.value
            continue
        if tval is not None:
            raise U("reset: a container is copied after the time index was reset (the model resets the time last)", st)
        v = st.value
        if not (t.startswith("self.") and t[5:] in S and isinstance(v, ast.Call) and ast.unparse(v.func) == "copy.deepcopy"
                and len(v.args) == 1 and not v.keywords and ast.unparse(v.args[0]).startswith("self.start_")
                and ast.unparse(v.args[0])[11:] in S):
            raise U("reset: expected self.<container> = copy.deepcopy(self.start_<container>)", st)
        plan.append((S.index(t[5:]), S.index(ast.unparse(v.args[0])[11:])))
    if tval is None:
        raise U("reset: the time index is never reset")
    # ---- is_initialized: conjunction of `self._start_S_i is not None`
    r = P.the_return(fn("is_initialized"))
    parts = r.values if isinstance(r, ast.BoolOp) and isinstance(r.op, ast.And) else [r]
    init_slots = []
    for p_ in parts:
        txt = ast.unparse(p_)
        ok = [s for s in S if txt == "self._start_%s is not None" % s]
        if not ok:
            raise U("is_initialized: conjunct outside the recognised fragment", p_)
        init_slots.append(S.index(ok[0]))
    # ---- initialize: the five start_ attributes, in order, from initop.initialize(miscout = None, **kwargs)
    body = [st for st in fn("initialize").body if not _is_docstring(st)]
    if len(body) != 1 or not isinstance(body[0], ast.Assign) or not isinstance(body[0].targets[0], ast.Tuple):
        raise U("initialize: expected one tuple assignment")
    tg = [ast.unparse(t) for t in body[0].targets[0].elts]
    if tg != ["self.start_" + s for s in S]:
        raise U("initialize: result assigned to %r" % tg, body[0])
    call = body[0].value
    if not (isinstance(call, ast.Call) and ast.unparse(call.func) == "self._initop.initialize"
            and _kwargs(call, "kwargs") == [("miscout", "None")]):
        raise U("initialize: expected self._initop.initialize(miscout = None, **kwargs)", call)
    # ---- advance / evolve
    adv = fn("advance"); evo = fn("evolve")
    adv_term = block(adv.body, {"counts": {"ngen"}})
    evo_term = block(evo.body, {"counts": {"nrep"}, "flags": {"loginit"}, "advance": True, "init": True})
    # the replicate body = body of evolve's single for loop (exposed separately because the theorems are stated per replicate)
    loops = [st for st in evo.body if isinstance(st, ast.For)]
    if len(loops) != 1:
        raise U("evolve: expected exactly one replicate loop")
    rep_term = block(loops[0].body, {"counts": set(), "flags": {"loginit"}, "advance": True})
    gen_loops = [st for st in adv.body if isinstance(st, ast.For)]
    if len(gen_loops) != 1:
        raise U("advance: expected exactly one generation loop")
    gen_term = block(gen_loops[0].body, {"counts": set()})

    text = (P.HEADER % "harness/translate/c20_program.py") + """From PV Require Import Lib.Common Model.C20_Loop.
Local Open Scope nat_scope.

(* reset(): (work slot, start slot) of every `self.X = copy.deepcopy(self.start_Y)` in source order; value assigned to t_cur last *)
Definition gen_reset_plan : list (nat * nat) := [%s].
Definition gen_reset_time : Z := (%d)%%Z.
(* is_initialized(): the start slots tested `is not None` *)
Definition gen_init_slots : list nat := [%s].
Definition gen_is_initialized (st : pstate) : bool :=
  forallb (fun i => match nth i (p_start st) None with Some _ => true | None => false end) gen_init_slots.
(* initialize(): start_genome .. start_gmod = initop.initialize(miscout = None, ** kwargs) *)
Definition gen_initialize (strict : bool) (res : list (option loc)) : step := initialize strict res.

(* body of the generation loop of advance() *)
Definition gen_generation (ops : opset) : step :=
  %s.
(* advance(ngen, lbook) *)
Definition gen_advance (ops : opset) (ngen : Z) : step :=
  %s.
(* body of the replicate loop of evolve() *)
Definition gen_replicate (ops : opset) (ngen : Z) (loginit : bool) : step :=
  %s.
(* evolve(nrep, ngen, lbook, loginit) *)
Definition gen_evolve (ops : opset) (strict : bool) (initres : list (option loc)) (nrep ngen : Z) (loginit : bool) : step :=
  %s.
""" % ("; ".join("(%d, %d)" % p_ for p_ in plan), tval, "; ".join(str(i) for i in init_slots), gen_term, adv_term, rep_term, evo_term)
    P.write_if_changed(os.path.join(gen_dir, "C20_Program.v"), text)
    return {"file": "Gen/C20_Program.v", "statements": text.count("call_op") + text.count("call_log") + text.count("tick") + text.count("bump_rep") + text.count("reset"),
            "sha256": hashlib.sha256(text.encode()).hexdigest()[:16]}
