"""C03 kernel translator (protocol: tools/PHASE2_BRIEF.md section B; exemplar: c09_kernel.py).

Regenerates `coq/Gen/C03_Kernel.v` from the current source on every run.  The two existing C03 tables (Gen/C03_Dispatch.v,
Gen/C03_MetaReset.v) describe *which method a generic call reaches* and *which metadata fields are reset*; this file adds
the numeric / boolean / index expressions the tables do not cover and on which the C03 theorems turn:

  k_axis_bad, k_axis_ix          get_axis: `(axis >= ndim) or (axis < -ndim)` (raise) and `axis %= ndim`
                                 (core/util/array.py; every axis-generic method starts with it: C03_generic_eq_specific,
                                 C03_dispatch_tables)
  k_<kind>_spix                  group_taxa / group_vrnt: stop index = `stix + len`          (C03_unique_partition,
  k_<kind>_unique_unpack         ... and which metadata field receives which result of        C03_group_partition)
                                 numpy.unique(grp, return_index=True, return_counts=True)
  k_<kind>_is_grouped            is_grouped_taxa / is_grouped_vrnt: the conjunction of four `is not None` tests
  k_<cls>_skeys                  lexsort_<kind>: the default key tuple as field indices; the LAST key is numpy.lexsort's
                                 primary key and must be the group label array for group_<kind> to produce a partition
  k_<kind>_wrap_{insert,incorp}  insert_<kind>/incorp_<kind>: `if <scalar test on obj>: obj = [obj]` before the first numpy.insert;
                                 the TEST is translated as a boolean expression over what it asks of obj (Python int, numpy
                                 integer scalar, ndarray, integer dtype, ndim): it must fire on every scalar form of an index
                                 (int, numpy integer, 0-d integer array) and on no other (Proofs/C03_Kernel.v kernel_wraps;
                                 C03_kernel_insert_scalar, C03_old_zero_dim_insert_refuted, C03_old_scalar_insert_refuted)
  k_<kind>_prec_<op>             adjoin/insert/append/incorp _<kind>: for a matrix-typed `values`, label argument X is
                                 `X if given else values.<attribute>`: the table (field -> attribute read) in field order
                                 (model: eff_lab; the seeded change `append-taxa-grp-precedence` is of this kind)
  k_mp_* / k_mu_*                DenseMasked{Phased,Unphased}Genotyping.genotype: mask inversion, the array axis the mask
                                 slices, which label arrays are sliced by it, the kept-position list `masknz` (built from
                                 the LOCAL, possibly inverted mask), the per-group membership test
                                 `(masknz >= stix) & (masknz < spix)`, `keep = len > 0`, `stix = spix - len`
                                 (C03_mask_meta_partition, C03_genotype_meta_inv)
  k_sq_*                         DenseSquareTaxaMatrix.adjoin_taxa / append_taxa: new extent `m + v` of a square axis and
                                 the two block slices [0, m) and [m, m + v)                    (C03_adjoin_square_refines)

`Proofs/C03_Kernel.v` proves `generated = hand model` (by `reflexivity` wherever the terms coincide) and restates the
partition / dispatch theorems about the generated definitions; `Props/C03.v` imports it, so a changed expression makes
`Props/C03.vo` fail to build whatever the random cases exercise.  Fail closed: every selector demands exactly one match,
every name must be bound by the environment given here, every statement pattern is checked literally; anything else
raises `pyexpr.Untranslatable`.
"""
import ast, os, hashlib
from translate import pyexpr as P
from translate.kernelkit import elementwise_bool

ARR = "pybrops/core/util/array.py"
TAXA = "pybrops/core/mat/DenseTaxaMatrix.py"
VRNT = "pybrops/core/mat/DenseVariantMatrix.py"
TRAIT = "pybrops/core/mat/DenseTraitMatrix.py"
SQTAXA = "pybrops/core/mat/DenseSquareTaxaMatrix.py"
MPH = "pybrops/breed/prot/gt/DenseMaskedPhasedGenotyping.py"
MUN = "pybrops/breed/prot/gt/DenseMaskedUnphasedGenotyping.py"

TFIELDS = ["taxa", "taxa_grp"]
VFIELDS = ["vrnt_chrgrp", "vrnt_phypos", "vrnt_name", "vrnt_genpos", "vrnt_xoprob", "vrnt_hapgrp", "vrnt_hapalt",
           "vrnt_hapref", "vrnt_mask"]
FIELDS = {"taxa": TFIELDS, "vrnt": VFIELDS, "trait": ["trait"]}
META = {"taxa": "taxa_grp", "vrnt": "vrnt_chrgrp"}
MSUF = ["name", "stix", "spix", "len"]


def U(msg):
    return P.Untranslatable(msg)


def src(e):
    return ast.unparse(e)


def natlist(l):
    return "[" + "; ".join("%d" % x for x in l) + "]%nat"


def stmts(fn):
    """all statements of fn in source order (nested included)"""
    out = [n for n in ast.walk(fn) if isinstance(n, ast.stmt) and n is not fn]
    out.sort(key=lambda n: (n.lineno, n.col_offset))
    return out


def the_one(items, what):
    items = list(items)
    if len(items) != 1:
        raise U("expected exactly one %s, found %d" % (what, len(items)))
    return items[0]


# ------------------------------------------------------------------------------------------------ get_axis
def k_get_axis(repo, defs):
    fn = P.find_function(repo, ARR, "get_axis")
    Z = P.Ctx("Z", {"axis": "axis", "ndim": "ndim"})
    body = [s for s in fn.body if not (isinstance(s, ast.Expr) and isinstance(s.value, ast.Constant))]
    # exactly: if <test>: raise ... ; axis %= ndim ; return axis
    if len(body) != 3 or not isinstance(body[0], ast.If) or body[0].orelse or len(body[0].body) != 1 \
            or not isinstance(body[0].body[0], ast.Raise):
        raise U("get_axis: expected `if <out of range>: raise ...` as the first statement")
    if not (isinstance(body[1], ast.AugAssign) and src(body[1].target) == "axis"):
        raise U("get_axis: expected an augmented assignment to `axis` as the second statement")
    if not (isinstance(body[2], ast.Return) and body[2].value is not None and src(body[2].value) == "axis"):
        raise U("get_axis: expected `return axis`")
    defs.append(P.definition("k_axis_bad", [("axis", "Z"), ("ndim", "Z")], "bool", P.to_coq(body[0].test, Z, "bool"),
                             "get_axis: if %s: raise IndexError" % src(body[0].test)))
    e = ast.BinOp(left=body[1].target, op=body[1].op, right=body[1].value)
    defs.append(P.definition("k_axis_ix", [("axis", "Z"), ("ndim", "Z")], "Z", P.to_coq(e, Z),
                             "get_axis: %s" % src(body[1])))


# ------------------------------------------------------------------------------------------------ group_<kind>
def k_group(repo, defs):
    for kind, rel, cls in (("taxa", TAXA, "DenseTaxaMatrix"), ("vrnt", VRNT, "DenseVariantMatrix")):
        m = META[kind]
        fn = P.find_function(repo, rel, "%s.group_%s" % (cls, kind))
        pre = "self._%s_" % m
        e = P.the_assignment(fn, pre + "spix")
        Z = P.Ctx("Z", {pre + "stix": "stix", pre + "len": "len"})
        defs.append(P.definition("k_%s_spix" % kind, [("stix", "Z"), ("len", "Z")], "Z", P.to_coq(e, Z),
                                 "%s.group_%s: %sspix = %s" % (cls, kind, pre, src(e))))
        # uniq = numpy.unique(self._<grp>, return_index = True, return_counts = True) ; <name>, <stix>, <len> = uniq
        u = P.the_assignment(fn, "uniq")
        want = "numpy.unique(self._%s, return_index=True, return_counts=True)" % m
        if src(u) != want:
            raise U("%s.group_%s: uniq = %s (expected %s)" % (cls, kind, src(u), want))
        tup = the_one([n for n in ast.walk(fn) if isinstance(n, ast.Assign) and isinstance(n.targets[0], ast.Tuple)
                       and src(n.value) == "uniq"], "tuple assignment from uniq in group_%s" % kind)
        idx = []
        for t in tup.targets[0].elts:
            name = src(t)
            if not name.startswith(pre) or name[len(pre):] not in MSUF:
                raise U("%s.group_%s: unexpected unpacking target %s" % (cls, kind, name))
            idx.append(MSUF.index(name[len(pre):]))
        if len(idx) != 3:
            raise U("%s.group_%s: numpy.unique(..., return_index, return_counts) returns three arrays" % (cls, kind))
        defs.append(P.definition("k_%s_unique_unpack" % kind, [], "list nat", natlist(idx),
                                 "%s.group_%s: %s  (0 name, 1 stix, 2 spix, 3 len receive values / first index / counts)" % (cls, kind, src(tup))))
        # the statement order: sort first, then the metadata; the metadata only when the group array exists
        calls = [s for s in fn.body if isinstance(s, ast.Expr) and isinstance(s.value, ast.Call)]
        if not calls or src(calls[0].value) != "self.sort_%s()" % kind:
            raise U("%s.group_%s: expected `self.sort_%s()` (default keys) before the metadata are computed" % (cls, kind, kind))
        guard = the_one([n for n in fn.body if isinstance(n, ast.If)], "if statement in group_%s" % kind)
        if src(guard.test) != "self._%s is not None" % m or guard.orelse or guard.lineno < calls[0].lineno:
            raise U("%s.group_%s: metadata must be computed under `if self._%s is not None` after the sort" % (cls, kind, m))

        # ---- is_grouped_<kind>: conjunction of four `is not None`
        fn = P.find_function(repo, rel, "%s.is_grouped_%s" % (cls, kind))
        e = P.the_return(fn)
        benv = {}

        class T(ast.NodeTransformer):
            def visit_Compare(self, node):
                if len(node.ops) == 1 and isinstance(node.ops[0], ast.IsNot) and isinstance(node.comparators[0], ast.Constant) \
                        and node.comparators[0].value is None:
                    name = src(node.left)
                    if name.startswith(pre) and name[len(pre):] in MSUF:
                        v = "has_" + name[len(pre):]
                        benv[v] = v
                        return ast.copy_location(ast.Name(id=v, ctx=ast.Load()), node)
                raise U("%s.is_grouped_%s: unexpected test %s" % (cls, kind, src(node)))
        import copy
        e2 = T().visit(copy.deepcopy(e))
        defs.append(P.definition("k_%s_is_grouped" % kind, [("has_" + s, "bool") for s in MSUF], "bool",
                                 P.to_coq(e2, P.Ctx("Z", {}, bool_env=benv), "bool"),
                                 "%s.is_grouped_%s: return %s" % (cls, kind, src(e))))


# ------------------------------------------------------------------------------------------------ lexsort default keys
def k_skeys(repo, defs):
    for tag, kind, rel, cls in (("taxa", "taxa", TAXA, "DenseTaxaMatrix"), ("vrnt", "vrnt", VRNT, "DenseVariantMatrix"),
                                ("trait", "trait", TRAIT, "DenseTraitMatrix"), ("sqtaxa", "taxa", SQTAXA, "DenseSquareTaxaMatrix")):
        fn = P.find_function(repo, rel, "%s.lexsort_%s" % (cls, kind))
        # keys = (<default keys>) under `if keys is None:`; then the None keys are dropped; then numpy.lexsort(keys)
        a = P.assignments_to(fn, "keys")
        if len(a) != 2:
            raise U("%s.lexsort_%s: expected two assignments to keys (default, None-filter), found %d" % (cls, kind, len(a)))
        dflt, filt = a[0].value, a[1].value
        if not isinstance(dflt, ast.Tuple):
            raise U("%s.lexsort_%s: default keys are not a tuple: %s" % (cls, kind, src(dflt)))
        if src(filt) != "tuple((k for k in keys if k is not None))":
            raise U("%s.lexsort_%s: keys filter is %s" % (cls, kind, src(filt)))
        guard = [n for n in ast.walk(fn) if isinstance(n, ast.If) and a[0] in n.body]
        if len(guard) != 1 or src(guard[0].test) != "keys is None":
            raise U("%s.lexsort_%s: the default keys must be assigned under `if keys is None`" % (cls, kind))
        idx = []
        for el in dflt.elts:
            name = src(el)
            if not name.startswith("self._") or name[6:] not in FIELDS[kind]:
                raise U("%s.lexsort_%s: default key %s is not a label array of the axis" % (cls, kind, name))
            idx.append(FIELDS[kind].index(name[6:]))
        ix = P.the_assignment(fn, "indices")
        if src(ix) != "numpy.lexsort(keys)":
            raise U("%s.lexsort_%s: indices = %s" % (cls, kind, src(ix)))
        if src(P.the_return(fn)) != "indices":
            raise U("%s.lexsort_%s: does not return indices" % (cls, kind))
        defs.append(P.definition("k_%s_skeys" % tag, [], "list nat", natlist(idx),
                                 "%s.lexsort_%s: keys = %s  (field indices; the last one is the primary key of numpy.lexsort)" % (cls, kind, src(dflt))))


# ------------------------------------------------------------------------------------------------ scalar index wrap + label precedence
# the tests the scalar-index guard of insert_<kind> / incorp_<kind> may make on `obj` (Model/C03_IndexForm.v: f_is_int ...)
GUARD_TYPES = {"int": "is_int", "numpy.integer": "is_npint", "numpy.ndarray": "is_ndarray"}
GUARD_TESTS = ["is_int", "is_npint", "is_ndarray", "is_intdtype"]


def scalar_guard(test, where):
    """the test of `if <test>: obj = [obj]` as a boolean expression over the tests of GUARD_TESTS and `obj.ndim`:
    isinstance(obj, T) / isinstance(obj, (T1, T2, ...)) with T in GUARD_TYPES, numpy.issubdtype(obj.dtype, numpy.integer),
    comparisons of obj.ndim with literals, and / or / not.  An attribute of obj may only be read to the right of
    `isinstance(obj, numpy.ndarray) and` (Python evaluates left to right and would raise on a list); anything else fails closed."""
    import copy

    def protected(node, prot):
        if isinstance(node, ast.BoolOp) and isinstance(node.op, ast.And):
            for v in node.values:
                protected(v, prot)
                if src(v) == "isinstance(obj, numpy.ndarray)":
                    prot = True
        elif isinstance(node, ast.Attribute) and src(node.value) == "obj":
            if not prot:
                raise U("%s: the scalar test reads %s of an index that need not be an ndarray" % (where, src(node)))
        else:
            for ch in ast.iter_child_nodes(node):
                protected(ch, prot)
    protected(test, False)

    class T(ast.NodeTransformer):
        def visit_Call(self, node):
            f = src(node.func)
            if f == "isinstance" and len(node.args) == 2 and not node.keywords and src(node.args[0]) == "obj":
                ts = node.args[1].elts if isinstance(node.args[1], ast.Tuple) else [node.args[1]]
                bad = [src(t) for t in ts if src(t) not in GUARD_TYPES]
                if bad or not ts:
                    raise U("%s: the scalar test on obj asks for the types %s (known: %s)" % (where, bad, sorted(GUARD_TYPES)))
                names = [ast.Name(id=GUARD_TYPES[src(t)], ctx=ast.Load()) for t in ts]
                return names[0] if len(names) == 1 else ast.BoolOp(op=ast.Or(), values=names)
            if f == "numpy.issubdtype" and len(node.args) == 2 and not node.keywords and src(node.args[0]) == "obj.dtype" \
                    and src(node.args[1]) == "numpy.integer":
                return ast.Name(id="is_intdtype", ctx=ast.Load())
            raise U("%s: unexpected call %s in the scalar test on obj" % (where, src(node)))
    e = ast.fix_missing_locations(T().visit(copy.deepcopy(test)))
    return P.to_coq(e, P.Ctx("Z", {"obj.ndim": "ndim"}, bool_env={n: n for n in GUARD_TESTS}), "bool")


def k_binary(repo, defs):
    for kind, rel, cls in (("taxa", TAXA, "DenseTaxaMatrix"), ("vrnt", VRNT, "DenseVariantMatrix"), ("trait", TRAIT, "DenseTraitMatrix")):
        fields = FIELDS[kind]
        for op in ("adjoin", "insert", "append", "incorp"):
            fn = P.find_function(repo, rel, "%s.%s_%s" % (cls, op, kind))
            where = "%s.%s_%s" % (cls, op, kind)
            # ---- precedence: if isinstance(values, self.__class__): { if X is None: X = values.A }* ; values = values.mat
            top = [s for s in fn.body if isinstance(s, ast.If) and src(s.test) == "isinstance(values, self.__class__)"]
            blk = the_one(top, "`if isinstance(values, self.__class__)` in %s" % where)
            table = {}
            last = blk.body[-1]
            if not (isinstance(last, ast.Assign) and src(last) == "values = values.mat"):
                raise U("%s: the matrix branch must end with `values = values.mat`" % where)
            for s in blk.body[:-1]:
                ok = (isinstance(s, ast.If) and not s.orelse and len(s.body) == 1 and isinstance(s.body[0], ast.Assign)
                      and isinstance(s.test, ast.Compare) and len(s.test.ops) == 1 and isinstance(s.test.ops[0], ast.Is)
                      and isinstance(s.test.comparators[0], ast.Constant) and s.test.comparators[0].value is None)
                if not ok:
                    raise U("%s: unrecognised statement in the matrix branch: %s" % (where, src(s).splitlines()[0]))
                x = src(s.test.left); tgt = src(s.body[0].targets[0]); val = src(s.body[0].value)
                if x != tgt or x not in fields:
                    raise U("%s: `if %s is None: %s = ...` does not default a label argument of the axis" % (where, x, tgt))
                if not val.startswith("values.") or val[7:] not in fields:
                    raise U("%s: %s defaults to %s, not to a label array of values" % (where, x, val))
                if x in table:
                    raise U("%s: %s defaulted twice" % (where, x))
                table[x] = fields.index(val[7:])
            missing = [f for f in fields if f not in table]
            if missing:
                raise U("%s: label arguments %s are not defaulted from a matrix-typed values" % (where, missing))
            # no other assignment to a label argument between the matrix branch and the first numpy call may undo the precedence
            defs.append(P.definition("k_%s_prec_%s" % (kind, op), [], "list nat", natlist([table[f] for f in fields]),
                                     "%s: for j-th label argument X: `if X is None: X = values.<field k_j>` (keyword first, else the matrix' own array)" % where))
            # ---- scalar wrap (insert / incorp only)
            if op in ("insert", "incorp"):
                first_np = min([n.lineno for n in ast.walk(fn) if isinstance(n, ast.Call) and src(n.func) == "numpy.insert"] or [0])
                if not first_np:
                    raise U("%s: no numpy.insert call" % where)
                assigns_obj = lambda n: isinstance(n, (ast.Assign, ast.AugAssign)) and \
                    any(src(t) == "obj" for t in (n.targets if isinstance(n, ast.Assign) else [n.target]))
                wraps = [s for s in fn.body if isinstance(s, ast.If) and any(assigns_obj(n) for n in ast.walk(s))]
                if len(wraps) > 1:
                    raise U("%s: more than one conditional assignment to obj" % where)
                if wraps and (wraps[0].orelse or len(wraps[0].body) != 1 or src(wraps[0].body[0]) != "obj = [obj]" or wraps[0].lineno > first_np):
                    raise U("%s: the scalar test on obj does not have the form `if <test>: obj = [obj]` before numpy.insert" % where)
                others = [s for s in stmts(fn) if assigns_obj(s) and not (wraps and s is wraps[0].body[0])]
                if others:
                    raise U("%s: obj is reassigned elsewhere: %s" % (where, src(others[0])))
                body = "guarded_wrap %s o" % scalar_guard(wraps[0].test, where) if wraps else "Some o"
                defs.append(P.definition("k_%s_wrap_%s" % (kind, op), [(n, "bool") for n in GUARD_TESTS] + [("ndim", "Z"), ("o", "objarg")],
                                         "option objarg", body,
                                         "%s: %s" % (where, "if %s: obj = [obj]   (before numpy.insert)" % src(wraps[0].test) if wraps
                                                     else "NO scalar-index wrap before numpy.insert")))


# ------------------------------------------------------------------------------------------------ masked genotyping
def k_masked(repo, defs):
    for tag, rel, cls in (("mp", MPH, "DenseMaskedPhasedGenotyping"), ("mu", MUN, "DenseMaskedUnphasedGenotyping")):
        fn = P.find_function(repo, rel, cls + ".genotype")
        where = cls + ".genotype"
        # ---- mask = pgmat.vrnt_mask ; if mask is not None: { if self.invert: mask = ~mask ; <slicing> }
        m0 = P.the_assignment(fn, "mask", index=0, count=2)
        if src(m0) != "pgmat.vrnt_mask":
            raise U("%s: mask = %s (expected pgmat.vrnt_mask)" % (where, src(m0)))
        outer = the_one([s for s in fn.body if isinstance(s, ast.If) and src(s.test) == "mask is not None"], "`if mask is not None` in " + where)
        if outer.orelse:
            raise U("%s: `if mask is not None` has an else branch" % where)
        inv = outer.body[0]
        if not (isinstance(inv, ast.If) and not inv.orelse and len(inv.body) == 1 and isinstance(inv.body[0], ast.Assign)
                and src(inv.body[0].targets[0]) == "mask"):
            raise U("%s: the first statement under `if mask is not None` must be the inversion of mask" % where)
        e = ast.IfExp(test=inv.test, body=elementwise_bool(inv.body[0].value), orelse=ast.Name(id="mask", ctx=ast.Load()))
        defs.append(P.definition("k_%s_mask" % tag, [("invert", "bool"), ("b", "bool")], "bool",
                                 P.to_coq(e, P.Ctx("Z", {}, bool_env={"self.invert": "invert", "mask": "b"}), "bool"),
                                 "%s: if %s: mask = %s" % (where, src(inv.test), src(inv.body[0].value))))
        # ---- slicing: each remaining statement is `if X is not None: X = X[<subscript with mask>]`
        sliced, mat_axis = [], None
        for s in outer.body[1:]:
            ok = (isinstance(s, ast.If) and not s.orelse and len(s.body) == 1 and isinstance(s.body[0], ast.Assign)
                  and isinstance(s.body[0].value, ast.Subscript) and src(s.test).endswith(" is not None"))
            if not ok:
                raise U("%s: unrecognised statement under `if mask is not None`: %s" % (where, src(s).splitlines()[0]))
            x = src(s.test)[:-len(" is not None")]
            a = s.body[0]
            if src(a.targets[0]) != x or src(a.value.value) != x:
                raise U("%s: `%s` does not slice %s itself" % (where, src(a), x))
            sl = a.value.slice
            if x == "mat":
                if not isinstance(sl, ast.Tuple):
                    raise U("%s: mat subscript %s" % (where, src(sl)))
                pos = [i for i, el in enumerate(sl.elts) if src(el) == "mask"]
                rest = [el for el in sl.elts if src(el) != "mask"]
                if len(pos) != 1 or any(src(el) != ":" for el in rest):
                    raise U("%s: mat[%s]: expected full slices and exactly one `mask`" % (where, src(sl)))
                mat_axis = pos[0]
            else:
                if src(sl) != "mask" or x not in VFIELDS:
                    raise U("%s: %s = %s" % (where, x, src(a.value)))
                sliced.append(VFIELDS.index(x))
        if mat_axis is None:
            raise U("%s: mat is not sliced by the mask" % where)
        defs.append(P.definition("k_%s_mask_axis" % tag, [], "nat", "%d%%nat" % mat_axis, "%s: mat = mat[...] with the mask on array axis %d" % (where, mat_axis)))
        defs.append(P.definition("k_%s_sliced" % tag, [], "list nat", natlist(sliced),
                                 "%s: the variant label arrays sliced by `[mask]`, as field indices, in source order" % where))
        # ---- group metadata
        g = the_one([s for s in fn.body if isinstance(s, ast.If) and src(s.test) == "pgmat.is_grouped_vrnt()"], "`if pgmat.is_grouped_vrnt()` in " + where)
        for suf in MSUF:
            c = P.the_assignment(fn, "vrnt_chrgrp_" + suf, index=1)
            if src(c) != "numpy.copy(pgmat.vrnt_chrgrp_%s)" % suf:
                raise U("%s: vrnt_chrgrp_%s starts from %s" % (where, suf, src(c)))
        nz = P.the_assignment(fn, "masknz")
        if not (isinstance(nz, ast.IfExp) and src(nz.test) == "mask is not None" and isinstance(nz.body, ast.Call) and isinstance(nz.orelse, ast.Call)
                and src(nz.body.func) == "numpy.flatnonzero" and len(nz.body.args) == 1 and not nz.body.keywords
                and src(nz.orelse.func) == "numpy.arange" and len(nz.orelse.args) == 1 and not nz.orelse.keywords):
            raise U("%s: masknz = %s" % (where, src(nz)))
        if src(nz.body.args[0]) != "mask":
            raise U("%s: masknz is built from %s, not from the local (possibly inverted) mask that slices the data" % (where, src(nz.body.args[0])))
        if src(nz.orelse.args[0]) != "pgmat.nvrnt":
            raise U("%s: without a mask masknz = numpy.arange(%s)" % (where, src(nz.orelse.args[0])))
        defs.append(P.definition("k_%s_masknz" % tag, [("mask", "option (list bool)"), ("nvrnt", "nat")], "list nat",
                                 "match mask with Some m => mask_positions m | None => seq 0 nvrnt end", "%s: masknz = %s" % (where, src(nz))))
        loop = the_one([n for n in ast.walk(g) if isinstance(n, ast.For)], "for loop in the metadata part of " + where)
        if src(loop.target) != "(i, (stix, spix))" or src(loop.iter) != "enumerate(zip(vrnt_chrgrp_stix, vrnt_chrgrp_spix))":
            raise U("%s: loop header `for %s in %s`" % (where, src(loop.target), src(loop.iter)))
        st = the_one(loop.body, "statement in the loop of " + where)
        if not (isinstance(st, ast.Assign) and src(st.targets[0]) == "vrnt_chrgrp_len[i]" and isinstance(st.value, ast.Call)
                and src(st.value.func) == "numpy.sum" and len(st.value.args) == 1 and not st.value.keywords):
            raise U("%s: loop body %s" % (where, src(st)))
        Z = P.Ctx("Z", {"masknz": "p", "stix": "stix", "spix": "spix"})
        defs.append(P.definition("k_%s_inrange" % tag, [("p", "Z"), ("stix", "Z"), ("spix", "Z")], "bool",
                                 P.to_coq(elementwise_bool(st.value.args[0]), Z, "bool"), "%s: vrnt_chrgrp_len[i] = %s" % (where, src(st.value))))
        e = P.the_assignment(fn, "keep")
        defs.append(P.definition("k_%s_keep" % tag, [("len", "Z")], "bool", P.to_coq(e, P.Ctx("Z", {"vrnt_chrgrp_len": "len"}), "bool"),
                                 "%s: keep = %s" % (where, src(e))))
        for suf in ("name", "len"):
            c = P.the_assignment(fn, "vrnt_chrgrp_" + suf, index=2, count=3)
            if src(c) != "vrnt_chrgrp_%s[keep]" % suf:
                raise U("%s: vrnt_chrgrp_%s = %s (expected [keep])" % (where, suf, src(c)))
        c = P.the_assignment(fn, "vrnt_chrgrp_spix", index=2, count=3)
        if src(c) != "numpy.cumsum(vrnt_chrgrp_len)":
            raise U("%s: vrnt_chrgrp_spix = %s" % (where, src(c)))
        e = P.the_assignment(fn, "vrnt_chrgrp_stix", index=2, count=3)
        defs.append(P.definition("k_%s_stix" % tag, [("spix", "Z"), ("len", "Z")], "Z",
                                 P.to_coq(e, P.Ctx("Z", {"vrnt_chrgrp_spix": "spix", "vrnt_chrgrp_len": "len"})),
                                 "%s: vrnt_chrgrp_stix = %s" % (where, src(e))))
        # statement order inside the metadata part: loop < keep < name/len[keep] < cumsum < stix
        order = [loop.lineno, P.assignments_to(fn, "keep")[0].lineno, P.assignments_to(fn, "vrnt_chrgrp_len")[2].lineno,
                 P.assignments_to(fn, "vrnt_chrgrp_spix")[2].lineno, P.assignments_to(fn, "vrnt_chrgrp_stix")[2].lineno]
        if order != sorted(order) or len(set(order)) != len(order):
            raise U("%s: the metadata statements are not in the order loop, keep, [keep], cumsum, stix" % where)
        # the result object receives the recomputed arrays under their own names
        for pre in ("taxa_grp", "vrnt_chrgrp"):
            for suf in MSUF:
                c = P.the_assignment(fn, "out.%s_%s" % (pre, suf))
                if src(c) != "%s_%s" % (pre, suf):
                    raise U("%s: out.%s_%s = %s" % (where, pre, suf, src(c)))
            if pre == "taxa_grp":
                for suf in MSUF:
                    c = P.the_assignment(fn, "taxa_grp_" + suf)
                    if src(c) != "pgmat.taxa_grp_" + suf:
                        raise U("%s: taxa_grp_%s = %s" % (where, suf, src(c)))


# ------------------------------------------------------------------------------------------------ square adjoin / append
def k_square(repo, defs):
    for op in ("adjoin", "append"):
        fn = P.find_function(repo, SQTAXA, "DenseSquareTaxaMatrix.%s_taxa" % op)
        where = "DenseSquareTaxaMatrix.%s_taxa" % op
        aug = [n for n in ast.walk(fn) if isinstance(n, ast.AugAssign) and src(n.target) == "mshape[ix]"]
        a = the_one(aug, "augmented assignment to mshape[ix] in " + where)
        loop = the_one([n for n in ast.walk(fn) if isinstance(n, ast.For) and a in n.body], "loop around mshape[ix] in " + where)
        if src(loop.target) != "ix" or src(loop.iter) != "self.square_taxa_axes":
            raise U("%s: `for %s in %s`" % (where, src(loop.target), src(loop.iter)))
        if src(P.the_assignment(fn, "mshape", index=0, count=2)) != "list(self.mat_shape)" or src(P.the_assignment(fn, "vshape")) != "values.shape":
            raise U("%s: mshape / vshape are not the shapes of self / values" % where)
        for nm, want in (("sms", "self.mat_shape"), ("ssa", "self.square_taxa_axes"), ("ms", "mat.shape"), ("nd", "mat.ndim")):
            if src(P.the_assignment(fn, nm)) != want:
                raise U("%s: %s = %s (expected %s)" % (where, nm, src(P.the_assignment(fn, nm)), want))
        Z = P.Ctx("Z", {"mshape[ix]": "m", "vshape[ix]": "v"})
        e = ast.BinOp(left=a.target, op=a.op, right=a.value)
        defs.append(P.definition("k_sq_%s_extent" % op, [("m", "Z"), ("v", "Z")], "Z", P.to_coq(e, Z), "%s: %s" % (where, src(a))))
        for nm, tag in (("six", "self"), ("vix", "vals")):
            g = P.the_assignment(fn, nm)
            ok = (isinstance(g, ast.Call) and src(g.func) == "tuple" and len(g.args) == 1 and isinstance(g.args[0], ast.GeneratorExp))
            if ok:
                ge = g.args[0]
                ok = (isinstance(ge.elt, ast.IfExp) and src(ge.elt.test) == "i in ssa" and src(ge.elt.orelse) == "slice(None)"
                      and isinstance(ge.elt.body, ast.Call) and src(ge.elt.body.func) == "slice" and len(ge.elt.body.args) == 2
                      and len(ge.generators) == 1 and src(ge.generators[0].target) == "i" and src(ge.generators[0].iter) == "range(nd)"
                      and not ge.generators[0].ifs)
            if not ok:
                raise U("%s: %s = %s" % (where, nm, src(g)))
            Z2 = P.Ctx("Z", {"sms[i]": "m", "ms[i]": "tot"})
            lo, hi = ge.elt.body.args
            defs.append(P.definition("k_sq_%s_%s_lo" % (op, tag), [("m", "Z"), ("tot", "Z")], "Z", P.to_coq(lo, Z2), "%s: %s = %s" % (where, nm, src(g))))
            defs.append(P.definition("k_sq_%s_%s_hi" % (op, tag), [("m", "Z"), ("tot", "Z")], "Z", P.to_coq(hi, Z2), "%s: %s = %s" % (where, nm, src(g))))
        cp = [src(s) for s in fn.body if isinstance(s, ast.Assign) and src(s.targets[0]).startswith("mat[")]
        want = ["mat[six] = self._mat", "mat[vix] = values"]
        if cp != want:
            raise U("%s: block copies are %s (expected %s)" % (where, cp, want))
        fill = [src(s) for s in fn.body if isinstance(s, ast.Expr) and src(s).startswith("mat.fill(")]
        if fill != ["mat.fill(self._fill_value[mat.dtype])"]:
            raise U("%s: fill statement %s" % (where, fill))


def translate(repo, gen_dir):
    defs = []
    k_get_axis(repo, defs)
    k_group(repo, defs)
    k_skeys(repo, defs)
    k_binary(repo, defs)
    k_masked(repo, defs)
    k_square(repo, defs)
    text = (P.HEADER % "harness/translate/c03_kernel.py") + \
        "From Coq Require Import ZArith Bool List.\nFrom PV Require Import Lib.Common Model.C03_LMat Model.C03_IndexForm.\nImport ListNotations.\nLocal Open Scope Z_scope.\n\n" + "\n".join(defs)
    P.write_if_changed(os.path.join(gen_dir, "C03_Kernel.v"), text)
    return {"file": "Gen/C03_Kernel.v", "definitions": len(defs), "sha256": hashlib.sha256(text.encode()).hexdigest()[:16]}
